(** Lemmas for C01: the formatted text of a well-formed tree is a layout of its
    token stream (hence lexes to it under every option setting), the parser run
    on that token stream returns the tree (node and metadata), every tree the
    parser returns for a string is well formed, hence round trip and fixed
    point.  Built on Proofs/LexBoundary_lemmas.v. *)
From PM Require Export Proofs.LexBoundary_lemmas Impl.Format Impl.Parse.
From Coq Require Import Lia.


Definition fmt_edge (rec : Z -> node -> str) (indent : option Z) (column' : Z) (e : branch) : str :=
  let role := role_text (fst e) in
  let col_e := if is_adaptive indent then (column' + zlen role + 1)%Z else column' in
  match snd e with
  | TAtom a =>
      match a with
      | ANone => role
      | AStr [] => role
      | _ => role ++ SPACE ++ atom_str a
      end
  | TNode n' => role ++ SPACE ++ rec col_e n'
  end.

Fixpoint go_parts (fe : branch -> str) (vars : list atom) (es : list branch) (compact : bool)
  (parts : list str) : bool * list str :=
  match es with
  | [] => (compact, parts)
  | e :: es' =>
      let breaks := compact &&
        match snd e with
        | TNode _ => true
        | TAtom a => mem atom_eqb a vars
        end in
      let compact' := if breaks then false else compact in
      let parts' := if breaks then match parts with [] => [] | _ => [join SPACE parts] end else parts in
      go_parts fe vars es' compact' (parts' ++ [fe e])
  end.

Definition node_column (indent : option Z) (column : Z) (var : atom) : Z :=
  match indent with
  | None => column
  | Some z => if Z.eqb z (-1) then (column + zlen (atom_str var) + 2)%Z else (column + z)%Z
  end.
Definition node_joiner (indent : option Z) (column' : Z) : str :=
  match indent with None => SPACE | Some _ => 10%N :: zspaces column' end.

Lemma format_node_eq : forall indent column vars var edges,
  format_node indent column vars (Node var edges) =
  if falsy var then [40;41]%N
  else match edges with
       | [] => [40%N] ++ atom_str var ++ [41%N]
       | _ =>
         let column' := node_column indent column var in
         let '(compact, parts) :=
           go_parts (fmt_edge (fun col n => format_node indent col vars n) indent column') vars edges
                    (match vars with [] => false | _ => true end) [] in
         let parts := if compact then [join SPACE parts] else parts in
         [40%N] ++ atom_str var ++ SPACE ++ join (node_joiner indent column') parts ++ [41%N]
       end.
Proof.
  intros indent column vars var edges. simpl.
  destruct (falsy var); [reflexivity|].
  destruct edges as [|e es]; [reflexivity|].
  unfold node_column, node_joiner.
  match goal with
  | |- (let '(_, _) := ?G _ _ _ in _) = _ =>
      assert (GE : forall l c p, G l c p =
        go_parts (fmt_edge (fun col n => format_node indent col vars n) indent
                   (match indent with
                    | None => column
                    | Some z => if Z.eqb z (-1) then (column + zlen (atom_str var) + 2)%Z else (column + z)%Z
                    end)) vars l c p)
  end.
  { induction l as [|x l IH]; intros c p; [reflexivity|].
    simpl. rewrite IH. reflexivity. }
  rewrite GE. reflexivity.
Qed.

(* ------------------------------------------------------------------ *)
(** * Induction on nested nodes *)

Definition branch_ok (P : node -> Prop) (b : branch) : Prop :=
  match snd b with TNode n => P n | TAtom _ => True end.

Section NodeInd2.
  Variable P : node -> Prop.
  Hypothesis HN : forall v bs, Forall (branch_ok P) bs -> P (Node v bs).
  Fixpoint node_ind2 (n : node) : P n :=
    match n with
    | Node v bs =>
        HN v bs
          ((fix go (bs : list branch) : Forall (branch_ok P) bs :=
              match bs with
              | [] => Forall_nil _
              | b :: bs' =>
                  Forall_cons b
                    (match b as b0 return branch_ok P b0 with
                     | (r, t) =>
                         match t as t0 return branch_ok P (r, t0) with
                         | TAtom _ => I
                         | TNode n' => node_ind2 n'
                         end
                     end)
                    (go bs')
              end) bs)
    end.
End NodeInd2.

Lemma wf_node_eq : forall s bs, wf_node (Node (AStr s) bs) =
  wf_symbol s && forallb (wf_branch wf_node) bs && slash_only_first bs.
Proof. reflexivity. Qed.

Lemma node_toks_eq : forall s bs, node_toks (Node (AStr s) bs) =
  LP :: (SYMBOL, s) :: flat_map (branch_toks node_toks) bs ++ [RP].
Proof. reflexivity. Qed.

(* ------------------------------------------------------------------ *)
(** * Pieces of a formatted node are layouts of their tokens *)

Lemma sep_ok_free : forall k s, (forall c, stopb k c = true) -> sep_ok k s.
Proof. intros k [|c s] H; [exact I | apply H]. Qed.

Lemma wf_align_eq : forall a, wf_align a = true -> m_align a = Some (a, []).
Proof.
  intros a H. unfold wf_align in H. destruct (m_align a) as [[w r]|]; [|discriminate].
  destruct r; [|discriminate]. apply str_eqb_true in H. subst. reflexivity.
Qed.

Lemma tok_align_layout : forall k w a rest ts, lexeme k w -> stopb k 126 = true ->
  opt_align a = true -> layout rest ts -> head_ok rest ->
  layout (w ++ a ++ rest) ((k, w) :: align_toks a ++ ts).
Proof.
  intros k w a rest ts L St A H Hd. destruct a as [|a0 a].
  - simpl. apply lay_tok; [exact L | apply head_ok_sep; exact Hd | exact H].
  - simpl in A. apply wf_align_eq in A.
    destruct (m_align_spec _ _ _ A) as [_ [_ [a' E]]]. inversion E. subst a0 a'.
    apply lay_tok; [exact L | exact St |].
    change (align_toks (126%N :: a) ++ ts) with ((ALIGNMENT, 126%N :: a) :: ts).
    apply lay_tok; [exact A | apply head_ok_sep; exact Hd | exact H].
Qed.

Lemma split_tilde_eq : forall s b a, split_tilde s = (b, a) -> s = b ++ a.
Proof. intros s b a H. destruct (span_spec _ _ _ _ H) as [E _]. exact E. Qed.

Lemma atom_layout : forall c rest ts, wf_atom_text c = true -> layout rest ts -> head_ok rest ->
  layout (c ++ rest) (atom_toks c ++ ts).
Proof.
  intros c rest ts W H Hd. unfold wf_atom_text in W. unfold atom_toks.
  destruct (m_string c) as [[w a]|] eqn:M.
  - apply andb_true_iff in W. destruct W as [W1 W2].
    destruct (m_string_split _ _ _ M) as [E _]. rewrite E, <- app_assoc.
    apply (tok_align_layout STRING); try assumption; [|reflexivity].
    split; [exact (m_string_self _ _ _ M) | exact W1].
  - destruct (split_tilde c) as [b a] eqn:Sp.
    apply andb_true_iff in W. destruct W as [W1 W2].
    rewrite (split_tilde_eq _ _ _ Sp), <- app_assoc.
    apply (tok_align_layout SYMBOL); try assumption. reflexivity.
Qed.

Lemma wf_atom_text_nonempty : forall c, wf_atom_text c = true -> exists c0 c', c = c0 :: c'.
Proof.
  intros [|c0 c'] H; [|eexists; eexists; reflexivity].
  unfold wf_atom_text in H. simpl in H. discriminate.
Qed.

Definition role_ok (r : str) : Prop := r = SLASHS \/ wf_role r = true.

Lemma role_part_layout : forall r rest ts, role_ok r -> layout rest ts -> head_ok rest ->
  layout (role_text r ++ rest) (role_toks r ++ ts).
Proof.
  intros r rest ts [R|R] H Hd.
  - subst r. apply (lay_tok SLASH [47%N]); [reflexivity | apply sep_ok_free; reflexivity | exact H].
  - unfold wf_role in R. destruct r as [|c r']; [discriminate|].
    apply andb_true_iff in R. destruct R as [C R]. apply eqc_true in C. subst c.
    destruct (split_tilde r') as [b a] eqn:Sp.
    apply andb_true_iff in R. destruct R as [R1 R2].
    assert (RT : role_text (58%N :: r') = 58%N :: r') by (unfold role_text; simpl; destruct r'; reflexivity).
    assert (TK : role_toks (58%N :: r') = (ROLE, 58%N :: b) :: align_toks a).
    { unfold role_toks. change (str_eqb (58%N :: r') SLASHS) with false. cbv iota.
      unfold split_tilde in *. simpl. rewrite Sp. reflexivity. }
    rewrite RT, TK, (split_tilde_eq _ _ _ Sp).
    change (58%N :: b ++ a) with ((58%N :: b) ++ a). rewrite <- app_assoc.
    change (((ROLE, 58%N :: b) :: align_toks a) ++ ts) with ((ROLE, 58%N :: b) :: align_toks a ++ ts).
    apply (tok_align_layout ROLE); try assumption; [|reflexivity].
    exists b. split; [reflexivity | exact R1].
Qed.

Lemma wf_branch_role_ok : forall rec b, wf_branch rec b = true -> role_ok (fst b).
Proof.
  intros rec b H. unfold wf_branch in H. destruct (str_eqb (fst b) SLASHS) eqn:E.
  - left. apply str_eqb_true. exact E.
  - right. apply andb_true_iff in H. destruct H as [H _]. exact H.
Qed.

Lemma wf_branch_target : forall rec b, wf_branch rec b = true ->
  match snd b with
  | TNode n' => rec n' = true /\ str_eqb (fst b) SLASHS = false
  | t => wf_atom_target t = true
  end.
Proof.
  intros rec b H. unfold wf_branch in H. destruct (str_eqb (fst b) SLASHS) eqn:E.
  - destruct (snd b) as [a|n']; [exact H|]. simpl in H. discriminate.
  - apply andb_true_iff in H. destruct H as [_ H].
    destruct (snd b) as [a|n']; [exact H | split; [exact H | reflexivity]].
Qed.

Section EdgeLayout.
  Variable rec : Z -> node -> str.
  Variable indent : option Z.
  Variable col : Z.

  Lemma edge_layout : forall b, wf_branch wf_node b = true ->
    branch_ok (fun n => wf_node n = true -> forall c, layout (rec c n) (node_toks n)) b ->
    layout (fmt_edge rec indent col b) (branch_toks node_toks b).
  Proof.
    intros [r t] W IH. pose proof (wf_branch_role_ok _ _ W) as R.
    pose proof (wf_branch_target _ _ W) as T. simpl in R, T.
    unfold fmt_edge, branch_toks. simpl fst. simpl snd. cbv zeta.
    destruct t as [a|n'].
    - destruct a as [|c|x z]; simpl in T; try discriminate.
      + simpl target_toks. pose proof (role_part_layout r [] [] R lay_nil I) as HR.
        rewrite !app_nil_r in *. exact HR.
      + destruct (wf_atom_text_nonempty _ T) as [c0 [c' E]]. subst c.
        change (target_toks node_toks (TAtom (AStr (c0 :: c')))) with (atom_toks (c0 :: c')).
        change (atom_str (AStr (c0 :: c'))) with (c0 :: c').
        change (SPACE ++ c0 :: c') with (32%N :: c0 :: c').
        apply role_part_layout; [exact R | | left; reflexivity].
        apply lay_blank; [left; reflexivity|].
        pose proof (atom_layout (c0 :: c') [] [] T lay_nil I) as HA.
        rewrite !app_nil_r in HA. exact HA.
    - destruct T as [T _]. change (target_toks node_toks (TNode n')) with (node_toks n').
      match goal with |- layout (_ ++ SPACE ++ ?x) _ => change (SPACE ++ x) with (32%N :: x) end.
      apply role_part_layout; [exact R | | left; reflexivity].
      apply lay_blank; [left; reflexivity|].
      unfold branch_ok in IH. simpl in IH. apply IH. exact T.
  Qed.
End EdgeLayout.

(* joining *)
Definition blank (c : N) : Prop := c = 32%N \/ c = 10%N.

Lemma blanks_layout : forall J s ts, Forall blank J -> layout s ts -> layout (J ++ s) ts.
Proof.
  induction J as [|c J IH]; intros s ts F H; [exact H|].
  inversion F; subst. simpl. apply lay_blank; [assumption | apply IH; assumption].
Qed.

Lemma join_layout : forall j J parts tss, blank j -> Forall blank J ->
  Forall2 layout parts tss -> layout (join (j :: J) parts) (concat tss).
Proof.
  intros j J parts tss Bj BJ F. induction F as [|x ts l tl Hx F IH]; [constructor|].
  destruct F as [|y ts' l' tl' Hy F].
  - simpl. rewrite app_nil_r. exact Hx.
  - change (join (j :: J) (x :: y :: l')) with (x ++ (j :: J) ++ join (j :: J) (y :: l')).
    change (concat (ts :: ts' :: tl')) with (ts ++ concat (ts' :: tl')).
    apply layout_app; [exact Hx | | simpl; destruct Bj as [B|B]; [left|right;left]; exact B].
    apply (blanks_layout (j :: J)); [constructor; assumption | exact IH].
Qed.

Definition parts_ok (parts : list str) (ts : list tk) : Prop :=
  exists tss, Forall2 layout parts tss /\ concat tss = ts.

Lemma parts_ok_join : forall parts ts, parts_ok parts ts -> parts_ok [join SPACE parts] ts.
Proof.
  intros parts ts [tss [F E]]. exists [concat tss]. split.
  - constructor; [|constructor]. apply (join_layout 32 []); [left; reflexivity | constructor | exact F].
  - simpl. rewrite app_nil_r. exact E.
Qed.

Lemma parts_ok_snoc : forall parts ts p tp, parts_ok parts ts -> layout p tp ->
  parts_ok (parts ++ [p]) (ts ++ tp).
Proof.
  intros parts ts p tp [tss [F E]] H. exists (tss ++ [tp]). split.
  - apply Forall2_app; [exact F | constructor; [exact H | constructor]].
  - rewrite concat_app. simpl. rewrite app_nil_r, E. reflexivity.
Qed.

Lemma go_parts_ok : forall fe vars (bt : branch -> list tk) es c parts ts0,
  parts_ok parts ts0 -> (forall e, In e es -> layout (fe e) (bt e)) ->
  parts_ok (snd (go_parts fe vars es c parts)) (ts0 ++ flat_map bt es).
Proof.
  intros fe vars bt. induction es as [|e es IH]; intros c parts ts0 P H.
  - simpl. rewrite app_nil_r. exact P.
  - simpl go_parts. simpl flat_map. rewrite app_assoc. apply IH.
    + apply parts_ok_snoc; [|apply H; left; reflexivity].
      destruct (c && match snd e with TAtom a => mem atom_eqb a vars | TNode _ => true end); [|exact P].
      destruct parts as [|p0 parts0]; [exact P | apply parts_ok_join; exact P].
    + intros e' I'. apply H. right. exact I'.
Qed.

Lemma node_layout : forall n, wf_node n = true ->
  forall indent vars column, layout (format_node indent column vars n) (node_toks n).
Proof.
  induction n as [v bs IHbs] using node_ind2. intros W indent vars column.
  rewrite format_node_eq. destruct v as [|s|x z]; [| |discriminate].
  - simpl in W. destruct bs; [|discriminate]. simpl.
    apply (lay_tok LPAREN [40%N] [41%N]); [reflexivity | apply sep_ok_free; reflexivity|].
    apply (lay_tok RPAREN [41%N] []); [reflexivity | exact I | constructor].
  - rewrite wf_node_eq in W. apply andb_true_iff in W. destruct W as [W W3].
    apply andb_true_iff in W. destruct W as [W1 W2].
    assert (LS : lexeme SYMBOL s) by exact W1.
    destruct (lexeme_nonempty _ _ LS) as [s0 [s' Es]].
    assert (Fz : falsy (AStr s) = false) by (subst s; reflexivity).
    rewrite Fz, node_toks_eq. simpl atom_str.
    assert (Close : layout [41%N] [RP])
      by (apply (lay_tok RPAREN [41%N] []); [reflexivity | exact I | constructor]).
    destruct bs as [|b0 bs0].
    + simpl flat_map. simpl app at 3.
      apply (lay_tok LPAREN [40%N]); [reflexivity | apply sep_ok_free; reflexivity|].
      apply lay_tok; [exact LS | reflexivity | exact Close].
    + set (bs := b0 :: bs0) in *. cbv zeta.
      set (fe := fmt_edge (fun col n => format_node indent col vars n) indent (node_column indent column (AStr s))).
      pose proof (go_parts_ok fe vars (branch_toks node_toks) bs
                   (match vars with [] => false | _ => true end) [] []
                   (ex_intro _ [] (conj (Forall2_nil _) eq_refl))) as G.
      simpl app in G.
      assert (HE : forall e, In e bs -> layout (fe e) (branch_toks node_toks e)).
      { intros e Ie. apply edge_layout.
        - rewrite forallb_forall in W2. apply W2. exact Ie.
        - rewrite Forall_forall in IHbs. specialize (IHbs e Ie).
          unfold branch_ok in *. destruct (snd e) as [a|n']; [exact I|].
          intros Wn c. apply IHbs. exact Wn. }
      specialize (G HE).
      destruct (go_parts fe vars bs (match vars with [] => false | _ => true end) []) as [cp parts].
      simpl snd in G.
      assert (G' : parts_ok (if cp then [join SPACE parts] else parts) (flat_map (branch_toks node_toks) bs)).
      { destruct cp; [apply parts_ok_join; exact G | exact G]. }
      destruct G' as [tss [F E]].
      assert (JB : exists j J, node_joiner indent (node_column indent column (AStr s)) = j :: J /\ blank j /\ Forall blank J).
      { unfold node_joiner. destruct indent.
        - eexists; eexists. split; [reflexivity|]. split; [right; reflexivity|].
          unfold zspaces, spaces. apply Forall_forall. intros y Iy. apply repeat_spec in Iy. left. exact Iy.
        - exists 32%N, []. split; [reflexivity|]. split; [left; reflexivity | constructor]. }
      destruct JB as [j [J [EJ [Bj BJ]]]]. rewrite EJ.
      apply (lay_tok LPAREN [40%N]); [reflexivity | apply sep_ok_free; reflexivity|].
      apply lay_tok; [exact LS | reflexivity|].
      apply lay_blank; [left; reflexivity|].
      rewrite <- E. apply layout_app; [apply join_layout; assumption | exact Close | right; right; reflexivity].
Qed.

(* ------------------------------------------------------------------ *)
(** * The whole formatted text *)

Lemma format_meta_line : forall kv, format_meta kv = meta_line kv.
Proof. intros [k v]. unfold format_meta, meta_line. simpl. destruct v; reflexivity. Qed.

Lemma join_cons2 : forall sep x (l : list str), l <> [] -> join sep (x :: l) = x ++ sep ++ join sep l.
Proof. intros sep x [|y l] H; [contradiction | reflexivity]. Qed.

Lemma no_lfcr_app : forall a b, no_lfcr (a ++ b) = no_lfcr a && no_lfcr b.
Proof. intros a b. unfold no_lfcr. apply forallb_app. Qed.

Lemma meta_line_comment : forall kv, wf_meta_key (fst kv) = true -> wf_meta_value (snd kv) = true ->
  comment_ok (meta_line kv).
Proof.
  intros [k v] Hk Hv. simpl in Hk, Hv. unfold meta_line. simpl fst. simpl snd.
  unfold wf_meta_key in Hk. unfold wf_meta_value in Hv.
  repeat (apply andb_true_iff in Hk; destruct Hk as [Hk ?]).
  repeat (apply andb_true_iff in Hv; destruct Hv as [Hv ?]).
  destruct v as [|v0 v'].
  - exists ([32;58;58]%N ++ k ++ []). split; [reflexivity|].
    rewrite !no_lfcr_app, Hk. reflexivity.
  - exists ([32;58;58]%N ++ k ++ 32%N :: v0 :: v'). split; [reflexivity|].
    rewrite !no_lfcr_app, Hk.
    change (no_lfcr (32%N :: v0 :: v')) with (no_lfcr (v0 :: v')). rewrite Hv. reflexivity.
Qed.

Lemma format_text_tlayout : forall md nodetext nts,
  (forall kv, In kv md -> wf_meta_key (fst kv) = true /\ wf_meta_value (snd kv) = true) ->
  tlayout nodetext nts ->
  tlayout (join [10%N] (map format_meta md ++ [nodetext]))
          (map (fun kv => (COMMENT, meta_line kv)) md ++ nts).
Proof.
  induction md as [|kv md IH]; intros nodetext nts H T; [exact T|].
  simpl map. simpl app.
  rewrite join_cons2 by (destruct (map format_meta md); discriminate).
  rewrite format_meta_line. apply tl_comment.
  - destruct (H kv (or_introl eq_refl)) as [Hk Hv]. apply meta_line_comment; assumption.
  - apply IH; [|exact T]. intros kv' I'. apply H. right. exact I'.
Qed.

Lemma wf_meta_all : forall md, wf_meta md = true ->
  forall kv, In kv md -> wf_meta_key (fst kv) = true /\ wf_meta_value (snd kv) = true.
Proof.
  intros md H kv I'. unfold wf_meta in H. apply andb_true_iff in H. destruct H as [H _].
  rewrite forallb_forall in H. specialize (H kv I'). apply andb_true_iff in H. exact H.
Qed.

Theorem format_tlayout : forall t indent compact, wf_tree t = true ->
  tlayout (format indent compact t) (tokens_of t).
Proof.
  intros t indent compact W. unfold wf_tree in W. apply andb_true_iff in W. destruct W as [Wm Wn].
  unfold format, tokens_of. apply format_text_tlayout; [apply wf_meta_all; exact Wm|].
  apply layout_tlayout. apply node_layout. exact Wn.
Qed.

Theorem format_lexes : forall t indent compact, wf_tree t = true ->
  map tok_tt (lex_str PENMAN_ALTS (format indent compact t)) = tokens_of t.
Proof. intros t indent compact W. apply lex_tlayout. apply format_tlayout. exact W. Qed.

Lemma tlayout_interleave : forall s ts, tlayout s ts -> blank_interleave s (map snd ts).
Proof.
  intros s ts H. induction H; simpl.
  - constructor.
  - apply bi_blank; assumption.
  - apply bi_tok. assumption.
  - rewrite <- (app_nil_r w) at 1. apply bi_tok. constructor.
  - apply bi_tok. apply bi_blank; [right; reflexivity | assumption].
Qed.

Theorem format_interleave : forall t indent compact, wf_tree t = true ->
  blank_interleave (format indent compact t) (map snd (tokens_of t)).
Proof. intros t indent compact W. apply tlayout_interleave. apply format_tlayout. exact W. Qed.

(* ------------------------------------------------------------------ *)
(** * The parser on the token stream of a tree *)

(* the inner loop of parse_node as a top-level function *)
Definition edges_loop (pn : titer -> outcome (node * titer)) (v : token) :=
  fix edges (g : nat) (acc : list branch) (it : titer) {struct g} : outcome (node * titer) :=
    match g with
    | O => OutOfFuel
    | S g' =>
        t <- peek it ;;
        if tokty_eqb (tty t) RPAREN then
          '(_, it) <- expect it [RPAREN] ;; Ok (Node (AStr (ttext v)) (rev acc), it)
        else
          '(rt, it) <- expect it [ROLE] ;;
          '(role, it) <- glue_alignment (ttext rt) it ;;
          nx <- peek it ;;
          if ty_in (tty nx) [SYMBOL; STRING] then
            '(tg, it) <- next it ;;
            '(target, it) <- glue_alignment (ttext tg) it ;;
            edges g' ((role, TAtom (AStr target)) :: acc) it
          else if tokty_eqb (tty nx) LPAREN then
            '(n, it) <- pn it ;;
            edges g' ((role, TNode n) :: acc) it
          else if ty_in (tty nx) [ROLE; RPAREN] then
            edges g' ((role, TAtom ANone) :: acc) it
          else err_at nx
    end.

Definition parse_concept (it : titer) (t : token) : outcome (list branch * titer) :=
  if tokty_eqb (tty t) SLASH then
    '(_, it) <- next it ;;
    t2 <- peek it ;;
    if ty_in (tty t2) [SYMBOL; STRING] then
      '(c, it) <- next it ;;
      '(concept, it) <- glue_alignment (ttext c) it ;;
      Ok ([(SLASHS, TAtom (AStr concept))], it)
    else Ok ([(SLASHS, TAtom ANone)], it)
  else Ok ([], it).

Lemma parse_node_S : forall f' it, parse_node (S f') it =
  ('(_, it) <- expect it [LPAREN] ;;
   t <- peek it ;;
   if tokty_eqb (tty t) RPAREN then
     '(_, it) <- expect it [RPAREN] ;; Ok (Node ANone [], it)
   else
     '(v, it) <- expect it [SYMBOL] ;;
     t <- peek it ;;
     '(edges0, it) <- parse_concept it t ;;
     edges_loop (parse_node f') v (S (length (it_rest it))) (rev edges0) it).
Proof. intros f' it. reflexivity. Qed.

Lemma edges_loop_S : forall pn v g' acc it, edges_loop pn v (S g') acc it =
  (t <- peek it ;;
   if tokty_eqb (tty t) RPAREN then
     '(_, it) <- expect it [RPAREN] ;; Ok (Node (AStr (ttext v)) (rev acc), it)
   else
     '(rt, it) <- expect it [ROLE] ;;
     '(role, it) <- glue_alignment (ttext rt) it ;;
     nx <- peek it ;;
     if ty_in (tty nx) [SYMBOL; STRING] then
       '(tg, it) <- next it ;;
       '(target, it) <- glue_alignment (ttext tg) it ;;
       edges_loop pn v g' ((role, TAtom (AStr target)) :: acc) it
     else if tokty_eqb (tty nx) LPAREN then
       '(n, it) <- pn it ;;
       edges_loop pn v g' ((role, TNode n) :: acc) it
     else if ty_in (tty nx) [ROLE; RPAREN] then
       edges_loop pn v g' ((role, TAtom ANone) :: acc) it
     else err_at nx).
Proof. intros. reflexivity. Qed.

Definition take_atom (it : titer) : outcome (str * titer) :=
  '(tg, it) <- next it ;; glue_alignment (ttext tg) it.
Definition take_role (it : titer) : outcome (str * titer) :=
  '(rt, it) <- expect it [ROLE] ;; glue_alignment (ttext rt) it.

Lemma edges_loop_S' : forall pn v g' acc it, edges_loop pn v (S g') acc it =
  (t <- peek it ;;
   if tokty_eqb (tty t) RPAREN then
     '(_, it) <- expect it [RPAREN] ;; Ok (Node (AStr (ttext v)) (rev acc), it)
   else
     '(role, it) <- take_role it ;;
     nx <- peek it ;;
     if ty_in (tty nx) [SYMBOL; STRING] then
       '(target, it) <- take_atom it ;;
       edges_loop pn v g' ((role, TAtom (AStr target)) :: acc) it
     else if tokty_eqb (tty nx) LPAREN then
       '(n, it) <- pn it ;;
       edges_loop pn v g' ((role, TNode n) :: acc) it
     else if ty_in (tty nx) [ROLE; RPAREN] then
       edges_loop pn v g' ((role, TAtom ANone) :: acc) it
     else err_at nx).
Proof.
  intros. rewrite edges_loop_S. destruct (peek it) as [t| | | | | | | |]; try reflexivity.
  cbn [bind]. destruct (tokty_eqb (tty t) RPAREN); [reflexivity|].
  unfold take_role. destruct (expect it [ROLE]) as [[rt it1]| | | | | | | |]; try reflexivity.
  cbn [bind]. destruct (glue_alignment (ttext rt) it1) as [[role it2]| | | | | | | |]; try reflexivity.
  cbn [bind]. destruct (peek it2) as [nx| | | | | | | |]; try reflexivity.
  cbn [bind]. destruct (ty_in (tty nx) [SYMBOL; STRING]); [|reflexivity].
  unfold take_atom. destruct (next it2) as [[tg it3]| | | | | | | |]; try reflexivity.
Qed.

Lemma parse_concept_eq : forall it t, parse_concept it t =
  if tokty_eqb (tty t) SLASH then
    '(_, it) <- next it ;;
    t2 <- peek it ;;
    if ty_in (tty t2) [SYMBOL; STRING] then
      '(concept, it) <- take_atom it ;;
      Ok ([(SLASHS, TAtom (AStr concept))], it)
    else Ok ([(SLASHS, TAtom ANone)], it)
  else Ok ([], it).
Proof.
  intros. unfold parse_concept. destruct (tokty_eqb (tty t) SLASH); [|reflexivity].
  destruct (next it) as [[x it1]| | | | | | | |]; try reflexivity.
  cbn [bind]. destruct (peek it1) as [t2| | | | | | | |]; try reflexivity.
  cbn [bind]. destruct (ty_in (tty t2) [SYMBOL; STRING]); [|reflexivity].
  unfold take_atom. destruct (next it1) as [[tg it3]| | | | | | | |]; try reflexivity.
Qed.

(* ---- the iterator seen as a list of (type, text) ---- *)
Definition view (it : titer) : list tk := map tok_tt (it_rest it).
Definition hd_ty (l : list tk) : option tokty := match l with (k, _) :: _ => Some k | [] => None end.

Lemma view_cons : forall it k w l, view it = (k, w) :: l ->
  exists t r, it_rest it = t :: r /\ tty t = k /\ ttext t = w /\ map tok_tt r = l.
Proof.
  intros [toks last] k w l H. unfold view in H. simpl in H.
  destruct toks as [|t r]; [discriminate|]. simpl in H. inversion H.
  exists t, r. simpl. repeat split; reflexivity.
Qed.

Lemma peek_view : forall it k w l, view it = (k, w) :: l ->
  exists t, peek it = Ok t /\ tty t = k /\ ttext t = w.
Proof.
  intros it k w l H. destruct (view_cons _ _ _ _ H) as [t [r [E [Ek [Ew _]]]]].
  exists t. unfold peek. rewrite E. repeat split; assumption.
Qed.

Lemma next_view : forall it k w l, view it = (k, w) :: l ->
  exists t it', next it = Ok (t, it') /\ tty t = k /\ ttext t = w /\ view it' = l.
Proof.
  intros it k w l H. destruct (view_cons _ _ _ _ H) as [t [r [E [Ek [Ew El]]]]].
  exists t, (mkIter r (Some t)). unfold next. rewrite E. repeat split; assumption.
Qed.

Lemma tokty_eqb_refl : forall k, tokty_eqb k k = true.
Proof. destruct k; reflexivity. Qed.

Lemma expect_view : forall it k w l, view it = (k, w) :: l ->
  exists t it', expect it [k] = Ok (t, it') /\ tty t = k /\ ttext t = w /\ view it' = l.
Proof.
  intros it k w l H. destruct (view_cons _ _ _ _ H) as [t [r [E [Ek [Ew El]]]]].
  exists t, (mkIter r (Some t)). unfold expect. rewrite E. unfold ty_in. simpl.
  rewrite Ek, tokty_eqb_refl. repeat split; assumption.
Qed.

Lemma glue_view_yes : forall it a l x, view it = (ALIGNMENT, a) :: l ->
  exists it', glue_alignment x it = Ok (x ++ a, it') /\ view it' = l.
Proof.
  intros it a l x H. unfold glue_alignment.
  destruct (peek_view _ _ _ _ H) as [t [P [Ek Ew]]].
  destruct (next_view _ _ _ _ H) as [t' [it' [Nx [Ek' [Ew' V]]]]].
  rewrite P. cbn [bind]. rewrite Ek. cbn [tokty_eqb]. rewrite Nx. cbn [bind]. rewrite Ew'.
  exists it'. split; [reflexivity | exact V].
Qed.

Lemma glue_view_no : forall it k w l x, view it = (k, w) :: l -> k <> ALIGNMENT ->
  glue_alignment x it = Ok (x, it).
Proof.
  intros it k w l x H N. unfold glue_alignment.
  destruct (peek_view _ _ _ _ H) as [t [P [Ek Ew]]].
  rewrite P. cbn [bind]. rewrite Ek. destruct k; try reflexivity. contradiction.
Qed.

Lemma glue_view : forall it a l x k, view it = align_toks a ++ l -> hd_ty l = Some k -> k <> ALIGNMENT ->
  exists it', glue_alignment x it = Ok (x ++ a, it') /\ view it' = l.
Proof.
  intros it a l x k H Hd N. destruct a as [|a0 a].
  - simpl in H. destruct l as [|[k' w] l]; [discriminate|]. simpl in Hd. inversion Hd. subst k'.
    exists it. rewrite app_nil_r. split; [apply (glue_view_no _ _ _ _ _ H N) | exact H].
  - apply glue_view_yes. exact H.
Qed.

Lemma atom_toks_shape : forall c, wf_atom_text c = true ->
  exists K w a, atom_toks c = (K, w) :: align_toks a /\ w ++ a = c /\ (K = SYMBOL \/ K = STRING).
Proof.
  intros c W. unfold wf_atom_text in W. unfold atom_toks.
  destruct (m_string c) as [[w a]|] eqn:M.
  - exists STRING, w, a. destruct (m_string_split _ _ _ M) as [E _].
    split; [reflexivity | split; [symmetry; exact E | right; reflexivity]].
  - destruct (split_tilde c) as [b a] eqn:Sp. exists SYMBOL, b, a.
    split; [reflexivity | split; [symmetry; apply split_tilde_eq; exact Sp | left; reflexivity]].
Qed.

Lemma role_toks_shape : forall r, wf_role r = true ->
  exists b a, role_toks r = (ROLE, b) :: align_toks a /\ b ++ a = r.
Proof.
  intros r W. unfold wf_role in W. destruct r as [|c r']; [discriminate|].
  apply andb_true_iff in W. destruct W as [C _]. apply eqc_true in C. subst c.
  unfold role_toks. change (str_eqb (58%N :: r') SLASHS) with false. cbv iota.
  destruct (split_tilde (58%N :: r')) as [b a] eqn:Sp. exists b, a.
  split; [reflexivity | symmetry; apply split_tilde_eq; exact Sp].
Qed.

Lemma take_atom_view : forall it c l k, wf_atom_text c = true ->
  view it = atom_toks c ++ l -> hd_ty l = Some k -> k <> ALIGNMENT ->
  (exists t, peek it = Ok t /\ ty_in (tty t) [SYMBOL; STRING] = true) /\
  exists it', take_atom it = Ok (c, it') /\ view it' = l.
Proof.
  intros it c l k W V Hd N.
  destruct (atom_toks_shape c W) as [K [w [a [E [Ec HK]]]]]. rewrite E in V. simpl in V.
  split.
  - destruct (peek_view _ _ _ _ V) as [t [P [Ek _]]]. exists t. split; [exact P|].
    rewrite Ek. destruct HK; subst K; reflexivity.
  - destruct (next_view _ _ _ _ V) as [t [it1 [Nx [_ [Ew V1]]]]].
    destruct (glue_view it1 a l w k V1 Hd N) as [it' [G V']].
    exists it'. unfold take_atom. rewrite Nx. cbn [bind]. rewrite Ew, G, Ec.
    split; [reflexivity | exact V'].
Qed.

Lemma take_role_view : forall it r l k, wf_role r = true ->
  view it = role_toks r ++ l -> hd_ty l = Some k -> k <> ALIGNMENT ->
  (exists t, peek it = Ok t /\ tty t = ROLE) /\
  exists it', take_role it = Ok (r, it') /\ view it' = l.
Proof.
  intros it r l k W V Hd N.
  destruct (role_toks_shape r W) as [b [a [E Er]]]. rewrite E in V. simpl in V.
  split.
  - destruct (peek_view _ _ _ _ V) as [t [P [Ek _]]]. exists t. split; assumption.
  - destruct (expect_view _ _ _ _ V) as [t [it1 [Nx [_ [Ew V1]]]]].
    destruct (glue_view it1 a l b k V1 Hd N) as [it' [G V']].
    exists it'. unfold take_role. rewrite Nx. cbn [bind]. rewrite Ew, G, Er.
    split; [reflexivity | exact V'].
Qed.

Notation bt := (branch_toks node_toks).

Lemma wf_notslash_role : forall b, wf_branch wf_node b = true -> not_slash b = true -> wf_role (fst b) = true.
Proof.
  intros b W N. unfold not_slash in N. apply negb_true_iff in N.
  unfold wf_branch in W. rewrite N in W. apply andb_true_iff in W. destruct W as [W _]. exact W.
Qed.

Lemma hd_atom : forall c X, wf_atom_text c = true ->
  exists K, hd_ty (atom_toks c ++ X) = Some K /\ K <> ALIGNMENT.
Proof.
  intros c X W. destruct (atom_toks_shape c W) as [K [w [a [E [_ HK]]]]]. rewrite E.
  exists K. split; [reflexivity|]. destruct HK; subst K; discriminate.
Qed.

Lemma hd_node : forall n X, hd_ty (node_toks n ++ X) = Some LPAREN.
Proof. intros [v bs] X. destruct v; reflexivity. Qed.

Lemma hd_branches : forall bs X, forallb (wf_branch wf_node) bs = true -> forallb not_slash bs = true ->
  exists k, hd_ty (flat_map bt bs ++ RP :: X) = Some k /\ (k = ROLE \/ k = RPAREN).
Proof.
  intros [|b bs] X W N.
  - exists RPAREN. split; [reflexivity | right; reflexivity].
  - simpl in W, N. apply andb_true_iff in W. destruct W as [W _].
    apply andb_true_iff in N. destruct N as [N _].
    destruct (role_toks_shape _ (wf_notslash_role b W N)) as [r0 [a [E _]]].
    exists ROLE. simpl flat_map. unfold branch_toks at 1. rewrite E.
    split; [reflexivity | left; reflexivity].
Qed.

Lemma bt_nonempty : forall b, wf_branch wf_node b = true -> 1 <= length (bt b).
Proof.
  intros b W. unfold branch_toks. rewrite app_length.
  destruct (wf_branch_role_ok _ _ W) as [R|R].
  - rewrite R. simpl. lia.
  - destruct (role_toks_shape _ R) as [r0 [a [E _]]]. rewrite E. simpl. lia.
Qed.

Lemma flat_len : forall bs, forallb (wf_branch wf_node) bs = true ->
  length bs <= length (flat_map bt bs).
Proof.
  induction bs as [|b bs IH]; intros W; [simpl; lia|].
  simpl in W. apply andb_true_iff in W. destruct W as [W1 W2].
  simpl. rewrite app_length. pose proof (bt_nonempty b W1). specialize (IH W2). lia.
Qed.

Definition PN (n' : node) : Prop :=
  wf_node n' = true -> forall f it l, view it = node_toks n' ++ l -> length (node_toks n') <= f ->
  exists it', parse_node f it = Ok (n', it') /\ view it' = l.

Lemma edges_loop_toks : forall f' v bs,
  forallb (wf_branch wf_node) bs = true -> forallb not_slash bs = true ->
  Forall (branch_ok PN) bs -> length (flat_map bt bs) <= f' ->
  forall g acc it l, view it = flat_map bt bs ++ RP :: l -> length bs < g ->
  exists it', edges_loop (parse_node f') v g acc it = Ok (Node (AStr (ttext v)) (rev acc ++ bs), it')
              /\ view it' = l.
Proof.
  intros f' v. induction bs as [|[r tg] bs IH]; intros W N F Lf g acc it l V Lg.
  - destruct g as [|g']; [simpl in Lg; lia|]. rewrite edges_loop_S'. simpl in V.
    destruct (peek_view _ _ _ _ V) as [t [P [Ek _]]].
    destruct (expect_view _ _ _ _ V) as [t' [it' [Ex [_ [_ V']]]]].
    rewrite P. cbn [bind]. rewrite Ek. cbn [tokty_eqb]. rewrite Ex. cbn [bind].
    exists it'. rewrite app_nil_r. split; [reflexivity | exact V'].
  - destruct g as [|g']; [simpl in Lg; lia|]. rewrite edges_loop_S'.
    simpl in W, N. apply andb_true_iff in W. destruct W as [W1 W2].
    apply andb_true_iff in N. destruct N as [N1 N2].
    inversion F as [|? ? F1 F2]. subst.
    pose proof (wf_notslash_role _ W1 N1) as WR. simpl in WR.
    pose proof (wf_branch_target _ _ W1) as WT. simpl in WT.
    simpl flat_map in V, Lf. unfold branch_toks at 1 in V. simpl fst in V. simpl snd in V.
    rewrite <- !app_assoc in V. rewrite app_length in Lf.
    set (L' := flat_map bt bs ++ RP :: l) in *.
    destruct (hd_branches bs l W2 N2) as [kL [HL KL]]. fold L' in HL.
    assert (KLa : kL <> ALIGNMENT) by (destruct KL; subst kL; discriminate).
    assert (Fin : forall it1 tg', view it1 = L' ->
              exists it', edges_loop (parse_node f') v g' ((r, tg') :: acc) it1 =
                          Ok (Node (AStr (ttext v)) (rev acc ++ (r, tg') :: bs), it') /\ view it' = l).
    { intros it1 tg' V1. destruct (IH W2 N2 F2 ltac:(lia) g' ((r, tg') :: acc) it1 l V1 ltac:(simpl in Lg; lia))
        as [it' [E V']]. exists it'. split; [|exact V'].
      rewrite E. simpl rev. rewrite <- app_assoc. reflexivity. }
    destruct tg as [a|n'].
    + destruct a as [|c|x z]; simpl in WT; try discriminate.
      * (* missing target *)
        simpl target_toks in V. simpl app in V.
        destruct (take_role_view it r L' kL WR V HL KLa) as [[t [P Ek]] [it1 [TR V1]]].
        rewrite P. cbn [bind]. rewrite Ek. cbn [tokty_eqb]. rewrite TR. cbn [bind].
        destruct L' as [|[k' w'] L''] eqn:EL; [discriminate|]. simpl in HL. inversion HL. subst k'.
        destruct (peek_view _ _ _ _ V1) as [nx [P1 [Ek1 _]]].
        rewrite P1. cbn [bind]. rewrite Ek1.
        destruct (Fin it1 (TAtom ANone) V1) as [it' [E V']].
        exists it'. split; [|exact V'].
        destruct KL; subst kL; cbn; exact E.
      * (* atomic target *)
        change (target_toks node_toks (TAtom (AStr c))) with (atom_toks c) in V.
        destruct (hd_atom c L' WT) as [K [HK KN]].
        destruct (take_role_view it r (atom_toks c ++ L') K WR V HK KN) as [[t [P Ek]] [it1 [TR V1]]].
        rewrite P. cbn [bind]. rewrite Ek. cbn [tokty_eqb]. rewrite TR. cbn [bind].
        destruct (take_atom_view it1 c L' kL WT V1 HL KLa) as [[nx [P1 Ty]] [it2 [TA V2]]].
        rewrite P1. cbn [bind]. rewrite Ty. rewrite TA. cbn [bind].
        apply Fin. exact V2.
    + (* nested node *)
      destruct WT as [WT _].
      change (target_toks node_toks (TNode n')) with (node_toks n') in V.
      assert (Ln : length (node_toks n') <= length (bt (r, TNode n')))
        by (unfold branch_toks; rewrite app_length; simpl; lia).
      pose proof (hd_node n' L') as HN.
      destruct (take_role_view it r (node_toks n' ++ L') LPAREN WR V HN ltac:(discriminate))
        as [[t [P Ek]] [it1 [TR V1]]].
      rewrite P. cbn [bind]. rewrite Ek. cbn [tokty_eqb]. rewrite TR. cbn [bind].
      destruct (node_toks n' ++ L') as [|[k' w'] L''] eqn:EL; [discriminate|].
      simpl in HN. inversion HN. subst k'.
      destruct (peek_view _ _ _ _ V1) as [nx [P1 [Ek1 _]]].
      rewrite P1. cbn [bind]. rewrite Ek1. cbn [ty_in existsb tokty_eqb orb].
      unfold branch_ok in F1. simpl in F1. rewrite <- EL in V1.
      destruct (F1 WT f' it1 L' V1 ltac:(lia)) as [it2 [PNode V2]].
      rewrite PNode. cbn [bind]. apply Fin. exact V2.
Qed.

Lemma view_length : forall it, length (it_rest it) = length (view it).
Proof. intros it. unfold view. rewrite map_length. reflexivity. Qed.

Lemma parse_node_view : forall n, PN n.
Proof.
  induction n as [v bs IHbs] using node_ind2. unfold PN. intros W f it l V Lf.
  destruct v as [|s|x z]; [| |discriminate].
  - (* the empty node *)
    simpl in W. destruct bs; [|discriminate]. simpl in V, Lf.
    destruct f as [|f']; [lia|]. rewrite parse_node_S.
    destruct (expect_view _ _ _ _ V) as [t [it1 [Ex [_ [_ V1]]]]].
    rewrite Ex. cbn [bind].
    destruct (peek_view _ _ _ _ V1) as [t1 [P [Ek _]]].
    destruct (expect_view _ _ _ _ V1) as [t2 [it2 [Ex2 [_ [_ V2]]]]].
    rewrite P. cbn [bind]. rewrite Ek. cbn [tokty_eqb]. rewrite Ex2. cbn [bind].
    exists it2. split; [reflexivity | exact V2].
  - rewrite wf_node_eq in W. apply andb_true_iff in W. destruct W as [W W3].
    apply andb_true_iff in W. destruct W as [W1 W2].
    rewrite node_toks_eq in V, Lf. simpl in V. rewrite <- app_assoc in V. simpl in V.
    simpl in Lf. rewrite app_length in Lf. simpl in Lf.
    destruct f as [|f']; [lia|]. rewrite parse_node_S.
    destruct (expect_view _ _ _ _ V) as [t [it1 [Ex [_ [_ V1]]]]].
    rewrite Ex. cbn [bind].
    destruct (peek_view _ _ _ _ V1) as [t1 [P [Ek _]]].
    destruct (expect_view _ _ _ _ V1) as [tv [it2 [Ex2 [_ [Ev V2]]]]].
    rewrite P. cbn [bind]. rewrite Ek. cbn [tokty_eqb]. rewrite Ex2. cbn [bind].
    subst s.
    (* with or without a concept branch *)
    assert (Cases : (exists t0 bs', bs = (SLASHS, t0) :: bs' /\ wf_atom_target t0 = true /\
                       forallb not_slash bs' = true) \/ forallb not_slash bs = true).
    { destruct bs as [|[r0 t0] bs']; [right; reflexivity|].
      destruct (str_eqb r0 SLASHS) eqn:E0.
      - left. apply str_eqb_true in E0. subst r0. exists t0, bs'. split; [reflexivity|].
        simpl in W2. apply andb_true_iff in W2. destruct W2 as [Wb _].
        unfold wf_branch in Wb. simpl in Wb. split; [exact Wb | exact W3].
      - right. simpl. unfold not_slash at 1. simpl. rewrite E0. exact W3. }
    destruct Cases as [[t0 [bs' [Eb [Wt Ns]]]]|Ns].
    + subst bs. simpl in W2. apply andb_true_iff in W2. destruct W2 as [_ W2].
      inversion IHbs as [|? ? _ IH']. subst.
      assert (Lf' : length (flat_map bt bs') <= f').
      { assert (length (flat_map bt ((SLASHS, t0) :: bs')) =
                length (bt (SLASHS, t0)) + length (flat_map bt bs')) by (change (flat_map bt ((SLASHS, t0) :: bs')) with (bt (SLASHS, t0) ++ flat_map bt bs'); apply app_length).
        lia. }
      change (flat_map bt ((SLASHS, t0) :: bs') ++ RP :: l)
        with ((SLASH, SLASHS) :: (target_toks node_toks t0 ++ flat_map bt bs') ++ RP :: l) in V2.
      rewrite <- app_assoc in V2.
      set (L' := flat_map bt bs' ++ RP :: l) in *.
      destruct (hd_branches bs' l W2 Ns) as [kL [HL KL]]. fold L' in HL.
      assert (KLa : kL <> ALIGNMENT) by (destruct KL; subst kL; discriminate).
      destruct (peek_view _ _ _ _ V2) as [ts [Ps [Eks _]]].
      destruct (next_view _ _ _ _ V2) as [ts' [it3 [Nx [_ [_ V3]]]]].
      rewrite Ps. cbn [bind]. rewrite parse_concept_eq, Eks. cbn [tokty_eqb]. rewrite Nx. cbn [bind].
      assert (Fin : forall it4 e0, view it4 = L' ->
                exists it', edges_loop (parse_node f') tv (S (length (it_rest it4))) (rev [e0]) it4 =
                            Ok (Node (AStr (ttext tv)) (e0 :: bs'), it') /\ view it' = l).
      { intros it4 e0 V4.
        destruct (edges_loop_toks f' tv bs' W2 Ns IH' ltac:(lia) (S (length (it_rest it4))) (rev [e0]) it4 l V4)
          as [it' [E V']].
        - rewrite view_length, V4. unfold L'. rewrite app_length. pose proof (flat_len bs' W2). lia.
        - exists it'. split; [|exact V']. rewrite E. reflexivity. }
      destruct t0 as [a|n0]; [|discriminate].
      destruct a as [|c|x z]; simpl in Wt; try discriminate.
      * simpl target_toks in V3. simpl app in V3.
        destruct L' as [|[k' w'] L''] eqn:EL; [discriminate|]. simpl in HL. inversion HL. subst k'.
        destruct (peek_view _ _ _ _ V3) as [t2 [P2 [Ek2 _]]].
        rewrite P2. cbn [bind]. rewrite Ek2.
        destruct (Fin it3 (SLASHS, TAtom ANone) V3) as [it' [E V']].
        exists it'. split; [|exact V'].
        destruct KL; subst kL; cbn [ty_in existsb tokty_eqb orb bind]; exact E.
      * change (target_toks node_toks (TAtom (AStr c))) with (atom_toks c) in V3.
        destruct (take_atom_view it3 c L' kL Wt V3 HL KLa) as [[nx [P1 Ty]] [it4 [TA V4]]].
        rewrite P1. cbn [bind]. rewrite Ty, TA. cbn [bind].
        apply Fin. exact V4.
    + destruct (hd_branches bs l W2 Ns) as [kL [HL KL]].
      destruct (flat_map bt bs ++ RP :: l) as [|[k' w'] L''] eqn:EL; [discriminate|].
      simpl in HL. inversion HL. subst k'.
      destruct (peek_view _ _ _ _ V2) as [ts [Ps [Eks _]]].
      rewrite Ps. cbn [bind]. rewrite parse_concept_eq, Eks.
      assert (NoSl : tokty_eqb kL SLASH = false) by (destruct KL; subst kL; reflexivity).
      rewrite NoSl. cbn [bind]. rewrite <- EL in V2.
      destruct (edges_loop_toks f' tv bs W2 Ns IHbs ltac:(lia) (S (length (it_rest it2))) (rev []) it2 l V2)
        as [it' [E V']].
      * rewrite view_length, V2. rewrite app_length. pose proof (flat_len bs W2). lia.
      * exists it'. split; [|exact V']. rewrite E. reflexivity.
Qed.

(* ------------------------------------------------------------------ *)
(** * Metadata comments *)

Lemma no_dcolon_snoc : forall x c,
  no_dcolon (x ++ [c]) = no_dcolon x && negb (eqc (last x 0%N) 58 && eqc c 58).
Proof.
  induction x as [|d x IH]; intros c; [reflexivity|].
  destruct x as [|e x'].
  - simpl. rewrite andb_true_r. reflexivity.
  - change ((d :: e :: x') ++ [c]) with (d :: (e :: x') ++ [c]).
    change (no_dcolon (d :: (e :: x') ++ [c])) with
      (negb (eqc d 58 && eqc e 58) && no_dcolon ((e :: x') ++ [c])).
    rewrite IH.
    change (no_dcolon (d :: e :: x')) with (negb (eqc d 58 && eqc e 58) && no_dcolon (e :: x')).
    change (last (d :: e :: x') 0%N) with (last (e :: x') 0%N).
    rewrite andb_assoc. reflexivity.
Qed.

Lemma last_rev_hd : forall (s : str), last (rev s) 0%N = hd 0%N s.
Proof. intros [|c s]; [reflexivity|]. simpl. apply last_last. Qed.

Lemma no_dcolon_rev : forall s, no_dcolon (rev s) = no_dcolon s.
Proof.
  induction s as [|c s IH]; [reflexivity|].
  simpl rev. rewrite no_dcolon_snoc, IH, last_rev_hd.
  destruct s as [|d s']; simpl.
  - reflexivity.
  - rewrite andb_comm. f_equal. f_equal. apply andb_comm.
Qed.

Lemma no_dcolon_sp : forall a b, no_dcolon (a ++ 32%N :: b) = no_dcolon a && no_dcolon b.
Proof.
  induction a as [|c a IH]; intros b.
  - simpl. destruct b; reflexivity.
  - destruct a as [|d a'].
    + simpl. destruct b; simpl; rewrite ?andb_true_r, ?andb_false_r; reflexivity.
    + change ((c :: d :: a') ++ 32%N :: b) with (c :: (d :: a') ++ 32%N :: b).
      change (no_dcolon (c :: (d :: a') ++ 32%N :: b)) with
        (negb (eqc c 58 && eqc d 58) && no_dcolon ((d :: a') ++ 32%N :: b)).
      rewrite IH. rewrite andb_assoc. reflexivity.
Qed.

Lemma startswith_dc : forall c d s, startswith (c :: d :: s) DCOLON = eqc c 58 && eqc d 58.
Proof.
  intros c d s. unfold DCOLON. cbn [startswith]. unfold eqc.
  rewrite (N.eqb_sym 58 c), (N.eqb_sym 58 d). destruct s; rewrite andb_true_r; reflexivity.
Qed.

Lemma partition_at_first : forall x y, no_dcolon x = true -> last x 0%N <> 58%N ->
  partition_at DCOLON (x ++ DCOLON ++ y) = (x, true, y).
Proof.
  induction x as [|c x IH]; intros y H L; [simpl; destruct y; reflexivity|].
  assert (SW : startswith ((c :: x) ++ DCOLON ++ y) DCOLON = false).
  { destruct x as [|d x'].
    - simpl in L. change (([c] ++ DCOLON ++ y)) with (c :: 58%N :: 58%N :: y).
      rewrite startswith_dc. apply eqc_neq in L. rewrite L. reflexivity.
    - simpl in H. apply andb_true_iff in H. destruct H as [H _]. apply negb_true_iff in H.
      change ((c :: d :: x') ++ DCOLON ++ y) with (c :: d :: (x' ++ DCOLON ++ y)).
      rewrite startswith_dc. exact H. }
  change (partition_at DCOLON ((c :: x) ++ DCOLON ++ y)) with
    (if startswith ((c :: x) ++ DCOLON ++ y) DCOLON then ([], true, skipn (length DCOLON) ((c :: x) ++ DCOLON ++ y))
     else let '(a, f, b) := partition_at DCOLON (x ++ DCOLON ++ y) in
          if f then (c :: a, true, b) else (c :: a, false, [])).
  rewrite SW. rewrite IH; [reflexivity | |].
  - destruct x as [|d x']; [reflexivity|]. simpl in H. apply andb_true_iff in H. destruct H as [_ H]. exact H.
  - destruct x as [|d x']; [simpl; discriminate | exact L].
Qed.

Lemma rpartition_meta : forall z, no_dcolon z = true -> hd 0%N z <> 58%N ->
  rpartition DCOLON ([35;32;58;58]%N ++ z) = ([35;32]%N, true, z).
Proof.
  intros z H Hd. unfold rpartition.
  assert (E : rev ([35;32;58;58]%N ++ z) = rev z ++ DCOLON ++ [32;35]%N).
  { rewrite rev_app_distr. reflexivity. }
  rewrite E. change (rev DCOLON) with DCOLON.
  rewrite partition_at_first; [| rewrite no_dcolon_rev; exact H | rewrite last_rev_hd; exact Hd].
  rewrite rev_involutive. reflexivity.
Qed.

Lemma partition_sp_absent : forall k, isin 32%N k = false -> partition_at [32%N] k = (k, false, []).
Proof.
  induction k as [|c k IH]; intros H; [reflexivity|].
  unfold isin in H. simpl in H. apply orb_false_iff in H. destruct H as [H1 H2].
  simpl. rewrite H1. simpl. rewrite (IH H2). reflexivity.
Qed.

Lemma partition_sp_present : forall k v, isin 32%N k = false ->
  partition_at [32%N] (k ++ 32%N :: v) = (k, true, v).
Proof.
  induction k as [|c k IH]; intros v H.
  - simpl. destruct v; reflexivity.
  - unfold isin in H. simpl in H. apply orb_false_iff in H. destruct H as [H1 H2].
    simpl. rewrite H1. simpl. rewrite (IH v H2). reflexivity.
Qed.

Lemma comment_meta_S : forall f c s md, comment_meta (S f) (c :: s) md =
  let '(head, found, meta) := rpartition DCOLON (c :: s) in
  if found then
    let '(key, _, value) := partition [32%N] meta in
    comment_meta f head (dset str_eqb key (rstrip_ws value) md)
  else md.
Proof. reflexivity. Qed.

Lemma comment_meta_z : forall z k (fl : bool) v md, no_dcolon z = true -> hd 0%N z <> 58%N ->
  partition [32%N] z = (k, fl, v) -> rstrip_ws v = v ->
  comment_meta (S (length ([35;32;58;58]%N ++ z))) ([35;32;58;58]%N ++ z) md = dset str_eqb k v md.
Proof.
  intros z k fl v md Zd Zh P R.
  change ([35;32;58;58]%N ++ z) with (35%N :: ([32;58;58]%N ++ z)).
  rewrite comment_meta_S.
  change (35%N :: ([32;58;58]%N ++ z)) with ([35;32;58;58]%N ++ z).
  rewrite (rpartition_meta z Zd Zh). cbv iota beta. rewrite P, R. reflexivity.
Qed.

Lemma comment_meta_line : forall k v md, wf_meta_key k = true -> wf_meta_value v = true ->
  comment_meta (S (length (meta_line (k, v)))) (meta_line (k, v)) md = dset str_eqb k v md.
Proof.
  intros k v md Hk Hv. unfold wf_meta_key in Hk. unfold wf_meta_value in Hv.
  repeat (apply andb_true_iff in Hk; destruct Hk as [Hk ?]).
  repeat (apply andb_true_iff in Hv; destruct Hv as [Hv ?]).
  apply negb_true_iff in H1. apply str_eqb_true in H2.
  assert (Kh : forall y, hd 0%N (k ++ 32%N :: y) <> 58%N).
  { intros y. destruct k as [|c k']; [simpl; discriminate|].
    simpl. apply negb_true_iff in H. apply eqc_false in H. exact H. }
  unfold meta_line. simpl fst. simpl snd. destruct v as [|v0 v'].
  - apply (comment_meta_z (k ++ []) k false []); [rewrite app_nil_r; exact H0 | | | reflexivity].
    + rewrite app_nil_r. destruct k as [|c k']; [simpl; discriminate|].
      simpl. apply negb_true_iff in H. apply eqc_false in H. exact H.
    + rewrite app_nil_r. apply partition_sp_absent. exact H1.
  - apply (comment_meta_z (k ++ 32%N :: v0 :: v') k true (v0 :: v')).
    + rewrite no_dcolon_sp, H0, H3. reflexivity.
    + apply Kh.
    + apply partition_sp_present. exact H1.
    + exact H2.
Qed.

Lemma no_lfcr_rev : forall s, no_lfcr (rev s) = no_lfcr s.
Proof.
  induction s as [|c s IH]; [reflexivity|]. simpl rev. rewrite no_lfcr_app, IH. simpl.
  rewrite andb_true_r. apply andb_comm.
Qed.

Lemma rstrip_crlf_id : forall s, no_lfcr s = true -> rstrip_crlf s = s.
Proof.
  intros s H. unfold rstrip_crlf. rewrite <- no_lfcr_rev in H.
  destruct (rev s) as [|c r] eqn:E.
  - simpl. rewrite <- (rev_involutive s), E. reflexivity.
  - simpl in H. apply andb_true_iff in H. destruct H as [H _].
    apply andb_true_iff in H. destruct H as [A B].
    apply negb_true_iff in A. apply negb_true_iff in B.
    cbn [lstrip_crlf]. rewrite A, B. cbn [orb]. rewrite <- E. apply rev_involutive.
Qed.

Definition key_in (k : str) (d : list (str * str)) : bool := existsb (fun kv => str_eqb k (fst kv)) d.

Lemma dset_fresh : forall k v (d : dict str str), key_in k d = false -> dset str_eqb k v d = d ++ [(k, v)].
Proof.
  induction d as [|[k' v'] d IH]; intros H; [reflexivity|].
  simpl in H. apply orb_false_iff in H. destruct H as [H1 H2].
  simpl. rewrite H1, (IH H2). reflexivity.
Qed.

Lemma str_eqb_sym : forall a b, str_eqb a b = str_eqb b a.
Proof.
  induction a as [|x a IH]; intros [|y b]; try reflexivity. simpl. rewrite N.eqb_sym, IH. reflexivity.
Qed.

Lemma existsb_false_in : forall (A : Type) (f : A -> bool) l x, existsb f l = false -> In x l -> f x = false.
Proof.
  intros A f l x H I'. destruct (f x) eqn:E; [|reflexivity].
  assert (existsb f l = true) by (apply existsb_exists; exists x; split; assumption).
  congruence.
Qed.

Lemma fold_dset_nodup : forall md acc, nodup_keys md = true ->
  (forall kv, In kv md -> key_in (fst kv) acc = false) ->
  fold_left (fun d kv => dset str_eqb (fst kv) (snd kv) d) md acc = acc ++ md.
Proof.
  induction md as [|[k v] md IH]; intros acc N H; [symmetry; apply app_nil_r|].
  simpl in N. apply andb_true_iff in N. destruct N as [N1 N2]. apply negb_true_iff in N1.
  simpl fold_left. rewrite dset_fresh by (apply (H (k, v)); left; reflexivity).
  rewrite IH; [rewrite <- app_assoc; reflexivity | exact N2 |].
  intros kv I'. unfold key_in. rewrite existsb_app.
  pose proof (H kv (or_intror I')) as H1. unfold key_in in H1. rewrite H1. simpl.
  rewrite orb_false_r. rewrite str_eqb_sym.
  apply (existsb_false_in _ (fun kv0 => str_eqb k (fst kv0)) md kv N1 I').
Qed.

Lemma parse_comments_S : forall f' it md, parse_comments (S f') it md =
  (t <- peek it ;;
   if tokty_eqb (tty t) COMMENT then
     '(c, it') <- next it ;;
     let text := rstrip_crlf (ttext c) in
     parse_comments f' it' (comment_meta (S (length text)) text md)
   else Ok (md, it)).
Proof. reflexivity. Qed.

Lemma parse_comments_view : forall md f it md0 l k,
  (forall kv, In kv md -> wf_meta_key (fst kv) = true /\ wf_meta_value (snd kv) = true) ->
  view it = map (fun kv => (COMMENT, meta_line kv)) md ++ l -> hd_ty l = Some k -> k <> COMMENT ->
  length md < f ->
  exists it', parse_comments f it md0 =
              Ok (fold_left (fun d kv => dset str_eqb (fst kv) (snd kv) d) md md0, it') /\ view it' = l.
Proof.
  induction md as [|[key v] md IH]; intros f it md0 l k W V Hd N Lf.
  - destruct f as [|f']; [simpl in Lf; lia|]. simpl in V.
    destruct l as [|[k' w'] l']; [discriminate|]. simpl in Hd. inversion Hd. subst k'.
    destruct (peek_view _ _ _ _ V) as [t [P [Ek _]]].
    exists it. rewrite parse_comments_S, P. cbn [bind]. rewrite Ek.
    split; [destruct k; try reflexivity; contradiction | exact V].
  - destruct f as [|f']; [simpl in Lf; lia|]. simpl in V.
    destruct (peek_view _ _ _ _ V) as [t [P [Ek _]]].
    destruct (next_view _ _ _ _ V) as [t' [it1 [Nx [_ [Ew V1]]]]].
    destruct (W (key, v) (or_introl eq_refl)) as [Wk Wv].
    destruct (IH f' it1 (dset str_eqb key v md0) l k) as [it' [E V']]; try assumption.
    + intros kv I'. apply W. right. exact I'.
    + simpl in Lf. lia.
    + exists it'. split; [|exact V'].
      rewrite parse_comments_S, P. cbn [bind]. rewrite Ek. cbn [tokty_eqb]. rewrite Nx. cbn [bind].
      cbv zeta. rewrite Ew. rewrite rstrip_crlf_id.
      * rewrite (comment_meta_line key v md0 Wk Wv). exact E.
      * destruct (meta_line_comment (key, v) Wk Wv) as [a [Ea Ha]]. rewrite Ea. simpl. exact Ha.
Qed.

Theorem parse_tree_view : forall t it l, wf_tree t = true -> view it = tokens_of t ++ l ->
  exists it', parse_tree it = Ok (t, it') /\ view it' = l.
Proof.
  intros [n md] it l W V. unfold wf_tree in W. simpl in W.
  apply andb_true_iff in W. destruct W as [Wm Wn].
  unfold tokens_of in V. simpl in V. rewrite <- app_assoc in V.
  unfold parse_tree.
  assert (Len : length md + length (node_toks n) <= length (it_rest it)).
  { rewrite view_length, V, !app_length, map_length.
    apply Nat.add_le_mono_l. apply Nat.le_add_r. }
  destruct (parse_comments_view md (parse_fuel (it_rest it)) it [] (node_toks n ++ l) LPAREN
             (wf_meta_all md Wm) V (hd_node n l) ltac:(discriminate)) as [it1 [E V1]].
  { unfold parse_fuel. lia. }
  rewrite E. cbn [bind].
  destruct (parse_node_view n Wn (parse_fuel (it_rest it)) it1 l V1) as [it2 [E2 V2]].
  { unfold parse_fuel. lia. }
  rewrite E2. cbn [bind]. exists it2. split; [|exact V2].
  unfold wf_meta in Wm. apply andb_true_iff in Wm. destruct Wm as [_ Nd].
  rewrite (fold_dset_nodup md [] Nd); [reflexivity|]. intros kv _. reflexivity.
Qed.

Theorem parse_format_roundtrip : forall t indent compact, wf_tree t = true ->
  parse (format indent compact t) = Ok t.
Proof.
  intros t indent compact W. unfold parse.
  destruct (parse_tree_view t (iter_of (lex_str PENMAN_ALTS (format indent compact t))) [] W) as [it' [E _]].
  - unfold view, iter_of. simpl. rewrite app_nil_r. apply format_lexes. exact W.
  - rewrite E. reflexivity.
Qed.

Theorem parse_tokens : forall t it l, wf_tree t = true ->
  map tok_tt (it_rest it) = tokens_of t ++ l ->
  exists it', parse_tree it = Ok (t, it') /\ map tok_tt (it_rest it') = l.
Proof. exact parse_tree_view. Qed.

Theorem options_whitespace : forall t i1 c1 i2 c2, wf_tree t = true ->
  map tok_tt (lex_str PENMAN_ALTS (format i1 c1 t)) = map tok_tt (lex_str PENMAN_ALTS (format i2 c2 t)) /\
  blank_interleave (format i1 c1 t) (map snd (tokens_of t)) /\
  blank_interleave (format i2 c2 t) (map snd (tokens_of t)).
Proof.
  intros t i1 c1 i2 c2 W. split; [|split].
  - rewrite !format_lexes by exact W. reflexivity.
  - apply format_interleave. exact W.
  - apply format_interleave. exact W.
Qed.



(* ------------------------------------------------------------------ *)
(** * Every tree the parser returns is well formed *)

Definition toks_ok (l : list token) : Prop := Forall (fun t => tok_class (tty t) (ttext t)) l.

Lemma bind_inv : forall (A B : Type) (e : outcome A) (k : A -> outcome B) b,
  bind e k = Ok b -> exists a, e = Ok a /\ k a = Ok b.
Proof. intros A B e k b H. destruct e; simpl in H; try discriminate. exists a. split; [reflexivity | exact H]. Qed.

Lemma peek_inv : forall it t, peek it = Ok t -> exists r, it_rest it = t :: r.
Proof.
  intros [toks last] t H. unfold peek in H. simpl in *. destruct toks as [|t0 r].
  - unfold err_end in H. simpl in H. destruct last; discriminate.
  - inversion H. subst. exists r. reflexivity.
Qed.

Lemma next_inv : forall it t it', next it = Ok (t, it') ->
  exists r, it_rest it = t :: r /\ it' = mkIter r (Some t).
Proof.
  intros [toks last] t it' H. unfold next in H. simpl in *. destruct toks as [|t0 r]; [discriminate|].
  inversion H. subst. exists r. split; reflexivity.
Qed.

Lemma expect_inv : forall it ch t it', expect it ch = Ok (t, it') ->
  exists r, it_rest it = t :: r /\ ty_in (tty t) ch = true /\ it' = mkIter r (Some t).
Proof.
  intros [toks last] ch t it' H. unfold expect in H. simpl in *. destruct toks as [|t0 r].
  - unfold err_end in H. simpl in H. destruct last; discriminate.
  - destruct (ty_in (tty t0) ch) eqn:E; [|unfold err_at in H; discriminate].
    inversion H. subst. exists r. repeat split. exact E.
Qed.

Lemma tokty_eqb_true : forall a b, tokty_eqb a b = true -> a = b.
Proof. intros a b H. destruct a, b; try reflexivity; discriminate. Qed.

Lemma glue_inv : forall x it y it', glue_alignment x it = Ok (y, it') ->
  (y = x /\ it' = it) \/
  (exists t r, it_rest it = t :: r /\ tty t = ALIGNMENT /\ y = x ++ ttext t /\ it' = mkIter r (Some t)).
Proof.
  intros x it y it' H. unfold glue_alignment in H.
  apply bind_inv in H. destruct H as [t [P H]].
  destruct (tokty_eqb (tty t) ALIGNMENT) eqn:E.
  - apply bind_inv in H. destruct H as [[a it1] [Nx H]]. inversion H. subst.
    destruct (next_inv _ _ _ Nx) as [r [E1 E2]].
    destruct (peek_inv _ _ P) as [r' E3]. rewrite E3 in E1. inversion E1. subst.
    right. exists a, r. repeat split; [exact E3 | apply tokty_eqb_true; exact E].
  - inversion H. left. split; reflexivity.
Qed.

Lemma toks_ok_tail : forall t r, toks_ok (t :: r) -> tok_class (tty t) (ttext t) /\ toks_ok r.
Proof. intros t r H. inversion H. split; assumption. Qed.

Lemma split_tilde_glue : forall b a, forallb is_name b = true ->
  (a = [] \/ m_align a = Some (a, [])) -> split_tilde (b ++ a) = (b, a).
Proof.
  intros b a Hb Ha. unfold split_tilde. apply span_exact.
  - clear Ha. induction b as [|c b IH]; [reflexivity|]. simpl in Hb.
    apply andb_true_iff in Hb. destruct Hb as [H1 H2].
    destruct (is_name_excl c H1) as [_ [_ [_ [_ [_ [_ [_ [_ [_ [_ [_ E]]]]]]]]]]].
    simpl. rewrite E. simpl. apply IH. exact H2.
  - destruct Ha as [Ha|Ha]; [subst; exact I|].
    destruct (m_align_spec _ _ _ Ha) as [_ [_ [a' E]]]. subst a. reflexivity.
Qed.

Lemma opt_align_of : forall a, (a = [] \/ m_align a = Some (a, [])) -> opt_align a = true.
Proof.
  intros a [H|H]; [subst; reflexivity|]. destruct a; [reflexivity|].
  unfold opt_align, wf_align. rewrite H. apply str_eqb_same.
Qed.

Lemma role_glue_wf : forall b a, tok_class ROLE b -> (a = [] \/ m_align a = Some (a, [])) ->
  wf_role (b ++ a) = true.
Proof.
  intros b a [b' [E Hb]] Ha. subst b. change ((58%N :: b') ++ a) with (58%N :: (b' ++ a)).
  unfold wf_role. change (eqc 58 58) with true. cbv iota beta. simpl andb.
  rewrite (split_tilde_glue b' a Hb Ha), Hb, (opt_align_of a Ha). reflexivity.
Qed.

Lemma atom_glue_wf : forall k w a, k = SYMBOL \/ k = STRING -> tok_class k w ->
  (a = [] \/ m_align a = Some (a, [])) -> wf_atom_text (w ++ a) = true.
Proof.
  intros k w a [K|K] C Ha; subst k; simpl in C.
  - unfold wf_symbol in C. destruct w as [|c w']; [discriminate|].
    apply andb_true_iff in C. destruct C as [C1 C2].
    assert (C2' := C2). simpl in C2'. apply andb_true_iff in C2'. destruct C2' as [Nc _].
    destruct (is_name_excl c Nc) as [_ [_ [_ [_ [_ [_ [E34 _]]]]]]].
    unfold wf_atom_text.
    assert (M : m_string ((c :: w') ++ a) = None).
    { change ((c :: w') ++ a) with (c :: (w' ++ a)). unfold m_string. rewrite E34. reflexivity. }
    rewrite M, (split_tilde_glue (c :: w') a C2 Ha), (opt_align_of a Ha).
    unfold wf_symbol. rewrite C1, C2. reflexivity.
  - destruct C as [C1 C2]. unfold wf_atom_text.
    pose proof (m_string_app _ _ _ a C1) as M. simpl in M. rewrite M, C2, (opt_align_of a Ha). reflexivity.
Qed.

Lemma take_role_inv : forall it r it', take_role it = Ok (r, it') -> toks_ok (it_rest it) ->
  wf_role r = true /\ toks_ok (it_rest it').
Proof.
  intros it r it' H T. unfold take_role in H.
  apply bind_inv in H. destruct H as [[rt it1] [Ex H]].
  destruct (expect_inv _ _ _ _ Ex) as [rest [E1 [Ty E2]]]. subst it1.
  rewrite E1 in T. destruct (toks_ok_tail _ _ T) as [C T1].
  assert (Kr : tty rt = ROLE).
  { unfold ty_in in Ty. simpl in Ty. rewrite orb_false_r in Ty. apply tokty_eqb_true. exact Ty. }
  rewrite Kr in C.
  destruct (glue_inv _ _ _ _ H) as [[Ey Ei]|[t [r' [E3 [Ka [Ey Ei]]]]]]; subst.
  - split; [|exact T1]. rewrite <- (app_nil_r (ttext rt)). apply role_glue_wf; [exact C | left; reflexivity].
  - simpl in E3. rewrite E3 in T1. destruct (toks_ok_tail _ _ T1) as [Ca T2]. rewrite Ka in Ca.
    split; [|exact T2]. apply role_glue_wf; [exact C | right; exact Ca].
Qed.

Lemma take_atom_inv : forall it c it' t, take_atom it = Ok (c, it') -> toks_ok (it_rest it) ->
  peek it = Ok t -> ty_in (tty t) [SYMBOL; STRING] = true ->
  wf_atom_text c = true /\ toks_ok (it_rest it').
Proof.
  intros it c it' t H T P Ty. unfold take_atom in H.
  apply bind_inv in H. destruct H as [[tg it1] [Nx H]].
  destruct (next_inv _ _ _ Nx) as [rest [E1 E2]]. subst it1.
  destruct (peek_inv _ _ P) as [rest' E1']. rewrite E1' in E1. inversion E1. subst tg rest'. clear E1.
  rewrite E1' in T. destruct (toks_ok_tail _ _ T) as [C T1].
  assert (K : tty t = SYMBOL \/ tty t = STRING).
  { unfold ty_in in Ty. simpl in Ty. rewrite orb_false_r in Ty. apply orb_true_iff in Ty.
    destruct Ty as [Ty|Ty]; apply tokty_eqb_true in Ty; [left | right]; exact Ty. }
  destruct (glue_inv _ _ _ _ H) as [[Ey Ei]|[ta [r' [E3 [Ka [Ey Ei]]]]]]; subst.
  - split; [|exact T1]. rewrite <- (app_nil_r (ttext t)).
    apply (atom_glue_wf (tty t)); [exact K | exact C | left; reflexivity].
  - simpl in E3. rewrite E3 in T1. destruct (toks_ok_tail _ _ T1) as [Ca T2]. rewrite Ka in Ca.
    split; [|exact T2]. apply (atom_glue_wf (tty t)); [exact K | exact C | right; exact Ca].
Qed.

Lemma wf_role_not_slash : forall r, wf_role r = true -> str_eqb r SLASHS = false.
Proof.
  intros [|c r] H; [discriminate|]. unfold wf_role in H. apply andb_true_iff in H.
  destruct H as [H _]. apply eqc_true in H. subst c. reflexivity.
Qed.

Definition PNI (pn : titer -> outcome (node * titer)) : Prop :=
  forall it1 n1 it1', pn it1 = Ok (n1, it1') -> toks_ok (it_rest it1) ->
  wf_node n1 = true /\ toks_ok (it_rest it1').

Lemma edges_loop_wf : forall pn v, PNI pn -> forall g acc it n it',
  edges_loop pn v g acc it = Ok (n, it') -> toks_ok (it_rest it) ->
  exists bs, n = Node (AStr (ttext v)) (rev acc ++ bs) /\
             forallb (wf_branch wf_node) bs = true /\ forallb not_slash bs = true /\
             toks_ok (it_rest it').
Proof.
  intros pn v Hpn. induction g as [|g IH]; intros acc it n it' H T; [discriminate|].
  rewrite edges_loop_S' in H.
  apply bind_inv in H. destruct H as [t [P H]].
  destruct (tokty_eqb (tty t) RPAREN) eqn:ER.
  - apply bind_inv in H. destruct H as [[t' it1] [Ex H]]. inversion H. subst.
    destruct (expect_inv _ _ _ _ Ex) as [rest [E1 [_ E2]]]. subst it'.
    rewrite E1 in T. destruct (toks_ok_tail _ _ T) as [_ T1].
    exists []. rewrite app_nil_r. repeat split. exact T1.
  - apply bind_inv in H. destruct H as [[role it1] [TR H]].
    destruct (take_role_inv _ _ _ TR T) as [WR T1].
    pose proof (wf_role_not_slash _ WR) as NS.
    apply bind_inv in H. destruct H as [nx [P1 H]].
    assert (Step : forall tg it2, wf_branch wf_node (role, tg) = true -> toks_ok (it_rest it2) ->
              edges_loop pn v g ((role, tg) :: acc) it2 = Ok (n, it') ->
              exists bs, n = Node (AStr (ttext v)) (rev acc ++ bs) /\
                forallb (wf_branch wf_node) bs = true /\ forallb not_slash bs = true /\
                toks_ok (it_rest it')).
    { intros tg it2 Wb T2 E. destruct (IH _ _ _ _ E T2) as [bs [En [W1 [W2 T3]]]].
      exists ((role, tg) :: bs). split; [|split; [|split]].
      - rewrite En. simpl rev. rewrite <- app_assoc. reflexivity.
      - simpl. rewrite Wb, W1. reflexivity.
      - simpl. unfold not_slash at 1. simpl. rewrite NS, W2. reflexivity.
      - exact T3. }
    destruct (ty_in (tty nx) [SYMBOL; STRING]) eqn:E1.
    + apply bind_inv in H. destruct H as [[target it2] [TA H]].
      destruct (take_atom_inv _ _ _ _ TA T1 P1 E1) as [WA T2].
      apply (Step (TAtom (AStr target)) it2); [|exact T2 | exact H].
      unfold wf_branch. simpl. rewrite NS, WR, WA. reflexivity.
    + destruct (tokty_eqb (tty nx) LPAREN) eqn:E2.
      * apply bind_inv in H. destruct H as [[n1 it2] [PN1 H]].
        destruct (Hpn _ _ _ PN1 T1) as [Wn T2].
        apply (Step (TNode n1) it2); [|exact T2 | exact H].
        unfold wf_branch. simpl. rewrite NS, WR, Wn. reflexivity.
      * destruct (ty_in (tty nx) [ROLE; RPAREN]) eqn:E3; [|unfold err_at in H; discriminate].
        apply (Step (TAtom ANone) it1); [|exact T1 | exact H].
        unfold wf_branch. simpl. rewrite NS, WR. reflexivity.
Qed.

Lemma parse_concept_wf : forall it t edges0 it', parse_concept it t = Ok (edges0, it') ->
  toks_ok (it_rest it) ->
  toks_ok (it_rest it') /\
  (edges0 = [] \/ exists tg, edges0 = [(SLASHS, tg)] /\ wf_atom_target tg = true).
Proof.
  intros it t edges0 it' H T. rewrite parse_concept_eq in H.
  destruct (tokty_eqb (tty t) SLASH).
  - apply bind_inv in H. destruct H as [[x it1] [Nx H]].
    destruct (next_inv _ _ _ Nx) as [rest [E1 E2]]. subst it1.
    rewrite E1 in T. destruct (toks_ok_tail _ _ T) as [_ T1].
    apply bind_inv in H. destruct H as [t2 [P2 H]].
    destruct (ty_in (tty t2) [SYMBOL; STRING]) eqn:E.
    + apply bind_inv in H. destruct H as [[concept it2] [TA H]]. inversion H. subst.
      destruct (take_atom_inv _ _ _ _ TA T1 P2 E) as [WA T2].
      split; [exact T2|]. right. exists (TAtom (AStr concept)). split; [reflexivity | exact WA].
    + inversion H. subst. split; [exact T1|]. right. exists (TAtom ANone). split; reflexivity.
  - inversion H. subst. split; [exact T | left; reflexivity].
Qed.

Lemma parse_node_wf : forall f, PNI (parse_node f).
Proof.
  induction f as [|f IH]; intros it n it' H T; [discriminate|].
  rewrite parse_node_S in H.
  apply bind_inv in H. destruct H as [[t0 it1] [Ex H]].
  destruct (expect_inv _ _ _ _ Ex) as [rest [E1 [_ E2]]]. subst it1.
  rewrite E1 in T. destruct (toks_ok_tail _ _ T) as [_ T1].
  apply bind_inv in H. destruct H as [t [P H]].
  destruct (tokty_eqb (tty t) RPAREN).
  - apply bind_inv in H. destruct H as [[t' it2] [Ex2 H]]. inversion H. subst.
    destruct (expect_inv _ _ _ _ Ex2) as [rest2 [E3 [_ E4]]]. subst it'.
    simpl in E3. rewrite E3 in T1. destruct (toks_ok_tail _ _ T1) as [_ T2].
    split; [reflexivity | exact T2].
  - apply bind_inv in H. destruct H as [[v it2] [Ex2 H]].
    destruct (expect_inv _ _ _ _ Ex2) as [rest2 [E3 [Ty E4]]]. subst it2.
    simpl in E3. rewrite E3 in T1. destruct (toks_ok_tail _ _ T1) as [Cv T2].
    assert (Kv : tty v = SYMBOL).
    { unfold ty_in in Ty. simpl in Ty. rewrite orb_false_r in Ty. apply tokty_eqb_true. exact Ty. }
    rewrite Kv in Cv. simpl in Cv.
    apply bind_inv in H. destruct H as [t2 [P2 H]].
    apply bind_inv in H. destruct H as [[edges0 it3] [PC H]].
    destruct (parse_concept_wf _ _ _ _ PC T2) as [T3 E0].
    destruct (edges_loop_wf _ v IH _ _ _ _ _ H T3) as [bs [En [W1 [W2 T4]]]].
    split; [|exact T4]. rewrite En, rev_involutive, wf_node_eq, Cv.
    destruct E0 as [E0|[tg [E0 Wt]]]; subst edges0.
    + simpl app. rewrite W1. simpl. destruct bs as [|b bs']; [reflexivity|].
      simpl in W2. apply andb_true_iff in W2. destruct W2 as [_ W2]. exact W2.
    + simpl app. simpl forallb. unfold wf_branch at 1. simpl. rewrite Wt, W1. simpl. exact W2.
Qed.

(* ------------------------------------------------------------------ *)
(** * Scanning a comment keeps the metadata well formed *)

(* ------------------------------------------------------------------ *)
(* generic partition_at facts *)

Lemma partition_at_cons : forall sep c s, partition_at sep (c :: s) =
  if startswith (c :: s) sep then ([], true, skipn (length sep) (c :: s))
  else let '(a, f, b) := partition_at sep s in
       if f then (c :: a, true, b) else (c :: a, false, []).
Proof. reflexivity. Qed.

Lemma startswith_split : forall p s, startswith s p = true -> s = p ++ skipn (length p) s.
Proof.
  induction p as [|c p IH]; intros s H; [reflexivity|].
  destruct s as [|d s]; [discriminate H|].
  cbn [startswith] in H. apply andb_true_iff in H. destruct H as [H1 H2].
  apply eqc_true in H1. subst d.
  cbn [length skipn app]. f_equal. apply IH. exact H2.
Qed.

Lemma partition_at_found : forall sep s a b,
  partition_at sep s = (a, true, b) -> s = a ++ sep ++ b.
Proof.
  intros sep. induction s as [|c s IH]; intros a b H; [discriminate H|].
  rewrite partition_at_cons in H.
  destruct (startswith (c :: s) sep) eqn:SW.
  - inversion H; subst. cbn [app]. apply startswith_split. exact SW.
  - destruct (partition_at sep s) as [[a' f'] b'] eqn:P.
    destruct f'; [|discriminate H].
    inversion H; subst. cbn [app]. f_equal. apply IH. reflexivity.
Qed.

(* ------------------------------------------------------------------ *)
(* the two-colon separator: first occurrence *)

Lemma partition_at_dc_first_aux : forall a b,
  partition_at DCOLON (a ++ DCOLON ++ b) = (a, true, b) -> no_dcolon (a ++ [58%N]) = true.
Proof.
  induction a as [|c a IH]; intros b H; [reflexivity|].
  change ((c :: a) ++ DCOLON ++ b) with (c :: (a ++ DCOLON ++ b)) in H.
  rewrite partition_at_cons in H.
  destruct (startswith (c :: a ++ DCOLON ++ b) DCOLON) eqn:SW; [discriminate H|].
  destruct (partition_at DCOLON (a ++ DCOLON ++ b)) as [[a2 f2] b2] eqn:P.
  destruct f2; [|discriminate H].
  inversion H; subst a2 b2.
  specialize (IH b P).
  destruct a as [|d a'].
  - change ([] ++ DCOLON ++ b) with (58%N :: 58%N :: b) in SW.
    rewrite startswith_dc in SW.
    change (no_dcolon ([c] ++ [58%N])) with (negb (eqc c 58 && eqc 58 58) && true).
    rewrite SW. reflexivity.
  - change ((d :: a') ++ DCOLON ++ b) with (d :: (a' ++ DCOLON ++ b)) in SW.
    rewrite startswith_dc in SW.
    change (no_dcolon ((c :: d :: a') ++ [58%N])) with
      (negb (eqc c 58 && eqc d 58) && no_dcolon ((d :: a') ++ [58%N])).
    rewrite SW, IH. reflexivity.
Qed.

Lemma partition_at_dc_spec : forall x a b,
  partition_at DCOLON x = (a, true, b) ->
  x = a ++ DCOLON ++ b /\ no_dcolon (a ++ [58%N]) = true.
Proof.
  intros x a b H. pose proof (partition_at_found _ _ _ _ H) as E.
  split; [exact E|]. subst x. apply (partition_at_dc_first_aux a b). exact H.
Qed.

Lemma rpartition_dc_spec : forall c head meta,
  rpartition DCOLON c = (head, true, meta) ->
  c = head ++ DCOLON ++ meta /\ no_dcolon meta = true /\ hd 0%N meta <> 58%N.
Proof.
  intros c head meta H. unfold rpartition in H.
  change (rev DCOLON) with DCOLON in H.
  destruct (partition_at DCOLON (rev c)) as [[a f] b] eqn:P.
  destruct f; [|discriminate H].
  inversion H; subst head meta.
  apply partition_at_dc_spec in P. destruct P as [E ND].
  rewrite no_dcolon_snoc in ND. apply andb_true_iff in ND. destruct ND as [ND1 ND2].
  split; [|split].
  - rewrite <- (rev_involutive c), E.
    rewrite rev_app_distr, rev_app_distr. rewrite <- app_assoc. reflexivity.
  - rewrite no_dcolon_rev. exact ND1.
  - rewrite <- last_rev_hd, rev_involutive.
    intros L. rewrite L in ND2. discriminate ND2.
Qed.

(* ------------------------------------------------------------------ *)
(* the space separator *)

Lemma partition_sp_spec : forall s k (fl : bool) v,
  partition_at [32%N] s = (k, fl, v) ->
  isin 32%N k = false /\ s = k ++ (if fl then 32%N :: v else []) /\ (fl = false -> v = []).
Proof.
  induction s as [|c s IH]; intros k fl v H.
  - inversion H; subst. repeat split; reflexivity.
  - rewrite partition_at_cons in H.
    cbn [startswith] in H.
    replace (startswith s []) with true in H by (destruct s; reflexivity).
    rewrite andb_true_r in H.
    destruct (eqc 32 c) eqn:E.
    + inversion H; subst. apply eqc_true in E. subst c.
      repeat split; try reflexivity. intros X; discriminate X.
    + destruct (partition_at [32%N] s) as [[k' f'] v'] eqn:P.
      destruct (IH k' f' v' eq_refl) as [I1 [I2 I3]].
      destruct f'; inversion H; subst k fl v.
      * split; [|split].
        -- unfold isin. cbn [existsb]. rewrite E. exact I1.
        -- cbn [app]. f_equal. exact I2.
        -- intros X; discriminate X.
      * split; [|split].
        -- unfold isin. cbn [existsb]. rewrite E. exact I1.
        -- cbn [app]. f_equal. exact I2.
        -- intros _. reflexivity.
Qed.

(* ------------------------------------------------------------------ *)
(* substrings *)

Lemma no_dcolon_app : forall a b, no_dcolon (a ++ b) = true ->
  no_dcolon a = true /\ no_dcolon b = true.
Proof.
  induction a as [|c a IH]; intros b H; [split; [reflexivity | exact H]|].
  destruct a as [|d a'].
  - split; [reflexivity|]. change ([c] ++ b) with (c :: b) in H.
    destruct b as [|e b']; [reflexivity|].
    change (no_dcolon (c :: e :: b')) with (negb (eqc c 58 && eqc e 58) && no_dcolon (e :: b')) in H.
    apply andb_true_iff in H. destruct H as [_ H]. exact H.
  - change ((c :: d :: a') ++ b) with (c :: d :: (a' ++ b)) in H.
    change (no_dcolon (c :: d :: a' ++ b)) with
      (negb (eqc c 58 && eqc d 58) && no_dcolon ((d :: a') ++ b)) in H.
    apply andb_true_iff in H. destruct H as [H1 H2].
    destruct (IH b H2) as [I1 I2]. split; [|exact I2].
    change (no_dcolon (c :: d :: a')) with (negb (eqc c 58 && eqc d 58) && no_dcolon (d :: a')).
    rewrite H1, I1. reflexivity.
Qed.

Lemma lstrip_ws_suffix : forall s, exists p, s = p ++ lstrip_ws s.
Proof.
  induction s as [|c s [p IH]]; [exists []; reflexivity|].
  cbn [lstrip_ws]. destruct (py_isspace c).
  - exists (c :: p). cbn [app]. f_equal. exact IH.
  - exists []. reflexivity.
Qed.

Lemma rstrip_ws_prefix : forall v, exists q, v = rstrip_ws v ++ q.
Proof.
  intros v. destruct (lstrip_ws_suffix (rev v)) as [p E].
  exists (rev p). unfold rstrip_ws. rewrite <- rev_app_distr, <- E.
  symmetry. apply rev_involutive.
Qed.

Lemma lstrip_ws_idem : forall s, lstrip_ws (lstrip_ws s) = lstrip_ws s.
Proof.
  induction s as [|c s IH]; [reflexivity|].
  cbn [lstrip_ws]. destruct (py_isspace c) eqn:E; [exact IH|].
  cbn [lstrip_ws]. rewrite E. reflexivity.
Qed.

Lemma rstrip_ws_idem : forall v, rstrip_ws (rstrip_ws v) = rstrip_ws v.
Proof.
  intros v. unfold rstrip_ws. rewrite rev_involutive, lstrip_ws_idem. reflexivity.
Qed.

Lemma wf_meta_value_rstrip : forall v, no_lfcr v = true -> no_dcolon v = true ->
  wf_meta_value (rstrip_ws v) = true.
Proof.
  intros v L D. destruct (rstrip_ws_prefix v) as [q E].
  unfold wf_meta_value.
  rewrite E, no_lfcr_app in L. apply andb_true_iff in L. destruct L as [L _].
  rewrite E in D. apply no_dcolon_app in D. destruct D as [D _].
  rewrite L, D, rstrip_ws_idem, str_eqb_same. reflexivity.
Qed.

(* ------------------------------------------------------------------ *)
(* dset preserves well-formedness *)

Lemma key_in_dset : forall x k v (d : dict str str),
  key_in x (dset str_eqb k v d) = key_in x d || str_eqb x k.
Proof.
  intros x k v. induction d as [|[k' v'] d IH].
  - unfold key_in. cbn [dset existsb fst]. rewrite orb_false_r. reflexivity.
  - cbn [dset]. destruct (str_eqb k k') eqn:E.
    + apply str_eqb_true in E. subst k'.
      unfold key_in. cbn [existsb fst].
      destruct (str_eqb x k); destruct (existsb (fun kv => str_eqb x (fst kv)) d); reflexivity.
    + unfold key_in in *. cbn [existsb fst]. rewrite IH. rewrite orb_assoc. reflexivity.
Qed.

Lemma dset_nodup : forall k v (d : dict str str),
  nodup_keys d = true -> nodup_keys (dset str_eqb k v d) = true.
Proof.
  intros k v. induction d as [|[k' v'] d IH]; intros H; [reflexivity|].
  cbn [nodup_keys] in H. apply andb_true_iff in H. destruct H as [H1 H2].
  cbn [dset]. destruct (str_eqb k k') eqn:E.
  - cbn [nodup_keys]. rewrite H1, H2. reflexivity.
  - cbn [nodup_keys]. rewrite (IH H2), andb_true_r.
    fold (key_in k' (dset str_eqb k v d)). rewrite key_in_dset.
    fold (key_in k' d) in H1. apply negb_true_iff in H1. rewrite H1.
    rewrite str_eqb_sym, E. reflexivity.
Qed.

Definition wf_entry (kv : str * str) : bool := wf_meta_key (fst kv) && wf_meta_value (snd kv).

Lemma dset_forallb : forall k v (d : dict str str),
  wf_meta_key k = true -> wf_meta_value v = true ->
  forallb wf_entry d = true -> forallb wf_entry (dset str_eqb k v d) = true.
Proof.
  intros k v d Hk Hv. induction d as [|[k' v'] d IH]; intros H.
  - cbn [dset forallb]. unfold wf_entry. cbn [fst snd]. rewrite Hk, Hv. reflexivity.
  - cbn [forallb] in H. apply andb_true_iff in H. destruct H as [H1 H2].
    cbn [dset]. destruct (str_eqb k k') eqn:E.
    + apply str_eqb_true in E. subst k'.
      cbn [forallb]. rewrite H2. unfold wf_entry. cbn [fst snd]. rewrite Hk, Hv. reflexivity.
    + cbn [forallb]. rewrite H1, (IH H2). reflexivity.
Qed.

Lemma dset_wf_meta : forall k v md,
  wf_meta_key k = true -> wf_meta_value v = true -> wf_meta md = true ->
  wf_meta (dset str_eqb k v md) = true.
Proof.
  intros k v md Hk Hv H. unfold wf_meta in *.
  apply andb_true_iff in H. destruct H as [H1 H2].
  fold wf_entry in H1. fold wf_entry.
  rewrite (dset_forallb k v md Hk Hv H1), (dset_nodup k v md H2). reflexivity.
Qed.

(* ------------------------------------------------------------------ *)
(* one step: the entry extracted from a comment is well-formed *)

Lemma meta_entry_wf : forall meta key (fl : bool) value,
  no_lfcr meta = true -> no_dcolon meta = true -> hd 0%N meta <> 58%N ->
  partition [32%N] meta = (key, fl, value) ->
  wf_meta_key key = true /\ wf_meta_value (rstrip_ws value) = true.
Proof.
  intros meta key fl value L D Hd P. unfold partition in P.
  apply partition_sp_spec in P. destruct P as [S [E V]].
  assert (LK : no_lfcr key = true /\ no_lfcr value = true).
  { rewrite E, no_lfcr_app in L. apply andb_true_iff in L. destruct L as [L1 L2].
    split; [exact L1|]. destruct fl; [|rewrite (V eq_refl); reflexivity].
    change (32%N :: value) with ([32%N] ++ value) in L2. rewrite no_lfcr_app in L2.
    apply andb_true_iff in L2. destruct L2 as [_ L2]. exact L2. }
  assert (DK : no_dcolon key = true /\ no_dcolon value = true).
  { destruct fl.
    - rewrite E, no_dcolon_sp in D. apply andb_true_iff in D. exact D.
    - rewrite (V eq_refl). rewrite E, app_nil_r in D. split; [exact D | reflexivity]. }
  destruct LK as [LK LV]. destruct DK as [DK DV].
  split.
  - unfold wf_meta_key. rewrite LK, S, DK. cbn [negb andb].
    destruct key as [|c key']; [reflexivity|].
    rewrite E in Hd. cbn [app hd] in Hd. apply eqc_neq in Hd. rewrite Hd. reflexivity.
  - apply wf_meta_value_rstrip; assumption.
Qed.

(* ------------------------------------------------------------------ *)
(* main theorem *)

Theorem comment_meta_wf : forall f c md,
  no_lfcr c = true -> wf_meta md = true -> wf_meta (comment_meta f c md) = true.
Proof.
  induction f as [|f IH]; intros c md Hc Hmd; [exact Hmd|].
  destruct c as [|c0 s]; [exact Hmd|].
  rewrite comment_meta_S.
  destruct (rpartition DCOLON (c0 :: s)) as [[head found] meta] eqn:R.
  destruct found; [|exact Hmd].
  destruct (partition [32%N] meta) as [[key fl] value] eqn:P.
  apply rpartition_dc_spec in R. destruct R as [E [D Hd]].
  rewrite E, no_lfcr_app, no_lfcr_app in Hc.
  apply andb_true_iff in Hc. destruct Hc as [Hh Hc].
  apply andb_true_iff in Hc. destruct Hc as [_ Hm].
  destruct (meta_entry_wf meta key fl value Hm D Hd P) as [WK WV].
  apply IH; [exact Hh|].
  apply dset_wf_meta; assumption.
Qed.



(* ------------------------------------------------------------------ *)
(** * Every accepted string parses to a well-formed tree; fixed point *)

Lemma parse_comments_wf : forall f it md md' it', parse_comments f it md = Ok (md', it') ->
  toks_ok (it_rest it) -> wf_meta md = true -> wf_meta md' = true /\ toks_ok (it_rest it').
Proof.
  induction f as [|f IH]; intros it md md' it' H T W; [discriminate|].
  rewrite parse_comments_S in H.
  apply bind_inv in H. destruct H as [t [P H]].
  destruct (tokty_eqb (tty t) COMMENT) eqn:E.
  - apply bind_inv in H. destruct H as [[c it1] [Nx H]]. cbv zeta in H.
    destruct (next_inv _ _ _ Nx) as [rest [E1 E2]]. subst it1.
    destruct (peek_inv _ _ P) as [rest' E1']. rewrite E1' in E1. inversion E1. subst c rest'.
    rewrite E1' in T. destruct (toks_ok_tail _ _ T) as [C T1].
    apply tokty_eqb_true in E. rewrite E in C. simpl in C. destruct C as [a [Ea Ha]].
    assert (Nl : no_lfcr (ttext t) = true) by (rewrite Ea; simpl; exact Ha).
    rewrite (rstrip_crlf_id _ Nl) in H.
    apply (IH _ _ _ _ H T1). apply comment_meta_wf; assumption.
  - inversion H. subst. split; assumption.
Qed.

Theorem parse_tree_wf : forall it t it', parse_tree it = Ok (t, it') -> toks_ok (it_rest it) ->
  wf_tree t = true /\ toks_ok (it_rest it').
Proof.
  intros it t it' H T. unfold parse_tree in H.
  apply bind_inv in H. destruct H as [[md it1] [PC H]].
  destruct (parse_comments_wf _ _ _ _ _ PC T eq_refl) as [Wm T1].
  apply bind_inv in H. destruct H as [[n it2] [PN H]]. inversion H. subst.
  destruct (parse_node_wf _ _ _ _ PN T1) as [Wn T2].
  split; [|exact T2]. unfold wf_tree. simpl. rewrite Wm, Wn. reflexivity.
Qed.

Theorem parse_wf : forall s t, parse s = Ok t -> wf_tree t = true.
Proof.
  intros s t H. unfold parse in H. apply bind_inv in H. destruct H as [[t' it'] [P H]].
  inversion H. subst t'.
  destruct (parse_tree_wf _ _ _ P (lex_str_class s)) as [W _]. exact W.
Qed.

Theorem parse_fixpoint : forall s t indent compact, parse s = Ok t ->
  parse (format indent compact t) = Ok t.
Proof. intros s t indent compact H. apply parse_format_roundtrip. exact (parse_wf s t H). Qed.
