(** End-to-end composition with ALIGNMENT markers (C03): a well-formed connected
    graph whose epidata also holds printable alignment markers survives
    encode then decode -- triples, top, role alignments, and the alignments of
    every triple whose target is written as an atom.

    Built on Proofs/Configure_content_aln.v (the placement theorem with the
    markers carried along) and the pieces of Proofs/EndToEnd_lemmas.v. *)
From PM Require Import Spec.WellFormed Spec.WfLayout Spec.GraphEq Spec.Reading Impl.Codec Impl.Layout.
From PM Require Proofs.Errors_lemmas Proofs.LexBoundary_lemmas Proofs.Rearrange_lemmas.
From PM Require Import Proofs.Model_lemmas Proofs.Roundtrip_lemmas Proofs.Configure_fast
  Proofs.Configure_term Proofs.Configure_content Proofs.Configure_complete Proofs.Interpret_lemmas
  Proofs.EndToEnd_lemmas Proofs.Configure_content_aln.
From Coq Require Import Lia NArith ZArith.

(* ------------------------------------------------------------------ *)
(** * Printing an alignment marker and parsing it back *)

(* the prefix is absent, one ASCII letter, or one ASCII letter and a period;
   there is at least one index *)
Definition pre_printable (pre : option str) : bool :=
  match pre with
  | None => true
  | Some [c] => is_ascii_alpha c
  | Some [c; d] => is_ascii_alpha c && eqc d 46
  | Some _ => false
  end.
Definition aln_printable (idx : list N) (pre : option str) : bool :=
  match idx with [] => false | _ => true end && pre_printable pre.
Definition epi_printable (e : epi) : bool :=
  match e with Aln i p | RAln i p => aln_printable i p | _ => true end.

Definition digits_list (idx : list N) : str := join [44%N] (map N_to_str idx).
Definition tail_text (rest : list N) : str := concat (map (fun n => 44%N :: N_to_str n) rest).

Lemma digits_list_cons : forall n rest, digits_list (n :: rest) = N_to_str n ++ tail_text rest.
Proof.
  intros n rest. revert n. induction rest as [|k rest IH]; intros n.
  - unfold digits_list, tail_text. simpl. rewrite app_nil_r. reflexivity.
  - specialize (IH k). unfold digits_list in *. cbn [map] in *.
    change (join [44%N] (N_to_str n :: N_to_str k :: map N_to_str rest))
      with (N_to_str n ++ [44%N] ++ join [44%N] (N_to_str k :: map N_to_str rest)).
    rewrite IH. unfold tail_text. cbn [map concat app]. reflexivity.
Qed.

Lemma nts_fuel_digits : forall f n acc, forallb is_digit acc = true ->
  forallb is_digit (N_to_str_fuel f n acc) = true.
Proof.
  induction f as [|f IH]; intros n acc H; [exact H|].
  cbn [N_to_str_fuel].
  assert (D : is_digit (digit_char (n mod 10)) = true).
  { unfold is_digit, digit_char. pose proof (N.mod_lt n 10 ltac:(lia)) as L.
    remember (n mod 10)%N as r eqn:Hr. clear Hr.
    apply andb_true_iff. split; apply N.leb_le; lia. }
  destruct (N.eqb (n / 10) 0).
  - cbn [forallb]. rewrite D, H. reflexivity.
  - apply IH. cbn [forallb]. rewrite D, H. reflexivity.
Qed.

Lemma N_to_str_digits : forall n, forallb is_digit (N_to_str n) = true.
Proof. intros n. unfold N_to_str. apply nts_fuel_digits. reflexivity. Qed.

Lemma N_to_str_cons : forall n, exists d ds, N_to_str n = d :: ds /\ is_digit d = true.
Proof.
  intros n. pose proof (N_to_str_digits n) as D.
  destruct (N_to_str n) as [|d ds] eqn:E; [exfalso; exact (Errors_lemmas.N_to_str_nonempty n E)|].
  exists d, ds. split; [reflexivity|]. simpl in D. apply andb_true_iff in D. tauto.
Qed.

Lemma parse_int_N_to_str : forall n, parse_int (N_to_str n) = Some n.
Proof.
  intros n. unfold parse_int. pose proof (N_to_str_digits n) as D.
  destruct (Errors_lemmas.N_to_str_spec n) as (V & _). cbv zeta in V.
  destruct (N_to_str n) as [|d ds] eqn:E; [exfalso; exact (Errors_lemmas.N_to_str_nonempty n E)|].
  rewrite D, V. reflexivity.
Qed.

Lemma parse_ints_N_to_str : forall idx, parse_ints (map N_to_str idx) = Some idx.
Proof.
  induction idx as [|n idx IH]; [reflexivity|].
  cbn [map parse_ints]. rewrite parse_int_N_to_str, IH. reflexivity.
Qed.

Lemma digit_not_comma : forall c, is_digit c = true -> eqc 44 c = false.
Proof.
  intros c H. unfold is_digit in H. apply andb_true_iff in H. destruct H as [H1 H2].
  apply N.leb_le in H1. unfold eqc. apply N.eqb_neq. lia.
Qed.

Lemma split_char_digits : forall x, forallb is_digit x = true -> split_char 44 x = [x].
Proof.
  induction x as [|c x IH]; intros H; [reflexivity|].
  simpl in H. apply andb_true_iff in H. destruct H as [H1 H2].
  cbn [split_char]. rewrite (digit_not_comma c H1), (IH H2). reflexivity.
Qed.

Lemma split_char_digits_comma : forall x rest, forallb is_digit x = true ->
  split_char 44 (x ++ 44%N :: rest) = x :: split_char 44 rest.
Proof.
  induction x as [|c x IH]; intros rest H.
  - reflexivity.
  - simpl in H. apply andb_true_iff in H. destruct H as [H1 H2].
    cbn [app split_char]. rewrite (digit_not_comma c H1), (IH rest H2). reflexivity.
Qed.

Lemma split_digits_list : forall n rest,
  split_char 44 (digits_list (n :: rest)) = map N_to_str (n :: rest).
Proof.
  intros n rest. revert n. induction rest as [|k rest IH]; intros n.
  - rewrite digits_list_cons. unfold tail_text. simpl. rewrite app_nil_r.
    apply split_char_digits, N_to_str_digits.
  - rewrite digits_list_cons. unfold tail_text. cbn [map concat app]. fold (tail_text rest).
    rewrite split_char_digits_comma by apply N_to_str_digits.
    rewrite <- digits_list_cons, IH. reflexivity.
Qed.

Lemma digit_not_alpha : forall c, is_digit c = true -> is_ascii_alpha c = false.
Proof.
  intros c H. unfold is_digit in H. apply andb_true_iff in H. destruct H as [H1 H2].
  apply N.leb_le in H1, H2. unfold is_ascii_alpha, is_ascii_lower, is_ascii_upper.
  apply orb_false_iff. split; apply andb_false_iff; left; apply N.leb_gt; lia.
Qed.

Lemma digit_not_period : forall c, is_digit c = true -> eqc c 46 = false.
Proof.
  intros c H. unfold is_digit in H. apply andb_true_iff in H. destruct H as [H1 H2].
  apply N.leb_le in H1. unfold eqc. apply N.eqb_neq. lia.
Qed.

Lemma digit_not_tilde : forall c, is_digit c = true -> eqc TILDE c = false.
Proof.
  intros c H. unfold is_digit in H. apply andb_true_iff in H. destruct H as [H1 H2].
  apply N.leb_le in H2. unfold eqc, TILDE. apply N.eqb_neq. lia.
Qed.

Lemma alpha_not_tilde : forall c, is_ascii_alpha c = true -> eqc TILDE c = false.
Proof.
  intros c H. unfold is_ascii_alpha, is_ascii_lower, is_ascii_upper in H.
  unfold eqc, TILDE. apply N.eqb_neq. intros <-. vm_compute in H. discriminate.
Qed.

Lemma digits_list_head : forall n rest, exists d r,
  digits_list (n :: rest) = d :: r /\ is_digit d = true.
Proof.
  intros n rest. rewrite digits_list_cons. destruct (N_to_str_cons n) as (d & ds & E & D).
  rewrite E. exists d, (ds ++ tail_text rest). auto.
Qed.

(* the print / parse round trip of AlignmentMarker *)
Lemma aln_print_parse : forall idx pre, aln_printable idx pre = true ->
  aln_from_string (aln_to_string idx pre) = Ok (idx, pre).
Proof.
  intros idx pre H. unfold aln_printable in H. apply andb_true_iff in H. destruct H as [Hi Hp].
  destruct idx as [|n rest]; [discriminate|]. clear Hi.
  unfold aln_to_string. rewrite aln_from_string_tilde. fold (digits_list (n :: rest)).
  destruct (digits_list_head n rest) as (d & r & Ed & Dd).
  pose proof (split_digits_list n rest) as Sp.
  pose proof (parse_ints_N_to_str (n :: rest)) as Pi.
  unfold aln_from_string.
  destruct pre as [[|c [|c2 [|c3 p]]]|]; try discriminate.
  - (* one letter *)
    simpl in Hp. cbn [app].
    assert (L : lstrip_char TILDE (c :: digits_list (n :: rest)) = c :: digits_list (n :: rest)).
    { cbn [lstrip_char]. rewrite (alpha_not_tilde c Hp). reflexivity. }
    rewrite L. cbv iota beta. rewrite Hp, Ed. cbv iota beta.
    rewrite (digit_not_period d Dd). rewrite <- Ed, Sp, Pi. reflexivity.
  - (* letter and period *)
    simpl in Hp. apply andb_true_iff in Hp. destruct Hp as [Hc H2]. cbn [app].
    assert (L : lstrip_char TILDE (c :: c2 :: digits_list (n :: rest)) = c :: c2 :: digits_list (n :: rest)).
    { cbn [lstrip_char]. rewrite (alpha_not_tilde c Hc). reflexivity. }
    rewrite L. cbv iota beta. rewrite Hc, H2. rewrite Sp, Pi. apply N.eqb_eq in H2. subst c2. reflexivity.
  - (* no prefix *)
    cbn [app].
    assert (L : lstrip_char TILDE (digits_list (n :: rest)) = digits_list (n :: rest)).
    { rewrite Ed. cbn [lstrip_char]. rewrite (digit_not_tilde d Dd). reflexivity. }
    rewrite L. rewrite Ed. cbv iota beta. rewrite (digit_not_alpha d Dd). rewrite <- Ed, Sp, Pi. reflexivity.
Qed.

(* ---- the printed marker is an ALIGNMENT lexeme ---- *)
Lemma tail_text_cases : forall rest, tail_text rest = [] \/ exists y, tail_text rest = 44%N :: y.
Proof. intros [|k rest]; [left; reflexivity|right]. unfold tail_text. simpl. eexists. reflexivity. Qed.

Lemma span_digits_tail : forall n rest,
  span is_digit (N_to_str n ++ tail_text rest) = (N_to_str n, tail_text rest).
Proof.
  intros n rest. destruct (tail_text_cases rest) as [E|[y E]]; rewrite E.
  - rewrite app_nil_r. apply span_all. apply N_to_str_digits.
  - apply span_stop; [apply N_to_str_digits|reflexivity].
Qed.

Lemma m_more_tail : forall rest f, length rest <= f -> m_more f (tail_text rest) = (tail_text rest, []).
Proof.
  induction rest as [|k rest IH]; intros f L.
  - destruct f; reflexivity.
  - destruct f as [|f']; [simpl in L; lia|].
    unfold tail_text. cbn [map concat app]. fold (tail_text rest).
    cbn [m_more]. replace (eqc 44 44) with true by reflexivity.
    rewrite span_digits_tail.
    destruct (N_to_str_cons k) as (d & ds & E & _). rewrite E.
    rewrite (IH f') by (simpl in L; lia). reflexivity.
Qed.

Lemma length_tail_text : forall rest, length rest <= length (tail_text rest).
Proof.
  induction rest as [|k rest IH]; [simpl; lia|].
  unfold tail_text in *. cbn [map concat]. rewrite app_length. simpl. lia.
Qed.

Lemma m_digits_list_print : forall n rest,
  m_digits_list (digits_list (n :: rest)) = Some (digits_list (n :: rest), []).
Proof.
  intros n rest. rewrite digits_list_cons. unfold m_digits_list.
  rewrite span_digits_tail. destruct (N_to_str_cons n) as (d & ds & E & _). rewrite E.
  rewrite m_more_tail by apply length_tail_text. reflexivity.
Qed.

Lemma wf_align_print : forall idx pre, aln_printable idx pre = true ->
  wf_align (aln_to_string idx pre) = true.
Proof.
  intros idx pre H. unfold aln_printable in H. apply andb_true_iff in H. destruct H as [Hi Hp].
  destruct idx as [|n rest]; [discriminate|]. clear Hi.
  unfold aln_to_string. fold (digits_list (n :: rest)).
  destruct (digits_list_head n rest) as (d & r & Ed & Dd).
  pose proof (m_digits_list_print n rest) as MD.
  unfold wf_align, m_align. replace (eqc TILDE 126) with true by reflexivity.
  rewrite Ed in MD |- *.
  destruct pre as [[|c [|c2 [|c3 p]]]|]; try discriminate.
  - simpl in Hp. cbn [app]. cbv iota beta zeta. rewrite Hp, MD, (digit_not_period d Dd).
    apply cfg_str_eqb_refl.
  - simpl in Hp. apply andb_true_iff in Hp. destruct Hp as [Hc H2]. cbn [app]. cbv iota beta zeta.
    rewrite Hc, H2, MD. apply cfg_str_eqb_refl.
  - cbn [app]. cbv iota beta zeta. rewrite (digit_not_alpha d Dd), MD.
    apply cfg_str_eqb_refl.
Qed.

Lemma alignment_print_parse : forall idx pre, aln_printable idx pre = true ->
  aln_from_string (aln_to_string idx pre) = Ok (idx, pre) /\
  wf_align (aln_to_string idx pre) = true.
Proof. intros idx pre H. split; [apply aln_print_parse|apply wf_align_print]; exact H. Qed.

Lemma digits_no_quote : forall s, forallb is_digit s = true -> contains_char QUOTE s = false.
Proof.
  induction s as [|c s IH]; intros H; [reflexivity|].
  simpl in H. apply andb_true_iff in H. destruct H as [H1 H2].
  rewrite contains_cons, (IH H2), orb_false_r.
  unfold is_digit in H1. apply andb_true_iff in H1. destruct H1 as [A B]. apply N.leb_le in A.
  unfold eqc, QUOTE. apply N.eqb_neq. lia.
Qed.

Lemma tail_text_no_quote : forall rest, contains_char QUOTE (tail_text rest) = false.
Proof.
  induction rest as [|k rest IH]; [reflexivity|].
  unfold tail_text in *. cbn [map concat]. rewrite contains_app, IH, orb_false_r.
  rewrite contains_cons. rewrite (digits_no_quote _ (N_to_str_digits k)). reflexivity.
Qed.

Lemma aln_print_no_quote : forall idx pre, aln_printable idx pre = true ->
  contains_char QUOTE (aln_to_string idx pre) = false.
Proof.
  intros idx pre H. unfold aln_printable in H. apply andb_true_iff in H. destruct H as [Hi Hp].
  destruct idx as [|n rest]; [discriminate|]. clear Hi.
  unfold aln_to_string. fold (digits_list (n :: rest)).
  assert (D : contains_char QUOTE (digits_list (n :: rest)) = false).
  { rewrite digits_list_cons, contains_app, tail_text_no_quote, orb_false_r.
    apply digits_no_quote, N_to_str_digits. }
  assert (A : forall c, is_ascii_alpha c = true -> eqc QUOTE c = false).
  { intros c Hc. unfold eqc, QUOTE. apply N.eqb_neq. intros <-. vm_compute in Hc. discriminate. }
  rewrite contains_cons. replace (eqc QUOTE TILDE) with false by reflexivity. cbn [orb].
  destruct pre as [[|c [|c2 [|c3 p]]]|]; try discriminate; cbn [app].
  - simpl in Hp. rewrite contains_cons, (A c Hp), D. reflexivity.
  - simpl in Hp. apply andb_true_iff in Hp. destruct Hp as [Hc H2]. apply N.eqb_eq in H2. subst c2.
    rewrite !contains_cons, (A c Hc), D. reflexivity.
  - exact D.
Qed.

(* ------------------------------------------------------------------ *)
(** * A role / an atomic target with a printed alignment appended *)

Lemma lex_role_tilde_free : forall r, lex_role r = true -> tilde_free r.
Proof.
  intros [|c r'] H; [discriminate|]. simpl in H. apply andb_true_iff in H. destruct H as [C N].
  unfold tilde_free. rewrite contains_cons, (proj2 (names_no_tilde _ N)), orb_false_r.
  apply N.eqb_eq in C. subst c. reflexivity.
Qed.

Lemma role_decorated : forall r idx pre, lex_role r = true -> aln_printable idx pre = true ->
  wf_role (r ++ aln_to_string idx pre) = true /\
  process_role (r ++ aln_to_string idx pre) = Ok (r, [RAln idx pre]) /\
  str_eqb (r ++ aln_to_string idx pre) SLASHS = false /\
  startswith (r ++ aln_to_string idx pre) [COLON] = true.
Proof.
  intros r idx pre L P. pose proof (lex_role_tilde_free r L) as TF.
  destruct r as [|c r']; [discriminate|]. simpl in L. apply andb_true_iff in L. destruct L as [C N].
  apply N.eqb_eq in C. subst c.
  pose proof (wf_align_print idx pre P) as WA. pose proof (aln_print_parse idx pre P) as PP.
  unfold aln_to_string in *. set (B := match pre with Some p => p | None => [] end ++ join [44%N] (map N_to_str idx)) in *.
  split; [|split; [|split]].
  - unfold wf_role. cbn [app]. replace (eqc 58 58) with true by reflexivity. cbn [andb].
    unfold split_tilde. rewrite (span_stop _ r' TILDE B (proj1 (names_no_tilde _ N)) eq_refl).
    rewrite N. exact WA.
  - unfold process_role. replace (str_eqb ((58%N :: r') ++ TILDE :: B) SLASHS) with false
      by (destruct r'; reflexivity).
    rewrite contains_app, contains_cons. replace (eqc TILDE TILDE) with true by reflexivity.
    rewrite orb_true_r. unfold partition. rewrite (partition_tilde_cut _ B TF).
    rewrite aln_from_string_tilde in PP. rewrite PP. reflexivity.
  - destruct r'; reflexivity.
  - cbn [app startswith]. rewrite startswith_nil. reflexivity.
Qed.

Lemma symbol_decorated : forall s idx pre, wf_symbol s = true -> aln_printable idx pre = true ->
  wf_atom_text (s ++ aln_to_string idx pre) = true /\
  process_atomic (AStr (s ++ aln_to_string idx pre)) = Ok (AStr s, [Aln idx pre]).
Proof.
  intros s idx pre H P.
  pose proof (wf_align_print idx pre P) as WA. pose proof (aln_print_parse idx pre P) as PP.
  unfold aln_to_string in *. set (B := match pre with Some p => p | None => [] end ++ join [44%N] (map N_to_str idx)) in *.
  assert (H' := H). unfold wf_symbol in H'. destruct s as [|c s]; [discriminate|].
  apply andb_true_iff in H'. destruct H' as [_ N].
  assert (N' := N). simpl in N'. apply andb_true_iff in N'. destruct N' as [Nc _].
  destruct (is_name_chars c Nc) as (Q & _).
  destruct (names_no_tilde _ N) as [N1 N2].
  split.
  - unfold wf_atom_text, m_string. cbn [app]. rewrite Q.
    unfold split_tilde. change (c :: s ++ TILDE :: B) with ((c :: s) ++ TILDE :: B).
    rewrite (span_stop _ (c :: s) TILDE B N1 eq_refl). rewrite H. exact WA.
  - unfold process_atomic. rewrite contains_app, contains_cons.
    replace (eqc TILDE TILDE) with true by reflexivity. rewrite orb_true_r. cbn [negb].
    assert (SQ : startswith ((c :: s) ++ TILDE :: B) [QUOTE] = false).
    { cbn [app startswith]. rewrite eqc_sym. unfold QUOTE. rewrite Q. reflexivity. }
    rewrite SQ. unfold partition. rewrite (partition_tilde_cut (c :: s) B N2).
    rewrite aln_from_string_tilde in PP. rewrite PP. reflexivity.
Qed.

Lemma string_decorated : forall s idx pre, lex_string s = true -> aln_printable idx pre = true ->
  wf_atom_text (s ++ aln_to_string idx pre) = true /\
  process_atomic (AStr (s ++ aln_to_string idx pre)) = Ok (AStr s, [Aln idx pre]).
Proof.
  intros s idx pre H P.
  pose proof (wf_align_print idx pre P) as WA. pose proof (aln_print_parse idx pre P) as PP.
  pose proof (aln_print_no_quote idx pre P) as NQ.
  unfold lex_string in H. apply andb_true_iff in H. destruct H as [H H3].
  apply andb_true_iff in H. destruct H as [H1 H2].
  destruct (m_string s) as [[w [|x a]]|] eqn:MS; try discriminate.
  apply cfg_str_eqb_eq in H3. subst w.
  unfold complete_string in H1. apply andb_true_iff in H1. destruct H1 as [Q1 Q2].
  destruct (endswith_quote s Q2) as [b Eb].
  split.
  - unfold wf_atom_text. rewrite (LexBoundary_lemmas.m_string_app _ _ _ (aln_to_string idx pre) MS).
    cbn [app]. rewrite H2. unfold opt_align, aln_to_string. unfold aln_to_string in WA. exact WA.
  - unfold process_atomic.
    assert (CT : contains_char TILDE (s ++ aln_to_string idx pre) = true).
    { rewrite contains_app. unfold aln_to_string. rewrite contains_cons.
      replace (eqc TILDE TILDE) with true by reflexivity. apply orb_true_r. }
    rewrite CT. cbn [negb]. rewrite (startswith_app_l s _ QUOTE Q1).
    unfold rindex. rewrite Eb, <- app_assoc. cbn [app].
    rewrite rindex_aux_last by exact NQ. rewrite Nat.add_0_l.
    assert (Ll : Nat.ltb (S (length b)) (length (b ++ QUOTE :: aln_to_string idx pre)) = true).
    { apply Nat.ltb_lt. rewrite app_length. unfold aln_to_string. simpl. lia. }
    rewrite Ll.
    replace (S (length b)) with (length (b ++ [QUOTE])) by (rewrite app_length; simpl; lia).
    change (b ++ QUOTE :: aln_to_string idx pre) with (b ++ [QUOTE] ++ aln_to_string idx pre).
    rewrite app_assoc, skipn_exact, firstn_exact, PP. reflexivity.
Qed.

Lemma text_decorated : forall s idx pre, lex_text s = true -> aln_printable idx pre = true ->
  wf_atom_text (s ++ aln_to_string idx pre) = true /\
  process_atomic (AStr (s ++ aln_to_string idx pre)) = Ok (AStr s, [Aln idx pre]).
Proof.
  intros s idx pre H P. unfold lex_text in H. apply orb_true_iff in H.
  destruct H; [apply symbol_decorated|apply string_decorated]; assumption.
Qed.

(* ------------------------------------------------------------------ *)
(** * The store behind a successful [configure], for ARBITRARY epidata *)

Theorem configure_structure_aln : forall m g top t,
  configure m g top = Ok t -> triples g <> [] -> roles_have_colon g -> pushes_name_variables g ->
  exists tp st nm,
    requested_top g top = Some tp /\
    t = mkTree (build (S (length st)) st 0) (gmeta g) /\
    WF [] st nm /\ node_var_at st 0 = tp /\
    Vars g st /\ Shape st /\
    (forall x, In x (triples g) -> is_instance x = true -> owns st (tsrc x)) /\
    exists ios, Forall2 (expressed_i m g) (triples g) ios /\
                Permutation (store_items st) (concat ios).
Proof.
  intros m g top t E NE C PV. unfold configure in E.
  destruct (triples g) as [|t0 ts] eqn:TS; [contradiction|]. rewrite <- TS in *. clear NE.
  fold (requested_top g top) in E.
  destruct (requested_top g top) as [tp|]; [|discriminate].
  destruct (mem atom_eqb tp (variables g)) eqn:Vtp; [|discriminate].
  cbn [negb] in E. cbv zeta in E.
  remember (dset atom_eqb tp (Some O) (map (fun v => (v, @None nat)) (variables g))) as nm0 eqn:Hnm0.
  remember (preconf m (triples g) (epidata g) []) as data0 eqn:Hd0.
  destruct (cnode (S (length data0)) m tp O false data0 [(tp, [])] nm0)
    as [[[[s1 data1] st1] nm1]| | | | | | | |] eqn:E1; try discriminate.
  cbn [bind] in E.
  destruct (cloop (configure_fuel (length data1)) m (drop_pops data1) [] st1 nm1)
    as [st2| | | | | | | |] eqn:E2; try discriminate.
  cbn [bind] in E. inversion E; subst t. clear E.
  pose proof (preconf_triples m (triples g) (epidata g) []) as Fpre. rewrite <- Hd0 in Fpre.
  pose proof (preconf_items m (triples g) (epidata g) []) as Fpi. rewrite <- Hd0 in Fpi.
  pose proof (pre_as_colon _ _ _ Fpre C) as C0.
  assert (W0 : WF [] [(tp, [])] nm0) by (rewrite Hnm0; apply WF_init).
  assert (N0 : exists w es, nth_error [(tp, @nil cedge)] 0 = Some (w, es) /\ atom_eqb tp w = true).
  { exists tp, []. split; [reflexivity|apply atom_eqb_refl]. }
  destruct (cnode_spec_i _ _ _ _ _ _ _ _ [] _ _ _ _ E1 W0 C0 N0) as (W1 & X1 & used & Eu & A1).
  assert (C1 : colon_ok (data_triples data1)).
  { rewrite Eu, data_triples_app in C0. apply colon_ok_app in C0. tauto. }
  assert (Cdp : colon_ok (data_triples (drop_pops data1))) by (rewrite data_triples_drop_pops; exact C1).
  destruct (cloop_spec_i _ _ _ _ _ _ _ E2 W1 Cdp (Forall_nil _)) as ([nm2 W2] & X2 & A2).
  assert (V0 : Vars g [(tp, [])]).
  { intros w es [I|[]]. inversion I; subst. exact Vtp. }
  assert (S0 : Shape [(tp, [])]).
  { intros w es [I|[]]. inversion I; subst. reflexivity. }
  assert (KK0 : keysK g nm0).
  { intros v Hv. rewrite Hnm0, dmem_dset, dmem_map_none in Hv. apply orb_true_iff in Hv.
    destruct Hv as [Hv|Hv]; [exact Hv|]. rewrite (is_var_cong g _ _ Hv). exact Vtp. }
  assert (PN0 : pushN g data0).
  { rewrite Hd0. apply preconf_pushN; [intros y Iy; apply src_is_var; exact Iy|exact PV]. }
  destruct (cnode_trace m g _ _ _ _ _ _ _ _ _ _ _ E1 V0 S0 KK0 C0 PN0 N0)
    as (V1 & S1 & K1 & _ & used' & Eu' & Hu).
  assert (used' = used) by (apply (app_inv_tail data1); rewrite <- Eu, <- Eu'; reflexivity).
  subst used'.
  assert (PN1 : pushN g data1) by (rewrite Eu in PN0; apply pushN_app in PN0; tauto).
  destruct (cloop_trace m g _ _ _ _ _ _ E2 W1 V1 S1 K1 Cdp (Forall_nil _) (pushN_drop_pops g _ PN1))
    as (V2 & S2 & X2' & H2).
  { intros tq eq0 []. }
  exists tp, st2, nm2.
  split; [reflexivity|]. split; [reflexivity|]. split; [exact W2|].
  split.
  { rewrite (ext_var_at [(tp, [])] st2 0 (ext_trans _ _ _ X1 X2)) by (simpl; lia). reflexivity. }
  split; [exact V2|]. split; [exact S2|].
  split.
  { intros x Ix Hi.
    destruct (Forall2_in_l _ _ _ _ Fpre Ix) as (o & Io & Ho).
    destruct Ho as [->|[_ F]]; [|congruence].
    rewrite Eu, data_triples_app in Io. apply in_app_or in Io. destruct Io as [Io|Io].
    - eapply owns_ext; [exact X2|]. apply Hu; assumption.
    - apply H2; [left; rewrite data_triples_drop_pops; exact Io|exact Hi]. }
  pose proof (Adds_i_app _ _ _ _ _ _ A1 A2) as A.
  rewrite data_items_drop_pops in A. simpl in A. rewrite app_nil_r, <- data_items_app, <- Eu in A.
  destruct A as (ios & Fos & Pos).
  exists ios. split.
  - pose proof (Forall2_compose _ _ _ _ _ Fpi Fos) as F.
    clear - F. induction F as [|x io xs ios (it & (Hp & Hk) & Hpl) F IH]; constructor; [|exact IH].
    exists (fst it). split; [exact Hp|].
    unfold epis_of. fold (lookup_epis (epidata g) x). rewrite <- Hk.
    destruct it as [t' k]. exact Hpl.
  - unfold store_items at 2 in Pos. unfold flat_aitems in Pos. simpl in Pos.
    rewrite app_nil_r in Pos. exact Pos.
Qed.

(* ------------------------------------------------------------------ *)
(** * Marker lists: the last marker of a class; at most one of a class *)

Lemma last_such_app : forall p a b,
  last_such p (a ++ b) = match last_such p b with Some e => Some e | None => last_such p a end.
Proof.
  intros p a b. unfold last_such. rewrite fold_left_app. generalize (fold_left (fun acc e => if p e then Some e else acc) a None).
  induction b as [|e b IH]; intros acc; [reflexivity|].
  simpl. destruct (p e).
  - rewrite IH. rewrite (IH None). destruct (fold_left (fun acc0 e0 => if p e0 then Some e0 else acc0) b None); reflexivity.
  - apply IH.
Qed.

Lemma last_such_none : forall p l, (forall e, In e l -> p e = false) -> last_such p l = None.
Proof.
  intros p l H. unfold last_such. induction l as [|e l IH]; [reflexivity|].
  simpl. rewrite (H e (or_introl eq_refl)). apply IH. intros e' I. apply H. right. exact I.
Qed.

Lemma last_such_self : forall p l, last_such p (filter p l) = last_such p l.
Proof. intros p l. apply Rearrange_lemmas.last_such_filter. auto. Qed.

Lemma last_raln_split : forall l tail, (forall e, In e tail -> is_raln e = false) ->
  last_such is_raln (filter is_raln l ++ tail) = last_such is_raln l.
Proof.
  intros l tail H. rewrite last_such_app, (last_such_none _ tail H). apply last_such_self.
Qed.

Lemma filter_aln_not_raln : forall l e, In e (filter is_aln l) -> is_raln e = false.
Proof. intros l e I. apply filter_In in I. destruct I as [_ A]. destruct e; try discriminate; reflexivity. Qed.
Lemma filter_raln_not_aln : forall l e, In e (filter is_raln l) -> is_aln e = false.
Proof. intros l e I. apply filter_In in I. destruct I as [_ A]. destruct e; try discriminate; reflexivity. Qed.

Lemma last_aln_split : forall l,
  last_such is_aln (filter is_raln l ++ filter is_aln l) = last_such is_aln l.
Proof.
  intros l. rewrite last_such_app, last_such_self.
  destruct (last_such is_aln l); [reflexivity|].
  apply last_such_none. apply filter_raln_not_aln.
Qed.

Lemma filter_keep : forall p es, (forall e, p e = true -> is_layout e = false) ->
  filter p (keep_epis es) = filter p es.
Proof.
  intros p es H. unfold keep_epis. rewrite filter_filter. apply filter_ext. intros e.
  destruct (p e) eqn:P; [rewrite (H e P); reflexivity|apply andb_false_r].
Qed.

Lemma filter_raln_keep : forall es, filter is_raln (keep_epis es) = filter is_raln es.
Proof. intros es. apply filter_keep. intros [v| |i q|i q] H; try discriminate H; reflexivity. Qed.
Lemma filter_aln_keep : forall es, filter is_aln (keep_epis es) = filter is_aln es.
Proof. intros es. apply filter_keep. intros [v| |i q|i q] H; try discriminate H; reflexivity. Qed.

Lemma existsb_filter_nil : forall {A} (p : A -> bool) l, existsb p l = false <-> filter p l = [].
Proof.
  intros A p l. induction l as [|x l IH]; [split; reflexivity|].
  simpl. destruct (p x); simpl; [split; discriminate|exact IH].
Qed.

(* at most one marker of the class, and it is printable: what is appended *)
Lemma one_marker : forall (p : epi -> bool) es,
  (forall e, p e = true -> exists i q, e = Aln i q \/ e = RAln i q) ->
  forallb epi_printable es = true -> Nat.leb (length (filter p es)) 1 = true ->
  (filter p es = [] /\ concat (map epi_str (filter p es)) = []) \/
  (exists e i q, filter p es = [e] /\ (e = Aln i q \/ e = RAln i q) /\ aln_printable i q = true /\
                 concat (map epi_str (filter p es)) = aln_to_string i q).
Proof.
  intros p es Hp Pr L. apply Nat.leb_le in L.
  destruct (filter p es) as [|e [|e2 l]] eqn:F; [left; split; reflexivity| |simpl in L; lia].
  right. assert (Ie : In e (filter p es)) by (rewrite F; left; reflexivity).
  apply filter_In in Ie. destruct Ie as [Ie Pe].
  destruct (Hp e Pe) as (i & q & He).
  rewrite forallb_forall in Pr. specialize (Pr e Ie).
  exists e, i, q. split; [reflexivity|]. split; [exact He|].
  destruct He as [-> | ->]; simpl in Pr; (split; [exact Pr|]); cbn [map concat epi_str]; apply app_nil_r.
Qed.

(* ---- the epimap keeps the FIRST entry of every triple ---- *)
Lemma dget_app_one_v : forall (V : Type) (k k' : triple) (v : V) (d : dict triple V),
  dget triple_eqb k (d ++ [(k', v)]) =
  match dget triple_eqb k d with Some x => Some x | None => if triple_eqb k k' then Some v else None end.
Proof.
  intros V k k' v d. induction d as [|[k0 v0] d IH]; simpl; [reflexivity|].
  destruct (triple_eqb k k0); [reflexivity|exact IH].
Qed.

Lemma dmem_dget : forall (V : Type) (k : triple) (d : dict triple V),
  dmem triple_eqb k d = match dget triple_eqb k d with Some _ => true | None => false end.
Proof. reflexivity. Qed.

Lemma epimap_first_wins : forall es acc t,
  dget triple_eqb t (fold_left epistep es acc) =
  match dget triple_eqb t acc with
  | Some v => Some v
  | None => option_map snd (find (fun e : epientry => triple_eqb t (fst e)) es)
  end.
Proof.
  induction es as [|[k v] es IH]; intros acc t.
  - simpl. destruct (dget triple_eqb t acc); reflexivity.
  - cbn [fold_left find fst]. rewrite IH. unfold epistep. cbn [fst].
    destruct (dmem triple_eqb k acc) eqn:D.
    + destruct (dget triple_eqb t acc) eqn:G; [reflexivity|].
      destruct (triple_eqb t k) eqn:E; [|reflexivity].
      exfalso. rewrite <- (dmem_congr _ _ _ acc E), dmem_dget, G in D. discriminate.
    + rewrite dget_app_one_v. destruct (dget triple_eqb t acc) eqn:G; [reflexivity|].
      destruct (triple_eqb t k); reflexivity.
Qed.

Lemma epimap_lookup : forall es t,
  dget triple_eqb t (epimap_of es) = option_map snd (find (fun e : epientry => triple_eqb t (fst e)) es).
Proof.
  intros es t. unfold epimap_of.
  change (fold_left _ es []) with (fold_left epistep es []). rewrite epimap_first_wins. reflexivity.
Qed.

(* ------------------------------------------------------------------ *)
(** * Formatting: re-typing the numbers of a tree does not change its text *)

Definition numok_atom (g : graph) (a : atom) : bool :=
  match a with ANum t _ => wf_symbol t && negb (is_var g (AStr t)) | _ => true end.
Definition numok_branch (g : graph) (rec : node -> bool) (b : branch) : bool :=
  match snd b with TAtom a => numok_atom g a | TNode n' => rec n' end.
Fixpoint numok_node (g : graph) (n : node) : bool :=
  match n with Node v bs => forallb (numok_branch g (numok_node g)) bs end.

Lemma numok_node_eq : forall g v bs,
  numok_node g (Node v bs) = forallb (numok_branch g (numok_node g)) bs.
Proof. reflexivity. Qed.

Lemma mem_strfy_numok : forall g vars a, vars_ok g vars -> numok_atom g a = true ->
  mem atom_eqb (strfy_atom a) vars = mem atom_eqb a vars.
Proof.
  intros g vars [|s|t z] V L; try reflexivity. simpl strfy_atom.
  simpl in L. apply andb_true_iff in L. destruct L as [_ L]. apply negb_true_iff in L.
  destruct (mem atom_eqb (AStr t) vars) eqn:M1.
  - destruct (V _ M1) as [_ V1]. congruence.
  - destruct (mem atom_eqb (ANum t z) vars) eqn:M2; [|reflexivity].
    destruct (V _ M2) as [V2 _]. discriminate.
Qed.

Lemma format_numok : forall g indent vars, vars_ok g vars ->
  forall n, numok_node g n = true ->
  forall column, format_node indent column vars (strfy_node n) = format_node indent column vars n.
Proof.
  intros g indent vars V. induction n as [v bs IHbs] using node_ind'. intros G column.
  rewrite numok_node_eq in G.
  rewrite strfy_node_eq, !format_node_eq.
  destruct (falsy v); [reflexivity|].
  destruct bs as [|b0 bs0]; [reflexivity|].
  cbn [map]. cbv iota zeta.
  change (strfy_branch strfy_node b0 :: map (strfy_branch strfy_node) bs0)
    with (map (strfy_branch strfy_node) (b0 :: bs0)).
  set (fe := fmt_edge (fun col n => format_node indent col vars n) indent (node_column indent column v)).
  assert (GP : forall l, Forall (branch_ok (fun n => numok_node g n = true ->
                 forall column, format_node indent column vars (strfy_node n) = format_node indent column vars n)) l ->
               forallb (numok_branch g (numok_node g)) l = true ->
               forall c p, go_parts fe vars (map (strfy_branch strfy_node) l) c p = go_parts fe vars l c p).
  { intros l F. induction F as [|[r tgt] l Hb F IH]; intros Gl c p; [reflexivity|].
    simpl in Gl. apply andb_true_iff in Gl. destruct Gl as [Gb Gl].
    simpl map. unfold numok_branch in Gb. cbn [fst snd] in Gb.
    destruct tgt as [a|n'].
    - change (strfy_branch strfy_node (r, TAtom a)) with (r, TAtom (strfy_atom a)).
      cbn [go_parts fst snd].
      rewrite (mem_strfy_numok g vars a V Gb).
      assert (FE : fe (r, TAtom (strfy_atom a)) = fe (r, TAtom a)).
      { unfold fe, fmt_edge. cbn [fst snd]. destruct a as [|s|t z]; try reflexivity.
        simpl in Gb. apply andb_true_iff in Gb. destruct Gb as [Gt _].
        destruct t as [|c0 t]; [discriminate|]. reflexivity. }
      rewrite FE. apply IH. exact Gl.
    - change (strfy_branch strfy_node (r, TNode n')) with (r, TNode (strfy_node n')).
      cbn [go_parts fst snd].
      assert (FE : fe (r, TNode (strfy_node n')) = fe (r, TNode n')).
      { unfold fe, fmt_edge. cbn [fst snd]. unfold branch_ok in Hb. simpl in Hb.
        rewrite (Hb Gb). reflexivity. }
      rewrite FE. apply IH. exact Gl. }
  rewrite (GP (b0 :: bs0) IHbs G). reflexivity.
Qed.

Lemma lex_target_numok : forall g a, lex_target g a = true -> numok_atom g a = true.
Proof. intros g [|s|t z] H; try reflexivity. exact H. Qed.

Lemma good_numok : forall m g n, good_node m g n = true -> numok_node g n = true.
Proof.
  intros m g. induction n as [v bs IHbs] using node_ind'. intros G.
  rewrite good_node_eq in G. apply andb_true_iff in G. destruct G as [G _].
  apply andb_true_iff in G. destruct G as [_ G3]. rewrite numok_node_eq.
  induction IHbs as [|[r tgt] bs Hb F IH]; [reflexivity|].
  simpl in G3. apply andb_true_iff in G3. destruct G3 as [Gb G3].
  simpl. rewrite (IH G3), andb_true_r.
  unfold good_branch in Gb. cbn [fst snd] in Gb. unfold numok_branch. cbn [snd].
  destruct (str_eqb r SLASHS).
  - destruct tgt as [a|n']; [apply lex_target_numok; exact Gb|discriminate].
  - apply andb_true_iff in Gb. destruct Gb as [_ Gt]. destruct tgt as [a|n'].
    + apply lex_target_numok; exact Gt.
    + unfold branch_ok in Hb. simpl in Hb. apply Hb. exact Gt.
Qed.

Lemma numok_strip : forall g n, numok_node g (strip_aln_node n) = numok_node g n.
Proof.
  intros g. induction n as [v bs IHbs] using node_ind'.
  cbn [strip_aln_node]. rewrite !numok_node_eq.
  induction IHbs as [|[r tgt] bs Hb F IH]; [reflexivity|].
  cbn [map forallb]. rewrite IH. f_equal.
  unfold strip_aln_branch, numok_branch. cbn [fst snd strip_aln_target].
  destruct tgt as [a|n'].
  - destruct a as [|s|t z]; try reflexivity. cbn [strip_aln_target]. unfold strip_aln_atom.
    destruct (negb (contains_char TILDE s)); [reflexivity|].
    destruct (startswith s [QUOTE]); [destruct (rindex QUOTE s); reflexivity|reflexivity].
  - unfold branch_ok in Hb. simpl in Hb. exact Hb.
Qed.

Lemma strip_tree_vars : forall n, tree_vars (strip_aln_node n) = tree_vars n.
Proof.
  induction n as [v bs IHbs] using node_ind'.
  cbn [strip_aln_node]. rewrite !tree_vars_eq. f_equal.
  unfold bs_vars. induction IHbs as [|[r [a|n']] bs Hb F IH]; [reflexivity| |].
  - exact IH.
  - cbn [map flat_map]. rewrite IH. unfold branch_ok in Hb. simpl in Hb.
    unfold strip_aln_branch. cbn [snd strip_aln_target]. rewrite Hb. reflexivity.
Qed.

(* ------------------------------------------------------------------ *)
(** * Printable alignments *)

Definition is_astr (a : atom) : bool := match a with AStr _ => true | _ => false end.

(* the marker list [es] of triple [x]: every alignment marker is printable; at
   most one alignment and one role alignment; no role alignment on an instance
   triple (the concept marker cannot carry one); an alignment only where the
   target is a text (a number or None would be re-typed by the suffix) *)
Definition epis_printable (x : triple) (es : list epi) : bool :=
  forallb epi_printable es &&
  Nat.leb (length (filter is_aln es)) 1 && Nat.leb (length (filter is_raln es)) 1 &&
  (negb (existsb is_raln es) || negb (is_instance x)) &&
  (negb (existsb is_aln es) || is_astr (ttgt x)).
Definition alns_printable (g : graph) : bool :=
  forallb (fun x => epis_printable x (epis_of g x)) (triples g).

Definition Kx (m : model) (x : triple) : triple := strfy_triple (tkey (deinvert m x)).

Lemma akey_is_var : forall g a b, akey a = akey b -> is_var g a = is_var g b.
Proof. intros g a b E. apply is_var_cong. apply akey_eq_iff. exact E. Qed.

Lemma items_forget_all : forall m g xs ios,
  Forall2 (expressed_i m g) xs ios -> Forall2 (expressed m) xs (map (map fst) ios).
Proof.
  intros m g xs ios F. induction F as [|x io xs iol H F IH]; cbn [map]; [constructor|].
  constructor; [|exact IH]. eapply items_forget. exact H.
Qed.

Section DecStore.
  Variable m : model.
  Variable g : graph.
  Hypothesis Wg : wf_graph m g.
  Hypothesis Lg : atoms_lexable g = true.
  Hypothesis AP : alns_printable g = true.
  Hypothesis Dm : deinverts m = true.
  Variable st : store.
  Variable nm : nmap.
  Variable ios : list (list aitem).
  Hypothesis Wst : WF [] st nm.
  Hypothesis Vst : Vars g st.
  Hypothesis Sst : Shape st.
  Hypothesis Fos : Forall2 (expressed_i m g) (triples g) ios.
  Hypothesis Pos : Permutation (store_items st) (concat ios).
  Hypothesis Own : forall x, In x (triples g) -> is_instance x = true -> owns st (tsrc x).

  Definition os_of : list (list triple) := map (map fst) ios.

  Lemma Fos' : Forall2 (expressed m) (triples g) os_of.
  Proof.
    unfold os_of. apply (items_forget_all m g). exact Fos.
  Qed.

  Lemma Pos' : Permutation (store_triples st) (concat os_of).
  Proof.
    unfold os_of. rewrite <- map_fst_store_items.
    eapply perm_trans; [apply Permutation_map, Pos|]. rewrite concat_map. apply Permutation_refl.
  Qed.

  Lemma printable_x : forall x, In x (triples g) -> epis_printable x (epis_of g x) = true.
  Proof. intros x Ix. unfold alns_printable in AP. rewrite forallb_forall in AP. apply AP. exact Ix. Qed.

  Lemma colon_g : forall x, In x (triples g) -> startswith (trole x) [COLON] = true.
  Proof.
    intros x Ix. pose proof (wf_roles m g Wg) as R. unfold roles_have_colon in R.
    rewrite Forall_forall in R. apply R. exact Ix.
  Qed.

  (* where a store edge comes from, with its marker list *)
  Lemma edge_origin : forall w es e, In (w, es) st -> In e es ->
    exists x o, In x (triples g) /\
      (o = x \/ (o = invert m x /\ is_instance x = false)) /\
      (is_instance o && missing_concept (ttgt o) = false) /\
      cedge_triple st w e = edge_of o /\ snd e = keep_epis (epis_of g x).
  Proof.
    intros w es e Iw Ie.
    assert (I : In (cedge_aitem st w e) (store_items st)).
    { unfold store_items, flat_aitems. apply in_flat_map. exists (w, es). split; [exact Iw|].
      unfold node_aitems. apply in_map. exact Ie. }
    apply (Permutation_in _ Pos) in I. apply in_concat in I. destruct I as (iox & Iio & Iit).
    destruct (Forall2_in_r _ _ _ _ Fos Iio) as (x & Ix & t' & Hpre & o & Ho & Eio).
    cbn [fst snd] in Ho, Eio. subst iox.
    unfold written_i, written in Iit.
    destruct (is_instance o && missing_concept (ttgt o)) eqn:Hw; [contradiction|].
    destruct Iit as [Eit|[]].
    unfold cedge_aitem in Eit.
    assert (Ek : cedge_triple st w e = edge_of o) by congruence.
    assert (Ee : snd e = keep_epis (epis_of g x)) by congruence.
    clear Eit.
    destruct (is_instance x) eqn:Hi.
    - destruct Hpre as [->|[_ F]]; [|congruence].
      destruct Ho as [->|[_ F]]; [|congruence].
      exists x, x. auto 6.
    - destruct (wf_invertible m g Wg x Ix Hi) as (R1 & R3 & R2).
      assert (Iinv : is_instance (invert m x) = false) by (rewrite is_instance_invert; exact R2).
      destruct Hpre as [->|[-> _]].
      + destruct Ho as [->|[-> _]].
        * exists x, x. auto 6.
        * exists x, (invert m x). auto 7.
      + destruct Ho as [->|[-> _]].
        * exists x, (invert m x). auto 7.
        * rewrite (invert_invert m x R1) in *. exists x, x. auto 6.
  Qed.

  Lemma tau_edge_of : forall x o, In x (triples g) ->
    (o = x \/ (o = invert m x /\ is_instance x = false)) ->
    is_instance o && missing_concept (ttgt o) = false ->
    tau m (edge_of o) = Kx m x.
  Proof.
    intros x o Ix Ho Hw.
    assert (Ex : expressed m x (written o)).
    { exists x. split; [left; reflexivity|]. exists o. split; [exact Ho|reflexivity]. }
    pose proof (expressed_content m x (written o) Dm (colon_g x Ix)
                  (fun Hi => wf_invertible m g Wg x Ix Hi) Ex) as C.
    unfold written in C. rewrite Hw in C. unfold tree_content in C. cbn [map] in C.
    destruct (is_written x); [|discriminate].
    assert (C1 : tkey (deinvert m (unslash (edge_of o))) = tkey (deinvert m x)) by congruence.
    unfold tau, Kx. rewrite C1. reflexivity.
  Qed.

  (* the classification of a store edge *)
  Lemma edge_class_i : forall w es r t ep, In (w, es) st -> In (r, t, ep) es ->
    exists x, In x (triples g) /\ ep = keep_epis (epis_of g x) /\
      tau m (cedge_triple st w (r, t, ep)) = Kx m x /\
      ((is_instance x = true /\ r = SLASHS /\ akey w = akey (tsrc x) /\
        exists a, t = CA a /\ akey a = akey (ttgt x) /\ missing_concept (ttgt x) = false) \/
       (is_instance x = false /\ str_eqb r SLASHS = false /\
        lex_role r = true /\ str_eqb r INSTANCE = false /\ role_stable m r = true /\
        ((akey w = akey (tsrc x) /\ akey (ctgt_atom st t) = akey (ttgt x)) \/
         (akey w = akey (ttgt x) /\ akey (ctgt_atom st t) = akey (tsrc x))))).
  Proof.
    intros w es r t ep Iw Ie.
    destruct (edge_origin w es (r, t, ep) Iw Ie) as (x & o & Ix & Ho & Hw & Ek & Eep).
    cbn [snd] in Eep. exists x. split; [exact Ix|]. split; [exact Eep|].
    split; [rewrite Ek; apply tau_edge_of; assumption|].
    unfold cedge_triple, edge_of in Ek. cbn [fst snd] in Ek. inversion Ek as [[E1 E2 E3]]. clear Ek.
    destruct (lex_triple g Lg x Ix) as (L1 & L2 & L3).
    destruct (is_instance x) eqn:Hi.
    - left. destruct Ho as [->|[_ F]]; [|congruence]. rewrite Hi in *. cbn [andb] in Hw.
      split; [reflexivity|]. split; [reflexivity|]. split; [exact E1|]. subst r.
      pose proof (slash_edges_ca es (SLASHS, t, ep) (Sst w es Iw) Ie eq_refl) as Ca.
      unfold is_ca in Ca. cbn [fst snd] in Ca. destruct t as [a|j]; [|discriminate].
      exists a. auto.
    - right. pose proof (wf_invertible m g Wg x Ix Hi) as RI.
      destruct (stable_of_invertible m _ RI) as [St1 St2]. destruct RI as (R1 & R3 & R2).
      split; [reflexivity|].
      destruct Ho as [->|[-> _]].
      + rewrite Hi in *. destruct (lex_role_facts _ L2) as (_ & _ & NS & _).
        repeat (split; [assumption|]). left. auto.
      + rewrite is_instance_invert, R2 in *.
        pose proof (lex_role_invert m _ L2) as L2'.
        destruct (lex_role_facts _ L2') as (_ & _ & NS & _).
        change (trole (invert m x)) with (invert_role m (trole x)).
        repeat (split; [assumption|]). right. auto.
  Qed.

  (* ---- what is appended to the role of an edge ---- *)
  Lemma raln_text_eq : forall ep, raln_text ep = concat (map epi_str (filter is_raln ep)).
  Proof. reflexivity. Qed.
  Lemma aln_text_eq : forall ep, aln_text ep = concat (map epi_str (filter is_aln ep)).
  Proof. reflexivity. Qed.

  Lemma printable_parts : forall x, In x (triples g) ->
    let es := epis_of g x in
    forallb epi_printable es = true /\
    Nat.leb (length (filter is_aln es)) 1 = true /\ Nat.leb (length (filter is_raln es)) 1 = true /\
    (existsb is_raln es = true -> is_instance x = false) /\
    (existsb is_aln es = true -> is_astr (ttgt x) = true).
  Proof.
    intros x Ix es. pose proof (printable_x x Ix) as P. unfold epis_printable in P. fold es in P.
    apply andb_true_iff in P. destruct P as [P P5]. apply andb_true_iff in P. destruct P as [P P4].
    apply andb_true_iff in P. destruct P as [P P3]. apply andb_true_iff in P. destruct P as [P1 P2].
    repeat (split; [assumption|]). split.
    - intros H. rewrite H in P4. simpl in P4. apply negb_true_iff in P4. exact P4.
    - intros H. rewrite H in P5. simpl in P5. exact P5.
  Qed.

  Lemma edge_role : forall w es r t ep, In (w, es) st -> In (r, t, ep) es ->
    role_name (r ++ raln_text ep) = role_name r /\
    snd (proc_role (r ++ raln_text ep)) = filter is_raln ep /\
    is_ok (process_role (r ++ raln_text ep)) = true /\
    str_eqb (r ++ raln_text ep) SLASHS = str_eqb r SLASHS /\
    (str_eqb r SLASHS = true -> r ++ raln_text ep = SLASHS /\ exists a, t = CA a) /\
    (str_eqb r SLASHS = false ->
       wf_role (r ++ raln_text ep) = true /\ role_name r = r /\
       lex_role r = true /\ str_eqb r INSTANCE = false /\ role_stable m r = true).
  Proof.
    intros w es r t ep Iw Ie.
    destruct (edge_class_i w es r t ep Iw Ie) as (x & Ix & Eep & _ & [A|B]).
    - destruct A as (Hi & -> & _ & a & -> & _).
      destruct (printable_parts x Ix) as (_ & _ & _ & P4 & _).
      assert (NR : filter is_raln ep = []).
      { rewrite Eep, filter_raln_keep. apply existsb_filter_nil.
        destruct (existsb is_raln (epis_of g x)) eqn:X; [|reflexivity].
        rewrite (P4 eq_refl) in Hi. discriminate. }
      rewrite raln_text_eq, NR. cbn [map concat]. rewrite app_nil_r.
      repeat (split; [reflexivity|]). split; [intros _; split; [reflexivity|eauto]|discriminate].
    - destruct B as (Hi & NS & Lr & Ni & St & _).
      destruct (printable_parts x Ix) as (P1 & _ & P3 & _ & _).
      destruct (lex_role_facts r Lr) as (Wr & Pr & _ & _).
      assert (RN : role_name r = r) by (unfold role_name, proc_role; rewrite Pr; reflexivity).
      rewrite raln_text_eq. rewrite Eep, filter_raln_keep.
      destruct (one_marker is_raln (epis_of g x)) as [[F T]|(e & i & q & F & He & Pq & T)];
        [intros [| | |] He; try discriminate He; eauto|exact P1|exact P3| |].
      + rewrite F. cbn [map concat]. rewrite app_nil_r.
        split; [reflexivity|]. split; [unfold proc_role; rewrite Pr; reflexivity|].
        split; [rewrite Pr; reflexivity|]. split; [reflexivity|].
        split; [intros Hs; congruence|]. intros _. auto.
      + assert (Er : e = RAln i q).
        { assert (Ie' : In e (filter is_raln (epis_of g x))) by (rewrite F; left; reflexivity).
          apply filter_In in Ie'. destruct Ie' as [_ R]. destruct He as [-> | ->]; [discriminate|reflexivity]. }
        rewrite T. rewrite F.
        destruct (role_decorated r i q Lr Pq) as (W' & P' & NS' & _).
        split; [unfold role_name, proc_role; rewrite P', Pr; reflexivity|].
        split; [unfold proc_role; rewrite P', Er; reflexivity|].
        split; [rewrite P'; reflexivity|]. split; [rewrite NS', NS; reflexivity|].
        split; [intros Hs; congruence|]. intros _. auto.
  Qed.

  Definition dec_atom (a : atom) (ep : list epi) : atom :=
    if existsb is_aln ep then AStr (atom_str a ++ aln_text ep) else a.

  Lemma edge_atom : forall w es r a ep, In (w, es) st -> In (r, CA a, ep) es ->
    lex_target g a = true /\
    wf_atom_target (TAtom (strfy_atom (dec_atom a ep))) = true /\
    process_atomic (strfy_atom (dec_atom a ep)) = Ok (strfy_atom a, filter is_aln ep).
  Proof.
    intros w es r a ep Iw Ie.
    destruct (edge_class_i w es r (CA a) ep Iw Ie) as (x & Ix & Eep & _ & C).
    destruct (lex_triple g Lg x Ix) as (L1 & L2 & L3).
    destruct (printable_parts x Ix) as (P1 & P2 & _ & _ & P5).
    (* the atom is the target of x, or its source when x is written inverted *)
    assert (La : lex_target g a = true /\
                 (existsb is_aln (epis_of g x) = true -> exists s, a = AStr s /\ lex_text s = true)).
    { destruct C as [(Hi & _ & _ & a' & Ea & Ka & _)|(Hi & _ & _ & _ & _ & [[_ Ka]|[_ Ka]])].
      - inversion Ea; subst a'. split; [rewrite (lex_target_akey g _ _ Ka); exact L3|].
        intros X. specialize (P5 X). destruct (ttgt x) as [|s|? ?] eqn:T; try discriminate.
        exists s. split; [apply akey_astr; exact Ka|exact L3].
      - cbn [ctgt_atom] in Ka. split; [rewrite (lex_target_akey g _ _ Ka); exact L3|].
        intros X. specialize (P5 X). destruct (ttgt x) as [|s|? ?] eqn:T; try discriminate.
        exists s. split; [apply akey_astr; exact Ka|exact L3].
      - cbn [ctgt_atom] in Ka. split; [rewrite (lex_target_akey g _ _ Ka); apply lex_var_target; exact L1|].
        intros _. destruct (tsrc x) as [|s|? ?] eqn:T; try discriminate.
        exists s. split; [apply akey_astr; exact Ka|]. unfold lex_text. simpl in L1. rewrite L1. reflexivity. }
    destruct La as [La Hh]. split; [exact La|].
    unfold dec_atom. rewrite aln_text_eq, Eep, existsb_aln_keep, filter_aln_keep.
    destruct (one_marker is_aln (epis_of g x)) as [[F T]|(e & i & q & F & He & Pq & T)];
      [intros [| | |] He; try discriminate He; eauto|exact P1|exact P2| |].
    - rewrite (proj2 (existsb_filter_nil is_aln (epis_of g x)) F), F.
      apply (lex_target_wf g a La).
    - assert (X : existsb is_aln (epis_of g x) = true).
      { destruct (existsb is_aln (epis_of g x)) eqn:X; [reflexivity|].
        apply existsb_filter_nil in X. rewrite X in F. discriminate. }
      assert (Ea : e = Aln i q).
      { assert (Ie' : In e (filter is_aln (epis_of g x))) by (rewrite F; left; reflexivity).
        apply filter_In in Ie'. destruct Ie' as [_ R]. destruct He as [-> | ->]; [reflexivity|discriminate]. }
      rewrite X, T, F. destruct (Hh X) as (s & -> & Ls). cbn [atom_str strfy_atom].
      destruct (text_decorated s i q Ls Pq) as [W' P']. split; [exact W'|].
      rewrite P', Ea. reflexivity.
  Qed.
  (* ---- the decorated tree read off the store ---- *)
  Lemma build_branch_ca : forall f' r a ep,
    build_branch f' st (r, CA a, ep) = (r ++ raln_text ep, TAtom (dec_atom a ep)).
  Proof. intros. unfold build_branch. rewrite apply_epis_atom. reflexivity. Qed.
  Lemma build_branch_cn : forall f' r j ep,
    build_branch f' st (r, CN j, ep) = (r ++ raln_text ep, TNode (build f' st j)).
  Proof. intros. unfold build_branch. rewrite apply_epis_node. reflexivity. Qed.
  Lemma build_branch_fst : forall f' r t ep, fst (build_branch f' st (r, t, ep)) = r ++ raln_text ep.
  Proof. intros f' r [a|j] ep; [rewrite build_branch_ca|rewrite build_branch_cn]; reflexivity. Qed.

  Lemma dec_not_slash : forall f' w es e, In (w, es) st -> In e es ->
    not_slash (strfy_branch strfy_node (build_branch f' st e)) = negb (is_slash_edge e).
  Proof.
    intros f' w es [[r t] ep] Iw Ie. unfold not_slash. rewrite strfy_branch_fst, build_branch_fst.
    destruct (edge_role w es r t ep Iw Ie) as (_ & _ & _ & Es & _). rewrite Es. reflexivity.
  Qed.

  Lemma dec_slash_only_first : forall f' w es, In (w, es) st ->
    slash_only_first (map (strfy_branch strfy_node) (map (build_branch f' st) es)) = true.
  Proof.
    intros f' w es Iw.
    pose proof (roles_only_first m g Wg st os_of Vst Sst Fos' Pos' w es Iw) as R.
    destruct es as [|e es']; [reflexivity|]. cbn [map slash_only_first].
    unfold noslash in R. rewrite forallb_forall in R.
    apply forallb_forall. intros b Ib. apply in_map_iff in Ib. destruct Ib as (b1 & <- & Ib1).
    apply in_map_iff in Ib1. destruct Ib1 as (e' & <- & Ie').
    rewrite (dec_not_slash f' w (e :: es') e' Iw (or_intror Ie')). exact (R e' Ie').
  Qed.

  Lemma build_wf_dec : forall f i, i < length st -> length st - i <= f ->
    WellFormed.wf_node (strfy_node (build f st i)) = true.
  Proof.
    induction f as [|f' IH]; intros i Li Lf; [lia|].
    destruct (nth_error st i) as [[v es]|] eqn:G; [|apply nth_error_None in G; lia].
    pose proof (nth_error_In _ _ G) as Iv.
    rewrite (Configure_content.build_S _ _ _ _ _ G), strfy_node_eq.
    destruct (node_var_lex m g Wg Lg st Vst v es Iv) as [L1 L2].
    destruct v as [|s|? ?]; try discriminate. simpl in L1.
    rewrite Roundtrip_lemmas.wf_node_eq, L1. cbn [andb].
    apply andb_true_iff. split; [|apply (dec_slash_only_first f' (AStr s) es Iv)].
    apply forallb_forall. intros b Ib. apply in_map_iff in Ib. destruct Ib as (b1 & <- & Ib1).
    apply in_map_iff in Ib1. destruct Ib1 as ([[r t] ep] & <- & Ie).
    destruct (edge_role (AStr s) es r t ep Iv Ie) as (_ & _ & _ & Es & Hs & Hn).
    destruct t as [a|j].
    - rewrite build_branch_ca. unfold strfy_branch, WellFormed.wf_branch. cbn [fst snd].
      destruct (edge_atom (AStr s) es r a ep Iv Ie) as (_ & Wa & _).
      rewrite Es. destruct (str_eqb r SLASHS) eqn:Sl; [exact Wa|].
      destruct (Hn eq_refl) as (Wr & _). rewrite Wr. exact Wa.
    - rewrite build_branch_cn. unfold strfy_branch, WellFormed.wf_branch. cbn [fst snd].
      rewrite Es. destruct (str_eqb r SLASHS) eqn:Sl.
      + destruct (Hs eq_refl) as (_ & a & Ha). discriminate.
      + destruct (Hn eq_refl) as (Wr & _). rewrite Wr. cbn [andb].
        destruct (wf_up _ _ _ Wst i (AStr s) es (r, CN j, ep) j G Ie eq_refl) as [Lj1 Lj2].
        apply IH; lia.
  Qed.

  Lemma build_node_ok_dec : forall f i, i < length st -> length st - i <= f ->
    node_ok (strfy_node (build f st i)) = true.
  Proof.
    induction f as [|f' IH]; intros i Li Lf; [lia|].
    destruct (nth_error st i) as [[v es]|] eqn:G; [|apply nth_error_None in G; lia].
    pose proof (nth_error_In _ _ G) as Iv.
    rewrite (Configure_content.build_S _ _ _ _ _ G), strfy_node_eq, node_ok_eq.
    apply forallb_forall. intros b Ib. apply in_map_iff in Ib. destruct Ib as (b1 & <- & Ib1).
    apply in_map_iff in Ib1. destruct Ib1 as ([[r t] ep] & <- & Ie).
    destruct (edge_role v es r t ep Iv Ie) as (_ & _ & Ok & _).
    destruct t as [a|j].
    - rewrite build_branch_ca. unfold strfy_branch, branch_okb. cbn [fst snd target_ok].
      destruct (edge_atom v es r a ep Iv Ie) as (_ & _ & Pa). rewrite Ok, Pa. reflexivity.
    - rewrite build_branch_cn. unfold strfy_branch, branch_okb. cbn [fst snd target_ok]. rewrite Ok.
      destruct (wf_up _ _ _ Wst i v es (r, CN j, ep) j G Ie eq_refl) as [Lj1 Lj2].
      apply IH; lia.
  Qed.
  (* ---- what interpret reads off the decorated tree: the same triples ---- *)
  Lemma build_node_var : forall (s0 : store) f j v es, nth_error s0 j = Some (v, es) ->
    node_var (build (S f) s0 j) = v.
  Proof. intros s0 f j v es G. cbn [build]. rewrite G. reflexivity. Qed.

  Lemma atom_name_dec : forall w es r a ep, In (w, es) st -> In (r, CA a, ep) es ->
    atom_name (strfy_atom (dec_atom a ep)) = strfy_atom a /\
    snd (proc_atom (strfy_atom (dec_atom a ep))) = filter is_aln ep /\
    atom_name (strfy_atom a) = strfy_atom a.
  Proof.
    intros w es r a ep Iw Ie. destruct (edge_atom w es r a ep Iw Ie) as (La & _ & Pa).
    unfold atom_name, proc_atom. rewrite Pa. destruct (lex_target_wf g a La) as [_ P0]. rewrite P0. auto.
  Qed.

  Definition sbr := strfy_branch strfy_node.

  Lemma build_entries_fst : forall vars f i, i < length st -> length st - i <= f ->
    map fst (entries m vars (strfy_node (build f st i))) =
    map fst (entries m vars (strfy_node (build f (erase st) i))).
  Proof.
    intros vars. induction f as [|f' IH]; intros i Li Lf; [lia|].
    destruct (nth_error st i) as [[v es]|] eqn:G; [|apply nth_error_None in G; lia].
    pose proof (nth_error_In _ _ G) as Iv.
    assert (G' : nth_error (erase st) i = Some (v, map erase_edge es)).
    { rewrite nth_error_erase, G. reflexivity. }
    rewrite (Configure_content.build_S _ _ _ _ _ G), (Configure_content.build_S _ _ _ _ _ G').
    rewrite !strfy_node_eq, !entries_eq. fold sbr.
    assert (Inner : forall es', incl es' es ->
      has_concept (map sbr (map (build_branch f' st) es')) =
      has_concept (map sbr (map (build_branch f' (erase st)) (map erase_edge es'))) /\
      map fst (entries_bs m vars v (map sbr (map (build_branch f' st) es'))) =
      map fst (entries_bs m vars v (map sbr (map (build_branch f' (erase st)) (map erase_edge es'))))).
    { induction es' as [|[[r t] ep] es' IHe]; intros Hin; [split; reflexivity|].
      assert (Ie : In (r, t, ep) es) by (apply Hin; left; reflexivity).
      destruct IHe as [IHc IHt]; [intros y Iy; apply Hin; right; exact Iy|].
      destruct (edge_role v es r t ep Iv Ie) as (RN & _).
      cbn [map]. rewrite !has_concept_cons. unfold sbr at 1 3. rewrite !strfy_branch_fst, build_branch_fst.
      destruct t as [a|j].
      - change (build_branch f' (erase st) (erase_edge (r, CA a, ep))) with (r, TAtom a).
        cbn [fst]. rewrite RN, IHc. split; [reflexivity|].
        rewrite build_branch_ca.
        change (sbr (r ++ raln_text ep, TAtom (dec_atom a ep))) with (r ++ raln_text ep, TAtom (strfy_atom (dec_atom a ep))).
        change (sbr (r, TAtom a)) with (r, TAtom (strfy_atom a)).
        rewrite !entries_bs_atom, !map_cons. cbn [fst]. f_equal; [|exact IHt]. rewrite RN.
        destruct (atom_name_dec v es r a ep Iv Ie) as (A1 & _ & A2). rewrite A1, A2. reflexivity.
      - change (build_branch f' (erase st) (erase_edge (r, CN j, ep))) with (r, TNode (build f' (erase st) j)).
        cbn [fst]. rewrite RN, IHc. split; [reflexivity|].
        rewrite build_branch_cn.
        change (sbr (r ++ raln_text ep, TNode (build f' st j))) with (r ++ raln_text ep, TNode (strfy_node (build f' st j))).
        change (sbr (r, TNode (build f' (erase st) j))) with (r, TNode (strfy_node (build f' (erase st) j))).
        rewrite !entries_bs_node, !map_cons, !map_app, !map_fst_add_pop_last. cbn [fst].
        destruct (wf_up _ _ _ Wst i v es (r, CN j, ep) j G Ie eq_refl) as [Lj1 Lj2].
        f_equal; [|f_equal; [apply IH; lia|exact IHt]]. rewrite RN, !node_var_strfy.
        destruct f' as [|f'']; [lia|].
        destruct (nth_error st j) as [[vj esj]|] eqn:Gj; [|apply nth_error_None in Gj; lia].
        rewrite (build_node_var st f'' j vj esj Gj).
        rewrite (build_node_var (erase st) f'' j vj (map erase_edge esj)) by (rewrite nth_error_erase, Gj; reflexivity).
        reflexivity. }
    destruct (Inner es (incl_refl _)) as [Hc Ht]. rewrite Hc.
    destruct (has_concept (map sbr (map (build_branch f' (erase st)) (map erase_edge es)))).
    - exact Ht.
    - cbn [map fst]. rewrite Ht. reflexivity.
  Qed.
  (* ---- ... and where every entry comes from, with its alignments ---- *)
  Definition Prov (e : epientry) : Prop :=
    exists x, In x (triples g) /\ kap m (fst e) = Kx m x /\
      last_such is_raln (snd e) = last_such is_raln (epis_of g x) /\
      (last_such is_aln (snd e) = last_such is_aln (epis_of g x) \/
       (last_such is_aln (snd e) = None /\ is_instance x = false /\ is_var g (ttgt x) = true)).

  Lemma last_such_snoc_pop : forall p l, p Pop = false -> last_such p (l ++ [Pop]) = last_such p l.
  Proof.
    intros p l H. rewrite last_such_app. unfold last_such at 1. simpl. rewrite H. reflexivity.
  Qed.

  Lemma Prov_add_pop_last : forall es, Forall Prov es -> Forall Prov (add_pop_last es).
  Proof.
    induction es as [|[t l] es IH]; intros F; [constructor|].
    inversion F as [|? ? Hx Ft]; subst.
    destruct es as [|e es].
    - cbn [add_pop_last]. constructor; [|constructor].
      destruct Hx as (x & Ix & K & R & A). exists x. cbn [fst snd] in *.
      rewrite !last_such_snoc_pop by reflexivity. auto.
    - change (add_pop_last ((t, l) :: e :: es)) with ((t, l) :: add_pop_last (e :: es)).
      constructor; [exact Hx|apply IH; exact Ft].
  Qed.

  Lemma last_keep : forall p es, (forall e, p e = true -> is_layout e = false) ->
    last_such p (keep_epis es) = last_such p es.
  Proof.
    intros p es H. unfold keep_epis. apply Rearrange_lemmas.last_such_filter.
    intros e Pe. rewrite (H e Pe). reflexivity.
  Qed.
  Lemma last_raln_keep : forall es, last_such is_raln (keep_epis es) = last_such is_raln es.
  Proof. intros es. apply last_keep. intros [v| |i q|i q] H; try discriminate H; reflexivity. Qed.
  Lemma last_aln_keep : forall es, last_such is_aln (keep_epis es) = last_such is_aln es.
  Proof. intros es. apply last_keep. intros [v| |i q|i q] H; try discriminate H; reflexivity. Qed.

  Lemma has_concept_dec : forall f' w es, In (w, es) st ->
    has_concept (map sbr (map (build_branch f' st) es)) = existsb is_slash_edge es.
  Proof.
    intros f' w es Iw.
    assert (Inner : forall es', incl es' es ->
      has_concept (map sbr (map (build_branch f' st) es')) = existsb is_slash_edge es').
    { induction es' as [|[[r t] ep] es' IHe]; intros Hin; [reflexivity|].
      assert (Ie : In (r, t, ep) es) by (apply Hin; left; reflexivity).
      cbn [map existsb]. rewrite has_concept_cons, IHe by (intros y Iy; apply Hin; right; exact Iy).
      f_equal. unfold sbr. rewrite strfy_branch_fst, build_branch_fst.
      destruct (edge_role w es r t ep Iw Ie) as (RN & _ & _ & _ & _ & Hn). rewrite RN.
      unfold is_slash_edge. cbn [fst]. destruct (str_eqb r SLASHS) eqn:Sl.
      - apply cfg_str_eqb_eq in Sl. subst r. reflexivity.
      - destruct (Hn eq_refl) as (_ & RR & _ & Ni & _). rewrite RR. exact Ni. }
    apply Inner. apply incl_refl.
  Qed.

  Lemma synth_prov : forall v es, In (v, es) st -> existsb is_slash_edge es = false ->
    Prov ((v, INSTANCE, ANone), []).
  Proof.
    intros v es Iv NoS.
    assert (Ic : In v (cless_st st)).
    { unfold cless_st. apply in_flat_map. exists (v, es). split; [exact Iv|].
      unfold cless_node. cbn [fst snd]. rewrite NoS. left. reflexivity. }
    pose proof (cless_match m g Wg Lg st nm os_of Wst Vst Fos' Pos' Own) as CM.
    apply (Permutation_in _ CM) in Ic. apply in_map_iff in Ic. destruct Ic as (x & Ex & Ix).
    apply filter_In in Ix. destruct Ix as [Ix U].
    destruct (unwritten_shape g Lg x Ix U) as (Hi & s & Exs).
    destruct (printable_parts x Ix) as (_ & _ & _ & P4 & P5).
    exists x. split; [exact Ix|]. cbn [fst snd].
    assert (Ev : v = AStr s) by (rewrite <- Ex, Exs; reflexivity).
    split; [|split].
    - subst v x. unfold kap, Kx. cbn [tsrc fst]. rewrite !deinvert_eq, !instance_not_inverted, !andb_false_r. reflexivity.
    - symmetry. apply last_such_none. intros e Ie.
      destruct (existsb is_raln (epis_of g x)) eqn:X.
      + rewrite (P4 eq_refl) in Hi. discriminate.
      + destruct (is_raln e) eqn:R; [|reflexivity].
        assert (T : existsb is_raln (epis_of g x) = true) by (apply existsb_exists; eauto). congruence.
    - left. symmetry. apply last_such_none. intros e Ie.
      destruct (existsb is_aln (epis_of g x)) eqn:X.
      + specialize (P5 eq_refl). rewrite Exs in P5. discriminate.
      + destruct (is_aln e) eqn:R; [|reflexivity].
        assert (T : existsb is_aln (epis_of g x) = true) by (apply existsb_exists; eauto). congruence.
  Qed.

  Lemma build_prov : forall vars f i, i < length st -> length st - i <= f ->
    Forall Prov (entries m vars (strfy_node (build f st i))).
  Proof.
    intros vars. induction f as [|f' IH]; intros i Li Lf; [lia|].
    destruct (nth_error st i) as [[v es]|] eqn:G; [|apply nth_error_None in G; lia].
    pose proof (nth_error_In _ _ G) as Iv.
    destruct (node_var_lex m g Wg Lg st Vst v es Iv) as [Lv Vv].
    rewrite (Configure_content.build_S _ _ _ _ _ G), strfy_node_eq, entries_eq. fold sbr.
    assert (Inner : forall es', incl es' es ->
      Forall Prov (entries_bs m vars v (map sbr (map (build_branch f' st) es')))).
    { induction es' as [|[[r t] ep] es' IHe]; intros Hin; [constructor|].
      assert (Ie : In (r, t, ep) es) by (apply Hin; left; reflexivity).
      assert (IHt : Forall Prov (entries_bs m vars v (map sbr (map (build_branch f' st) es'))))
        by (apply IHe; intros y Iy; apply Hin; right; exact Iy).
      destruct (edge_role v es r t ep Iv Ie) as (RN & RE & _ & _ & Hs & Hn).
      destruct (edge_class_i v es r t ep Iv Ie) as (x & Ix & Eep & Kk & C).
      cbn [map].
      destruct t as [a|j].
      - rewrite build_branch_ca.
        change (sbr (r ++ raln_text ep, TAtom (dec_atom a ep))) with (r ++ raln_text ep, TAtom (strfy_atom (dec_atom a ep))).
        rewrite entries_bs_atom. constructor; [|exact IHt].
        destruct (atom_name_dec v es r a ep Iv Ie) as (A1 & A2 & A3).
        destruct (edge_atom v es r a ep Iv Ie) as (La & _).
        exists x. split; [exact Ix|]. cbn [fst snd]. rewrite RN, RE, A1, A2.
        split; [|split].
        + rewrite <- Kk. unfold cedge_triple. cbn [fst snd ctgt_atom]. rewrite <- A3.
          destruct (str_eqb r SLASHS) eqn:Sl.
          * apply cfg_str_eqb_eq in Sl. subst r. apply (own_slash m g vars); assumption.
          * destruct (Hn eq_refl) as (_ & _ & Lr & _ & St). apply (own_atom m g vars); assumption.
        + rewrite last_raln_split by apply filter_aln_not_raln. rewrite Eep. apply last_raln_keep.
        + left. rewrite last_aln_split, Eep. apply last_aln_keep.
      - rewrite build_branch_cn.
        change (sbr (r ++ raln_text ep, TNode (build f' st j))) with (r ++ raln_text ep, TNode (strfy_node (build f' st j))).
        rewrite entries_bs_node.
        destruct (wf_up _ _ _ Wst i v es (r, CN j, ep) j G Ie eq_refl) as [Lj1 Lj2].
        constructor; [|apply Forall_app; split; [apply Prov_add_pop_last; apply IH; lia|exact IHt]].
        destruct (nth_error st j) as [[vj esj]|] eqn:Gj; [|apply nth_error_None in Gj; lia].
        pose proof (nth_error_In _ _ Gj) as Ivj.
        destruct (node_var_lex m g Wg Lg st Vst vj esj Ivj) as [Lvj Vvj].
        assert (Nv : node_var (strfy_node (build f' st j)) = vj).
        { rewrite node_var_strfy. destruct f' as [|f'']; [lia|]. apply (build_node_var st f'' j vj esj Gj). }
        assert (Na : node_var_at st j = vj) by (eapply node_var_at_nth; exact Gj).
        destruct (str_eqb r SLASHS) eqn:Sl; [destruct (Hs eq_refl) as (_ & a & Ha); discriminate|].
        destruct (Hn eq_refl) as (_ & _ & Lr & _ & St).
        exists x. split; [exact Ix|]. cbn [fst snd]. rewrite RN, RE, Nv.
        split; [|split].
        + rewrite <- Kk. unfold cedge_triple. cbn [fst snd ctgt_atom]. rewrite Na.
          apply own_node; assumption.
        + rewrite last_raln_split by (intros e [<-|[]]; reflexivity). rewrite Eep. apply last_raln_keep.
        + right. split.
          * apply last_such_none. intros e Ie'. apply in_app_or in Ie'.
            destruct Ie' as [Ie'|[<-|[]]]; [eapply filter_raln_not_aln; exact Ie'|reflexivity].
          * destruct C as [(_ & _ & _ & a & Ha & _)|(Hi & _ & _ & _ & _ & [[_ Ka]|[Kw _]])]; [discriminate| |].
            -- split; [exact Hi|]. cbn [ctgt_atom] in Ka. rewrite Na in Ka.
               rewrite <- (akey_is_var g _ _ Ka). exact Vvj.
            -- split; [exact Hi|]. rewrite <- (akey_is_var g _ _ Kw). exact Vv. }
    pose proof (Inner es (incl_refl _)) as F.
    rewrite (has_concept_dec f' v es Iv).
    destruct (existsb is_slash_edge es) eqn:X; [exact F|].
    constructor; [|exact F]. apply (synth_prov v es Iv X).
  Qed.
End DecStore.

(* ------------------------------------------------------------------ *)
(** * The erased store satisfies what Proofs/EndToEnd_lemmas.v needs *)

Lemma Vars_erase : forall g st, Vars g st -> Vars g (erase st).
Proof.
  intros g st V w es I. unfold erase in I. apply in_map_iff in I. destruct I as ([w' es'] & E & I).
  unfold erase_node in E. cbn [fst snd] in E. inversion E; subst. eapply V. exact I.
Qed.

Lemma slash_edge_erase : forall e, is_slash_edge (erase_edge e) = is_slash_edge e.
Proof. reflexivity. Qed.
Lemma is_ca_erase : forall e, is_ca (erase_edge e) = is_ca e.
Proof. reflexivity. Qed.

Lemma noslash_erase : forall es, noslash (map erase_edge es) = noslash es.
Proof. induction es as [|e es IH]; [reflexivity|]. unfold noslash in *. simpl. rewrite IH. reflexivity. Qed.

Lemma slash_shape_erase : forall es, slash_shape (map erase_edge es) = slash_shape es.
Proof.
  induction es as [|e es IH]; [reflexivity|]. cbn [map slash_shape].
  rewrite slash_edge_erase, is_ca_erase, IH, noslash_erase. reflexivity.
Qed.

Lemma Shape_erase : forall st, Shape st -> Shape (erase st).
Proof.
  intros st S w es I. unfold erase in I. apply in_map_iff in I. destruct I as ([w' es'] & E & I).
  unfold erase_node in E. cbn [fst snd] in E. inversion E; subst.
  rewrite slash_shape_erase. eapply S. exact I.
Qed.

Lemma owns_erase : forall st v, owns st v -> owns (erase st) v.
Proof.
  intros st v (i & w & es & G & E). exists i, w, (map erase_edge es). split; [|exact E].
  rewrite nth_error_erase, G. reflexivity.
Qed.

(* ------------------------------------------------------------------ *)
(** * Lexable graphs with printable alignments are strippable *)

Lemma symbol_host : forall s, wf_symbol s = true -> tilde_free s /\ startswith s [QUOTE] = false.
Proof.
  intros s H. destruct s as [|c s]; [discriminate|].
  unfold wf_symbol in H. apply andb_true_iff in H. destruct H as [_ N].
  split; [apply (names_no_tilde _ N)|].
  simpl in N. apply andb_true_iff in N. destruct N as [Nc _].
  destruct (is_name_chars c Nc) as (Q & _). cbn [startswith]. rewrite eqc_sym. unfold QUOTE. rewrite Q. reflexivity.
Qed.

Lemma text_host : forall s, lex_text s = true -> aln_host (AStr s).
Proof.
  intros s H. unfold lex_text in H. apply orb_true_iff in H. destruct H as [H|H].
  - left. apply symbol_host. exact H.
  - right. unfold lex_string in H. apply andb_true_iff in H. destruct H as [H _].
    apply andb_true_iff in H. destruct H as [H _]. unfold complete_string in H.
    apply andb_true_iff in H. exact H.
Qed.

Lemma lexable_strippable : forall g, atoms_lexable g = true -> alns_printable g = true ->
  aln_strippable g.
Proof.
  intros g L AP. constructor.
  - intros x Ix. destruct (lex_triple g L x Ix) as (_ & L2 & _). apply lex_role_tilde_free. exact L2.
  - intros x Ix. destruct (lex_triple g L x Ix) as (L1 & _ & L3). split.
    + destruct (tsrc x) as [|s|? ?]; try discriminate. simpl in L1.
      symmetry. eapply process_atomic_strips. apply symbol_process. exact L1.
    + destruct (ttgt x) as [|s|? ?]; try reflexivity. simpl in L3.
      symmetry. eapply process_atomic_strips. apply text_process. exact L3.
  - intros x e Ix Ie Ae. destruct (lex_triple g L x Ix) as (L1 & _ & L3).
    unfold alns_printable in AP. rewrite forallb_forall in AP. specialize (AP x Ix).
    unfold epis_printable in AP.
    apply andb_true_iff in AP. destruct AP as [P P5]. apply andb_true_iff in P. destruct P as [P _].
    apply andb_true_iff in P. destruct P as [P _]. apply andb_true_iff in P. destruct P as [P1 _].
    assert (X : existsb is_aln (epis_of g x) = true) by (apply existsb_exists; eauto).
    rewrite X in P5. simpl in P5.
    split; [|split].
    + destruct (tsrc x) as [|s|? ?]; try discriminate. simpl in L1. left. apply symbol_host. exact L1.
    + destruct (ttgt x) as [|s|? ?]; try discriminate. simpl in L3. apply text_host. exact L3.
    + rewrite forallb_forall in P1. specialize (P1 e Ie).
      destruct e as [v| |i q|i q]; try discriminate Ae. simpl in P1. simpl.
      apply aln_print_no_quote. exact P1.
Qed.

(* ------------------------------------------------------------------ *)
(** * Keys *)

Lemma kap_cong : forall m a b, triple_eqb a b = true -> kap m a = kap m b.
Proof.
  intros m [[s r] t] [[s' r'] t'] E. apply triple_eqb_parts' in E. destruct E as (E1 & E2 & E3).
  cbn [tsrc trole ttgt fst snd] in *. subst r'.
  unfold kap. rewrite <- (tkey_deinvert_keys m s r t), <- (tkey_deinvert_keys m s' r t').
  rewrite (akey_eqb _ _ E1), (akey_eqb _ _ E3). reflexivity.
Qed.

Lemma Kx_textual : forall m x, Kx m x = kap m (strfy_triple x).
Proof.
  intros m [[s r] t]. unfold Kx, kap, strfy_triple. cbn [tsrc trole ttgt fst snd].
  apply strfy_tkey_deinvert.
Qed.

Lemma find_nodup_key : forall {A B} (f : A -> B) (P : A -> bool) l x,
  NoDup (map f l) -> In x l -> P x = true -> (forall y, In y l -> P y = true -> f y = f x) ->
  find P l = Some x.
Proof.
  intros A B f P. induction l as [|a l IH]; intros x N I Px H; [contradiction|].
  simpl in N. inversion N as [|? ? Na Nl]; subst. cbn [find].
  destruct (P a) eqn:Pa.
  - destruct I as [->|I]; [reflexivity|].
    exfalso. apply Na. rewrite (H a (or_introl eq_refl) Pa). apply in_map. exact I.
  - destruct I as [->|I]; [congruence|].
    apply IH; [exact Nl|exact I|exact Px|]. intros y Iy Py. apply H; [right; exact Iy|exact Py].
Qed.

(* ------------------------------------------------------------------ *)
(** * The content of a graph WITH its alignments *)

Definition aln_of (g : graph) (t : triple) : option epi := last_such is_aln (epis_of g t).
Definition raln_of (g : graph) (t : triple) : option epi := last_such is_raln (epis_of g t).

(* every triple (up to one deinversion, constants by written form) with the
   alignment and the role alignment the surface functions report for it *)
Definition annot (m : model) (g : graph) : list (triple * option epi * option epi) :=
  map (fun t => (kap m t, aln_of g t, raln_of g t)) (triples g).

(* [g'] carries the alignments of [g]: its annotated content is that of [g]
   (numbers as text), except that the alignment of some EDGES -- non-instance
   triples whose target is a variable: those written with a nested node -- is
   dropped ([lost = true]); role alignments are never dropped *)
Definition alignments_kept (m : model) (g g' : graph) : Prop :=
  exists ys : list (triple * bool),
    map fst ys = triples g /\
    (forall x l, In (x, l) ys -> l = true -> is_instance x = false /\ is_var g (ttgt x) = true) /\
    Permutation (annot m g')
      (map (fun xl : triple * bool =>
              (Kx m (fst xl), (if snd xl then None else aln_of g (fst xl)), raln_of g (fst xl))) ys).

Definition ann_entry (m : model) (e : epientry) : triple * option epi * option epi :=
  (kap m (fst e), last_such is_aln (snd e), last_such is_raln (snd e)).

Lemma annot_entries : forall m es top meta,
  forallb colon_triple (map fst es) = true -> NoDup (map (fun e : epientry => kap m (fst e)) es) ->
  annot m (mk_graph (map fst es) top (epimap_of es) meta) = map (ann_entry m) es.
Proof.
  intros m es top meta C N. unfold annot. rewrite (mk_graph_triples_id _ _ _ _ C). rewrite map_map.
  apply map_ext_in. intros e Ie. unfold ann_entry, aln_of, raln_of, epis_of.
  change (epidata (mk_graph (map fst es) top (epimap_of es) meta)) with (epimap_of es).
  rewrite epimap_lookup.
  rewrite (find_nodup_key (fun e0 : epientry => kap m (fst e0)) _ es e N Ie).
  - reflexivity.
  - destruct e as [[[s r] t] l]. cbn [fst]. unfold triple_eqb. cbn [tsrc trole ttgt fst snd].
    rewrite !atom_eqb_refl, cfg_str_eqb_refl. reflexivity.
  - intros y Iy Py. symmetry. apply kap_cong. exact Py.
Qed.

(* matching entries with the triples of the graph, position by position *)
Lemma match_entries : forall m g (es : list epientry) xs,
  NoDup (map (Kx m) (triples g)) ->
  map (fun e : epientry => kap m (fst e)) es = map (Kx m) xs ->
  (forall x, In x xs -> In x (triples g)) ->
  Forall (fun e : epientry =>
    exists x, In x (triples g) /\ kap m (fst e) = Kx m x /\
      last_such is_raln (snd e) = raln_of g x /\
      (last_such is_aln (snd e) = aln_of g x \/
       (last_such is_aln (snd e) = None /\ is_instance x = false /\ is_var g (ttgt x) = true))) es ->
  exists ys : list (triple * bool),
    map fst ys = xs /\
    (forall x l, In (x, l) ys -> l = true -> is_instance x = false /\ is_var g (ttgt x) = true) /\
    map (ann_entry m) es =
    map (fun xl : triple * bool =>
           (Kx m (fst xl), (if snd xl then None else aln_of g (fst xl)), raln_of g (fst xl))) ys.
Proof.
  intros m g es. induction es as [|e es IH]; intros xs N E Hin F.
  - destruct xs; [|discriminate]. exists []. split; [reflexivity|]. split; [intros x l []|reflexivity].
  - destruct xs as [|x0 xs]; [discriminate|]. cbn [map] in E.
    pose proof (f_equal (@tl _) E) as E1. pose proof (f_equal (hd (kap m (fst e))) E) as E0.
    cbn [hd tl] in E0, E1. clear E.
    inversion F as [|? ? He Ft]; subst.
    destruct (IH xs N E1 (fun y Iy => Hin y (or_intror Iy)) Ft) as (ys & Y1 & Y2 & Y3).
    destruct He as (x & Ix & K & R & A).
    assert (Ex : x = x0).
    { apply (NoDup_map_In_inj (Kx m) (triples g)); [exact N|exact Ix|apply Hin; left; reflexivity|].
      rewrite <- K. exact E0. }
    subst x0.
    destruct A as [A|(A & Hi & Hv)].
    + exists ((x, false) :: ys). split; [cbn [map fst]; rewrite Y1; reflexivity|]. split.
      * intros y l [Iy|Iy] Hl; [inversion Iy; subst; discriminate|eapply Y2; eassumption].
      * cbn [map fst snd]. rewrite <- Y3. unfold ann_entry. rewrite K, R, A. reflexivity.
    + exists ((x, true) :: ys). split; [cbn [map fst]; rewrite Y1; reflexivity|]. split.
      * intros y l [Iy|Iy] Hl; [inversion Iy; subst; auto|eapply Y2; eassumption].
      * cbn [map fst snd]. rewrite <- Y3. unfold ann_entry. rewrite K, R, A. reflexivity.
Qed.

(* ------------------------------------------------------------------ *)
(** * Assembly *)

Section AssemblyAln.
  Variable m : model.
  Variable g : graph.
  Hypothesis Wg : wf_graph m g.
  Hypothesis Lg : atoms_lexable g = true.
  Hypothesis Mg : wf_meta (gmeta g) = true.
  Hypothesis Dm : deinverts m = true.
  Hypothesis PV : pushes_name_variables g.
  Hypothesis AP : alns_printable g = true.

  Theorem roundtrip_core_aln : forall top tp i c,
    requested_top g top = Some tp -> connected g tp ->
    exists s t, encode_top m i c g top = Ok s /\ parse s = Ok t /\
      exists g', interpret m t = Ok g' /\ graph_eq m g' (retop (textual g) tp) /\
        (NoDup (map (kap m) (triples (textual g))) -> alignments_kept m g g').
  Proof.
    intros top tp i c RT Conn.
    pose proof (wf_nonempty m g Wg) as NE. pose proof (wf_roles m g Wg) as RC.
    pose proof (wf_invertible m g Wg) as RI.
    pose proof (lexable_strippable g Lg AP) as AS.
    destruct (configure_complete m g top tp RT Conn (wf_named m g Wg) RI RC PV) as [t0 E].
    destruct (configure_structure_aln m g top t0 E NE RC PV)
      as (tp' & st & nm & RT' & Et & Wst & Hroot & Vst & Sst & Own & ios & Fos & Pos).
    assert (Etp : tp' = tp) by (rewrite RT in RT'; inversion RT'; reflexivity).
    rewrite Etp in Hroot. clear Etp RT' tp'.
    set (root := build (S (length st)) st 0) in *.
    set (st0 := erase st).
    set (root0 := build (S (length st)) st0 0).
    set (os := os_of ios).
    pose proof (Fos' m g ios Fos) as F0. fold os in F0.
    pose proof (Pos' st ios Pos) as P0'. fold os in P0'.
    assert (P0 : Permutation (store_triples st0) (concat os)).
    { unfold st0. rewrite store_triples_erase. exact P0'. }
    pose proof (WF_erase _ _ _ Wst) as W0. fold st0 in W0.
    pose proof (eps_store_erase st) as E0. fold st0 in E0.
    pose proof (Vars_erase g st Vst) as V0. fold st0 in V0.
    pose proof (Shape_erase st Sst) as S0. fold st0 in S0.
    assert (Own0 : forall x, In x (triples g) -> is_instance x = true -> owns st0 (tsrc x)).
    { intros x Ix Hi. apply owns_erase. apply Own; assumption. }
    assert (L0 : length st0 = length st) by apply erase_length.
    pose proof (items_strippable m g st ios AS Fos Pos) as HS.
    assert (R0 : root0 = strip_aln_node root).
    { unfold root0, root, st0. symmetry. apply build_strip. exact HS. }
    destruct (tree_of_store st0 nm W0 E0) as (PT & PVars & HV). rewrite L0 in PT, PVars, HV.
    fold root0 in PT, PVars, HV.
    pose proof (wf_pos _ _ _ Wst) as Lpos.
    assert (Good : good_node m g root0 = true).
    { unfold root0. eapply (build_good m g Wg Lg st0 nm os); try eassumption; rewrite ?L0; lia. }
    assert (HVr : node_var root = tp).
    { rewrite <- strip_node_var, <- R0, HV. unfold node_var_at, st0. rewrite erase_map_fst. exact Hroot. }
    assert (Ltp : lex_var tp = true).
    { rewrite <- HVr, <- strip_node_var, <- R0. apply (good_node_var m g root0 Good). }
    assert (TV : tree_vars root = tree_vars root0) by (rewrite R0, strip_tree_vars; reflexivity).
    (* the text *)
    assert (Fmt : format i c t0 = format i c (strfy_tree t0)).
    { subst t0. unfold format, strfy_tree. cbn [troot tmeta]. fold root. rewrite tree_vars_strfy.
      f_equal. f_equal. f_equal. symmetry. apply (format_numok g).
      - rewrite TV. destruct c; [apply (good_vars_ok m); exact Good|]. intros a M. discriminate.
      - rewrite <- numok_strip, <- R0. apply (good_numok m). exact Good. }
    assert (WT : WellFormed.wf_tree (strfy_tree t0) = true).
    { subst t0. unfold WellFormed.wf_tree, strfy_tree. cbn [troot tmeta]. rewrite Mg. cbn [andb]. fold root.
      eapply (build_wf_dec m g); try eassumption; lia. }
    exists (format i c t0), (strfy_tree t0).
    split; [unfold encode_top; rewrite E; reflexivity|].
    split; [rewrite Fmt; apply parse_format_roundtrip; exact WT|].
    (* the graph read back *)
    set (vars := tree_vars (strfy_node root)).
    set (es := entries m vars (strfy_node root)).
    set (es0 := entries m vars (strfy_node root0)).
    assert (D5 : map fst es = map fst es0).
    { unfold es, es0, root, root0, st0.
      eapply (build_entries_fst m g); try eassumption; lia. }
    assert (IN : interp_node m vars (strfy_node root) = Ok (map fst es, es)).
    { apply (Configure_fast.interp_node_spec m vars (strfy_node root)).
      eapply (build_node_ok_dec m g); try eassumption; lia. }
    assert (TopE : (match node_var (strfy_node root) with ANone => None | v => Some v end) = Some tp).
    { rewrite node_var_strfy, HVr. destruct tp; try discriminate; reflexivity. }
    set (g' := mk_graph (map fst es) (Some tp) (epimap_of es) (gmeta g)).
    assert (INT : interpret m (strfy_tree t0) = Ok g').
    { subst t0. unfold interpret, strfy_tree. cbn [troot tmeta]. fold root. fold vars. rewrite IN.
      cbn [bind]. rewrite TopE. reflexivity. }
    assert (Col : forallb colon_triple (map fst es) = true).
    { rewrite D5. unfold es0. apply (colon_good m g). exact Good. }
    assert (TS : triples g' = map fst es) by (apply mk_graph_triples_id; exact Col).
    assert (PVr : Permutation (node_all_vars root) (map fst st)).
    { rewrite <- strip_all_vars, <- R0. unfold st0 in PVars. rewrite erase_map_fst in PVars. exact PVars. }
    (* same triples, as in the marker-free case *)
    assert (PTr : Permutation (map (kap m) (map fst es)) (map (kap m) (map strfy_triple (triples g)))).
    { rewrite D5.
      pose proof (Eperm_all m g vars root0 Good) as P1. fold es0 in P1.
      eapply perm_trans; [exact P1|].
      assert (Pc : Permutation (cless root0) (map tsrc (filter unwritten (triples g)))).
      { unfold root0. rewrite <- L0.
        eapply perm_trans; [apply (tree_cless st0 nm W0 E0)|].
        apply (cless_match m g Wg Lg st0 nm os); assumption. }
      assert (Pt : Permutation (map (tau m) (node_branch_triples root0))
                               (map strfy_triple (graph_content m g))).
      { pose proof (configure_content_deinverted_aln m g top t0 E NE RC AS Dm RI) as Pcd.
        subst t0. unfold tree_triples, strip_aln_tree in Pcd. cbn [troot] in Pcd. fold root in Pcd.
        rewrite <- R0 in Pcd.
        unfold tree_content in Pcd. apply (Permutation_map strfy_triple) in Pcd.
        rewrite map_map in Pcd. exact Pcd. }
      eapply perm_trans; [apply Permutation_app; [apply Permutation_map; exact Pc|exact Pt]|].
      eapply perm_trans; [apply Permutation_app_comm|]. apply Permutation_sym.
      eapply perm_trans; [apply Permutation_map, Permutation_map, (filter_split_perm is_written)|].
      rewrite !map_app. apply Permutation_app.
      + unfold graph_content. rewrite !map_map. apply Permutation_refl'. apply map_ext.
        intros [[s r] t]. unfold kap, strfy_triple at 1. cbn [tsrc trole ttgt fst snd].
        symmetry. apply strfy_tkey_deinvert.
      + rewrite !map_map. apply Permutation_refl'. apply map_ext_in. intros x Ix.
        apply filter_In in Ix. destruct Ix as [Ix U].
        destruct (unwritten_shape g Lg x Ix U) as (_ & s & ->).
        unfold kap, synth, strfy_triple. cbn [tsrc trole ttgt fst snd strfy_atom].
        rewrite deinvert_eq, instance_not_inverted, andb_false_r. reflexivity. }
    exists g'. split; [exact INT|]. split; [split; [|split]|].
    - reflexivity.
    - intros a.
      assert (L : mem atom_eqb a (variables g') = is_var g a).
      { destruct (interpret_is_reading m (strfy_tree t0)) as [(r & g0 & Rd & I0 & Ag)|[[_ F]|[_ F]]];
          try (rewrite INT in F; discriminate).
        rewrite INT in I0. inversion I0; subst g0.
        destruct Ag as (_ & _ & Av & _). rewrite Av.
        unfold reading in Rd. destruct (surface_check (troot (strfy_tree t0))); try discriminate.
        cbn [bind] in Rd. inversion Rd; subst r. cbn [r_vars reading_of].
        subst t0. unfold strfy_tree. cbn [troot]. fold root.
        change (all_node_vars (strfy_node root)) with (node_all_vars (strfy_node root)).
        rewrite all_vars_strfy, (mem_perm _ _ _ PVr).
        destruct (is_var g a) eqn:V.
        - destruct (wf_var_is_source m g a Wg V) as (x & Ix & Hi & Ex).
          destruct (Own x Ix Hi) as (k & w & esw & Gk & Ew).
          apply mem_in_eqb. exists w. split.
          + apply in_map_iff. exists (w, esw). split; [reflexivity|]. eapply nth_error_In; exact Gk.
          + eapply atom_eqb_trans; [|exact Ew]. rewrite atom_eqb_sym. exact Ex.
        - destruct (mem atom_eqb a (map fst st)) eqn:M; [|reflexivity].
          apply mem_in_eqb in M. destruct M as (w & Iw & Ew). apply in_map_iff in Iw.
          destruct Iw as ([w' esw] & <- & Iw). cbn [fst] in Ew.
          rewrite (is_var_cong g _ _ Ew), (Vst _ _ Iw) in V. discriminate. }
      rewrite L. unfold variables, retop, textual. cbn [triples gtop].
      rewrite mem_dedup, mem_app, (srcs_textual g Lg), (mem_sources m g Wg).
      destruct (is_var g a) eqn:V; [reflexivity|]. cbn [orb mem existsb]. rewrite orb_false_r.
      destruct (atom_eqb a tp) eqn:Et'; [|reflexivity].
      destruct Conn as [Vtp _]. rewrite (is_var_cong g _ _ Et'), Vtp in V. discriminate.
    - rewrite TS. unfold retop, textual. cbn [triples]. exact PTr.
    - (* the alignments *)
      intros ND. unfold textual in ND. cbn [triples] in ND.
      assert (NDk : NoDup (map (Kx m) (triples g))).
      { rewrite map_map in ND. erewrite map_ext; [exact ND|]. intros x. apply Kx_textual. }
      assert (PK : Permutation (map (fun e : epientry => kap m (fst e)) es) (map (Kx m) (triples g))).
      { replace (map (fun e : epientry => kap m (fst e)) es) with (map (kap m) (map fst es))
          by (rewrite map_map; reflexivity).
        eapply perm_trans; [exact PTr|].
        rewrite map_map. apply Permutation_refl'. apply map_ext. intros x. symmetry. apply Kx_textual. }
      assert (NDe : NoDup (map (fun e : epientry => kap m (fst e)) es)).
      { eapply Permutation_NoDup; [apply Permutation_sym; exact PK|exact NDk]. }
      destruct (Permutation_map_inv _ _ PK) as (xs & Exs & Pxs).
      assert (PR : Forall (Prov m g) es).
      { unfold es, root. eapply (build_prov m g); try eassumption; lia. }
      destruct (match_entries m g es xs NDk Exs) as (ys1 & Y1 & Y2 & Y3).
      { intros x Ix. eapply Permutation_in; [apply Permutation_sym; exact Pxs|exact Ix]. }
      { exact PR. }
      assert (Pys : Permutation (triples g) (map fst ys1)) by (rewrite Y1; exact Pxs).
      destruct (Permutation_map_inv _ _ Pys) as (ys & Eys & Pyy).
      exists ys. split; [symmetry; exact Eys|]. split.
      + intros x l I Hl. eapply Y2; [|exact Hl]. eapply Permutation_in; [apply Permutation_sym; exact Pyy|exact I].
      + unfold g'. rewrite (annot_entries m es (Some tp) (gmeta g) Col NDe), Y3.
        apply Permutation_map. exact Pyy.
  Qed.
End AssemblyAln.

(* ------------------------------------------------------------------ *)
(** * [annot] speaks about what surface.alignments / role_alignments return *)

Definition keys_distinct (ed : dict triple (list epi)) : Prop :=
  forall t, length (filter (fun kv : triple * list epi => triple_eqb t (fst kv)) ed) <= 1.

Lemma dmem_filter_nil : forall (V : Type) t (d : dict triple V),
  dmem triple_eqb t d = false -> filter (fun kv : triple * V => triple_eqb t (fst kv)) d = [].
Proof.
  intros V t d. unfold dmem. induction d as [|[k v] d IH]; intros H; [reflexivity|].
  simpl in *. destruct (triple_eqb t k); [discriminate|]. apply IH. exact H.
Qed.

Lemma epimap_distinct : forall es, keys_distinct (epimap_of es).
Proof.
  intros es. unfold epimap_of. change (fold_left _ es []) with (fold_left epistep es []).
  assert (G : forall acc, keys_distinct acc -> keys_distinct (fold_left epistep es acc)).
  { induction es as [|e es IH]; intros acc H; [exact H|].
    cbn [fold_left]. apply IH. unfold epistep. destruct (dmem triple_eqb (fst e) acc) eqn:D; [exact H|].
    intros t. rewrite filter_app, app_length. cbn [filter].
    destruct (triple_eqb t (fst e)) eqn:Et.
    - rewrite (dmem_filter_nil _ t acc) by (rewrite (dmem_congr _ _ _ acc Et); exact D). simpl. lia.
    - simpl. specialize (H t). lia. }
  apply G. intros t. simpl. lia.
Qed.

Lemma dget_get_alignments_none : forall p ed top ts meta t,
  filter (fun kv : triple * list epi => triple_eqb t (fst kv)) ed = [] ->
  dget triple_eqb t (get_alignments p (mkGraph ts top ed meta)) = None.
Proof.
  intros p ed top ts meta t. unfold get_alignments. cbn [epidata].
  induction ed as [|[k v] ed IH]; intros H; [reflexivity|].
  cbn [filter fst] in H. destruct (triple_eqb t k) eqn:E; [discriminate|].
  cbn [flat_map snd fst]. destruct (last_such p v); cbn [app dget]; [rewrite E|]; apply IH; exact H.
Qed.

Lemma alignments_lookup : forall p ts top ed meta t, keys_distinct ed ->
  dget triple_eqb t (get_alignments p (mkGraph ts top ed meta)) =
  last_such p (epis_of (mkGraph ts top ed meta) t).
Proof.
  intros p ts top ed meta t. unfold epis_of, get_alignments. cbn [epidata].
  induction ed as [|[k v] ed IH]; intros KD; [reflexivity|].
  cbn [flat_map fst snd dget].
  assert (KD' : keys_distinct ed).
  { intros t'. specialize (KD t'). cbn [filter fst] in KD. destruct (triple_eqb t' k); simpl in KD; lia. }
  destruct (triple_eqb t k) eqn:E.
  - assert (Z : filter (fun kv : triple * list epi => triple_eqb t (fst kv)) ed = []).
    { specialize (KD t). cbn [filter fst] in KD. rewrite E in KD. simpl in KD.
      destruct (filter (fun kv : triple * list epi => triple_eqb t (fst kv)) ed); [reflexivity|simpl in KD; lia]. }
    destruct (last_such p v) as [e|] eqn:LS; cbn [app dget].
    + rewrite E. reflexivity.
    + apply (dget_get_alignments_none p ed top ts meta t Z).
  - destruct (last_such p v) as [e|]; cbn [app dget]; [rewrite E|]; apply IH; exact KD'.
Qed.

Theorem interpret_alignments_read : forall m t g', interpret m t = Ok g' ->
  forall x, dget triple_eqb x (alignments g') = aln_of g' x /\
            dget triple_eqb x (role_alignments g') = raln_of g' x.
Proof.
  intros m t g' H x. unfold interpret in H.
  destruct (interp_node m (tree_vars (troot t)) (troot t)) as [[ts es]| | | | | | | |]; try discriminate.
  cbn [bind] in H. inversion H; subst g'. clear H.
  unfold alignments, role_alignments, aln_of, raln_of, mk_graph.
  split; apply alignments_lookup; apply epimap_distinct.
Qed.

(* ------------------------------------------------------------------ *)
(** * The end-to-end statements of C03 with alignment markers *)

(* the triples of the graph, numbers read as text, are distinct up to one
   deinversion: no edge is stated twice, once in each direction *)
Definition distinct_edges (m : model) (g : graph) : Prop :=
  NoDup (map (fun t => tkey (deinvert m t)) (triples (textual g))).

Theorem e2e_c03x_roundtrip : forall m g top tp i c,
  wf_graph m g -> requested_top g top = Some tp -> connected g tp ->
  pushes_name_variables g -> deinverts m = true ->
  atoms_lexable g = true -> wf_meta (gmeta g) = true -> alns_printable g = true ->
  exists s t, encode_top m i c g top = Ok s /\ parse s = Ok t /\
    exists g', interpret m t = Ok g' /\ graph_eq m g' (retop (textual g) tp) /\
      (distinct_edges m g -> alignments_kept m g g').
Proof.
  intros m g top tp i c W RT Cn PV Dm Lg Mg AP.
  exact (roundtrip_core_aln m g W Lg Mg Dm PV AP top tp i c RT Cn).
Qed.

Theorem e2e_c03x_decode_encode : forall m g top tp i c,
  wf_graph m g -> requested_top g top = Some tp -> connected g tp ->
  pushes_name_variables g -> deinverts m = true ->
  atoms_lexable g = true -> wf_meta (gmeta g) = true -> alns_printable g = true ->
  exists s g', encode_top m i c g top = Ok s /\ decode m s = Ok g' /\
    graph_eq m g' (retop (textual g) tp) /\
    (distinct_edges m g -> alignments_kept m g g').
Proof.
  intros m g top tp i c W RT Cn PV Dm Lg Mg AP.
  destruct (e2e_c03x_roundtrip m g top tp i c W RT Cn PV Dm Lg Mg AP) as (s & t & E & P & g' & I & Q & A).
  exists s, g'. split; [exact E|]. split; [unfold decode; rewrite P; exact I|]. split; [exact Q|exact A].
Qed.

(* when no alignment sits on an edge whose target is a variable, nothing is lost *)
Definition alns_on_atoms (g : graph) : bool :=
  forallb (fun x => negb (existsb is_aln (epis_of g x)) || is_instance x || negb (is_var g (ttgt x)))
          (triples g).

Definition annot_txt (m : model) (g : graph) : list (triple * option epi * option epi) :=
  map (fun x => (Kx m x, aln_of g x, raln_of g x)) (triples g).

Lemma kept_all : forall m g g', alns_on_atoms g = true -> alignments_kept m g g' ->
  Permutation (annot m g') (annot_txt m g).
Proof.
  intros m g g' OA (ys & Y1 & Y2 & Y3). eapply perm_trans; [exact Y3|].
  unfold annot_txt. rewrite <- Y1, map_map. apply Permutation_refl'. apply map_ext_in.
  intros [x l] I. cbn [fst snd]. destruct l; [|reflexivity].
  destruct (Y2 x true I eq_refl) as [Hi Hv].
  assert (Ix : In x (triples g)) by (rewrite <- Y1; apply in_map_iff; exists (x, true); auto).
  unfold alns_on_atoms in OA. rewrite forallb_forall in OA. specialize (OA x Ix).
  rewrite Hi, Hv in OA. cbn [negb] in OA. rewrite !orb_false_r in OA. apply negb_true_iff in OA.
  unfold aln_of. f_equal. f_equal. symmetry. apply last_such_none. intros e Ie.
  destruct (is_aln e) eqn:A; [|reflexivity].
  assert (T : existsb is_aln (epis_of g x) = true) by (apply existsb_exists; eauto). congruence.
Qed.

(* ------------------------------------------------------------------ *)
(** * Non-vacuity *)

Require Import Coq.Strings.String.

Lemma aln_graph_vars : forall v, is_var aln_graph v = true ->
  atom_eqb v (sym "a") = true \/ atom_eqb v (sym "b") = true.
Proof.
  intros v Hv. destruct (is_var_exists _ _ Hv) as (u & Iu & E). vm_compute in Iu.
  destruct Iu as [<-|[<-|[]]]; auto.
Qed.

Example aln_graph_e2e_hypotheses :
  wf_graph default_model aln_graph /\
  connected aln_graph (sym "a") /\ connected aln_graph (sym "b") /\
  pushes_name_variables aln_graph /\ deinverts default_model = true /\
  atoms_lexable aln_graph = true /\ wf_meta (gmeta aln_graph) = true /\
  alns_printable aln_graph = true /\ distinct_edges default_model aln_graph /\
  ~ layout_only aln_graph.
Proof.
  assert (L : link aln_graph (sym "a") (sym "b")).
  { exists (tr "a" ":ARG0" "b"). split; [simpl; auto|]. split; [reflexivity|]. split; [reflexivity|].
    left. split; reflexivity. }
  assert (L' : link aln_graph (sym "b") (sym "a")).
  { exists (tr "a" ":ARG0" "b"). split; [simpl; auto|]. split; [reflexivity|]. split; [reflexivity|].
    right. split; reflexivity. }
  split; [|split; [|split; [|split; [|split; [|split; [|split; [|split; [|split]]]]]]]]; try reflexivity.
  - constructor.
    + discriminate.
    + intros v Hv. destruct (aln_graph_vars v Hv) as [E|E]; destruct v; try discriminate; reflexivity.
    + repeat constructor.
    + intros t H Hi. simpl in H.
      repeat (destruct H as [H|H]; [subst t; try discriminate Hi; vm_compute; auto|]). contradiction.
    + intros v Hv. destruct (aln_graph_vars v Hv) as [E|E]; rewrite (instances_of_cong _ _ _ E); reflexivity.
    + vm_compute. repeat constructor; simpl; intuition discriminate.
  - split; [reflexivity|]. intros v Hv.
    destruct (aln_graph_vars v Hv) as [E|E]; rewrite atom_eqb_sym in E.
    + apply reach_refl. exact E.
    + apply (reach_cong_r _ _ (sym "b")); [|exact E].
      apply (reach_step _ _ (sym "a") (sym "b")); [apply reach_refl; reflexivity|exact L].
  - split; [reflexivity|]. intros v Hv.
    destruct (aln_graph_vars v Hv) as [E|E]; rewrite atom_eqb_sym in E.
    + apply (reach_cong_r _ _ (sym "a")); [|exact E].
      apply (reach_step _ _ (sym "b") (sym "a")); [apply reach_refl; reflexivity|exact L'].
    + apply reach_refl. exact E.
  - intros t es pv I Ip. simpl in I.
    repeat (destruct I as [I|I]; [inversion I; subst; simpl in Ip;
            repeat (destruct Ip as [Ip|Ip]; [inversion Ip; reflexivity|]); try contradiction|]).
    contradiction.
  - unfold distinct_edges. vm_compute. repeat constructor; simpl; intuition discriminate.
  - apply aln_graph_hypotheses.
Qed.

(* the round trip of the example from top [b], computed: all three alignments
   and the role alignment come back, each on its triple *)
Example aln_graph_roundtrip_computed :
  exists s g', encode_top default_model (Some 2%Z) false aln_graph (Some (sym "b")) = Ok s /\
    s = s2l "(b / y
  :ARG0-of~e.2 (a / x~1
    :mod ""s""~3
    :ARG1-of b~e4,5))" /\
    decode default_model s = Ok g' /\
    annot default_model g' =
      [(tr "b" ":instance" "y", None, None);
       (tr "a" ":ARG0" "b", None, Some (RAln [2%N] (Some (s2l "e."))));
       (tr "a" ":instance" "x", Some (Aln [1%N] None), None);
       (tr "a" ":mod" """s""", Some (Aln [3%N] None), None);
       (tr "b" ":ARG1" "a", Some (Aln [4%N; 5%N] (Some (s2l "e"))), None)] /\
    Permutation (annot default_model g') (annot_txt default_model aln_graph).
Proof.
  eexists. eexists. split; [vm_compute; reflexivity|]. split; [reflexivity|].
  split; [vm_compute; reflexivity|]. split; [vm_compute; reflexivity|].
  vm_compute.
  eapply perm_trans; [apply perm_swap|]. eapply perm_trans; [apply perm_skip, perm_swap|].
  apply perm_swap.
Qed.

(* an alignment on an edge whose target is written as a nested node is dropped
   (the real code logs a warning): from top [a] the edge (a :ARG0 b) opens the
   node of [b], from top [b] it is written inverted with [a] nested; the same
   marker on the re-entrancy (b :ARG1 a) survives *)
Definition aln_lossy_graph : graph :=
  mkGraph [tr "a" ":instance" "x"; tr "a" ":ARG0" "b"; tr "b" ":instance" "y"; tr "b" ":ARG1" "a"]
    None
    [(tr "a" ":ARG0" "b", [Aln [7%N] None; RAln [8%N] None]);
     (tr "b" ":ARG1" "a", [Aln [9%N] None])] [].

Example aln_lossy_computed :
  exists s g', encode_top default_model (Some 2%Z) false aln_lossy_graph None = Ok s /\
    s = s2l "(a / x
  :ARG0~8 (b / y
    :ARG1 a~9))" /\
    decode default_model s = Ok g' /\
    annot default_model g' =
      [(tr "a" ":instance" "x", None, None);
       (tr "a" ":ARG0" "b", None, Some (RAln [8%N] None));
       (tr "b" ":instance" "y", None, None);
       (tr "b" ":ARG1" "a", Some (Aln [9%N] None), None)] /\
    alns_printable aln_lossy_graph = true /\ alns_on_atoms aln_lossy_graph = false.
Proof.
  eexists. eexists. split; [vm_compute; reflexivity|]. split; [reflexivity|].
  split; [vm_compute; reflexivity|]. split; [vm_compute; reflexivity|]. split; reflexivity.
Qed.

(* ------------------------------------------------------------------ *)
(** * C05: reconfigure and re-topping keep the content *)

Lemma reach_trans : forall g a b c, reach g a b -> reach g b c -> reach g a c.
Proof.
  intros g a b c R1 R2. induction R2 as [c E|b' c R2 IH L].
  - eapply reach_cong_r; eassumption.
  - eapply reach_step; [exact IH|exact L].
Qed.

Lemma reach_sym : forall g a b, reach g a b -> reach g b a.
Proof.
  intros g a b R. induction R as [b E|b' c R IH L].
  - apply reach_refl. rewrite atom_eqb_sym. exact E.
  - eapply reach_trans; [|exact IH].
    eapply reach_step; [apply reach_refl; apply atom_eqb_refl|]. apply (link_sym g). exact L.
Qed.

(* weak connectivity does not depend on the variable it is measured from *)
Lemma connected_any : forall g a v, connected g a -> is_var g v = true -> connected g v.
Proof.
  intros g a v [Va H] Vv. split; [exact Vv|]. intros u Vu.
  eapply reach_trans; [apply reach_sym; apply H; exact Vv|apply H; exact Vu].
Qed.

Theorem retop_content_aln : forall m g a v,
  wf_graph m g -> connected g a -> is_var g v = true ->
  aln_strippable g -> pushes_name_variables g -> deinverts m = true ->
  exists t, configure m g (Some v) = Ok t /\
    node_var (troot t) = v /\
    NoDup (map akey (tree_node_vars t)) /\
    Permutation (tree_content m (tree_triples (strip_aln_tree t))) (graph_content m g).
Proof.
  intros m g a v W C Vv AS PV Dm.
  apply (configure_total_and_faithful_aln m g (Some v) v W eq_refl (connected_any g a v C Vv) AS PV Dm).
Qed.

(* ---- graphs with the same top and a permutation of the triples ---- *)
Section PermGraph.
  Variable g g' : graph.
  Hypothesis PT : Permutation (triples g') (triples g).
  Hypothesis TOP : gtop g' = gtop g.

  Lemma in_triples_perm : forall x, In x (triples g') <-> In x (triples g).
  Proof.
    intros x. split; intros H; [eapply Permutation_in; [exact PT|exact H]|].
    eapply Permutation_in; [apply Permutation_sym; exact PT|exact H].
  Qed.

  Lemma is_var_perm : forall v, is_var g' v = is_var g v.
  Proof.
    intros v. unfold is_var, variables. rewrite !mem_dedup, TOP. apply mem_perm.
    apply Permutation_app_tail. apply Permutation_map. exact PT.
  Qed.

  Lemma link_perm : forall a b, link g a b -> link g' a b.
  Proof.
    intros a b (x & Ix & Hi & Vt & Ends). exists x. split; [apply in_triples_perm; exact Ix|].
    split; [exact Hi|]. split; [rewrite is_var_perm; exact Vt|exact Ends].
  Qed.

  Lemma reach_perm : forall a b, reach g a b -> reach g' a b.
  Proof.
    intros a b R. induction R as [b E|b c R IH L]; [apply reach_refl; exact E|].
    eapply reach_step; [exact IH|apply link_perm; exact L].
  Qed.

  Lemma connected_perm : forall tp, connected g tp -> connected g' tp.
  Proof.
    intros tp [V H]. split; [rewrite is_var_perm; exact V|].
    intros v Vv. apply reach_perm. apply H. rewrite <- is_var_perm. exact Vv.
  Qed.

  Lemma wf_graph_perm : forall m, wf_graph m g -> wf_graph m g'.
  Proof.
    intros m W. constructor.
    - intros E. apply (wf_nonempty m g W). rewrite E in PT. apply Permutation_nil in PT. exact PT.
    - intros v Vv. apply (wf_named m g W). rewrite <- is_var_perm. exact Vv.
    - unfold roles_have_colon. eapply Permutation_Forall; [apply Permutation_sym; exact PT|].
      apply (wf_roles m g W).
    - intros t It Hi. apply (wf_invertible m g W t); [apply in_triples_perm; exact It|exact Hi].
    - intros v Vv. unfold instances_of.
      rewrite (Permutation_length (Permutation_filter' _ _ _ PT)).
      apply (wf_one_instance m g W). rewrite <- is_var_perm. exact Vv.
    - eapply Permutation_NoDup; [apply Permutation_sym, Permutation_map; exact PT|].
      apply (wf_distinct m g W).
  Qed.

  Lemma graph_content_perm : forall m, Permutation (graph_content m g') (graph_content m g).
  Proof. intros m. unfold graph_content. apply Permutation_map. apply Permutation_filter'. exact PT. Qed.
End PermGraph.

Theorem reconfigure_content_aln : forall {K S} (leb : K -> K -> bool) m g top tp
  (key : option (S -> str -> S * K)) (s : S),
  wf_graph m g -> requested_top g top = Some tp -> connected g tp ->
  aln_strippable g -> deinverts m = true ->
  exists t, reconfigure_st leb m g top key s = Ok t /\
    node_var (troot t) = tp /\
    NoDup (map akey (tree_node_vars t)) /\
    Permutation (tree_content m (tree_triples (strip_aln_tree t))) (graph_content m g).
Proof.
  intros K S leb m g top tp key s W RT Conn AS Dm.
  unfold reconfigure_st.
  destruct (Rearrange_lemmas.reconfigure_strips_markers leb key s g)
    as (NL & _ & EP & PT & _ & TOP & _ & _ & _).
  set (g' := snd (reconfigure_graph_st leb key s g)) in *.
  assert (RT' : reconfigure_top g top = Some tp) by exact RT.
  rewrite RT'.
  assert (PV' : pushes_name_variables g').
  { intros t es pv I Ip. exfalso. rewrite Forall_forall in NL. specialize (NL (t, es) I).
    cbn [snd] in NL. rewrite forallb_forall in NL. specialize (NL (Push pv) Ip). discriminate. }
  assert (AS' : aln_strippable g').
  { constructor.
    - intros x Ix. apply (as_roles g AS). apply (in_triples_perm g g' PT). exact Ix.
    - intros x Ix. apply (as_atoms g AS). apply (in_triples_perm g g' PT). exact Ix.
    - intros x e Ix Ie Ae. apply (as_hosts g AS x e); [apply (in_triples_perm g g' PT); exact Ix| |exact Ae].
      rewrite EP in Ie. apply filter_In in Ie. tauto. }
  destruct (configure_total_and_faithful_aln m g' (Some tp) tp (wf_graph_perm g g' PT TOP m W) eq_refl
              (connected_perm g g' PT TOP tp Conn) AS' PV' Dm) as (t & E & Hr & Hn & Hc).
  exists t. split; [exact E|]. split; [exact Hr|]. split; [exact Hn|].
  eapply perm_trans; [exact Hc|]. apply graph_content_perm. exact PT.
Qed.

(* reconfigure of the example graph from top [b], computed: the Push / POP
   markers are dropped, the alignment markers are written *)
Example reconfigure_content_nonvacuous :
  exists t, reconfigure (K := bool) (fun _ _ => true) default_model aln_graph (Some (sym "b")) None = Ok t /\
    format (Some 2%Z) false t =
    s2l "(b / y
  :ARG0-of~e.2 (a / x~1
    :mod ""s""~3
    :ARG1-of b~e4,5))".
Proof. eexists. split; vm_compute; reflexivity. Qed.

(* [distinct_edges] cannot be dropped: an edge stated twice, once in each
   direction, decodes to a DUPLICATED triple whose two copies share one epidata
   entry (the implementation logs -ignoring epigraph data for duplicate triple-):
   the role alignment 2 is lost and 1 is reported twice *)
Definition dup_edge_graph : graph :=
  mkGraph [tr "a" ":instance" "x"; tr "b" ":instance" "y"; tr "a" ":ARG1-of" "b"; tr "b" ":ARG1" "a"]
    None
    [(tr "a" ":ARG1-of" "b", [RAln [1%N] None]); (tr "b" ":ARG1" "a", [RAln [2%N] None])] [].

Example distinct_edges_needed :
  ~ distinct_edges default_model dup_edge_graph /\
  alns_printable dup_edge_graph = true /\ atoms_lexable dup_edge_graph = true /\
  exists s g', encode_top default_model (Some 2%Z) false dup_edge_graph None = Ok s /\
    s = s2l "(a / x
  :ARG1-of~1 (b / y)
  :ARG1-of~2 b)" /\
    decode default_model s = Ok g' /\
    annot default_model g' =
      [(tr "a" ":instance" "x", None, None);
       (tr "b" ":ARG1" "a", None, Some (RAln [1%N] None));
       (tr "b" ":instance" "y", None, None);
       (tr "b" ":ARG1" "a", None, Some (RAln [1%N] None))] /\
    annot_txt default_model dup_edge_graph =
      [(tr "a" ":instance" "x", None, None);
       (tr "b" ":instance" "y", None, None);
       (tr "b" ":ARG1" "a", None, Some (RAln [1%N] None));
       (tr "b" ":ARG1" "a", None, Some (RAln [2%N] None))].
Proof.
  split; [|split; [reflexivity|split; [reflexivity|]]].
  - unfold distinct_edges. vm_compute. intros N.
    inversion N as [|? ? Ha Na]. inversion Na as [|? ? Hb Nb]. inversion Nb as [|? ? Hc Nc].
    apply Hc. left. reflexivity.
  - eexists. eexists. split; [vm_compute; reflexivity|]. split; [reflexivity|].
    split; [vm_compute; reflexivity|]. split; vm_compute; reflexivity.
Qed.
