(** End-to-end composition with ALIGNMENT markers (C03): a well-formed connected
    graph whose epidata also holds printable alignment markers survives
    encode then decode -- triples, top, role alignments, and the alignments of
    every triple whose target is written as an atom.

    Built on Proofs/Configure_content_aln.v (the placement theorem with the
    markers carried along) and the pieces of Proofs/EndToEnd_lemmas.v. *)
From PM Require Import Spec.WellFormed Spec.WfLayout Spec.GraphEq Spec.Reading Impl.Codec Impl.Layout.
From PM Require Proofs.Errors_lemmas Proofs.LexBoundary_lemmas Proofs.Rearrange_lemmas.
From PM Require Import Proofs.Model_lemmas Proofs.Roundtrip_lemmas Proofs.Configure_fast
  Proofs.Configure_term Proofs.Configure_content Proofs.Configure_complete Proofs.Interpret_lemmas
  Proofs.EndToEnd_lemmas Proofs.Configure_content_aln.
From Coq Require Import Lia NArith ZArith.

(* ------------------------------------------------------------------ *)
(** * Printing an alignment marker and parsing it back *)

(* the prefix is absent, one ASCII letter, or one ASCII letter and a period;
   there is at least one index *)
Definition pre_printable (pre : option str) : bool :=
  match pre with
  | None => true
  | Some [c] => is_ascii_alpha c
  | Some [c; d] => is_ascii_alpha c && eqc d 46
  | Some _ => false
  end.
Definition aln_printable (idx : list N) (pre : option str) : bool :=
  match idx with [] => false | _ => true end && pre_printable pre.
Definition epi_printable (e : epi) : bool :=
  match e with Aln i p | RAln i p => aln_printable i p | _ => true end.

Definition digits_list (idx : list N) : str := join [44%N] (map N_to_str idx).
Definition tail_text (rest : list N) : str := concat (map (fun n => 44%N :: N_to_str n) rest).

Lemma digits_list_cons : forall n rest, digits_list (n :: rest) = N_to_str n ++ tail_text rest.
Proof.
  intros n rest. revert n. induction rest as [|k rest IH]; intros n.
  - unfold digits_list, tail_text. simpl. rewrite app_nil_r. reflexivity.
  - specialize (IH k). unfold digits_list in *. cbn [map] in *.
    change (join [44%N] (N_to_str n :: N_to_str k :: map N_to_str rest))
      with (N_to_str n ++ [44%N] ++ join [44%N] (N_to_str k :: map N_to_str rest)).
    rewrite IH. unfold tail_text. cbn [map concat app]. reflexivity.
Qed.

Lemma nts_fuel_digits : forall f n acc, forallb is_digit acc = true ->
  forallb is_digit (N_to_str_fuel f n acc) = true.
Proof.
  induction f as [|f IH]; intros n acc H; [exact H|].
  cbn [N_to_str_fuel].
  assert (D : is_digit (digit_char (n mod 10)) = true).
  { unfold is_digit, digit_char. pose proof (N.mod_lt n 10 ltac:(lia)) as L.
    remember (n mod 10)%N as r eqn:Hr. clear Hr.
    apply andb_true_iff. split; apply N.leb_le; lia. }
  destruct (N.eqb (n / 10) 0).
  - cbn [forallb]. rewrite D, H. reflexivity.
  - apply IH. cbn [forallb]. rewrite D, H. reflexivity.
Qed.

Lemma N_to_str_digits : forall n, forallb is_digit (N_to_str n) = true.
Proof. intros n. unfold N_to_str. apply nts_fuel_digits. reflexivity. Qed.

Lemma N_to_str_cons : forall n, exists d ds, N_to_str n = d :: ds /\ is_digit d = true.
Proof.
  intros n. pose proof (N_to_str_digits n) as D.
  destruct (N_to_str n) as [|d ds] eqn:E; [exfalso; exact (Errors_lemmas.N_to_str_nonempty n E)|].
  exists d, ds. split; [reflexivity|]. simpl in D. apply andb_true_iff in D. tauto.
Qed.

Lemma parse_int_N_to_str : forall n, parse_int (N_to_str n) = Some n.
Proof.
  intros n. unfold parse_int. pose proof (N_to_str_digits n) as D.
  destruct (Errors_lemmas.N_to_str_spec n) as (V & _). cbv zeta in V.
  destruct (N_to_str n) as [|d ds] eqn:E; [exfalso; exact (Errors_lemmas.N_to_str_nonempty n E)|].
  rewrite D, V. reflexivity.
Qed.

Lemma parse_ints_N_to_str : forall idx, parse_ints (map N_to_str idx) = Some idx.
Proof.
  induction idx as [|n idx IH]; [reflexivity|].
  cbn [map parse_ints]. rewrite parse_int_N_to_str, IH. reflexivity.
Qed.

Lemma digit_not_comma : forall c, is_digit c = true -> eqc 44 c = false.
Proof.
  intros c H. unfold is_digit in H. apply andb_true_iff in H. destruct H as [H1 H2].
  apply N.leb_le in H1. unfold eqc. apply N.eqb_neq. lia.
Qed.

Lemma split_char_digits : forall x, forallb is_digit x = true -> split_char 44 x = [x].
Proof.
  induction x as [|c x IH]; intros H; [reflexivity|].
  simpl in H. apply andb_true_iff in H. destruct H as [H1 H2].
  cbn [split_char]. rewrite (digit_not_comma c H1), (IH H2). reflexivity.
Qed.

Lemma split_char_digits_comma : forall x rest, forallb is_digit x = true ->
  split_char 44 (x ++ 44%N :: rest) = x :: split_char 44 rest.
Proof.
  induction x as [|c x IH]; intros rest H.
  - reflexivity.
  - simpl in H. apply andb_true_iff in H. destruct H as [H1 H2].
    cbn [app split_char]. rewrite (digit_not_comma c H1), (IH rest H2). reflexivity.
Qed.

Lemma split_digits_list : forall n rest,
  split_char 44 (digits_list (n :: rest)) = map N_to_str (n :: rest).
Proof.
  intros n rest. revert n. induction rest as [|k rest IH]; intros n.
  - rewrite digits_list_cons. unfold tail_text. simpl. rewrite app_nil_r.
    apply split_char_digits, N_to_str_digits.
  - rewrite digits_list_cons. unfold tail_text. cbn [map concat app]. fold (tail_text rest).
    rewrite split_char_digits_comma by apply N_to_str_digits.
    rewrite <- digits_list_cons, IH. reflexivity.
Qed.

Lemma digit_not_alpha : forall c, is_digit c = true -> is_ascii_alpha c = false.
Proof.
  intros c H. unfold is_digit in H. apply andb_true_iff in H. destruct H as [H1 H2].
  apply N.leb_le in H1, H2. unfold is_ascii_alpha, is_ascii_lower, is_ascii_upper.
  apply orb_false_iff. split; apply andb_false_iff; left; apply N.leb_gt; lia.
Qed.

Lemma digit_not_period : forall c, is_digit c = true -> eqc c 46 = false.
Proof.
  intros c H. unfold is_digit in H. apply andb_true_iff in H. destruct H as [H1 H2].
  apply N.leb_le in H1. unfold eqc. apply N.eqb_neq. lia.
Qed.

Lemma digit_not_tilde : forall c, is_digit c = true -> eqc TILDE c = false.
Proof.
  intros c H. unfold is_digit in H. apply andb_true_iff in H. destruct H as [H1 H2].
  apply N.leb_le in H2. unfold eqc, TILDE. apply N.eqb_neq. lia.
Qed.

Lemma alpha_not_tilde : forall c, is_ascii_alpha c = true -> eqc TILDE c = false.
Proof.
  intros c H. unfold is_ascii_alpha, is_ascii_lower, is_ascii_upper in H.
  unfold eqc, TILDE. apply N.eqb_neq. intros <-. vm_compute in H. discriminate.
Qed.

Lemma digits_list_head : forall n rest, exists d r,
  digits_list (n :: rest) = d :: r /\ is_digit d = true.
Proof.
  intros n rest. rewrite digits_list_cons. destruct (N_to_str_cons n) as (d & ds & E & D).
  rewrite E. exists d, (ds ++ tail_text rest). auto.
Qed.

(* the print / parse round trip of AlignmentMarker *)
Lemma aln_print_parse : forall idx pre, aln_printable idx pre = true ->
  aln_from_string (aln_to_string idx pre) = Ok (idx, pre).
Proof.
  intros idx pre H. unfold aln_printable in H. apply andb_true_iff in H. destruct H as [Hi Hp].
  destruct idx as [|n rest]; [discriminate|]. clear Hi.
  unfold aln_to_string. rewrite aln_from_string_tilde. fold (digits_list (n :: rest)).
  destruct (digits_list_head n rest) as (d & r & Ed & Dd).
  pose proof (split_digits_list n rest) as Sp.
  pose proof (parse_ints_N_to_str (n :: rest)) as Pi.
  unfold aln_from_string.
  destruct pre as [[|c [|c2 [|c3 p]]]|]; try discriminate.
  - (* one letter *)
    simpl in Hp. cbn [app].
    assert (L : lstrip_char TILDE (c :: digits_list (n :: rest)) = c :: digits_list (n :: rest)).
    { cbn [lstrip_char]. rewrite (alpha_not_tilde c Hp). reflexivity. }
    rewrite L. cbv iota beta. rewrite Hp, Ed. cbv iota beta.
    rewrite (digit_not_period d Dd). rewrite <- Ed, Sp, Pi. reflexivity.
  - (* letter and period *)
    simpl in Hp. apply andb_true_iff in Hp. destruct Hp as [Hc H2]. cbn [app].
    assert (L : lstrip_char TILDE (c :: c2 :: digits_list (n :: rest)) = c :: c2 :: digits_list (n :: rest)).
    { cbn [lstrip_char]. rewrite (alpha_not_tilde c Hc). reflexivity. }
    rewrite L. cbv iota beta. rewrite Hc, H2. rewrite Sp, Pi. apply N.eqb_eq in H2. subst c2. reflexivity.
  - (* no prefix *)
    cbn [app].
    assert (L : lstrip_char TILDE (digits_list (n :: rest)) = digits_list (n :: rest)).
    { rewrite Ed. cbn [lstrip_char]. rewrite (digit_not_tilde d Dd). reflexivity. }
    rewrite L. rewrite Ed. cbv iota beta. rewrite (digit_not_alpha d Dd). rewrite <- Ed, Sp, Pi. reflexivity.
Qed.

(* ---- the printed marker is an ALIGNMENT lexeme ---- *)
Lemma tail_text_cases : forall rest, tail_text rest = [] \/ exists y, tail_text rest = 44%N :: y.
Proof. intros [|k rest]; [left; reflexivity|right]. unfold tail_text. simpl. eexists. reflexivity. Qed.

Lemma span_digits_tail : forall n rest,
  span is_digit (N_to_str n ++ tail_text rest) = (N_to_str n, tail_text rest).
Proof.
  intros n rest. destruct (tail_text_cases rest) as [E|[y E]]; rewrite E.
  - rewrite app_nil_r. apply span_all. apply N_to_str_digits.
  - apply span_stop; [apply N_to_str_digits|reflexivity].
Qed.

Lemma m_more_tail : forall rest f, length rest <= f -> m_more f (tail_text rest) = (tail_text rest, []).
Proof.
  induction rest as [|k rest IH]; intros f L.
  - destruct f; reflexivity.
  - destruct f as [|f']; [simpl in L; lia|].
    unfold tail_text. cbn [map concat app]. fold (tail_text rest).
    cbn [m_more]. replace (eqc 44 44) with true by reflexivity.
    rewrite span_digits_tail.
    destruct (N_to_str_cons k) as (d & ds & E & _). rewrite E.
    rewrite (IH f') by (simpl in L; lia). reflexivity.
Qed.

Lemma length_tail_text : forall rest, length rest <= length (tail_text rest).
Proof.
  induction rest as [|k rest IH]; [simpl; lia|].
  unfold tail_text in *. cbn [map concat]. rewrite app_length. simpl. lia.
Qed.

Lemma m_digits_list_print : forall n rest,
  m_digits_list (digits_list (n :: rest)) = Some (digits_list (n :: rest), []).
Proof.
  intros n rest. rewrite digits_list_cons. unfold m_digits_list.
  rewrite span_digits_tail. destruct (N_to_str_cons n) as (d & ds & E & _). rewrite E.
  rewrite m_more_tail by apply length_tail_text. reflexivity.
Qed.

Lemma wf_align_print : forall idx pre, aln_printable idx pre = true ->
  wf_align (aln_to_string idx pre) = true.
Proof.
  intros idx pre H. unfold aln_printable in H. apply andb_true_iff in H. destruct H as [Hi Hp].
  destruct idx as [|n rest]; [discriminate|]. clear Hi.
  unfold aln_to_string. fold (digits_list (n :: rest)).
  destruct (digits_list_head n rest) as (d & r & Ed & Dd).
  pose proof (m_digits_list_print n rest) as MD.
  unfold wf_align, m_align. replace (eqc TILDE 126) with true by reflexivity.
  rewrite Ed in MD |- *.
  destruct pre as [[|c [|c2 [|c3 p]]]|]; try discriminate.
  - simpl in Hp. cbn [app]. cbv iota beta zeta. rewrite Hp, MD, (digit_not_period d Dd).
    apply cfg_str_eqb_refl.
  - simpl in Hp. apply andb_true_iff in Hp. destruct Hp as [Hc H2]. cbn [app]. cbv iota beta zeta.
    rewrite Hc, H2, MD. apply cfg_str_eqb_refl.
  - cbn [app]. cbv iota beta zeta. rewrite (digit_not_alpha d Dd), MD.
    apply cfg_str_eqb_refl.
Qed.

Lemma digits_no_quote : forall s, forallb is_digit s = true -> contains_char QUOTE s = false.
Proof.
  induction s as [|c s IH]; intros H; [reflexivity|].
  simpl in H. apply andb_true_iff in H. destruct H as [H1 H2].
  rewrite contains_cons, (IH H2), orb_false_r.
  unfold is_digit in H1. apply andb_true_iff in H1. destruct H1 as [A B]. apply N.leb_le in A.
  unfold eqc, QUOTE. apply N.eqb_neq. lia.
Qed.

Lemma tail_text_no_quote : forall rest, contains_char QUOTE (tail_text rest) = false.
Proof.
  induction rest as [|k rest IH]; [reflexivity|].
  unfold tail_text in *. cbn [map concat]. rewrite contains_app, IH, orb_false_r.
  rewrite contains_cons. rewrite (digits_no_quote _ (N_to_str_digits k)). reflexivity.
Qed.

Lemma aln_print_no_quote : forall idx pre, aln_printable idx pre = true ->
  contains_char QUOTE (aln_to_string idx pre) = false.
Proof.
  intros idx pre H. unfold aln_printable in H. apply andb_true_iff in H. destruct H as [Hi Hp].
  destruct idx as [|n rest]; [discriminate|]. clear Hi.
  unfold aln_to_string. fold (digits_list (n :: rest)).
  assert (D : contains_char QUOTE (digits_list (n :: rest)) = false).
  { rewrite digits_list_cons, contains_app, tail_text_no_quote, orb_false_r.
    apply digits_no_quote, N_to_str_digits. }
  assert (A : forall c, is_ascii_alpha c = true -> eqc QUOTE c = false).
  { intros c Hc. unfold eqc, QUOTE. apply N.eqb_neq. intros <-. vm_compute in Hc. discriminate. }
  rewrite contains_cons. replace (eqc QUOTE TILDE) with false by reflexivity. cbn [orb].
  destruct pre as [[|c [|c2 [|c3 p]]]|]; try discriminate; cbn [app].
  - simpl in Hp. rewrite contains_cons, (A c Hp), D. reflexivity.
  - simpl in Hp. apply andb_true_iff in Hp. destruct Hp as [Hc H2]. apply N.eqb_eq in H2. subst c2.
    rewrite !contains_cons, (A c Hc), D. reflexivity.
  - exact D.
Qed.

(* ------------------------------------------------------------------ *)
(** * A role / an atomic target with a printed alignment appended *)

Lemma lex_role_tilde_free : forall r, lex_role r = true -> tilde_free r.
Proof.
  intros [|c r'] H; [discriminate|]. simpl in H. apply andb_true_iff in H. destruct H as [C N].
  unfold tilde_free. rewrite contains_cons, (proj2 (names_no_tilde _ N)), orb_false_r.
  apply N.eqb_eq in C. subst c. reflexivity.
Qed.

Lemma role_decorated : forall r idx pre, lex_role r = true -> aln_printable idx pre = true ->
  wf_role (r ++ aln_to_string idx pre) = true /\
  process_role (r ++ aln_to_string idx pre) = Ok (r, [RAln idx pre]) /\
  str_eqb (r ++ aln_to_string idx pre) SLASHS = false /\
  startswith (r ++ aln_to_string idx pre) [COLON] = true.
Proof.
  intros r idx pre L P. pose proof (lex_role_tilde_free r L) as TF.
  destruct r as [|c r']; [discriminate|]. simpl in L. apply andb_true_iff in L. destruct L as [C N].
  apply N.eqb_eq in C. subst c.
  pose proof (wf_align_print idx pre P) as WA. pose proof (aln_print_parse idx pre P) as PP.
  unfold aln_to_string in *. set (B := match pre with Some p => p | None => [] end ++ join [44%N] (map N_to_str idx)) in *.
  split; [|split; [|split]].
  - unfold wf_role. cbn [app]. replace (eqc 58 58) with true by reflexivity. cbn [andb].
    unfold split_tilde. rewrite (span_stop _ r' TILDE B (proj1 (names_no_tilde _ N)) eq_refl).
    rewrite N. exact WA.
  - unfold process_role. replace (str_eqb ((58%N :: r') ++ TILDE :: B) SLASHS) with false
      by (destruct r'; reflexivity).
    rewrite contains_app, contains_cons. replace (eqc TILDE TILDE) with true by reflexivity.
    rewrite orb_true_r. unfold partition. rewrite (partition_tilde_cut _ B TF).
    rewrite aln_from_string_tilde in PP. rewrite PP. reflexivity.
  - destruct r'; reflexivity.
  - cbn [app startswith]. rewrite startswith_nil. reflexivity.
Qed.

Lemma symbol_decorated : forall s idx pre, wf_symbol s = true -> aln_printable idx pre = true ->
  wf_atom_text (s ++ aln_to_string idx pre) = true /\
  process_atomic (AStr (s ++ aln_to_string idx pre)) = Ok (AStr s, [Aln idx pre]).
Proof.
  intros s idx pre H P.
  pose proof (wf_align_print idx pre P) as WA. pose proof (aln_print_parse idx pre P) as PP.
  unfold aln_to_string in *. set (B := match pre with Some p => p | None => [] end ++ join [44%N] (map N_to_str idx)) in *.
  assert (H' := H). unfold wf_symbol in H'. destruct s as [|c s]; [discriminate|].
  apply andb_true_iff in H'. destruct H' as [_ N].
  assert (N' := N). simpl in N'. apply andb_true_iff in N'. destruct N' as [Nc _].
  destruct (is_name_chars c Nc) as (Q & _).
  destruct (names_no_tilde _ N) as [N1 N2].
  split.
  - unfold wf_atom_text, m_string. cbn [app]. rewrite Q.
    unfold split_tilde. change (c :: s ++ TILDE :: B) with ((c :: s) ++ TILDE :: B).
    rewrite (span_stop _ (c :: s) TILDE B N1 eq_refl). rewrite H. exact WA.
  - unfold process_atomic. rewrite contains_app, contains_cons.
    replace (eqc TILDE TILDE) with true by reflexivity. rewrite orb_true_r. cbn [negb].
    assert (SQ : startswith ((c :: s) ++ TILDE :: B) [QUOTE] = false).
    { cbn [app startswith]. rewrite eqc_sym. unfold QUOTE. rewrite Q. reflexivity. }
    rewrite SQ. unfold partition. rewrite (partition_tilde_cut (c :: s) B N2).
    rewrite aln_from_string_tilde in PP. rewrite PP. reflexivity.
Qed.

Lemma string_decorated : forall s idx pre, lex_string s = true -> aln_printable idx pre = true ->
  wf_atom_text (s ++ aln_to_string idx pre) = true /\
  process_atomic (AStr (s ++ aln_to_string idx pre)) = Ok (AStr s, [Aln idx pre]).
Proof.
  intros s idx pre H P.
  pose proof (wf_align_print idx pre P) as WA. pose proof (aln_print_parse idx pre P) as PP.
  pose proof (aln_print_no_quote idx pre P) as NQ.
  unfold lex_string in H. apply andb_true_iff in H. destruct H as [H H3].
  apply andb_true_iff in H. destruct H as [H1 H2].
  destruct (m_string s) as [[w [|x a]]|] eqn:MS; try discriminate.
  apply cfg_str_eqb_eq in H3. subst w.
  unfold complete_string in H1. apply andb_true_iff in H1. destruct H1 as [Q1 Q2].
  destruct (endswith_quote s Q2) as [b Eb].
  split.
  - unfold wf_atom_text. rewrite (LexBoundary_lemmas.m_string_app _ _ _ (aln_to_string idx pre) MS).
    cbn [app]. rewrite H2. unfold opt_align, aln_to_string. unfold aln_to_string in WA. exact WA.
  - unfold process_atomic.
    assert (CT : contains_char TILDE (s ++ aln_to_string idx pre) = true).
    { rewrite contains_app. unfold aln_to_string. rewrite contains_cons.
      replace (eqc TILDE TILDE) with true by reflexivity. apply orb_true_r. }
    rewrite CT. cbn [negb]. rewrite (startswith_app_l s _ QUOTE Q1).
    unfold rindex. rewrite Eb, <- app_assoc. cbn [app].
    rewrite rindex_aux_last by exact NQ. rewrite Nat.add_0_l.
    assert (Ll : Nat.ltb (S (length b)) (length (b ++ QUOTE :: aln_to_string idx pre)) = true).
    { apply Nat.ltb_lt. rewrite app_length. unfold aln_to_string. simpl. lia. }
    rewrite Ll.
    replace (S (length b)) with (length (b ++ [QUOTE])) by (rewrite app_length; simpl; lia).
    change (b ++ QUOTE :: aln_to_string idx pre) with (b ++ [QUOTE] ++ aln_to_string idx pre).
    rewrite app_assoc, skipn_exact, firstn_exact, PP. reflexivity.
Qed.

Lemma text_decorated : forall s idx pre, lex_text s = true -> aln_printable idx pre = true ->
  wf_atom_text (s ++ aln_to_string idx pre) = true /\
  process_atomic (AStr (s ++ aln_to_string idx pre)) = Ok (AStr s, [Aln idx pre]).
Proof.
  intros s idx pre H P. unfold lex_text in H. apply orb_true_iff in H.
  destruct H; [apply symbol_decorated|apply string_decorated]; assumption.
Qed.

(* ------------------------------------------------------------------ *)
(** * The store behind a successful [configure], for ARBITRARY epidata *)

Theorem configure_structure_aln : forall m g top t,
  configure m g top = Ok t -> triples g <> [] -> roles_have_colon g -> pushes_name_variables g ->
  exists tp st nm,
    requested_top g top = Some tp /\
    t = mkTree (build (S (length st)) st 0) (gmeta g) /\
    WF [] st nm /\ node_var_at st 0 = tp /\
    Vars g st /\ Shape st /\
    (forall x, In x (triples g) -> is_instance x = true -> owns st (tsrc x)) /\
    exists ios, Forall2 (expressed_i m g) (triples g) ios /\
                Permutation (store_items st) (concat ios).
Proof.
  intros m g top t E NE C PV. unfold configure in E.
  destruct (triples g) as [|t0 ts] eqn:TS; [contradiction|]. rewrite <- TS in *. clear NE.
  fold (requested_top g top) in E.
  destruct (requested_top g top) as [tp|]; [|discriminate].
  destruct (mem atom_eqb tp (variables g)) eqn:Vtp; [|discriminate].
  cbn [negb] in E. cbv zeta in E.
  remember (dset atom_eqb tp (Some O) (map (fun v => (v, @None nat)) (variables g))) as nm0 eqn:Hnm0.
  remember (preconf m (triples g) (epidata g) []) as data0 eqn:Hd0.
  destruct (cnode (S (length data0)) m tp O false data0 [(tp, [])] nm0)
    as [[[[s1 data1] st1] nm1]| | | | | | | |] eqn:E1; try discriminate.
  cbn [bind] in E.
  destruct (cloop (configure_fuel (length data1)) m (drop_pops data1) [] st1 nm1)
    as [st2| | | | | | | |] eqn:E2; try discriminate.
  cbn [bind] in E. inversion E; subst t. clear E.
  pose proof (preconf_triples m (triples g) (epidata g) []) as Fpre. rewrite <- Hd0 in Fpre.
  pose proof (preconf_items m (triples g) (epidata g) []) as Fpi. rewrite <- Hd0 in Fpi.
  pose proof (pre_as_colon _ _ _ Fpre C) as C0.
  assert (W0 : WF [] [(tp, [])] nm0) by (rewrite Hnm0; apply WF_init).
  assert (N0 : exists w es, nth_error [(tp, @nil cedge)] 0 = Some (w, es) /\ atom_eqb tp w = true).
  { exists tp, []. split; [reflexivity|apply atom_eqb_refl]. }
  destruct (cnode_spec_i _ _ _ _ _ _ _ _ [] _ _ _ _ E1 W0 C0 N0) as (W1 & X1 & used & Eu & A1).
  assert (C1 : colon_ok (data_triples data1)).
  { rewrite Eu, data_triples_app in C0. apply colon_ok_app in C0. tauto. }
  assert (Cdp : colon_ok (data_triples (drop_pops data1))) by (rewrite data_triples_drop_pops; exact C1).
  destruct (cloop_spec_i _ _ _ _ _ _ _ E2 W1 Cdp (Forall_nil _)) as ([nm2 W2] & X2 & A2).
  assert (V0 : Vars g [(tp, [])]).
  { intros w es [I|[]]. inversion I; subst. exact Vtp. }
  assert (S0 : Shape [(tp, [])]).
  { intros w es [I|[]]. inversion I; subst. reflexivity. }
  assert (KK0 : keysK g nm0).
  { intros v Hv. rewrite Hnm0, dmem_dset, dmem_map_none in Hv. apply orb_true_iff in Hv.
    destruct Hv as [Hv|Hv]; [exact Hv|]. rewrite (is_var_cong g _ _ Hv). exact Vtp. }
  assert (PN0 : pushN g data0).
  { rewrite Hd0. apply preconf_pushN; [intros y Iy; apply src_is_var; exact Iy|exact PV]. }
  destruct (cnode_trace m g _ _ _ _ _ _ _ _ _ _ _ E1 V0 S0 KK0 C0 PN0 N0)
    as (V1 & S1 & K1 & _ & used' & Eu' & Hu).
  assert (used' = used) by (apply (app_inv_tail data1); rewrite <- Eu, <- Eu'; reflexivity).
  subst used'.
  assert (PN1 : pushN g data1) by (rewrite Eu in PN0; apply pushN_app in PN0; tauto).
  destruct (cloop_trace m g _ _ _ _ _ _ E2 W1 V1 S1 K1 Cdp (Forall_nil _) (pushN_drop_pops g _ PN1))
    as (V2 & S2 & X2' & H2).
  { intros tq eq0 []. }
  exists tp, st2, nm2.
  split; [reflexivity|]. split; [reflexivity|]. split; [exact W2|].
  split.
  { rewrite (ext_var_at [(tp, [])] st2 0 (ext_trans _ _ _ X1 X2)) by (simpl; lia). reflexivity. }
  split; [exact V2|]. split; [exact S2|].
  split.
  { intros x Ix Hi.
    destruct (Forall2_in_l _ _ _ _ Fpre Ix) as (o & Io & Ho).
    destruct Ho as [->|[_ F]]; [|congruence].
    rewrite Eu, data_triples_app in Io. apply in_app_or in Io. destruct Io as [Io|Io].
    - eapply owns_ext; [exact X2|]. apply Hu; assumption.
    - apply H2; [left; rewrite data_triples_drop_pops; exact Io|exact Hi]. }
  pose proof (Adds_i_app _ _ _ _ _ _ A1 A2) as A.
  rewrite data_items_drop_pops in A. simpl in A. rewrite app_nil_r, <- data_items_app, <- Eu in A.
  destruct A as (ios & Fos & Pos).
  exists ios. split.
  - pose proof (Forall2_compose _ _ _ _ _ Fpi Fos) as F.
    clear - F. induction F as [|x io xs ios (it & (Hp & Hk) & Hpl) F IH]; constructor; [|exact IH].
    exists (fst it). split; [exact Hp|].
    unfold epis_of. fold (lookup_epis (epidata g) x). rewrite <- Hk.
    destruct it as [t' k]. exact Hpl.
  - unfold store_items at 2 in Pos. unfold flat_aitems in Pos. simpl in Pos.
    rewrite app_nil_r in Pos. exact Pos.
Qed.

(* ------------------------------------------------------------------ *)
(** * Marker lists: the last marker of a class; at most one of a class *)

Lemma last_such_app : forall p a b,
  last_such p (a ++ b) = match last_such p b with Some e => Some e | None => last_such p a end.
Proof.
  intros p a b. unfold last_such. rewrite fold_left_app. generalize (fold_left (fun acc e => if p e then Some e else acc) a None).
  induction b as [|e b IH]; intros acc; [reflexivity|].
  simpl. destruct (p e).
  - rewrite IH. rewrite (IH None). destruct (fold_left (fun acc0 e0 => if p e0 then Some e0 else acc0) b None); reflexivity.
  - apply IH.
Qed.

Lemma last_such_none : forall p l, (forall e, In e l -> p e = false) -> last_such p l = None.
Proof.
  intros p l H. unfold last_such. induction l as [|e l IH]; [reflexivity|].
  simpl. rewrite (H e (or_introl eq_refl)). apply IH. intros e' I. apply H. right. exact I.
Qed.

Lemma last_such_self : forall p l, last_such p (filter p l) = last_such p l.
Proof. intros p l. apply Rearrange_lemmas.last_such_filter. auto. Qed.

Lemma last_raln_split : forall l tail, (forall e, In e tail -> is_raln e = false) ->
  last_such is_raln (filter is_raln l ++ tail) = last_such is_raln l.
Proof.
  intros l tail H. rewrite last_such_app, (last_such_none _ tail H). apply last_such_self.
Qed.

Lemma filter_aln_not_raln : forall l e, In e (filter is_aln l) -> is_raln e = false.
Proof. intros l e I. apply filter_In in I. destruct I as [_ A]. destruct e; try discriminate; reflexivity. Qed.
Lemma filter_raln_not_aln : forall l e, In e (filter is_raln l) -> is_aln e = false.
Proof. intros l e I. apply filter_In in I. destruct I as [_ A]. destruct e; try discriminate; reflexivity. Qed.

Lemma last_aln_split : forall l,
  last_such is_aln (filter is_raln l ++ filter is_aln l) = last_such is_aln l.
Proof.
  intros l. rewrite last_such_app, last_such_self.
  destruct (last_such is_aln l); [reflexivity|].
  apply last_such_none. apply filter_raln_not_aln.
Qed.

Lemma filter_keep : forall p es, (forall e, p e = true -> is_layout e = false) ->
  filter p (keep_epis es) = filter p es.
Proof.
  intros p es H. unfold keep_epis. rewrite filter_filter. apply filter_ext. intros e.
  destruct (p e) eqn:P; [rewrite (H e P); reflexivity|apply andb_false_r].
Qed.

Lemma filter_raln_keep : forall es, filter is_raln (keep_epis es) = filter is_raln es.
Proof. intros es. apply filter_keep. intros [v| |i q|i q] H; try discriminate H; reflexivity. Qed.
Lemma filter_aln_keep : forall es, filter is_aln (keep_epis es) = filter is_aln es.
Proof. intros es. apply filter_keep. intros [v| |i q|i q] H; try discriminate H; reflexivity. Qed.

Lemma existsb_filter_nil : forall {A} (p : A -> bool) l, existsb p l = false <-> filter p l = [].
Proof.
  intros A p l. induction l as [|x l IH]; [split; reflexivity|].
  simpl. destruct (p x); simpl; [split; discriminate|exact IH].
Qed.

(* at most one marker of the class, and it is printable: what is appended *)
Lemma one_marker : forall (p : epi -> bool) es,
  (forall e, p e = true -> exists i q, e = Aln i q \/ e = RAln i q) ->
  forallb epi_printable es = true -> Nat.leb (length (filter p es)) 1 = true ->
  (filter p es = [] /\ concat (map epi_str (filter p es)) = []) \/
  (exists e i q, filter p es = [e] /\ (e = Aln i q \/ e = RAln i q) /\ aln_printable i q = true /\
                 concat (map epi_str (filter p es)) = aln_to_string i q).
Proof.
  intros p es Hp Pr L. apply Nat.leb_le in L.
  destruct (filter p es) as [|e [|e2 l]] eqn:F; [left; split; reflexivity| |simpl in L; lia].
  right. assert (Ie : In e (filter p es)) by (rewrite F; left; reflexivity).
  apply filter_In in Ie. destruct Ie as [Ie Pe].
  destruct (Hp e Pe) as (i & q & He).
  rewrite forallb_forall in Pr. specialize (Pr e Ie).
  exists e, i, q. split; [reflexivity|]. split; [exact He|].
  destruct He as [-> | ->]; simpl in Pr; (split; [exact Pr|]); cbn [map concat epi_str]; apply app_nil_r.
Qed.

(* ---- the epimap keeps the FIRST entry of every triple ---- *)
Lemma dget_app_one_v : forall (V : Type) (k k' : triple) (v : V) (d : dict triple V),
  dget triple_eqb k (d ++ [(k', v)]) =
  match dget triple_eqb k d with Some x => Some x | None => if triple_eqb k k' then Some v else None end.
Proof.
  intros V k k' v d. induction d as [|[k0 v0] d IH]; simpl; [reflexivity|].
  destruct (triple_eqb k k0); [reflexivity|exact IH].
Qed.

Lemma dmem_dget : forall (V : Type) (k : triple) (d : dict triple V),
  dmem triple_eqb k d = match dget triple_eqb k d with Some _ => true | None => false end.
Proof. reflexivity. Qed.

Lemma epimap_first_wins : forall es acc t,
  dget triple_eqb t (fold_left epistep es acc) =
  match dget triple_eqb t acc with
  | Some v => Some v
  | None => option_map snd (find (fun e : epientry => triple_eqb t (fst e)) es)
  end.
Proof.
  induction es as [|[k v] es IH]; intros acc t.
  - simpl. destruct (dget triple_eqb t acc); reflexivity.
  - cbn [fold_left find fst]. rewrite IH. unfold epistep. cbn [fst].
    destruct (dmem triple_eqb k acc) eqn:D.
    + destruct (dget triple_eqb t acc) eqn:G; [reflexivity|].
      destruct (triple_eqb t k) eqn:E; [|reflexivity].
      exfalso. rewrite <- (dmem_congr _ _ _ acc E), dmem_dget, G in D. discriminate.
    + rewrite dget_app_one_v. destruct (dget triple_eqb t acc) eqn:G; [reflexivity|].
      destruct (triple_eqb t k); reflexivity.
Qed.

Lemma epimap_lookup : forall es t,
  dget triple_eqb t (epimap_of es) = option_map snd (find (fun e : epientry => triple_eqb t (fst e)) es).
Proof.
  intros es t. unfold epimap_of.
  change (fold_left _ es []) with (fold_left epistep es []). rewrite epimap_first_wins. reflexivity.
Qed.

(* ------------------------------------------------------------------ *)
(** * Formatting: re-typing the numbers of a tree does not change its text *)

Definition numok_atom (g : graph) (a : atom) : bool :=
  match a with ANum t _ => wf_symbol t && negb (is_var g (AStr t)) | _ => true end.
Definition numok_branch (g : graph) (rec : node -> bool) (b : branch) : bool :=
  match snd b with TAtom a => numok_atom g a | TNode n' => rec n' end.
Fixpoint numok_node (g : graph) (n : node) : bool :=
  match n with Node v bs => forallb (numok_branch g (numok_node g)) bs end.

Lemma numok_node_eq : forall g v bs,
  numok_node g (Node v bs) = forallb (numok_branch g (numok_node g)) bs.
Proof. reflexivity. Qed.

Lemma mem_strfy_numok : forall g vars a, vars_ok g vars -> numok_atom g a = true ->
  mem atom_eqb (strfy_atom a) vars = mem atom_eqb a vars.
Proof.
  intros g vars [|s|t z] V L; try reflexivity. simpl strfy_atom.
  simpl in L. apply andb_true_iff in L. destruct L as [_ L]. apply negb_true_iff in L.
  destruct (mem atom_eqb (AStr t) vars) eqn:M1.
  - destruct (V _ M1) as [_ V1]. congruence.
  - destruct (mem atom_eqb (ANum t z) vars) eqn:M2; [|reflexivity].
    destruct (V _ M2) as [V2 _]. discriminate.
Qed.

Lemma format_numok : forall g indent vars, vars_ok g vars ->
  forall n, numok_node g n = true ->
  forall column, format_node indent column vars (strfy_node n) = format_node indent column vars n.
Proof.
  intros g indent vars V. induction n as [v bs IHbs] using node_ind'. intros G column.
  rewrite numok_node_eq in G.
  rewrite strfy_node_eq, !format_node_eq.
  destruct (falsy v); [reflexivity|].
  destruct bs as [|b0 bs0]; [reflexivity|].
  cbn [map]. cbv iota zeta.
  change (strfy_branch strfy_node b0 :: map (strfy_branch strfy_node) bs0)
    with (map (strfy_branch strfy_node) (b0 :: bs0)).
  set (fe := fmt_edge (fun col n => format_node indent col vars n) indent (node_column indent column v)).
  assert (GP : forall l, Forall (branch_ok (fun n => numok_node g n = true ->
                 forall column, format_node indent column vars (strfy_node n) = format_node indent column vars n)) l ->
               forallb (numok_branch g (numok_node g)) l = true ->
               forall c p, go_parts fe vars (map (strfy_branch strfy_node) l) c p = go_parts fe vars l c p).
  { intros l F. induction F as [|[r tgt] l Hb F IH]; intros Gl c p; [reflexivity|].
    simpl in Gl. apply andb_true_iff in Gl. destruct Gl as [Gb Gl].
    simpl map. unfold numok_branch in Gb. cbn [fst snd] in Gb.
    destruct tgt as [a|n'].
    - change (strfy_branch strfy_node (r, TAtom a)) with (r, TAtom (strfy_atom a)).
      cbn [go_parts fst snd].
      rewrite (mem_strfy_numok g vars a V Gb).
      assert (FE : fe (r, TAtom (strfy_atom a)) = fe (r, TAtom a)).
      { unfold fe, fmt_edge. cbn [fst snd]. destruct a as [|s|t z]; try reflexivity.
        simpl in Gb. apply andb_true_iff in Gb. destruct Gb as [Gt _].
        destruct t as [|c0 t]; [discriminate|]. reflexivity. }
      rewrite FE. apply IH. exact Gl.
    - change (strfy_branch strfy_node (r, TNode n')) with (r, TNode (strfy_node n')).
      cbn [go_parts fst snd].
      assert (FE : fe (r, TNode (strfy_node n')) = fe (r, TNode n')).
      { unfold fe, fmt_edge. cbn [fst snd]. unfold branch_ok in Hb. simpl in Hb.
        rewrite (Hb Gb). reflexivity. }
      rewrite FE. apply IH. exact Gl. }
  rewrite (GP (b0 :: bs0) IHbs G). reflexivity.
Qed.

Lemma lex_target_numok : forall g a, lex_target g a = true -> numok_atom g a = true.
Proof. intros g [|s|t z] H; try reflexivity. exact H. Qed.

Lemma good_numok : forall m g n, good_node m g n = true -> numok_node g n = true.
Proof.
  intros m g. induction n as [v bs IHbs] using node_ind'. intros G.
  rewrite good_node_eq in G. apply andb_true_iff in G. destruct G as [G _].
  apply andb_true_iff in G. destruct G as [_ G3]. rewrite numok_node_eq.
  induction IHbs as [|[r tgt] bs Hb F IH]; [reflexivity|].
  simpl in G3. apply andb_true_iff in G3. destruct G3 as [Gb G3].
  simpl. rewrite (IH G3), andb_true_r.
  unfold good_branch in Gb. cbn [fst snd] in Gb. unfold numok_branch. cbn [snd].
  destruct (str_eqb r SLASHS).
  - destruct tgt as [a|n']; [apply lex_target_numok; exact Gb|discriminate].
  - apply andb_true_iff in Gb. destruct Gb as [_ Gt]. destruct tgt as [a|n'].
    + apply lex_target_numok; exact Gt.
    + unfold branch_ok in Hb. simpl in Hb. apply Hb. exact Gt.
Qed.

Lemma numok_strip : forall g n, numok_node g (strip_aln_node n) = numok_node g n.
Proof.
  intros g. induction n as [v bs IHbs] using node_ind'.
  cbn [strip_aln_node]. rewrite !numok_node_eq.
  induction IHbs as [|[r tgt] bs Hb F IH]; [reflexivity|].
  cbn [map forallb]. rewrite IH. f_equal.
  unfold strip_aln_branch, numok_branch. cbn [fst snd strip_aln_target].
  destruct tgt as [a|n'].
  - destruct a as [|s|t z]; try reflexivity. cbn [strip_aln_target]. unfold strip_aln_atom.
    destruct (negb (contains_char TILDE s)); [reflexivity|].
    destruct (startswith s [QUOTE]); [destruct (rindex QUOTE s); reflexivity|reflexivity].
  - unfold branch_ok in Hb. simpl in Hb. exact Hb.
Qed.

Lemma strip_tree_vars : forall n, tree_vars (strip_aln_node n) = tree_vars n.
Proof.
  induction n as [v bs IHbs] using node_ind'.
  cbn [strip_aln_node]. rewrite !tree_vars_eq. f_equal.
  unfold bs_vars. induction IHbs as [|[r [a|n']] bs Hb F IH]; [reflexivity| |].
  - exact IH.
  - cbn [map flat_map]. rewrite IH. unfold branch_ok in Hb. simpl in Hb.
    unfold strip_aln_branch. cbn [snd strip_aln_target]. rewrite Hb. reflexivity.
Qed.

(* ------------------------------------------------------------------ *)
(** * Printable alignments *)

Definition is_astr (a : atom) : bool := match a with AStr _ => true | _ => false end.

(* the marker list [es] of triple [x]: every alignment marker is printable; at
   most one alignment and one role alignment; no role alignment on an instance
   triple (the concept marker cannot carry one); an alignment only where the
   target is a text (a number or None would be re-typed by the suffix) *)
Definition epis_printable (x : triple) (es : list epi) : bool :=
  forallb epi_printable es &&
  Nat.leb (length (filter is_aln es)) 1 && Nat.leb (length (filter is_raln es)) 1 &&
  (negb (existsb is_raln es) || negb (is_instance x)) &&
  (negb (existsb is_aln es) || is_astr (ttgt x)).
Definition alns_printable (g : graph) : bool :=
  forallb (fun x => epis_printable x (epis_of g x)) (triples g).

Definition Kx (m : model) (x : triple) : triple := strfy_triple (tkey (deinvert m x)).

Lemma akey_is_var : forall g a b, akey a = akey b -> is_var g a = is_var g b.
Proof. intros g a b E. apply is_var_cong. apply akey_eq_iff. exact E. Qed.

Lemma items_forget_all : forall m g xs ios,
  Forall2 (expressed_i m g) xs ios -> Forall2 (expressed m) xs (map (map fst) ios).
Proof.
  intros m g xs ios F. induction F as [|x io xs iol H F IH]; cbn [map]; [constructor|].
  constructor; [|exact IH]. eapply items_forget. exact H.
Qed.

Section DecStore.
  Variable m : model.
  Variable g : graph.
  Hypothesis Wg : wf_graph m g.
  Hypothesis Lg : atoms_lexable g = true.
  Hypothesis AP : alns_printable g = true.
  Hypothesis Dm : deinverts m = true.
  Variable st : store.
  Variable nm : nmap.
  Variable ios : list (list aitem).
  Hypothesis Wst : WF [] st nm.
  Hypothesis Vst : Vars g st.
  Hypothesis Sst : Shape st.
  Hypothesis Fos : Forall2 (expressed_i m g) (triples g) ios.
  Hypothesis Pos : Permutation (store_items st) (concat ios).
  Hypothesis Own : forall x, In x (triples g) -> is_instance x = true -> owns st (tsrc x).

  Definition os_of : list (list triple) := map (map fst) ios.

  Lemma Fos' : Forall2 (expressed m) (triples g) os_of.
  Proof.
    unfold os_of. apply (items_forget_all m g). exact Fos.
  Qed.

  Lemma Pos' : Permutation (store_triples st) (concat os_of).
  Proof.
    unfold os_of. rewrite <- map_fst_store_items.
    eapply perm_trans; [apply Permutation_map, Pos|]. rewrite concat_map. apply Permutation_refl.
  Qed.

  Lemma printable_x : forall x, In x (triples g) -> epis_printable x (epis_of g x) = true.
  Proof. intros x Ix. unfold alns_printable in AP. rewrite forallb_forall in AP. apply AP. exact Ix. Qed.

  Lemma colon_g : forall x, In x (triples g) -> startswith (trole x) [COLON] = true.
  Proof.
    intros x Ix. pose proof (wf_roles m g Wg) as R. unfold roles_have_colon in R.
    rewrite Forall_forall in R. apply R. exact Ix.
  Qed.

  (* where a store edge comes from, with its marker list *)
  Lemma edge_origin : forall w es e, In (w, es) st -> In e es ->
    exists x o, In x (triples g) /\
      (o = x \/ (o = invert m x /\ is_instance x = false)) /\
      (is_instance o && missing_concept (ttgt o) = false) /\
      cedge_triple st w e = edge_of o /\ snd e = keep_epis (epis_of g x).
  Proof.
    intros w es e Iw Ie.
    assert (I : In (cedge_aitem st w e) (store_items st)).
    { unfold store_items, flat_aitems. apply in_flat_map. exists (w, es). split; [exact Iw|].
      unfold node_aitems. apply in_map. exact Ie. }
    apply (Permutation_in _ Pos) in I. apply in_concat in I. destruct I as (iox & Iio & Iit).
    destruct (Forall2_in_r _ _ _ _ Fos Iio) as (x & Ix & t' & Hpre & o & Ho & Eio).
    cbn [fst snd] in Ho, Eio. subst iox.
    unfold written_i, written in Iit.
    destruct (is_instance o && missing_concept (ttgt o)) eqn:Hw; [contradiction|].
    destruct Iit as [Eit|[]].
    unfold cedge_aitem in Eit. injection Eit as E1 E2.
    assert (Ek : cedge_triple st w e = edge_of o) by (first [exact E1|symmetry; exact E1]).
    assert (Ee : snd e = keep_epis (epis_of g x)) by (first [exact E2|symmetry; exact E2]).
    clear E1 E2.
    destruct (is_instance x) eqn:Hi.
    - destruct Hpre as [->|[_ F]]; [|congruence].
      destruct Ho as [->|[_ F]]; [|congruence].
      exists x, x. auto 6.
    - destruct (wf_invertible m g Wg x Ix Hi) as (R1 & R3 & R2).
      assert (Iinv : is_instance (invert m x) = false) by (rewrite is_instance_invert; exact R2).
      destruct Hpre as [->|[-> _]].
      + destruct Ho as [->|[-> _]].
        * exists x, x. auto 6.
        * exists x, (invert m x). auto 7.
      + destruct Ho as [->|[-> _]].
        * exists x, (invert m x). auto 7.
        * rewrite (invert_invert m x R1) in *. exists x, x. auto 6.
  Qed.

  Lemma tau_edge_of : forall x o, In x (triples g) ->
    (o = x \/ (o = invert m x /\ is_instance x = false)) ->
    is_instance o && missing_concept (ttgt o) = false ->
    tau m (edge_of o) = Kx m x.
  Proof.
    intros x o Ix Ho Hw.
    assert (Ex : expressed m x (written o)).
    { exists x. split; [left; reflexivity|]. exists o. split; [exact Ho|reflexivity]. }
    pose proof (expressed_content m x (written o) Dm (colon_g x Ix)
                  (fun Hi => wf_invertible m g Wg x Ix Hi) Ex) as C.
    unfold written in C. rewrite Hw in C. unfold tree_content in C. cbn [map] in C.
    destruct (is_written x); [|discriminate]. inversion C as [C1].
    unfold tau, Kx. rewrite C1. reflexivity.
  Qed.

  (* the classification of a store edge *)
  Lemma edge_class_i : forall w es r t ep, In (w, es) st -> In (r, t, ep) es ->
    exists x, In x (triples g) /\ ep = keep_epis (epis_of g x) /\
      tau m (cedge_triple st w (r, t, ep)) = Kx m x /\
      ((is_instance x = true /\ r = SLASHS /\ akey w = akey (tsrc x) /\
        exists a, t = CA a /\ akey a = akey (ttgt x) /\ missing_concept (ttgt x) = false) \/
       (is_instance x = false /\ str_eqb r SLASHS = false /\
        lex_role r = true /\ str_eqb r INSTANCE = false /\ role_stable m r = true /\
        ((akey w = akey (tsrc x) /\ akey (ctgt_atom st t) = akey (ttgt x)) \/
         (akey w = akey (ttgt x) /\ akey (ctgt_atom st t) = akey (tsrc x))))).
  Proof.
    intros w es r t ep Iw Ie.
    destruct (edge_origin w es (r, t, ep) Iw Ie) as (x & o & Ix & Ho & Hw & Ek & Eep).
    cbn [snd] in Eep. exists x. split; [exact Ix|]. split; [exact Eep|].
    split; [rewrite Ek; apply tau_edge_of; assumption|].
    unfold cedge_triple, edge_of in Ek. cbn [fst snd] in Ek. inversion Ek as [[E1 E2 E3]]. clear Ek.
    destruct (lex_triple g Lg x Ix) as (L1 & L2 & L3).
    destruct (is_instance x) eqn:Hi.
    - left. destruct Ho as [->|[_ F]]; [|congruence]. rewrite Hi in *. cbn [andb] in Hw.
      split; [reflexivity|]. split; [reflexivity|]. split; [exact E1|].
      pose proof (slash_edges_ca es (SLASHS, t, ep) (Sst w es Iw) Ie eq_refl) as Ca.
      unfold is_ca in Ca. cbn [fst snd] in Ca. destruct t as [a|j]; [|discriminate].
      exists a. auto.
    - right. pose proof (wf_invertible m g Wg x Ix Hi) as RI.
      destruct (stable_of_invertible m _ RI) as [St1 St2]. destruct RI as (R1 & R3 & R2).
      split; [reflexivity|].
      destruct Ho as [->|[-> _]].
      + rewrite Hi in *. destruct (lex_role_facts _ L2) as (_ & _ & NS & _).
        repeat (split; [assumption|]). left. auto.
      + rewrite is_instance_invert, R2 in *.
        pose proof (lex_role_invert m _ L2) as L2'.
        destruct (lex_role_facts _ L2') as (_ & _ & NS & _).
        change (trole (invert m x)) with (invert_role m (trole x)).
        repeat (split; [assumption|]). right. auto.
  Qed.
End DecStore.
