(** Lemmas for C19: lexing the text written by format_triples with TRIPLE_ALTS, and
    parsing the resulting token shapes (with every spacing variant) back. *)
From Coq Require Import Lia Arith.
From PM Require Import Impl.Parse Impl.Format Spec.Grammar Proofs.Parse_lemmas.

(* ------------------------------------------------------------------------ *)
(** * Well-formed triples of the conjunction notation (DESIGN N2, weakened to what is needed) *)

Definition all_name (w : str) : Prop := forallb is_name w = true.
(* a symbol token of the triple lexer: non-empty run of name characters not starting a comment *)
Definition wf_sym (w : str) : Prop :=
  w <> [] /\ all_name w /\ hd 0%N w <> 35%N.
Definition no_comma (w : str) : Prop := forallb (fun c => negb (eqc c 44)) w = true.
Definition no_newline (w : str) : Prop := forallb (fun c => negb (eqc c 10 || eqc c 13)) w = true.
(* a STRING lexeme: accepted by the STRING scanner with nothing left; its content is
   arbitrary except that it cannot span lines (lex splits lines first) *)
Definition wf_string (x : str) : Prop := m_string x = Some (x, []) /\ no_newline x.

Definition wf_source (s : str) : Prop := wf_sym s /\ no_comma s.
(* exactly one leading colon: the rest is a symbol, so it contains no colon *)
Definition wf_role (r : str) : Prop := exists w, r = COLON :: w /\ wf_sym w.
Definition wf_target (a : atom) : Prop :=
  match a with
  | AStr x => wf_sym x \/ wf_string x
  | ANum x _ => wf_sym x
  | ANone => False
  end.
Definition wf_conj_triple (t : triple) : Prop :=
  match tsrc t with
  | AStr s => wf_source s /\ wf_role (trole t) /\ wf_target (ttgt t)
  | _ => False
  end.

(* what parse_triples returns for a triple: strings, the target is present *)
Definition parsed_triple (t : triple) : str * str * option str :=
  (atom_str (tsrc t), trole t, Some (atom_str (ttgt t))).

(* ------------------------------------------------------------------------ *)
(** * Character-level facts *)

Lemma span_app : forall p w r, forallb p w = true ->
  (r = [] \/ exists c r', r = c :: r' /\ p c = false) -> span p (w ++ r) = (w, r).
Proof.
  induction w as [|c w IH]; intros r Hw Hr.
  - simpl. destruct Hr as [->|(c & r' & -> & Hc)]; [reflexivity|]. simpl. rewrite Hc. reflexivity.
  - simpl in Hw. apply andb_prop in Hw. destruct Hw as [Hc Hw]. simpl. rewrite Hc.
    rewrite (IH r Hw Hr). reflexivity.
Qed.

Lemma all_name_hd : forall w, w <> [] -> all_name w -> is_name (hd 0%N w) = true.
Proof.
  intros [|c w] Hne Hn; [congruence|]. unfold all_name in Hn. simpl in *.
  apply andb_prop in Hn. tauto.
Qed.

Definition stops (r : str) : Prop := r = [] \/ exists c r', r = c :: r' /\ is_name c = false.

(* a symbol is lexed as one SYMBOL token when followed by a non-name character or the end *)
Lemma name_char_facts : forall c, is_name c = true ->
  eqc c 34 = false /\ eqc c 40 = false /\ eqc c 41 = false /\ eqc c 32 = false /\
  eqc c 10 = false /\ eqc c 13 = false /\ eqc c 58 = false.
Proof.
  intros c Hc. unfold is_name, isin in Hc. simpl in Hc. apply Bool.negb_true_iff in Hc.
  repeat (apply Bool.orb_false_iff in Hc; destruct Hc as [? Hc]). repeat split; assumption.
Qed.

Lemma first_match_sym : forall w r, wf_sym w -> stops r ->
  first_match TRIPLE_ALTS (w ++ r) = Some (SYMBOL, w, r).
Proof.
  intros w r (Hne & Hn & Hh) Hr.
  assert (Hsp : span is_name (w ++ r) = (w, r)) by (apply span_app; assumption).
  pose proof (all_name_hd w Hne Hn) as Hc.
  destruct w as [|c w]; [congruence|]. simpl in Hh, Hc.
  destruct (name_char_facts c Hc) as (E34 & E40 & E41 & _).
  assert (E35 : eqc c 35 = false) by (unfold eqc; apply N.eqb_neq; exact Hh).
  assert (M1 : m_comment ((c :: w) ++ r) = None) by (simpl; rewrite E35; reflexivity).
  assert (M2 : m_string ((c :: w) ++ r) = None) by (simpl; rewrite E34; reflexivity).
  assert (M3 : m_char 40 ((c :: w) ++ r) = None) by (simpl; rewrite E40; reflexivity).
  assert (M4 : m_char 41 ((c :: w) ++ r) = None) by (simpl; rewrite E41; reflexivity).
  assert (M5 : m_symbol ((c :: w) ++ r) = Some (c :: w, r)) by (unfold m_symbol; rewrite Hsp; reflexivity).
  unfold first_match, TRIPLE_ALTS, matcher_of. rewrite M1, M2, M3, M4, M5. reflexivity.
Qed.

Lemma first_match_space : forall r, first_match TRIPLE_ALTS (32%N :: r) = None.
Proof. intro r. reflexivity. Qed.
Lemma first_match_lparen : forall r, first_match TRIPLE_ALTS (40%N :: r) = Some (LPAREN, [40%N], r).
Proof. intro r. reflexivity. Qed.
Lemma first_match_rparen : forall r, first_match TRIPLE_ALTS (41%N :: r) = Some (RPAREN, [41%N], r).
Proof. intro r. reflexivity. Qed.

Lemma m_string_body_app_n : forall n a a' b x, length a <= n ->
  m_string_body a = Some (a', b) -> m_string_body (a ++ x) = Some (a', b ++ x).
Proof.
  induction n as [|n IH]; intros a a' b x Hn H.
  - destruct a; [discriminate | simpl in Hn; lia].
  - destruct a as [|c a]; [discriminate|]. simpl in Hn. simpl in H. simpl.
    destruct (eqc c 34).
    + inversion H; subst. reflexivity.
    + destruct (eqc c 92).
      * destruct a as [|d a]; [discriminate|]. simpl in Hn. simpl.
        destruct (eqc d 10); [discriminate|].
        destruct (m_string_body a) as [[a1 b1]|] eqn:E; [|discriminate].
        inversion H; subst. rewrite (IH a a1 b x) by (auto; lia). reflexivity.
      * destruct (m_string_body a) as [[a1 b1]|] eqn:E; [|discriminate].
        inversion H; subst. rewrite (IH a a1 b x) by (auto; lia). reflexivity.
Qed.
Lemma m_string_body_app : forall a a' b x, m_string_body a = Some (a', b) ->
  m_string_body (a ++ x) = Some (a', b ++ x).
Proof. intros a a' b x H. apply (m_string_body_app_n (length a)); auto. Qed.

Lemma first_match_string : forall x r, wf_string x ->
  first_match TRIPLE_ALTS (x ++ r) = Some (STRING, x, r).
Proof.
  intros x r [Hm _]. unfold m_string in Hm.
  destruct x as [|c r0]; [discriminate|].
  destruct (eqc c 34) eqn:Ec; [|discriminate].
  destruct (m_string_body r0) as [[a b]|] eqn:Eb; [|discriminate].
  inversion Hm; subst. clear Hm.
  unfold eqc in Ec. apply N.eqb_eq in Ec. subst c.
  unfold first_match, TRIPLE_ALTS, matcher_of.
  assert (M1 : m_comment ((34%N :: r0) ++ r) = None) by reflexivity.
  assert (M2 : m_string ((34%N :: r0) ++ r) = Some (34%N :: r0, r)).
  { simpl. rewrite (m_string_body_app r0 r0 [] r Eb). reflexivity. }
  rewrite M1, M2. reflexivity.
Qed.

(* ------------------------------------------------------------------------ *)
(** * Token shapes: type and text, positions abstracted *)

Definition shape (t : token) : tokty * str := (tty t, ttext t).
Definition shapes (ts : list token) : list (tokty * str) := map shape ts.

Lemma lex_tok : forall f alts ln s off k a b,
  length s < f -> first_match alts s = Some (k, a, b) -> s = a ++ b -> a <> [] ->
  exists f', length b < f' /\
    lex_line_fuel f alts ln s off = mkToken k a ln off :: lex_line_fuel f' alts ln b (off + N.of_nat (length a)).
Proof.
  intros f alts ln s off k a b Hf Hm Hs Ha. destruct f as [|f]; [lia|].
  exists f. split.
  - rewrite Hs, app_length in Hf. destruct a; [congruence|]. simpl in Hf. lia.
  - destruct s as [|c s']; [destruct a; [congruence|discriminate]|].
    simpl. rewrite Hm. reflexivity.
Qed.

Lemma lex_skip : forall f alts ln c s' off,
  length (c :: s') < f -> first_match alts (c :: s') = None ->
  exists f', length s' < f' /\
    lex_line_fuel f alts ln (c :: s') off = lex_line_fuel f' alts ln s' (off + 1).
Proof.
  intros f alts ln c s' off Hf Hm. destruct f as [|f]; [simpl in Hf; lia|].
  exists f. split; [simpl in Hf; lia|]. simpl. rewrite Hm. reflexivity.
Qed.

Definition SYM (x : str) : tokty * str := (SYMBOL, x).
Definition LP : tokty * str := (LPAREN, [40%N]).
Definition RP : tokty * str := (RPAREN, [41%N]).
Definition CARETS : str := [94%N].

(* the target token: a symbol or a string lexeme *)
Definition tgt_shape (x : str) (k : tokty) : Prop :=
  (k = SYMBOL /\ wf_sym x) \/ (k = STRING /\ wf_string x).

Lemma stops_cons : forall c r, is_name c = false -> stops (c :: r).
Proof. intros c r H. right. exists c, r. auto. Qed.

Lemma wf_sym_comma : forall s, wf_sym s -> wf_sym (s ++ [44%N]).
Proof.
  intros s (Hne & Hn & Hh). repeat split.
  - destruct s; discriminate.
  - unfold all_name in *. rewrite forallb_app, Hn. reflexivity.
  - destruct s; [congruence|]. exact Hh.
Qed.

Lemma wf_caret : wf_sym CARETS.
Proof. repeat split; try discriminate. Qed.

(* one formatted triple  w(s, x)  followed by anything *)
Lemma lex_triple : forall w s x k tail f ln off,
  wf_sym w -> wf_sym s -> tgt_shape x k ->
  length (w ++ [40%N] ++ s ++ [44;32]%N ++ x ++ [41%N] ++ tail) < f ->
  exists f' off', length tail < f' /\
    shapes (lex_line_fuel f TRIPLE_ALTS ln (w ++ [40%N] ++ s ++ [44;32]%N ++ x ++ [41%N] ++ tail) off) =
    [SYM w; LP; SYM (s ++ [44%N]); (k, x); RP] ++ shapes (lex_line_fuel f' TRIPLE_ALTS ln tail off').
Proof.
  intros w s x k tail f ln off Hw Hs Hx Hf.
  (* role symbol *)
  destruct (lex_tok f TRIPLE_ALTS ln _ off SYMBOL w ([40%N] ++ s ++ [44;32]%N ++ x ++ [41%N] ++ tail) Hf)
    as (f1 & Hf1 & E1); try reflexivity.
  { apply first_match_sym; [assumption | apply stops_cons; reflexivity]. }
  { destruct Hw; assumption. }
  rewrite E1. clear E1.
  (* left parenthesis *)
  destruct (lex_tok f1 TRIPLE_ALTS ln _ (off + N.of_nat (length w)) LPAREN [40%N] (s ++ [44;32]%N ++ x ++ [41%N] ++ tail) Hf1)
    as (f2 & Hf2 & E2); try reflexivity; try discriminate.
  rewrite E2. clear E2.
  (* source with its comma *)
  assert (Hre : s ++ [44; 32]%N ++ x ++ [41%N] ++ tail = (s ++ [44%N]) ++ 32%N :: x ++ [41%N] ++ tail).
  { rewrite <- app_assoc. reflexivity. }
  rewrite Hre in Hf2 |- *.
  destruct (lex_tok f2 TRIPLE_ALTS ln _ (off + N.of_nat (length w) + N.of_nat (length [40%N])) SYMBOL (s ++ [44%N]) (32%N :: x ++ [41%N] ++ tail) Hf2)
    as (f3 & Hf3 & E3); try reflexivity.
  { apply first_match_sym; [apply wf_sym_comma; assumption | apply stops_cons; reflexivity]. }
  { destruct s; discriminate. }
  rewrite E3. clear E3.
  (* blank *)
  destruct (lex_skip f3 TRIPLE_ALTS ln 32%N (x ++ [41%N] ++ tail) (off + N.of_nat (length w) + N.of_nat (length [40%N]) + N.of_nat (length (s ++ [44%N]))) Hf3 (first_match_space _))
    as (f4 & Hf4 & E4).
  rewrite E4. clear E4.
  (* target *)
  assert (Hxne : x <> []).
  { destruct Hx as [[_ (Hne & _)]|[_ [Hm _]]]; [assumption|]. destruct x; [discriminate|discriminate]. }
  assert (Hfm : first_match TRIPLE_ALTS (x ++ [41%N] ++ tail) = Some (k, x, [41%N] ++ tail)).
  { destruct Hx as [[-> Hsym]|[-> Hstr]].
    - apply first_match_sym; [assumption | apply stops_cons; reflexivity].
    - apply first_match_string; assumption. }
  destruct (lex_tok f4 TRIPLE_ALTS ln _ (off + N.of_nat (length w) + N.of_nat (length [40%N]) + N.of_nat (length (s ++ [44%N])) + 1) k x ([41%N] ++ tail) Hf4 Hfm)
    as (f5 & Hf5 & E5); try reflexivity; try assumption.
  rewrite E5. clear E5.
  (* right parenthesis *)
  destruct (lex_tok f5 TRIPLE_ALTS ln _ (off + N.of_nat (length w) + N.of_nat (length [40%N]) + N.of_nat (length (s ++ [44%N])) + 1 + N.of_nat (length x)) RPAREN [41%N] tail Hf5)
    as (f6 & Hf6 & E6); try reflexivity; try discriminate.
  rewrite E6. clear E6.
  exists f6. eexists. split; [exact Hf6|]. reflexivity.
Qed.

(* ------------------------------------------------------------------------ *)
(** * The text written by format_triples *)

(* components of a well-formed triple: role word, source, target text and its token type *)
Record parts := mkParts { p_w : str; p_s : str; p_x : str; p_k : tokty }.
Definition parts_ok (p : parts) : Prop :=
  wf_sym (p_w p) /\ wf_source (p_s p) /\ tgt_shape (p_x p) (p_k p).
Definition fmt_parts (p : parts) : str :=
  p_w p ++ [40%N] ++ p_s p ++ [44;32]%N ++ p_x p ++ [41%N].
Definition parts_of (t : triple) (p : parts) : Prop :=
  parts_ok p /\ tsrc t = AStr (p_s p) /\ trole t = COLON :: p_w p /\ atom_str (ttgt t) = p_x p.

Lemma lstrip_sym : forall w, wf_sym w -> lstrip_char COLON w = w.
Proof.
  intros w (Hne & Hn & _). pose proof (all_name_hd w Hne Hn) as Hc.
  destruct w as [|c w]; [congruence|]. simpl in Hc.
  destruct (name_char_facts c Hc) as (_ & _ & _ & _ & _ & _ & E58).
  assert (E : eqc COLON c = false).
  { unfold eqc, COLON in *. rewrite N.eqb_sym. exact E58. }
  cbn [lstrip_char]. rewrite E. reflexivity.
Qed.
Lemma lstrip_colon_sym : forall w, wf_sym w -> lstrip_char COLON (COLON :: w) = w.
Proof.
  intros w (Hne & Hn & _). pose proof (all_name_hd w Hne Hn) as Hc.
  destruct w as [|c w]; [congruence|]. simpl in Hc.
  destruct (name_char_facts c Hc) as (_ & _ & _ & _ & _ & _ & E58).
  assert (E : eqc COLON c = false).
  { unfold eqc, COLON in *. rewrite N.eqb_sym. exact E58. }
  cbn [lstrip_char]. change (eqc COLON COLON) with true. cbv iota. cbn [lstrip_char]. rewrite E. reflexivity.
Qed.

Lemma wf_parts : forall t, wf_conj_triple t -> exists p, parts_of t p /\ format_triple t = fmt_parts p.
Proof.
  intros [[src role] tgt] H. unfold wf_conj_triple in H. simpl in H.
  destruct src as [|s|]; try contradiction.
  destruct H as (Hs & (w & Hr & Hw) & Ht). unfold trole in Hr. simpl in Hr. subst role.
  assert (Hk : exists k, tgt_shape (atom_str tgt) k).
  { destruct tgt as [|x|x z]; simpl in Ht; try contradiction.
    - destruct Ht as [Hx|Hx]; [exists SYMBOL; left; auto | exists STRING; right; auto].
    - exists SYMBOL. left. auto. }
  destruct Hk as [k Hk].
  exists (mkParts w s (atom_str tgt) k). split.
  - unfold parts_of, parts_ok. simpl. tauto.
  - unfold format_triple, fmt_parts. simpl.
    rewrite (lstrip_sym w Hw). reflexivity.
Qed.

Definition tshape (p : parts) : list (tokty * str) :=
  [SYM (p_w p); LP; SYM (p_s p ++ [44%N]); (p_k p, p_x p); RP].
Fixpoint conj_shapes (ps : list parts) : list (tokty * str) :=
  match ps with
  | [] => []
  | [p] => tshape p
  | p :: ps' => tshape p ++ SYM CARETS :: conj_shapes ps'
  end.

Lemma lex_parts : forall p tail f ln off, parts_ok p ->
  length (fmt_parts p ++ tail) < f ->
  exists f' off', length tail < f' /\
    shapes (lex_line_fuel f TRIPLE_ALTS ln (fmt_parts p ++ tail) off) =
    tshape p ++ shapes (lex_line_fuel f' TRIPLE_ALTS ln tail off').
Proof.
  intros p tail f ln off (Hw & (Hs & _) & Hx) Hf.
  unfold fmt_parts in *. rewrite <- !app_assoc in *.
  apply lex_triple; assumption.
Qed.

(* blank caret (blank or end) *)
Lemma lex_caret : forall tail f ln off, stops tail ->
  length (32%N :: 94%N :: tail) < f ->
  exists f' off', length tail < f' /\
    shapes (lex_line_fuel f TRIPLE_ALTS ln (32%N :: 94%N :: tail) off) =
    SYM CARETS :: shapes (lex_line_fuel f' TRIPLE_ALTS ln tail off').
Proof.
  intros tail f ln off Hst Hf.
  destruct (lex_skip f TRIPLE_ALTS ln 32%N (94%N :: tail) off Hf (first_match_space _)) as (f1 & Hf1 & E1).
  rewrite E1. clear E1.
  destruct (lex_tok f1 TRIPLE_ALTS ln (CARETS ++ tail) (off + 1) SYMBOL CARETS tail Hf1)
    as (f2 & Hf2 & E2); try reflexivity; try discriminate.
  { apply first_match_sym; [apply wf_caret | assumption]. }
  change (94%N :: tail) with (CARETS ++ tail). rewrite E2.
  exists f2. eexists. split; [exact Hf2|]. reflexivity.
Qed.

Lemma lex_nil : forall f alts ln off, lex_line_fuel f alts ln [] off = [].
Proof. intros [|f]; reflexivity. Qed.

Definition SEP_LINE : str := [32;94;32]%N.
Definition SEP_NL : str := [32;94;10]%N.

(* indent = False: the whole conjunction on one line *)
Lemma lex_conj_one_line : forall ps, ps <> [] -> Forall parts_ok ps ->
  forall f ln off, length (join SEP_LINE (map fmt_parts ps)) < f ->
    shapes (lex_line_fuel f TRIPLE_ALTS ln (join SEP_LINE (map fmt_parts ps)) off) = conj_shapes ps.
Proof.
  induction ps as [|p ps IH]; intros Hne Hall f ln off Hf; [congruence|].
  inversion Hall as [|p' ps' Hp Hps]; subst.
  destruct ps as [|q ps].
  - simpl in *. rewrite <- (app_nil_r (fmt_parts p)) in Hf |- *.
    destruct (lex_parts p [] f ln off Hp Hf) as (f' & off' & _ & E).
    rewrite E. rewrite lex_nil. apply app_nil_r.
  - change (join SEP_LINE (map fmt_parts (p :: q :: ps)))
      with (fmt_parts p ++ SEP_LINE ++ join SEP_LINE (map fmt_parts (q :: ps))) in *.
    destruct (lex_parts p _ f ln off Hp Hf) as (f1 & off1 & Hf1 & E1).
    rewrite E1. clear E1.
    change (SEP_LINE ++ join SEP_LINE (map fmt_parts (q :: ps)))
      with (32%N :: 94%N :: 32%N :: join SEP_LINE (map fmt_parts (q :: ps))) in *.
    destruct (lex_caret (32%N :: join SEP_LINE (map fmt_parts (q :: ps))) f1 ln off1) as (f2 & off2 & Hf2 & E2);
      [apply stops_cons; reflexivity | exact Hf1 |].
    rewrite E2. clear E2.
    destruct (lex_skip f2 TRIPLE_ALTS ln 32%N _ off2 Hf2 (first_match_space _)) as (f3 & Hf3 & E3).
    rewrite E3. clear E3.
    assert (Hq : q :: ps <> []) by discriminate.
    rewrite (IH Hq Hps f3 ln (off2 + 1)%N Hf3).
    reflexivity.
Qed.

(* indent = True: one triple per line, all but the last followed by blank caret *)
Fixpoint conj_lines (ps : list parts) : list str :=
  match ps with
  | [] => []
  | [p] => [fmt_parts p]
  | p :: ps' => (fmt_parts p ++ [32;94]%N) :: conj_lines ps'
  end.

Lemma lex_conj_lines : forall ps, Forall parts_ok ps ->
  forall ln, shapes (lex_lines_from TRIPLE_ALTS ln (conj_lines ps)) = conj_shapes ps.
Proof.
  induction ps as [|p ps IH]; intros Hall ln; [reflexivity|].
  inversion Hall as [|p' ps' Hp Hps]; subst.
  destruct ps as [|q ps].
  - simpl. rewrite app_nil_r. unfold lex_line.
    rewrite <- (app_nil_r (fmt_parts p)).
    destruct (lex_parts p [] (S (length (fmt_parts p ++ []))) ln 0%N Hp (Nat.lt_succ_diag_r _)) as (f' & off' & _ & E).
    rewrite E. rewrite lex_nil. apply app_nil_r.
  - change (conj_lines (p :: q :: ps)) with ((fmt_parts p ++ [32;94]%N) :: conj_lines (q :: ps)).
    cbn [lex_lines_from]. unfold shapes. rewrite map_app. fold (shapes (lex_lines_from TRIPLE_ALTS (ln + 1) (conj_lines (q :: ps)))).
    rewrite (IH Hps (ln + 1)%N).
    unfold lex_line.
    destruct (lex_parts p [32;94]%N (S (length (fmt_parts p ++ [32;94]%N))) ln 0%N Hp (Nat.lt_succ_diag_r _)) as (f1 & off1 & Hf1 & E1).
    fold (shapes (lex_line_fuel (S (length (fmt_parts p ++ [32; 94]%N))) TRIPLE_ALTS ln (fmt_parts p ++ [32; 94]%N) 0)).
    rewrite E1. clear E1.
    destruct (lex_caret [] f1 ln off1) as (f2 & off2 & Hf2 & E2); [left; reflexivity | exact Hf1 |].
    rewrite E2. rewrite lex_nil.
    change (conj_shapes (p :: q :: ps)) with (tshape p ++ SYM CARETS :: conj_shapes (q :: ps)).
    rewrite <- app_assoc. reflexivity.
Qed.

(* ---- line splitting ---- *)
Lemma split_lines_no_newline : forall s, no_newline s -> split_lines s = [s].
Proof.
  induction s as [|c s IH]; intro H; [reflexivity|].
  unfold no_newline in H. simpl in H. apply andb_prop in H. destruct H as [Hc Hs].
  apply Bool.negb_true_iff in Hc. apply Bool.orb_false_iff in Hc. destruct Hc as [H10 H13].
  simpl. rewrite H10, H13. rewrite (IH Hs). reflexivity.
Qed.

Lemma split_lines_app_nl : forall a b, no_newline a ->
  split_lines (a ++ 10%N :: b) = a :: split_lines b.
Proof.
  induction a as [|c a IH]; intros b H; [reflexivity|].
  unfold no_newline in H. simpl in H. apply andb_prop in H. destruct H as [Hc Hs].
  apply Bool.negb_true_iff in Hc. apply Bool.orb_false_iff in Hc. destruct Hc as [H10 H13].
  simpl. rewrite H10, H13. rewrite (IH b Hs). reflexivity.
Qed.

Lemma no_newline_app : forall a b, no_newline a -> no_newline b -> no_newline (a ++ b).
Proof. intros a b Ha Hb. unfold no_newline in *. rewrite forallb_app, Ha, Hb. reflexivity. Qed.

Lemma all_name_no_newline : forall w, all_name w -> no_newline w.
Proof.
  induction w as [|c w IH]; intro H; [reflexivity|].
  unfold all_name in H. simpl in H. apply andb_prop in H. destruct H as [Hc Hw].
  destruct (name_char_facts c Hc) as (_ & _ & _ & _ & E10 & E13 & _).
  unfold no_newline. simpl. rewrite E10, E13. simpl. apply IH. exact Hw.
Qed.

Lemma parts_no_newline : forall p, parts_ok p -> no_newline (fmt_parts p).
Proof.
  intros p ((_ & Hw & _) & ((_ & Hs & _) & _) & Hx). unfold fmt_parts.
  repeat apply no_newline_app; try reflexivity; try (apply all_name_no_newline; assumption).
  destruct Hx as [[_ (_ & Hn & _)]|[_ [_ Hn]]]; [apply all_name_no_newline; assumption | assumption].
Qed.

Lemma join_one_line_no_newline : forall ps, Forall parts_ok ps ->
  no_newline (join SEP_LINE (map fmt_parts ps)).
Proof.
  induction ps as [|p ps IH]; intro H; [reflexivity|].
  inversion H as [|p' ps' Hp Hps]; subst.
  destruct ps as [|q ps]; [simpl; apply parts_no_newline; assumption|].
  change (join SEP_LINE (map fmt_parts (p :: q :: ps)))
    with (fmt_parts p ++ SEP_LINE ++ join SEP_LINE (map fmt_parts (q :: ps))).
  apply no_newline_app; [apply parts_no_newline; assumption|].
  apply no_newline_app; [reflexivity | apply IH; assumption].
Qed.

Lemma split_conj_lines : forall ps, ps <> [] -> Forall parts_ok ps ->
  split_lines (join SEP_NL (map fmt_parts ps)) = conj_lines ps.
Proof.
  induction ps as [|p ps IH]; intros Hne H; [congruence|].
  inversion H as [|p' ps' Hp Hps]; subst.
  destruct ps as [|q ps].
  - simpl. apply split_lines_no_newline. apply parts_no_newline. assumption.
  - change (join SEP_NL (map fmt_parts (p :: q :: ps)))
      with (fmt_parts p ++ SEP_NL ++ join SEP_NL (map fmt_parts (q :: ps))).
    change (fmt_parts p ++ SEP_NL ++ join SEP_NL (map fmt_parts (q :: ps)))
      with (fmt_parts p ++ [32;94]%N ++ 10%N :: join SEP_NL (map fmt_parts (q :: ps))).
    rewrite app_assoc. rewrite split_lines_app_nl.
    + assert (Hq : q :: ps <> []) by discriminate. rewrite (IH Hq Hps). reflexivity.
    + apply no_newline_app; [apply parts_no_newline; assumption | reflexivity].
Qed.

(* the token shapes of the text written by format_triples, both line styles *)
Theorem lex_format_triples : forall ps (indent : bool), ps <> [] -> Forall parts_ok ps ->
  shapes (lex_str TRIPLE_ALTS (join (if indent then SEP_NL else SEP_LINE) (map fmt_parts ps))) = conj_shapes ps.
Proof.
  intros ps indent Hne Hall. unfold lex_str. destruct indent.
  - rewrite (split_conj_lines ps Hne Hall). unfold lex_lines. apply lex_conj_lines. assumption.
  - rewrite (split_lines_no_newline _ (join_one_line_no_newline ps Hall)).
    unfold lex_lines. simpl. rewrite app_nil_r. unfold lex_line.
    apply lex_conj_one_line; auto.
Qed.

(* ------------------------------------------------------------------------ *)
(** * Parsing token shapes back, with every spacing variant *)

Inductive comma_style := CGlued | CAfter | CBefore | CBoth.   (* a,b   a, b   a ,b   a , b *)
Inductive caret_style := KSep | KGlued.                       (* ^ role      ^role *)

Definition body_shapes (p : parts) (c : comma_style) : list (tokty * str) :=
  match c with
  | CGlued => [SYM (p_s p ++ 44%N :: p_x p)]
  | CAfter => [SYM (p_s p ++ [44%N]); (p_k p, p_x p)]
  | CBefore => [SYM (p_s p); SYM (44%N :: p_x p)]
  | CBoth => [SYM (p_s p); SYM [44%N]; (p_k p, p_x p)]
  end.
(* a string lexeme cannot be glued to the comma inside one SYMBOL token *)
Definition style_ok (p : parts) (c : comma_style) : Prop :=
  match c with CGlued | CBefore => p_k p = SYMBOL | _ => True end.

Definition item := (parts * comma_style * caret_style)%type.
Definition item_ok (i : item) : Prop := let '(p, c, _) := i in parts_ok p /\ style_ok p c.
Definition item_result (i : item) : str * str * option str :=
  let '(p, _, _) := i in (p_s p, COLON :: p_w p, Some (p_x p)).

Definition role_tok (glued : bool) (p : parts) : tokty * str :=
  if glued then SYM (94%N :: p_w p) else SYM (p_w p).
(* the tokens seen by the loop of _parse_triples at the start of a round *)
Fixpoint loop_shapes (glued : bool) (p : parts) (c : comma_style) (l : list item) : list (tokty * str) :=
  role_tok glued p :: LP :: body_shapes p c ++ RP ::
    match l with
    | [] => []
    | (p', c', KSep) :: l' => SYM CARETS :: loop_shapes false p' c' l'
    | (p', c', KGlued) :: l' => loop_shapes true p' c' l'
    end.

Lemma shapes_cons_inv : forall toks k x rest, shapes toks = (k, x) :: rest ->
  exists t toks', toks = t :: toks' /\ tty t = k /\ ttext t = x /\ shapes toks' = rest.
Proof.
  intros [|t toks] k x rest H; [discriminate|]. simpl in H. inversion H; subst.
  exists t, toks. auto.
Qed.

Lemma loop_shapes_head : forall glued p c l, exists rest,
  loop_shapes glued p c l = role_tok glued p :: rest.
Proof. intros glued p c l. destruct l; eexists; reflexivity. Qed.

Lemma shapes_cons_inv2 : forall toks sh rest, shapes toks = sh :: rest ->
  exists t toks', toks = t :: toks' /\ tty t = fst sh /\ ttext t = snd sh /\ shapes toks' = rest.
Proof. intros toks [k x] rest H. apply shapes_cons_inv in H. exact H. Qed.
Lemma role_tok_fst : forall glued p, fst (role_tok glued p) = SYMBOL.
Proof. destruct glued; reflexivity. Qed.

Lemma eqc_sym : forall a b, eqc a b = eqc b a.
Proof. intros. unfold eqc. apply N.eqb_sym. Qed.

Lemma startswith_nil : forall s, startswith s [] = true.
Proof. destruct s; reflexivity. Qed.

Lemma partition_comma_found : forall s x, no_comma s ->
  partition [COMMA] (s ++ COMMA :: x) = (s, true, x).
Proof.
  induction s as [|c s IH]; intros x H.
  - unfold partition. cbn [app partition_at startswith]. rewrite startswith_nil.
    change (eqc COMMA COMMA) with true. reflexivity.
  - unfold no_comma in H. simpl in H. apply andb_prop in H. destruct H as [Hc Hs].
    apply Bool.negb_true_iff in Hc.
    unfold partition in *. cbn [app partition_at]. cbn [startswith]. rewrite startswith_nil.
    change COMMA with 44%N in *. rewrite eqc_sym, Hc. cbn [andb].
    rewrite (IH x Hs). reflexivity.
Qed.

Lemma partition_comma_absent : forall s, no_comma s -> partition [COMMA] s = (s, false, []).
Proof.
  induction s as [|c s IH]; intros H.
  - reflexivity.
  - unfold no_comma in H. simpl in H. apply andb_prop in H. destruct H as [Hc Hs].
    apply Bool.negb_true_iff in Hc.
    unfold partition in *. cbn [partition_at]. cbn [startswith]. rewrite startswith_nil.
    change COMMA with 44%N in *. rewrite eqc_sym, Hc. cbn [andb].
    rewrite (IH Hs). reflexivity.
Qed.

Lemma str_eqb_refl : forall s, str_eqb s s = true.
Proof. induction s as [|c s IH]; [reflexivity|]. simpl. rewrite N.eqb_refl, IH. reflexivity. Qed.

Lemma tgt_shape_ne : forall x k, tgt_shape x k -> x <> [].
Proof.
  intros x k [[_ (Hne & _)]|[_ [Hm _]]]; [assumption|]. destruct x; discriminate.
Qed.
Lemma tgt_shape_kind : forall x k, tgt_shape x k -> ty_in k [SYMBOL; STRING] = true.
Proof. intros x k [[-> _]|[-> _]]; reflexivity. Qed.

Lemma accept_cons : forall t r l cs,
  accept (mkIter (t :: r) l) cs = if ty_in (tty t) cs then Some (t, mkIter r (Some t)) else None.
Proof. reflexivity. Qed.

(* _parse_triple on each of the four comma placements *)
Lemma parse_triple_style : forall p c sym toks last rest,
  parts_ok p -> style_ok p c ->
  shapes (sym :: toks) = body_shapes p c ++ rest ->
  exists toks' last', shapes toks' = rest /\
    parse_triple sym (mkIter toks last) = Ok (p_s p, Some (p_x p), mkIter toks' last').
Proof.
  intros p c sym toks last rest (Hw & (Hs & Hnc) & Hx) Hst Hsh.
  pose proof (tgt_shape_ne _ _ Hx) as Hxne.
  unfold parse_triple.
  destruct c; cbn [body_shapes app] in Hsh; apply (shapes_cons_inv (sym :: toks)) in Hsh;
    destruct Hsh as (sym' & toks0 & E0 & _ & Hsymtext & Hrest); inversion E0; subst sym' toks0; clear E0;
    rewrite Hsymtext.
  - (* a,b *)
    change (44%N :: p_x p) with (COMMA :: p_x p).
    rewrite (partition_comma_found _ (p_x p) Hnc).
    destruct (p_x p) as [|x0 x] eqn:Ex; [congruence|].
    exists toks, last. split; [assumption | reflexivity].
  - (* a, b *)
    change [44%N] with [COMMA].
    rewrite (partition_comma_found _ [] Hnc).
    apply shapes_cons_inv in Hrest. destruct Hrest as (t & toks' & -> & Hk & Ht & Hr).
    rewrite accept_cons. rewrite Hk, (tgt_shape_kind _ _ Hx).
    exists toks', (Some t). rewrite Ht. split; [assumption | reflexivity].
  - (* a ,b *)
    rewrite (partition_comma_absent _ Hnc).
    apply shapes_cons_inv in Hrest. destruct Hrest as (t & toks' & -> & Hk & Ht & Hr).
    rewrite accept_cons. rewrite Hk. cbn [ty_in existsb tokty_eqb orb].
    rewrite Ht.
    destruct (p_x p) as [|x0 x] eqn:Ex; [congruence|].
    assert (E1' : str_eqb (44%N :: x0 :: x) [COMMA] = false).
    { reflexivity. }
    rewrite E1'.
    assert (E2' : startswith (44%N :: x0 :: x) [COMMA] = true) by reflexivity.
    rewrite E2'. exists toks', (Some t). split; [assumption | reflexivity].
  - (* a , b *)
    rewrite (partition_comma_absent _ Hnc).
    apply shapes_cons_inv in Hrest. destruct Hrest as (t & toks1 & -> & Hk & Ht & Hr).
    apply shapes_cons_inv in Hr. destruct Hr as (t2 & toks' & -> & Hk2 & Ht2 & Hr).
    rewrite accept_cons. rewrite Hk. cbn [ty_in existsb tokty_eqb orb].
    rewrite Ht.
    change (str_eqb [44%N] [COMMA]) with true. cbv iota.
    rewrite accept_cons. rewrite Hk2, (tgt_shape_kind _ _ Hx).
    exists toks', (Some t2). rewrite Ht2. split; [assumption | reflexivity].
Qed.

Lemma ptl_S : forall f' it strip_caret acc,
  parse_triples_loop (S f') it strip_caret acc =
    ('(rt, it) <- expect it [SYMBOL] ;;
     let role := ttext rt in
     let role := if strip_caret && startswith role [CARET] then skipn 1 role else role in
     let role := if startswith role [COLON] then role else COLON :: role in
     '(_, it) <- expect it [LPAREN] ;;
     '(sym, it) <- expect it [SYMBOL] ;;
     '(source, target, it) <- parse_triple sym it ;;
     '(_, it) <- expect it [RPAREN] ;;
     let acc' := (source, role, target) :: acc in
     match it_rest it with
     | [] => Ok (rev acc')
     | nx :: _ =>
         if negb (tokty_eqb (tty nx) SYMBOL) || negb (startswith (ttext nx) [CARET]) then Ok (rev acc')
         else if str_eqb (ttext nx) [CARET] then
           '(_, it) <- next it ;; parse_triples_loop f' it false acc'
         else parse_triples_loop f' it true acc'
     end).
Proof. reflexivity. Qed.

Lemma role_of_token : forall glued w, wf_sym w ->
  (let role := snd (role_tok glued (mkParts w [] [] SYMBOL)) in
   let role := if glued && startswith role [CARET] then skipn 1 role else role in
   if startswith role [COLON] then role else COLON :: role) = COLON :: w.
Proof.
  intros glued w (Hne & Hn & _). pose proof (all_name_hd w Hne Hn) as Hc.
  destruct w as [|c w]; [congruence|]. simpl in Hc.
  destruct (name_char_facts c Hc) as (_ & _ & _ & _ & _ & _ & E58).
  assert (E : eqc COLON c = false) by (rewrite eqc_sym; exact E58).
  destruct glued; cbn [role_tok SYM snd p_w andb startswith skipn]; cbv zeta.
  - change (eqc CARET 94) with true. cbn [andb]. cbn [startswith].
    rewrite E. reflexivity.
  - rewrite E. reflexivity.
Qed.

Definition items_ok (p : parts) (c : comma_style) (l : list item) : Prop :=
  parts_ok p /\ style_ok p c /\ Forall item_ok l.

Ltac fix_role p Ht1 Hp glued :=
  match goal with
  | |- context [(p_s p, ?R, Some (p_x p)) :: _] =>
      let H := fresh "Hrole" in
      assert (H : R = COLON :: p_w p);
      [ let Hw := fresh "Hw" in
        let Hr := fresh "Hr" in
        destruct Hp as (Hw & _);
        pose proof (role_of_token glued (p_w p) Hw) as Hr; cbv zeta in Hr;
        rewrite <- Hr; rewrite Ht1; destruct glued; reflexivity
      | rewrite H; clear H ]
  end.

Lemma loop_parse : forall l p c k glued toks last acc f,
  items_ok p c l -> shapes toks = loop_shapes glued p c l -> length l < f ->
  parse_triples_loop f (mkIter toks last) glued acc = Ok (rev acc ++ map item_result ((p, c, k) :: l)).
Proof.
  induction l as [|[[p' c'] k'] l IH]; intros p c k glued toks last acc f (Hp & Hst & Hl) Hsh Hf;
    (destruct f as [|f]; [lia|]); rewrite ptl_S.
  - (* last triple *)
    cbn [loop_shapes] in Hsh.
    apply shapes_cons_inv2 in Hsh. destruct Hsh as (rt & toks1 & -> & Hk1 & Ht1 & Hsh).
    rewrite role_tok_fst in Hk1.
    apply shapes_cons_inv in Hsh. destruct Hsh as (lp & toks2 & -> & Hk2 & Ht2 & Hsh).
    rewrite expect_cons, Hk1. cbn [ty_in existsb tokty_eqb orb bind]. cbv zeta.
    rewrite expect_cons, Hk2. cbn [ty_in existsb tokty_eqb orb bind].
    destruct toks2 as [|sym toks3]; [destruct c; discriminate|].
    assert (Hsymk : tty sym = SYMBOL) by (destruct c; simpl in Hsh; inversion Hsh; reflexivity).
    rewrite expect_cons, Hsymk. cbn [ty_in existsb tokty_eqb orb bind].
    destruct (parse_triple_style p c sym toks3 (Some sym) [RP] Hp Hst Hsh) as (toks' & last' & Hr & Hpt).
    rewrite Hpt. cbn [bind].
    apply shapes_cons_inv in Hr. destruct Hr as (rp & toks4 & -> & Hk4 & Ht4 & Hr).
    destruct toks4; [|discriminate].
    rewrite expect_cons, Hk4. cbn [ty_in existsb tokty_eqb orb bind it_rest].
    f_equal. cbn [rev map item_result]. f_equal. f_equal. f_equal.
    destruct Hp as (Hw & _).
    pose proof (role_of_token glued (p_w p) Hw) as Hrole. cbv zeta in Hrole.
    rewrite <- Hrole. rewrite Ht1.
    destruct glued; reflexivity.
  - (* a triple followed by another *)
    inversion Hl as [|i0 l0 Hi Hl']; subst. destruct Hi as [Hp' Hst'].
    cbn [loop_shapes] in Hsh.
    apply shapes_cons_inv2 in Hsh. destruct Hsh as (rt & toks1 & -> & Hk1 & Ht1 & Hsh).
    rewrite role_tok_fst in Hk1.
    apply shapes_cons_inv in Hsh. destruct Hsh as (lp & toks2 & -> & Hk2 & Ht2 & Hsh).
    rewrite expect_cons, Hk1. cbn [ty_in existsb tokty_eqb orb bind]. cbv zeta.
    rewrite expect_cons, Hk2. cbn [ty_in existsb tokty_eqb orb bind].
    destruct toks2 as [|sym toks3]; [destruct c; discriminate|].
    assert (Hsymk : tty sym = SYMBOL) by (destruct c; simpl in Hsh; inversion Hsh; reflexivity).
    rewrite expect_cons, Hsymk. cbn [ty_in existsb tokty_eqb orb bind].
    destruct (parse_triple_style p c sym toks3 (Some sym) _ Hp Hst Hsh) as (toks' & last' & Hr & Hpt).
    rewrite Hpt. cbn [bind].
    apply shapes_cons_inv in Hr. destruct Hr as (rp & toks4 & -> & Hk4 & Ht4 & Hr).
    rewrite expect_cons, Hk4. cbn [ty_in existsb tokty_eqb orb bind it_rest].
    destruct k'.
    + (* separate caret *)
      apply shapes_cons_inv in Hr. destruct Hr as (ct & toks5 & -> & Hk5 & Ht5 & Hr).
      cbv iota beta. fix_role p Ht1 Hp glued.
      rewrite Hk5, Ht5. cbn [tokty_eqb negb orb]. change (startswith CARETS [CARET]) with true.
      cbn [negb]. change (str_eqb CARETS [CARET]) with true. cbv iota.
      rewrite next_cons. cbn [bind].
      rewrite (IH p' c' KSep false toks5 (Some ct) _ f); [| exact (conj Hp' (conj Hst' Hl')) | exact Hr | simpl in Hf; lia].
      cbn [rev map]. rewrite <- app_assoc. reflexivity.
    + (* caret glued to the next role *)
      pose proof Hr as Hr0.
      destruct (loop_shapes_head true p' c' l) as [rest0 Erest0]. rewrite Erest0 in Hr.
      apply shapes_cons_inv2 in Hr. destruct Hr as (ct & toks5 & -> & Hk5 & Ht5 & Hr).
      rewrite role_tok_fst in Hk5.
      cbv iota beta. fix_role p Ht1 Hp glued.
      rewrite Hk5, Ht5. cbn [tokty_eqb negb orb role_tok SYM snd].
      pose proof Hp' as Hp'0. destruct Hp' as ((Hw'ne & _) & _).
      destruct (p_w p') as [|w0 w'] eqn:Ew'; [congruence|].
      assert (E1 : startswith (94%N :: w0 :: w') [CARET] = true) by reflexivity.
      assert (E2 : str_eqb (94%N :: w0 :: w') [CARET] = false) by reflexivity.
      rewrite E1, E2. cbn [negb].
      rewrite (IH p' c' KGlued true (ct :: toks5) (Some rp) _ f); [| | exact Hr0 | simpl in Hf; lia].
      * cbn [rev map]. rewrite <- app_assoc. reflexivity.
      * exact (conj Hp'0 (conj Hst' Hl')).
Qed.

Lemma loop_shapes_length : forall l glued p c, length l < length (loop_shapes glued p c l).
Proof.
  induction l as [|[[p' c'] k'] l IH]; intros glued p c.
  - simpl. lia.
  - cbn [loop_shapes length]. rewrite app_length. cbn [length].
    pose proof (IH false p' c') as H0. pose proof (IH true p' c') as H1.
    destruct k'; cbn [length]; lia.
Qed.

(* ---- the general token-level statement: every spacing variant ---- *)
Theorem parse_styled : forall p c k l toks last,
  items_ok p c l -> shapes toks = loop_shapes false p c l ->
  parse_triples_loop (S (length toks)) (mkIter toks last) false [] = Ok (map item_result ((p, c, k) :: l)).
Proof.
  intros p c k l toks last Hok Hsh.
  rewrite (loop_parse l p c k false toks last [] (S (length toks)) Hok Hsh).
  - reflexivity.
  - pose proof (loop_shapes_length l false p c) as H. rewrite <- Hsh in H.
    unfold shapes in H. rewrite map_length in H. lia.
Qed.

(* ---- the canonical layout written by format_triples ---- *)
Definition canon (p : parts) : item := (p, CAfter, KSep).

Lemma conj_shapes_loop : forall ps p,
  conj_shapes (p :: ps) = loop_shapes false p CAfter (map canon ps).
Proof.
  induction ps as [|q ps IH]; intro p; [reflexivity|].
  change (conj_shapes (p :: q :: ps)) with (tshape p ++ SYM CARETS :: conj_shapes (q :: ps)).
  rewrite (IH q). reflexivity.
Qed.

Lemma wf_parts_list : forall ts, Forall wf_conj_triple ts ->
  exists ps, Forall parts_ok ps /\ map format_triple ts = map fmt_parts ps /\
             map parsed_triple ts = map (fun p => item_result (canon p)) ps.
Proof.
  induction ts as [|t ts IH]; intro H.
  - exists []. repeat split; constructor.
  - inversion H as [|t' ts' Ht Hts]; subst.
    destruct (IH Hts) as (ps & Hok & Hf & Hr).
    destruct (wf_parts t Ht) as (p & (Hp & Hs & Hrole & Hx) & Hfmt).
    exists (p :: ps). repeat split.
    + constructor; assumption.
    + simpl. rewrite Hfmt, Hf. reflexivity.
    + simpl. rewrite Hr. f_equal. unfold parsed_triple. rewrite Hs, Hrole, Hx. reflexivity.
Qed.

Theorem roundtrip : forall ts (indent : bool), ts <> [] -> Forall wf_conj_triple ts ->
  parse_triples (format_triples ts indent) = Ok (map parsed_triple ts).
Proof.
  intros ts indent Hne Hwf.
  destruct (wf_parts_list ts Hwf) as (ps & Hok & Hf & Hr).
  unfold format_triples. rewrite Hf, Hr.
  assert (Hpne : ps <> []).
  { destruct ps; [|discriminate]. destruct ts; [congruence|discriminate]. }
  unfold parse_triples.
  pose proof (lex_format_triples ps indent Hpne Hok) as Hlex.
  change [32; 94; 10]%N with SEP_NL. change [32; 94; 32]%N with SEP_LINE.
  destruct ps as [|p ps]; [congruence|].
  rewrite conj_shapes_loop in Hlex.
  inversion Hok as [|p0 ps0 Hp Hps]; subst.
  unfold iter_of. rewrite (parse_styled p CAfter KSep (map canon ps) _ None).
  - simpl. rewrite map_map. reflexivity.
  - split; [exact Hp|]. split; [exact I|].
    clear - Hps. induction Hps as [|q qs Hq Hqs IH]; constructor; [split; [assumption | exact I] | assumption].
  - exact Hlex.
Qed.

(* every role that comes back carries its leading colon *)
Lemma roundtrip_roles_colon : forall ts, Forall wf_conj_triple ts ->
  Forall (fun r => startswith (snd (fst r)) [COLON] = true) (map parsed_triple ts).
Proof.
  induction ts as [|t ts IH]; intro H; [constructor|].
  inversion H as [|t' ts' Ht Hts]; subst. simpl. constructor; [|apply IH; assumption].
  unfold wf_conj_triple in Ht. destruct (tsrc t); try contradiction.
  destruct Ht as (_ & (w & Hr & _) & _). unfold parsed_triple. simpl. rewrite Hr.
  cbn [startswith]. rewrite startswith_nil. reflexivity.
Qed.

(* the same triples in two different spacings parse to the same list *)
Definition restyle (f : item -> comma_style * caret_style) (i : item) : item :=
  let '(p, _, _) := i in (p, fst (f i), snd (f i)).
Lemma item_result_restyle : forall f i, item_result (restyle f i) = item_result i.
Proof. intros f [[p c] k]. reflexivity. Qed.

Theorem spacing_same : forall p c1 c2 k l1 l2 toks1 toks2 last1 last2,
  items_ok p c1 l1 -> items_ok p c2 l2 ->
  map (fun i => fst (fst i)) l1 = map (fun i => fst (fst i)) l2 ->
  shapes toks1 = loop_shapes false p c1 l1 -> shapes toks2 = loop_shapes false p c2 l2 ->
  parse_triples_loop (S (length toks1)) (mkIter toks1 last1) false [] =
  parse_triples_loop (S (length toks2)) (mkIter toks2 last2) false [] /\
  parse_triples_loop (S (length toks1)) (mkIter toks1 last1) false [] =
    Ok (map item_result ((p, c1, k) :: l1)).
Proof.
  intros p c1 c2 k l1 l2 toks1 toks2 last1 last2 H1 H2 Hsame S1 S2.
  rewrite (parse_styled p c1 k l1 toks1 last1 H1 S1).
  rewrite (parse_styled p c2 k l2 toks2 last2 H2 S2).
  split; [|reflexivity]. f_equal. simpl. f_equal.
  assert (G : forall l, map item_result l =
                        map (fun p => (p_s p, COLON :: p_w p, Some (p_x p))) (map (fun i : item => fst (fst i)) l)).
  { induction l as [|[[q c] kk] l IHl]; [reflexivity|]. simpl. rewrite IHl. reflexivity. }
  rewrite (G l1), (G l2). f_equal. exact Hsame.
Qed.

(* ---- concrete instances ---- *)
Definition s_ (l : list N) : str := l.
(* instance(b, bark-01) ^ ARG0(b, dquote a, (b) ^ dquote) *)
Definition ex_triples : list triple :=
  [ (AStr [98]%N, [58;105;110;115;116;97;110;99;101]%N, AStr [98;97;114;107;45;48;49]%N);
    (AStr [98]%N, [58;65;82;71;48]%N, AStr [34;97;44;32;40;98;41;32;94;34]%N);
    (AStr [98]%N, [58;113]%N, ANum [45;49;46;53]%N false) ].

Ltac solve_sym := unfold wf_sym, all_name; simpl; repeat split; try discriminate; try reflexivity.
Lemma ex_triples_wf : ex_triples <> [] /\ Forall wf_conj_triple ex_triples.
Proof.
  split; [discriminate|]. unfold ex_triples.
  constructor; [|constructor; [|constructor; [|constructor]]]; unfold wf_conj_triple; cbn [tsrc trole ttgt fst snd].
  - split; [split; [solve_sym | reflexivity]|]. split.
    + exists [105;110;115;116;97;110;99;101]%N. split; [reflexivity | solve_sym].
    + left. solve_sym.
  - split; [split; [solve_sym | reflexivity]|]. split.
    + exists [65;82;71;48]%N. split; [reflexivity | solve_sym].
    + right. split; reflexivity.
  - split; [split; [solve_sym | reflexivity]|]. split.
    + exists [113]%N. split; [reflexivity | solve_sym].
    + solve_sym.
Qed.

Lemma ex_roundtrip : forall indent : bool,
  parse_triples (format_triples ex_triples indent) = Ok (map parsed_triple ex_triples).
Proof. intro indent. apply roundtrip; apply ex_triples_wf. Qed.

(* the documented spacing variants, at the level of strings *)
Definition A : N := 97%N. Definition B : N := 98%N. Definition C : N := 99%N. Definition R : N := 114%N.
Definition expect1 : outcome (list (str * str * option str)) := Ok [([A], [COLON; R], Some [B])].
Definition expect2 : outcome (list (str * str * option str)) :=
  Ok [([A], [COLON; R], Some [B]); ([B], [COLON; R], Some [C])].
Lemma spacing_strings :
  (* r(a,b)  r(a, b)  r(a ,b)  r(a , b) *)
  parse_triples [R;40;A;44;B;41]%N = expect1 /\
  parse_triples [R;40;A;44;32;B;41]%N = expect1 /\
  parse_triples [R;40;A;32;44;B;41]%N = expect1 /\
  parse_triples [R;40;A;32;44;32;B;41]%N = expect1 /\
  (* r(a,b)^r(b,c)   r(a, b) ^r(b, c)   r(a, b) ^ r(b, c)   r(a, b) ^ newline r(b, c) *)
  parse_triples [R;40;A;44;B;41;94;R;40;B;44;C;41]%N = expect2 /\
  parse_triples [R;40;A;44;32;B;41;32;94;R;40;B;44;32;C;41]%N = expect2 /\
  parse_triples [R;40;A;44;32;B;41;32;94;32;R;40;B;44;32;C;41]%N = expect2 /\
  parse_triples [R;40;A;44;32;B;41;32;94;10;R;40;B;44;32;C;41]%N = expect2.
Proof. repeat split; vm_compute; reflexivity. Qed.

(* boundaries of the hypothesis: what does NOT round-trip (DESIGN N2) *)
Lemma comma_in_source_not_roundtrip :
  (* a,b as a source: written r(a,b, c); the first comma splits it, then c is unexpected *)
  parse_triples (format_triples [(AStr [A;44;B]%N, [COLON; R], AStr [C])] true) = DecodeErr 1 7.
Proof. vm_compute. reflexivity. Qed.
Lemma newline_in_string_not_roundtrip :
  (* a quoted string containing a line feed is split by lex before the STRING scanner sees it *)
  exists l o, parse_triples (format_triples [(AStr [A], [COLON; R], AStr [34;A;10;B;34]%N)] true) = DecodeErr l o.
Proof. eexists. eexists. vm_compute. reflexivity. Qed.
Lemma anonymous_role_not_roundtrip :
  (* the anonymous role (a lone colon) has no spelling: written (a, b) *)
  exists l o, parse_triples (format_triples [(AStr [A], [COLON], AStr [B])] true) = DecodeErr l o.
Proof. eexists. eexists. vm_compute. reflexivity. Qed.
