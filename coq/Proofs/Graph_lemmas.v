(** Lemmas about the graph queries and set operations (C15).
    Part 0: spec vocabulary.  Part 1: equality tests are equivalences.
    Part 2: lists, membership, dictionaries over an equivalence test.
    Part 3: queries.  Part 4: reentrancies.  Part 5: set operations. *)
From PM Require Import Impl.GraphOps.
From Coq Require Import Permutation Lia.

(* ------------------------------------------------------------------ *)
(** * Part 0: vocabulary used by the statements *)

(* membership of a triple in a list, up to Python tuple equality *)
Definition tmem (t : triple) (l : list triple) : bool := mem triple_eqb t l.
Definition set_eq (x y : list triple) : Prop := forall t, tmem t x = tmem t y.
Definition set_sub (x y : list triple) : Prop := forall t, tmem t x = true -> tmem t y = true.

(* the three classes of a triple relative to a graph *)
Inductive tclass := CI | CE | CA.
Definition tclass_eqb (a b : tclass) : bool :=
  match a, b with CI, CI | CE, CE | CA, CA => true | _, _ => false end.
Definition class_of (g : graph) (t : triple) : tclass :=
  if str_eqb (trole t) INSTANCE then CI
  else if is_var g (ttgt t) then CE else CA.
Definition is_class (g : graph) (c : tclass) (t : triple) : bool := tclass_eqb (class_of g t) c.
Definition query (g : graph) (c : tclass) : list triple :=
  match c with
  | CI => instances g
  | CE => edges g None None None
  | CA => attributes g None None None
  end.

(* the selection a (source, role, target) filter makes; None = no constraint *)
Definition sel (s : option atom) (r : option str) (t : option atom) (x : triple) : bool :=
  opt_match atom_eqb s (tsrc x) && opt_match str_eqb r (trole x) && opt_match atom_eqb t (ttgt x).

(* order-preserving sub-list (subsequence) *)
Inductive Sublist {A : Type} : list A -> list A -> Prop :=
| SL_nil : Sublist [] []
| SL_skip : forall x l1 l2, Sublist l1 l2 -> Sublist l1 (x :: l2)
| SL_keep : forall x l1 l2, Sublist l1 l2 -> Sublist (x :: l1) (x :: l2).

(* first-occurrence order: the elements of l not in [seen], each once, in order *)
Fixpoint uniq_from {A : Type} (eqb : A -> A -> bool) (seen l : list A) : list A :=
  match l with
  | [] => []
  | x :: l' => if mem eqb x seen then uniq_from eqb seen l'
               else x :: uniq_from eqb (seen ++ [x]) l'
  end.

(* a dictionary whose keys are pairwise different (every Python dict is) *)
Inductive dict_wf {K V : Type} (keq : K -> K -> bool) : dict K V -> Prop :=
| wf_nil : dict_wf keq []
| wf_cons : forall k v d, mem keq k (dkeys d) = false -> dict_wf keq d -> dict_wf keq ((k, v) :: d).

(* number of occurrences of v in a list of atoms *)
Fixpoint count (v : atom) (l : list atom) : N :=
  match l with
  | [] => 0
  | x :: l' => ((if atom_eqb v x then 1 else 0) + count v l')%N
  end.
(* in-degree over edges, and the implicit entrancy of the top *)
Definition indeg (g : graph) (v : atom) : N := count v (map ttgt (edges g None None None)).
Definition top_bonus (g : graph) (v : atom) : N :=
  match graph_top g with
  | None => 0
  | Some ANone => 0
  | Some t => if atom_eqb v t then 1 else 0
  end%N.
Definition ent (g : graph) (v : atom) : N := (top_bonus g v + indeg g v)%N.
(* the sequence of increments reentrancies() performs *)
Definition entrants (g : graph) : list atom :=
  match graph_top g with None => [] | Some ANone => [] | Some t => [t] end
  ++ map ttgt (edges g None None None).

(* v occurs as source or target of one of the triples *)
Definition occurs (v : atom) (ts : list triple) : bool :=
  existsb (fun t => atom_eqb v (tsrc t) || atom_eqb v (ttgt t)) ts.

(* the (key, markers) assignments made by the first loop of __ior__ *)
Definition new_marker_pairs (a b : graph) : list (triple * list epi) :=
  flat_map (fun t => if is_new a t
                     then match dget triple_eqb t (epidata b) with Some l => [(t, l)] | None => [] end
                     else []) (triples b).
Definition new_marker_keys (a b : graph) : list triple :=
  filter (fun t => is_new a t && dmem triple_eqb t (epidata b)) (triples b).

(* sequences of operations and their set-algebra evaluation *)
Inductive gop := OpOr (b : graph) | OpIor (b : graph) | OpSub (b : graph) | OpIsub (b : graph).
Definition apply_op (g : graph) (o : gop) : graph :=
  match o with
  | OpOr b => g_or g b | OpIor b => g_ior g b
  | OpSub b => g_sub g b | OpIsub b => g_isub g b
  end.
Definition run_ops (g : graph) (ops : list gop) : graph := fold_left apply_op ops g.
Definition eval_op (t : triple) (m : bool) (o : gop) : bool :=
  match o with
  | OpOr b | OpIor b => m || tmem t (triples b)
  | OpSub b | OpIsub b => m && negb (tmem t (triples b))
  end.
Definition eval_ops (t : triple) (m : bool) (ops : list gop) : bool := fold_left (eval_op t) ops m.

(* ------------------------------------------------------------------ *)
(** * Part 1: the equality tests are equivalences *)

Lemma str_eqb_eq : forall a b, str_eqb a b = true <-> a = b.
Proof.
  induction a as [|x a IH]; destruct b as [|y b]; simpl; split; intro H; try reflexivity; try discriminate.
  - apply andb_true_iff in H. destruct H as [H1 H2]. apply N.eqb_eq in H1. apply IH in H2. subst. reflexivity.
  - inversion H; subst. rewrite N.eqb_refl. simpl. apply IH. reflexivity.
Qed.
Lemma str_eqb_refl : forall a, str_eqb a a = true.
Proof. intro a. apply str_eqb_eq. reflexivity. Qed.
Lemma str_eqb_sym : forall a b, str_eqb a b = str_eqb b a.
Proof.
  intros a b. destruct (str_eqb a b) eqn:E.
  - apply str_eqb_eq in E. subst. symmetry. apply str_eqb_refl.
  - destruct (str_eqb b a) eqn:F; [|reflexivity].
    apply str_eqb_eq in F. subst. rewrite str_eqb_refl in E. discriminate.
Qed.
Lemma str_eqb_trans : forall a b c, str_eqb a b = true -> str_eqb b c = true -> str_eqb a c = true.
Proof. intros a b c H1 H2. apply str_eqb_eq in H1. apply str_eqb_eq in H2. subst. apply str_eqb_refl. Qed.

Lemma atom_eqb_refl : forall a, atom_eqb a a = true.
Proof. destruct a; simpl; try reflexivity; apply str_eqb_refl. Qed.
Lemma atom_eqb_sym : forall a b, atom_eqb a b = atom_eqb b a.
Proof. destruct a, b; simpl; try reflexivity; apply str_eqb_sym. Qed.
Lemma atom_eqb_trans : forall a b c, atom_eqb a b = true -> atom_eqb b c = true -> atom_eqb a c = true.
Proof.
  destruct a, b, c; simpl; intros H1 H2; try discriminate; try reflexivity;
    eapply str_eqb_trans; eassumption.
Qed.

Lemma triple_eqb_refl : forall t, triple_eqb t t = true.
Proof. intro t. unfold triple_eqb. rewrite !atom_eqb_refl, str_eqb_refl. reflexivity. Qed.
Lemma triple_eqb_sym : forall x y, triple_eqb x y = triple_eqb y x.
Proof.
  intros x y. unfold triple_eqb.
  rewrite (atom_eqb_sym (tsrc x)), (str_eqb_sym (trole x)), (atom_eqb_sym (ttgt x)). reflexivity.
Qed.
Lemma triple_eqb_parts : forall x y, triple_eqb x y = true ->
  atom_eqb (tsrc x) (tsrc y) = true /\ trole x = trole y /\ atom_eqb (ttgt x) (ttgt y) = true.
Proof.
  intros x y H. unfold triple_eqb in H.
  apply andb_true_iff in H. destruct H as [H H3].
  apply andb_true_iff in H. destruct H as [H1 H2].
  apply str_eqb_eq in H2. auto.
Qed.
Lemma triple_eqb_trans : forall x y z, triple_eqb x y = true -> triple_eqb y z = true -> triple_eqb x z = true.
Proof.
  intros x y z H1 H2.
  apply triple_eqb_parts in H1. destruct H1 as [A1 [B1 C1]].
  apply triple_eqb_parts in H2. destruct H2 as [A2 [B2 C2]].
  unfold triple_eqb. rewrite (atom_eqb_trans _ _ _ A1 A2), (atom_eqb_trans _ _ _ C1 C2), B1, B2, str_eqb_refl.
  reflexivity.
Qed.

(* ------------------------------------------------------------------ *)
(** * Part 2: lists and dictionaries over an equivalence test *)

Lemma filter_ext_in : forall {A} (p q : A -> bool) l,
  (forall x, In x l -> p x = q x) -> filter p l = filter q l.
Proof.
  intros A p q l. induction l as [|x l IH]; intro H; simpl; [reflexivity|].
  rewrite (H x (or_introl eq_refl)). rewrite IH; [reflexivity|].
  intros y Hy. apply H. right. exact Hy.
Qed.
Lemma filter_ext' : forall {A} (p q : A -> bool) l, (forall x, p x = q x) -> filter p l = filter q l.
Proof. intros A p q l H. apply filter_ext_in. intros x _. apply H. Qed.
Lemma filter_true : forall {A} (l : list A), filter (fun _ => true) l = l.
Proof. intros A l. induction l as [|x l IH]; simpl; [|rewrite IH]; reflexivity. Qed.
Lemma filter_filter : forall {A} (p q : A -> bool) l,
  filter p (filter q l) = filter (fun x => q x && p x) l.
Proof.
  intros A p q l. induction l as [|x l IH]; simpl; [reflexivity|].
  destruct (q x); simpl; [destruct (p x)|]; rewrite IH; reflexivity.
Qed.
Lemma filter_none : forall {A} (p : A -> bool) l, (forall x, In x l -> p x = false) -> filter p l = [].
Proof.
  intros A p l. induction l as [|x l IH]; intro H; simpl; [reflexivity|].
  rewrite (H x (or_introl eq_refl)). apply IH. intros y Hy. apply H. right. exact Hy.
Qed.
Lemma filter_all : forall {A} (p : A -> bool) l, (forall x, In x l -> p x = true) -> filter p l = l.
Proof.
  intros A p l. induction l as [|x l IH]; intro H; simpl; [reflexivity|].
  rewrite (H x (or_introl eq_refl)). rewrite IH; [reflexivity|]. intros y Hy. apply H. right. exact Hy.
Qed.
Lemma filter_Sublist : forall {A} (p : A -> bool) l, Sublist (filter p l) l.
Proof.
  intros A p l. induction l as [|x l IH]; simpl; [constructor|].
  destruct (p x); constructor; exact IH.
Qed.
Lemma Sublist_trans : forall {A} (l1 l2 l3 : list A), Sublist l1 l2 -> Sublist l2 l3 -> Sublist l1 l3.
Proof.
  intros A l1 l2 l3 H12 H23. revert l1 H12.
  induction H23 as [|x l2 l3 H IH|x l2 l3 H IH]; intros l1 H12.
  - exact H12.
  - constructor. apply IH. exact H12.
  - inversion H12; subst.
    + constructor. apply IH. assumption.
    + apply SL_keep. apply IH. assumption.
Qed.
Lemma Sublist_In : forall {A} (l1 l2 : list A) x, Sublist l1 l2 -> In x l1 -> In x l2.
Proof.
  intros A l1 l2 x H. induction H as [|y l1 l2 H IH|y l1 l2 H IH]; intro Hin.
  - exact Hin.
  - right. apply IH. exact Hin.
  - destruct Hin as [E|Hin]; [left; exact E|right; apply IH; exact Hin].
Qed.

Section Eqv.
  Context {A : Type} (eqb : A -> A -> bool).
  Hypothesis eqb_refl : forall x, eqb x x = true.
  Hypothesis eqb_sym : forall x y, eqb x y = eqb y x.
  Hypothesis eqb_trans : forall x y z, eqb x y = true -> eqb y z = true -> eqb x z = true.

  Lemma eqb_cong_l : forall x y z, eqb x y = true -> eqb x z = eqb y z.
  Proof.
    intros x y z H. destruct (eqb y z) eqn:E.
    - eapply eqb_trans; eassumption.
    - destruct (eqb x z) eqn:F; [|reflexivity].
      rewrite eqb_sym in H. rewrite (eqb_trans _ _ _ H F) in E. discriminate.
  Qed.
  Lemma eqb_cong_r : forall x y z, eqb x y = true -> eqb z x = eqb z y.
  Proof. intros x y z H. rewrite (eqb_sym z x), (eqb_sym z y). apply eqb_cong_l. exact H. Qed.

  Lemma mem_cong : forall x y l, eqb x y = true -> mem eqb x l = mem eqb y l.
  Proof.
    intros x y l H. unfold mem. induction l as [|z l IH]; simpl; [reflexivity|].
    rewrite (eqb_cong_l _ _ z H), IH. reflexivity.
  Qed.
  Lemma mem_app : forall x l1 l2, mem eqb x (l1 ++ l2) = mem eqb x l1 || mem eqb x l2.
  Proof. intros. unfold mem. apply existsb_app. Qed.
  Lemma mem_In : forall x l, In x l -> mem eqb x l = true.
  Proof.
    intros x l H. unfold mem. apply existsb_exists. exists x. split; [exact H|apply eqb_refl].
  Qed.
  Lemma mem_rev : forall x l, mem eqb x (rev l) = mem eqb x l.
  Proof.
    intros x l. induction l as [|y l IH]; simpl; [reflexivity|].
    rewrite mem_app, IH. simpl. rewrite orb_false_r. apply orb_comm.
  Qed.
  Lemma mem_filter : forall (p : A -> bool) x l,
    (forall u v, eqb u v = true -> p u = p v) ->
    mem eqb x (filter p l) = mem eqb x l && p x.
  Proof.
    intros p x l Hp. induction l as [|y l IH]; simpl; [reflexivity|].
    destruct (p y) eqn:Py; simpl; rewrite IH.
    - destruct (eqb x y) eqn:E; simpl; [|reflexivity].
      rewrite (Hp x y E), Py. reflexivity.
    - destruct (eqb x y) eqn:E; simpl; [|reflexivity].
      rewrite (Hp x y E), Py. rewrite andb_false_r. reflexivity.
  Qed.
  Lemma mem_filter_sub : forall (p : A -> bool) x l, mem eqb x (filter p l) = true -> mem eqb x l = true.
  Proof.
    intros p x l. induction l as [|y l IH]; simpl; [auto|].
    destruct (p y); simpl; intro H.
    - apply orb_true_iff in H. destruct H as [H|H]; [rewrite H; reflexivity|].
      rewrite (IH H). apply orb_true_r.
    - rewrite (IH H). apply orb_true_r.
  Qed.
  Lemma mem_dedup_acc : forall x l acc,
    mem eqb x (dedup_acc eqb l acc) = mem eqb x l || mem eqb x acc.
  Proof.
    intros x l. induction l as [|y l IH]; intro acc; simpl.
    - apply mem_rev.
    - destruct (mem eqb y acc) eqn:M; rewrite IH.
      + destruct (eqb x y) eqn:E; simpl; [|reflexivity].
        rewrite (mem_cong x y acc E), M. rewrite orb_true_r. reflexivity.
      + simpl. destruct (eqb x y); simpl; [rewrite orb_true_r|]; reflexivity.
  Qed.
  Lemma mem_dedup : forall x l, mem eqb x (dedup eqb l) = mem eqb x l.
  Proof. intros x l. unfold dedup. rewrite mem_dedup_acc. simpl. apply orb_false_r. Qed.

  Lemma neg_mem_cong : forall l u v, eqb u v = true -> negb (mem eqb u l) = negb (mem eqb v l).
  Proof. intros l u v H. rewrite (mem_cong u v l H). reflexivity. Qed.
End Eqv.

Section DictLemmas.
  Context {K V : Type} (keq : K -> K -> bool).
  Hypothesis keq_refl : forall x, keq x x = true.
  Hypothesis keq_sym : forall x y, keq x y = keq y x.
  Hypothesis keq_trans : forall x y z, keq x y = true -> keq y z = true -> keq x z = true.

  Notation D := (dict K V).
  Notation kmem := (mem keq).

  Lemma dget_cong : forall k k' (d : D), keq k k' = true -> dget keq k d = dget keq k' d.
  Proof.
    intros k k' d H. induction d as [|[k0 v0] d IH]; simpl; [reflexivity|].
    rewrite (eqb_cong_l keq keq_sym keq_trans _ _ k0 H), IH. reflexivity.
  Qed.
  Lemma dmem_keys : forall k (d : D), dmem keq k d = kmem k (dkeys d).
  Proof.
    intros k d. unfold dmem. induction d as [|[k0 v0] d IH]; simpl; [reflexivity|].
    destruct (keq k k0); simpl; [reflexivity|exact IH].
  Qed.
  Lemma dget_none_keys : forall k (d : D), kmem k (dkeys d) = false -> dget keq k d = None.
  Proof.
    intros k d H. rewrite <- dmem_keys in H. unfold dmem in H.
    destruct (dget keq k d); [discriminate|reflexivity].
  Qed.
  Lemma dget_dset : forall k' k v (d : D),
    dget keq k' (dset keq k v d) = if keq k' k then Some v else dget keq k' d.
  Proof.
    intros k' k v d. induction d as [|[k0 v0] d IH]; simpl.
    - destruct (keq k' k); reflexivity.
    - destruct (keq k k0) eqn:E; simpl.
      + destruct (keq k' k0) eqn:F.
        * rewrite (eqb_cong_r keq keq_sym keq_trans _ _ k' E), F. reflexivity.
        * rewrite (eqb_cong_r keq keq_sym keq_trans _ _ k' E), F. reflexivity.
      + destruct (keq k' k0) eqn:F.
        * rewrite (eqb_cong_l keq keq_sym keq_trans _ _ k F).
          rewrite keq_sym, E. reflexivity.
        * exact IH.
  Qed.
  Lemma dkeys_dset : forall k v (d : D),
    dkeys (dset keq k v d) = if kmem k (dkeys d) then dkeys d else dkeys d ++ [k].
  Proof.
    intros k v d. induction d as [|[k0 v0] d IH]; simpl; [reflexivity|].
    destruct (keq k k0) eqn:E; simpl; [reflexivity|].
    unfold dkeys in *. rewrite IH. destruct (kmem k (map fst d)); reflexivity.
  Qed.
  Lemma wf_dset : forall k v (d : D), dict_wf keq d -> dict_wf keq (dset keq k v d).
  Proof.
    intros k v d W. induction W as [|k0 v0 d N W IH]; simpl.
    - constructor; [reflexivity|constructor].
    - destruct (keq k k0) eqn:E.
      + constructor; assumption.
      + constructor; [|exact IH].
        rewrite dkeys_dset. destruct (kmem k (dkeys d)); [exact N|].
        rewrite (mem_app keq). rewrite N. simpl. rewrite keq_sym, E. reflexivity.
  Qed.
  Lemma wf_dupdate : forall ps (d : D), dict_wf keq d -> dict_wf keq (dupdate keq d ps).
  Proof.
    unfold dupdate. induction ps as [|p ps IH]; intros d W; simpl; [exact W|].
    apply IH. apply wf_dset. exact W.
  Qed.
  Lemma dupdate_app : forall ps qs (d : D), dupdate keq d (ps ++ qs) = dupdate keq (dupdate keq d ps) qs.
  Proof. intros. unfold dupdate. apply fold_left_app. Qed.
  Lemma dkeys_dupdate : forall ps (d : D),
    dkeys (dupdate keq d ps) = dkeys d ++ uniq_from keq (dkeys d) (map fst ps).
  Proof.
    unfold dupdate. induction ps as [|[k v] ps IH]; intro d; simpl.
    - symmetry. apply app_nil_r.
    - rewrite IH. rewrite dkeys_dset. destruct (kmem k (dkeys d)); [reflexivity|].
      rewrite <- app_assoc. reflexivity.
  Qed.
  Lemma dget_dupdate : forall ps (d : D) k, dict_wf keq ps ->
    dget keq k (dupdate keq d ps) =
    match dget keq k ps with Some v => Some v | None => dget keq k d end.
  Proof.
    unfold dupdate. induction ps as [|[k0 v0] ps IH]; intros d k W; simpl; [reflexivity|].
    inversion W as [|k1 v1 d1 N W']; subst.
    rewrite (IH _ _ W'). rewrite dget_dset.
    destruct (keq k k0) eqn:E.
    - rewrite (dget_none_keys k ps); [reflexivity|].
      rewrite (mem_cong keq keq_sym keq_trans k k0 _ E). exact N.
    - reflexivity.
  Qed.

  Lemma keys_filter_sub : forall (p : K * V -> bool) k (d : D),
    kmem k (dkeys (filter p d)) = true -> kmem k (dkeys d) = true.
  Proof.
    intros p k d. induction d as [|[k0 v0] d IH]; simpl; [auto|].
    destruct (p (k0, v0)); simpl; intro H.
    - apply orb_true_iff in H. destruct H as [H|H]; [rewrite H; reflexivity|].
      rewrite (IH H). apply orb_true_r.
    - rewrite (IH H). apply orb_true_r.
  Qed.
  Lemma wf_filter : forall (p : K * V -> bool) (d : D), dict_wf keq d -> dict_wf keq (filter p d).
  Proof.
    intros p d W. induction W as [|k0 v0 d N W IH]; simpl; [constructor|].
    destruct (p (k0, v0)); [|exact IH].
    constructor; [|exact IH].
    destruct (kmem k0 (dkeys (filter p d))) eqn:M; [|reflexivity].
    apply keys_filter_sub in M. rewrite M in N. discriminate.
  Qed.
  Lemma filter_id_notin : forall k (d : D), kmem k (dkeys d) = false ->
    filter (fun kv => negb (keq k (fst kv))) d = d.
  Proof.
    intros k d. induction d as [|[k0 v0] d IH]; simpl; intro H; [reflexivity|].
    apply orb_false_iff in H. destruct H as [H1 H2]. rewrite H1. simpl. rewrite (IH H2). reflexivity.
  Qed.
  Lemma ddel_wf : forall k (d : D), dict_wf keq d ->
    ddel keq k d = filter (fun kv => negb (keq k (fst kv))) d.
  Proof.
    intros k d W. induction W as [|k0 v0 d N W IH]; simpl; [reflexivity|].
    destruct (keq k k0) eqn:E; simpl.
    - symmetry. apply filter_id_notin.
      rewrite (mem_cong keq keq_sym keq_trans k k0 _ E). exact N.
    - rewrite IH. reflexivity.
  Qed.
  Lemma del_if_present : forall k (d : D), dict_wf keq d ->
    (if dmem keq k d then ddel keq k d else d) = filter (fun kv => negb (keq k (fst kv))) d.
  Proof.
    intros k d W. destruct (dmem keq k d) eqn:M.
    - apply ddel_wf. exact W.
    - symmetry. apply filter_id_notin. rewrite <- dmem_keys. exact M.
  Qed.

  Lemma wf_In_dget : forall k v (d : D), dict_wf keq d -> In (k, v) d -> dget keq k d = Some v.
  Proof.
    intros k v d W. induction W as [|k0 v0 d N W IH]; simpl; intro H; [contradiction|].
    destruct H as [H|H].
    - inversion H; subst. rewrite keq_refl. reflexivity.
    - destruct (keq k k0) eqn:E; [|apply IH; exact H].
      assert (M : kmem k (dkeys d) = true).
      { apply (mem_In keq keq_refl). unfold dkeys. change k with (fst (k, v)). apply in_map. exact H. }
      rewrite (mem_cong keq keq_sym keq_trans k k0 _ E) in M. rewrite M in N. discriminate.
  Qed.
  Lemma dget_filter_val : forall (p : V -> bool) k (d : D), dict_wf keq d ->
    dget keq k (filter (fun kv => p (snd kv)) d) =
    match dget keq k d with Some c => if p c then Some c else None | None => None end.
  Proof.
    intros p k d W. induction W as [|k0 v0 d N W IH]; simpl; [reflexivity|].
    destruct (keq k k0) eqn:E.
    - assert (Z : dget keq k d = None).
      { apply dget_none_keys. rewrite (mem_cong keq keq_sym keq_trans k k0 _ E). exact N. }
      destruct (p v0); simpl.
      + rewrite E. reflexivity.
      + rewrite IH, Z. reflexivity.
    - destruct (p v0); simpl; [rewrite E|]; exact IH.
  Qed.
  Lemma dget_map_val : forall {W} (f : V -> W) k (d : D),
    dget keq k (map (fun kv => (fst kv, f (snd kv))) d) = option_map f (dget keq k d).
  Proof.
    intros W f k d. induction d as [|[k0 v0] d IH]; simpl; [reflexivity|].
    destruct (keq k k0); [reflexivity|exact IH].
  Qed.
  Lemma wf_map_val : forall {W} (f : V -> W) (d : D), dict_wf keq d ->
    dict_wf keq (map (fun kv => (fst kv, f (snd kv))) d).
  Proof.
    intros W f d Wf. induction Wf as [|k0 v0 d N Wf IH]; simpl; constructor; [|exact IH].
    unfold dkeys in *. rewrite map_map. simpl. exact N.
  Qed.
  Lemma wf_app_notin : forall (d ps : D) k v, dict_wf keq (d ++ (k, v) :: ps) -> kmem k (dkeys d) = false.
  Proof.
    induction d as [|[k0 v0] d IH]; intros ps k v W; simpl; [reflexivity|].
    simpl in W. inversion W as [|k1 v1 d1 N W']; subst.
    rewrite (IH _ _ _ W'). rewrite orb_false_r.
    unfold dkeys in N. rewrite map_app in N. rewrite (mem_app keq) in N.
    apply orb_false_iff in N. destruct N as [_ N]. simpl in N.
    apply orb_false_iff in N. destruct N as [N _]. rewrite keq_sym. exact N.
  Qed.
  Lemma dset_notin : forall k v (d : D), kmem k (dkeys d) = false -> dset keq k v d = d ++ [(k, v)].
  Proof.
    intros k v d. induction d as [|[k0 v0] d IH]; simpl; intro H; [reflexivity|].
    apply orb_false_iff in H. destruct H as [H1 H2]. rewrite H1, (IH H2). reflexivity.
  Qed.
  Lemma dupdate_wf_app : forall ps (d : D), dict_wf keq (d ++ ps) -> dupdate keq d ps = d ++ ps.
  Proof.
    unfold dupdate. induction ps as [|[k v] ps IH]; intros d W; simpl.
    - symmetry. apply app_nil_r.
    - rewrite (dset_notin k v d (wf_app_notin _ _ _ _ W)).
      rewrite IH; rewrite <- app_assoc; [reflexivity|exact W].
  Qed.
  Lemma dict_of_pairs_wf : forall (ps : D), dict_wf keq ps -> dict_of_pairs keq ps = ps.
  Proof. intros ps W. unfold dict_of_pairs. apply (dupdate_wf_app ps []). exact W. Qed.
End DictLemmas.

Lemma map_fst_filter : forall {K V} (p : K * V -> bool) (q : K -> bool) (d : list (K * V)),
  (forall kv, In kv d -> p kv = q (fst kv)) -> map fst (filter p d) = filter q (map fst d).
Proof.
  intros K V p q d. induction d as [|kv d IH]; intro H; simpl; [reflexivity|].
  rewrite (H kv (or_introl eq_refl)). destruct (q (fst kv)); simpl; rewrite IH; try reflexivity;
    intros x Hx; apply H; right; exact Hx.
Qed.

(* instantiated helpers *)
Definition amem_cong := mem_cong atom_eqb atom_eqb_sym atom_eqb_trans.
Definition tmem_cong := mem_cong triple_eqb triple_eqb_sym triple_eqb_trans.
Lemma tmem_In : forall t l, In t l -> tmem t l = true.
Proof. intros. apply (mem_In triple_eqb triple_eqb_refl). assumption. Qed.
Lemma tmem_app : forall t l1 l2, tmem t (l1 ++ l2) = tmem t l1 || tmem t l2.
Proof. intros. apply mem_app. Qed.
Lemma tmem_filter : forall p t l, (forall u v, triple_eqb u v = true -> p u = p v) ->
  tmem t (filter p l) = tmem t l && p t.
Proof. intros. apply (mem_filter triple_eqb); assumption. Qed.

(* ------------------------------------------------------------------ *)
(** * Part 3: queries *)

Lemma is_var_spec : forall g a,
  is_var g a = mem atom_eqb a (map tsrc (triples g))
               || match gtop g with Some v => atom_eqb a v | None => false end.
Proof.
  intros g a. unfold is_var, variables.
  rewrite (mem_dedup atom_eqb atom_eqb_sym atom_eqb_trans). rewrite mem_app.
  destruct (gtop g); simpl; [rewrite orb_false_r|]; reflexivity.
Qed.
Lemma is_var_cong : forall g u v, atom_eqb u v = true -> is_var g u = is_var g v.
Proof. intros g u v H. unfold is_var. apply amem_cong. exact H. Qed.

Lemma class_cong : forall g u v, triple_eqb u v = true -> class_of g u = class_of g v.
Proof.
  intros g u v H. apply triple_eqb_parts in H. destruct H as [_ [R T]].
  unfold class_of. rewrite R, (is_var_cong g _ _ T). reflexivity.
Qed.
Lemma is_class_cong : forall g c u v, triple_eqb u v = true -> is_class g c u = is_class g c v.
Proof. intros g c u v H. unfold is_class. rewrite (class_cong g u v H). reflexivity. Qed.

Lemma filter_triples_sel : forall g s r t, filter_triples g s r t = filter (sel s r t) (triples g).
Proof. reflexivity. Qed.
Lemma filter_triples_none : forall g, filter_triples g None None None = triples g.
Proof. intro g. unfold filter_triples. simpl. apply filter_true. Qed.

Lemma query_filter : forall g c, query g c = filter (is_class g c) (triples g).
Proof.
  intros g c. destruct c; simpl.
  - unfold instances, filter_triples, opt_match. apply filter_ext'. intro x.
    unfold is_class, class_of. rewrite andb_true_r, andb_true_l, (str_eqb_sym INSTANCE).
    destruct (str_eqb (trole x) INSTANCE); [reflexivity|]. destruct (is_var g (ttgt x)); reflexivity.
  - unfold edges. rewrite filter_triples_none. apply filter_ext'. intro x.
    unfold is_class, class_of. destruct (str_eqb (trole x) INSTANCE); simpl; [reflexivity|].
    destruct (is_var g (ttgt x)); reflexivity.
  - unfold attributes. rewrite filter_triples_none. apply filter_ext'. intro x.
    unfold is_class, class_of. destruct (str_eqb (trole x) INSTANCE); simpl; [reflexivity|].
    destruct (is_var g (ttgt x)); reflexivity.
Qed.

Lemma class_partition_perm : forall {A} (f : A -> tclass) (l : list A),
  Permutation (filter (fun x => tclass_eqb (f x) CI) l ++ filter (fun x => tclass_eqb (f x) CE) l
               ++ filter (fun x => tclass_eqb (f x) CA) l) l.
Proof.
  intros A f l. induction l as [|x l IH]; simpl; [constructor|].
  destruct (f x); simpl.
  - constructor. exact IH.
  - eapply Permutation_trans; [|apply perm_skip; exact IH].
    symmetry. apply Permutation_middle.
  - eapply Permutation_trans; [|apply perm_skip; exact IH].
    symmetry. rewrite app_assoc. eapply Permutation_trans; [apply Permutation_middle|].
    rewrite <- app_assoc. reflexivity.
Qed.

Lemma tclass_eqb_eq : forall a b, tclass_eqb a b = true -> a = b.
Proof. destruct a, b; simpl; intro H; try reflexivity; discriminate. Qed.

Lemma partition3 : forall g,
  (forall c, query g c = filter (is_class g c) (triples g)) /\
  (forall c, Sublist (query g c) (triples g)) /\
  Permutation (instances g ++ edges g None None None ++ attributes g None None None) (triples g) /\
  (forall t c, tmem t (query g c) = tmem t (triples g) && is_class g c t) /\
  (forall t c1 c2, tmem t (query g c1) = true -> tmem t (query g c2) = true -> c1 = c2) /\
  length (instances g) + length (edges g None None None) + length (attributes g None None None)
  = length (triples g).
Proof.
  intro g.
  assert (Q := query_filter g).
  assert (P : Permutation (instances g ++ edges g None None None ++ attributes g None None None) (triples g)).
  { change (Permutation (query g CI ++ query g CE ++ query g CA) (triples g)).
    rewrite !Q. apply (class_partition_perm (class_of g)). }
  assert (M : forall t c, tmem t (query g c) = tmem t (triples g) && is_class g c t).
  { intros t c. rewrite Q. apply tmem_filter. apply is_class_cong. }
  split; [exact Q|]. split; [intro c; rewrite Q; apply filter_Sublist|].
  split; [exact P|]. split; [exact M|]. split.
  - intros t c1 c2 H1 H2. rewrite M in H1, H2.
    apply andb_true_iff in H1. destruct H1 as [_ H1].
    apply andb_true_iff in H2. destruct H2 as [_ H2].
    unfold is_class in *. apply tclass_eqb_eq in H1. apply tclass_eqb_eq in H2. congruence.
  - apply Permutation_length in P. rewrite !app_length in P. lia.
Qed.

Lemma edges_spec : forall g,
  (forall s r t, edges g s r t =
     filter (fun x => sel s r t x && (negb (str_eqb (trole x) INSTANCE) && is_var g (ttgt x))) (triples g)) /\
  edges g None None None =
     filter (fun x => negb (str_eqb (trole x) INSTANCE) && is_var g (ttgt x)) (triples g) /\
  (forall x, In x (edges g None None None) <->
     In x (triples g) /\ trole x <> INSTANCE /\ is_var g (ttgt x) = true) /\
  (forall s r t, attributes g s r t =
     filter (fun x => sel s r t x && (negb (str_eqb (trole x) INSTANCE) && negb (is_var g (ttgt x)))) (triples g)).
Proof.
  intro g. split; [|split; [|split]].
  - intros s r t. unfold edges. rewrite filter_triples_sel. apply filter_filter.
  - unfold edges. rewrite filter_triples_none. reflexivity.
  - intro x. unfold edges. rewrite filter_triples_none. rewrite filter_In. split.
    + intros [H1 H2]. apply andb_true_iff in H2. destruct H2 as [H2 H3].
      split; [exact H1|]. split; [|exact H3].
      intro E. rewrite E, str_eqb_refl in H2. discriminate.
    + intros [H1 [H2 H3]]. split; [exact H1|]. rewrite H3, andb_true_r.
      destruct (str_eqb (trole x) INSTANCE) eqn:E; [|reflexivity].
      apply str_eqb_eq in E. contradiction.
  - intros s r t. unfold attributes. rewrite filter_triples_sel. apply filter_filter.
Qed.

Lemma filter_comm : forall {A} (p q : A -> bool) l, filter p (filter q l) = filter q (filter p l).
Proof.
  intros. rewrite !filter_filter. apply filter_ext'. intro x. apply andb_comm.
Qed.

Lemma filter_sublist : forall g s r t,
  filter_triples g s r t = filter (sel s r t) (triples g) /\
  edges g s r t = filter (sel s r t) (edges g None None None) /\
  attributes g s r t = filter (sel s r t) (attributes g None None None) /\
  Sublist (edges g s r t) (edges g None None None) /\
  Sublist (attributes g s r t) (attributes g None None None) /\
  Sublist (filter_triples g s r t) (triples g).
Proof.
  intros g s r t.
  assert (E : edges g s r t = filter (sel s r t) (edges g None None None)).
  { unfold edges. rewrite filter_triples_none, filter_triples_sel. apply filter_comm. }
  assert (A : attributes g s r t = filter (sel s r t) (attributes g None None None)).
  { unfold attributes. rewrite filter_triples_none, filter_triples_sel. apply filter_comm. }
  split; [reflexivity|]. split; [exact E|]. split; [exact A|].
  split; [rewrite E; apply filter_Sublist|]. split; [rewrite A; apply filter_Sublist|].
  rewrite filter_triples_sel. apply filter_Sublist.
Qed.

Lemma implicit_top : forall g,
  (forall v, gtop g = Some v -> graph_top g = Some v) /\
  (forall t ts, gtop g = None -> triples g = t :: ts -> graph_top g = Some (tsrc t)) /\
  (gtop g = None -> triples g = [] -> graph_top g = None).
Proof.
  intro g. unfold graph_top. split; [|split].
  - intros v H. rewrite H. reflexivity.
  - intros t ts H1 H2. rewrite H1, H2. reflexivity.
  - intros H1 H2. rewrite H1, H2. reflexivity.
Qed.

Lemma set_top_refuses : forall g v, v <> ANone -> is_var g v = false -> set_top g v = GraphErr.
Proof. intros g v N H. unfold set_top. rewrite H. destruct v; [contradiction|reflexivity|reflexivity]. Qed.

Lemma set_top_accepts : forall g v, v = ANone \/ is_var g v = true ->
  exists g', set_top g v = Ok g' /\ triples g' = triples g /\ epidata g' = epidata g /\ gmeta g' = gmeta g /\
             gtop g' = match v with ANone => None | _ => Some v end /\
             (v <> ANone -> graph_top g' = Some v /\ is_var g' v = true).
Proof.
  intros g v H.
  assert (S : forall w, is_var (with_top g (Some w)) w = true).
  { intro w. rewrite is_var_spec. unfold with_top. cbn [gtop]. rewrite atom_eqb_refl. apply orb_true_r. }
  destruct v as [|s|txt z].
  - exists (with_top g None). split; [reflexivity|]. split; [reflexivity|]. split; [reflexivity|].
    split; [reflexivity|]. split; [reflexivity|]. intro N. exfalso. apply N. reflexivity.
  - destruct H as [H|H]; [discriminate|]. unfold set_top. rewrite H.
    exists (with_top g (Some (AStr s))). split; [reflexivity|]. split; [reflexivity|]. split; [reflexivity|].
    split; [reflexivity|]. split; [reflexivity|]. intros _. split; [reflexivity|apply S].
  - destruct H as [H|H]; [discriminate|]. unfold set_top. rewrite H.
    exists (with_top g (Some (ANum txt z))). split; [reflexivity|]. split; [reflexivity|]. split; [reflexivity|].
    split; [reflexivity|]. split; [reflexivity|]. intros _. split; [reflexivity|apply S].
Qed.

(* ------------------------------------------------------------------ *)
(** * Part 4: reentrancies *)

Notation aget := (dget atom_eqb).
Definition adget_dset := @dget_dset atom N atom_eqb atom_eqb_sym atom_eqb_trans.
Definition adget_cong := @dget_cong atom N atom_eqb atom_eqb_sym atom_eqb_trans.

Lemma dget_dincr : forall v k d,
  aget v (dincr k d) =
  if atom_eqb v k then Some (match aget v d with Some n => (n + 1)%N | None => 1%N end) else aget v d.
Proof.
  intros v k d. unfold dincr. rewrite adget_dset.
  destruct (atom_eqb v k) eqn:E; [|reflexivity].
  rewrite (adget_cong v k d E). reflexivity.
Qed.

Definition incr_all (ks : list atom) (d : dict atom N) : dict atom N :=
  fold_left (fun d k => dincr k d) ks d.

Lemma dget_incr_all : forall ks d v,
  aget v (incr_all ks d) =
  match aget v d with
  | Some n => Some (n + count v ks)%N
  | None => if N.eqb (count v ks) 0 then None else Some (count v ks)
  end.
Proof.
  unfold incr_all. induction ks as [|k ks IH]; intros d v; simpl.
  - destruct (aget v d) as [n|]; [rewrite N.add_0_r|]; reflexivity.
  - rewrite IH, dget_dincr. destruct (atom_eqb v k) eqn:E.
    + destruct (aget v d) as [n|].
      * f_equal. lia.
      * destruct (N.eqb (1 + count v ks) 0) eqn:Z; [apply N.eqb_eq in Z; lia|]. reflexivity.
    + rewrite N.add_0_l. reflexivity.
Qed.

Lemma entrancies_incr : forall g, entrancies g = incr_all (entrants g) [].
Proof.
  intro g. unfold entrancies, entrants, incr_all.
  rewrite fold_left_app.
  assert (F : forall l d, fold_left (fun d t => dincr (ttgt t) d) l d
                        = fold_left (fun d k => dincr k d) (map ttgt l) d).
  { induction l as [|x l IH]; intro d; simpl; [reflexivity|apply IH]. }
  rewrite F. f_equal. destruct (graph_top g) as [[| |]|]; reflexivity.
Qed.

Lemma count_app : forall v l1 l2, count v (l1 ++ l2) = (count v l1 + count v l2)%N.
Proof. intros v l1 l2. induction l1 as [|x l1 IH]; simpl; [reflexivity|]. rewrite IH. lia. Qed.

Lemma count_entrants : forall g v, count v (entrants g) = ent g v.
Proof.
  intros g v. unfold entrants, ent, top_bonus, indeg. rewrite count_app. f_equal.
  destruct (graph_top g) as [[| |]|]; simpl; try reflexivity; rewrite N.add_0_r; reflexivity.
Qed.

Lemma dget_entrancies : forall g v,
  aget v (entrancies g) = if N.eqb (ent g v) 0 then None else Some (ent g v).
Proof. intros g v. rewrite entrancies_incr, dget_incr_all, count_entrants. reflexivity. Qed.

Lemma wf_incr_all : forall ks d, dict_wf atom_eqb d -> dict_wf atom_eqb (incr_all ks d).
Proof.
  unfold incr_all. induction ks as [|k ks IH]; intros d W; simpl; [exact W|].
  apply IH. unfold dincr. apply (wf_dset atom_eqb atom_eqb_sym). exact W.
Qed.
Lemma wf_entrancies : forall g, dict_wf atom_eqb (entrancies g).
Proof. intro g. rewrite entrancies_incr. apply wf_incr_all. constructor. Qed.

Lemma dkeys_incr_all : forall ks d,
  dkeys (incr_all ks d) = dkeys d ++ uniq_from atom_eqb (dkeys d) ks.
Proof.
  unfold incr_all. induction ks as [|k ks IH]; intro d; simpl.
  - symmetry. apply app_nil_r.
  - rewrite IH. unfold dincr. rewrite (dkeys_dset atom_eqb).
    destruct (mem atom_eqb k (dkeys d)); [reflexivity|]. rewrite <- app_assoc. reflexivity.
Qed.

Definition reent_pairs (g : graph) : list (atom * N) :=
  map (fun kv => (fst kv, (snd kv - 1)%N)) (filter (fun kv => N.leb 2 (snd kv)) (entrancies g)).

Lemma wf_reent_pairs : forall g, dict_wf atom_eqb (reent_pairs g).
Proof.
  intro g. unfold reent_pairs. apply (wf_map_val atom_eqb (fun c => (c - 1)%N)). apply (wf_filter atom_eqb). apply wf_entrancies.
Qed.
Lemma reentrancies_pairs : forall g, reentrancies g = reent_pairs g.
Proof.
  intro g. unfold reentrancies. apply (dict_of_pairs_wf atom_eqb atom_eqb_sym). apply wf_reent_pairs.
Qed.

Lemma reentrancies_spec : forall g v,
  aget v (reentrancies g) = if N.leb 2 (ent g v) then Some (ent g v - 1)%N else None.
Proof.
  intros g v. rewrite reentrancies_pairs. unfold reent_pairs.
  rewrite (dget_map_val atom_eqb (fun c => (c - 1)%N)).
  rewrite (dget_filter_val atom_eqb atom_eqb_sym atom_eqb_trans (fun c => N.leb 2 c) v _ (wf_entrancies g)).
  rewrite dget_entrancies.
  destruct (N.eqb (ent g v) 0) eqn:Z.
  - apply N.eqb_eq in Z. rewrite Z. reflexivity.
  - destruct (N.leb 2 (ent g v)); reflexivity.
Qed.

Lemma reentrancies_order : forall g,
  dict_wf atom_eqb (reentrancies g) /\
  dkeys (reentrancies g) = filter (fun v => N.leb 2 (ent g v)) (uniq_from atom_eqb [] (entrants g)).
Proof.
  intro g. split; [rewrite reentrancies_pairs; apply wf_reent_pairs|].
  rewrite reentrancies_pairs. unfold reent_pairs, dkeys. rewrite map_map. simpl.
  rewrite (map_fst_filter _ (fun v => N.leb 2 (ent g v))).
  - f_equal. change (map fst (entrancies g)) with (dkeys (entrancies g)).
    rewrite entrancies_incr, dkeys_incr_all. reflexivity.
  - intros [k c] Hin. simpl.
    assert (G := wf_In_dget atom_eqb atom_eqb_refl atom_eqb_sym atom_eqb_trans k c _ (wf_entrancies g) Hin).
    rewrite dget_entrancies in G. destruct (N.eqb (ent g k) 0); [discriminate|].
    inversion G. reflexivity.
Qed.

(* ------------------------------------------------------------------ *)
(** * Part 5: set operations *)

Notation tget := (dget triple_eqb).
Definition tdget_cong := @dget_cong triple (list epi) triple_eqb triple_eqb_sym triple_eqb_trans.

Lemma is_new_cong : forall a u v, triple_eqb u v = true -> is_new a u = is_new a v.
Proof. intros a u v H. unfold is_new. rewrite (tmem_cong u v _ H). reflexivity. Qed.
Lemma notin_cong : forall l u v, triple_eqb u v = true ->
  negb (mem triple_eqb u l) = negb (mem triple_eqb v l).
Proof. intros l u v H. rewrite (tmem_cong u v _ H). reflexivity. Qed.

(* ---- union *)
Lemma or_triples : forall a b,
  triples (g_or a b) = triples a ++ filter (fun t => negb (tmem t (triples a))) (triples b).
Proof. reflexivity. Qed.
Lemma ior_triples : forall a b, triples (g_ior a b) = triples (g_or a b).
Proof. reflexivity. Qed.
Lemma Sublist_refl : forall {A} (l : list A), Sublist l l.
Proof. intros A l. induction l as [|x l IH]; [constructor|apply SL_keep; exact IH]. Qed.
Lemma Sublist_app_l : forall {A} (l1 l2 : list A), Sublist l1 (l1 ++ l2).
Proof.
  intros A l1 l2. induction l1 as [|x l1 IH]; simpl.
  - induction l2 as [|y l2 IH2]; constructor. exact IH2.
  - apply SL_keep. exact IH.
Qed.
Lemma or_spec : forall a b,
  triples (g_or a b) = triples a ++ filter (fun t => negb (tmem t (triples a))) (triples b) /\
  Sublist (triples a) (triples (g_or a b)) /\
  gmeta (g_or a b) = [] /\ gtop (g_or a b) = gtop a.
Proof.
  intros a b. split; [reflexivity|]. split; [rewrite or_triples; apply Sublist_app_l|].
  split; reflexivity.
Qed.

Lemma ior_loop1 : forall a b ts ed,
  fold_left
    (fun ed t => if is_new a t then match tget t (epidata b) with
                                    | Some l => dset triple_eqb t l ed | None => ed end
                 else ed) ts ed
  = dupdate triple_eqb ed
      (flat_map (fun t => if is_new a t
                          then match tget t (epidata b) with Some l => [(t, l)] | None => [] end
                          else []) ts).
Proof.
  intros a b ts. induction ts as [|t ts IH]; intro ed; simpl; [reflexivity|].
  rewrite dupdate_app, IH. f_equal.
  destruct (is_new a t); [|reflexivity]. destruct (tget t (epidata b)); reflexivity.
Qed.

Lemma ior_epidata_dupdate : forall a b,
  ior_epidata a b = dupdate triple_eqb (epidata a) (new_marker_pairs a b ++ epidata b).
Proof. intros a b. unfold ior_epidata. rewrite ior_loop1, dupdate_app. reflexivity. Qed.

Lemma new_marker_pairs_keys : forall a b, map fst (new_marker_pairs a b) = new_marker_keys a b.
Proof.
  intros a b. unfold new_marker_pairs, new_marker_keys, dmem.
  induction (triples b) as [|t ts IH]; simpl; [reflexivity|].
  rewrite map_app, IH. destruct (is_new a t); simpl; [|reflexivity].
  destruct (tget t (epidata b)); reflexivity.
Qed.

Lemma new_marker_pairs_get : forall a b k,
  tget k (epidata b) = None -> tget k (new_marker_pairs a b) = None.
Proof.
  intros a b k H. unfold new_marker_pairs.
  induction (triples b) as [|t ts IH]; simpl; [reflexivity|].
  destruct (is_new a t); simpl; [|exact IH].
  destruct (tget t (epidata b)) eqn:G; simpl; [|exact IH].
  destruct (triple_eqb k t) eqn:E; [|exact IH].
  rewrite (tdget_cong k t _ E) in H. rewrite H in G. discriminate.
Qed.

(* lookups in a dupdate whose pairs all agree with a well-formed dictionary *)
Lemma dget_dupdate_agree : forall (eb : dict triple (list epi)) ps d k,
  (forall t l, In (t, l) ps -> tget t eb = Some l) ->
  tget k (dupdate triple_eqb d ps) =
  match tget k ps with Some _ => tget k eb | None => tget k d end.
Proof.
  intros eb. unfold dupdate. induction ps as [|[t l] ps IH]; intros d k H; simpl; [reflexivity|].
  rewrite IH; [|intros t' l' Hin; apply H; right; exact Hin].
  rewrite (dget_dset triple_eqb triple_eqb_sym triple_eqb_trans).
  destruct (triple_eqb k t) eqn:E.
  - destruct (tget k ps); [reflexivity|].
    rewrite (tdget_cong k t eb E). symmetry. apply H. left. reflexivity.
  - reflexivity.
Qed.

Lemma new_marker_pairs_agree : forall a b t l,
  In (t, l) (new_marker_pairs a b) -> tget t (epidata b) = Some l.
Proof.
  intros a b t l. unfold new_marker_pairs. rewrite in_flat_map. intros [x [_ H]].
  destruct (is_new a x); [|contradiction].
  destruct (tget x (epidata b)) eqn:G; [|contradiction].
  destruct H as [H|[]]. inversion H; subst. exact G.
Qed.

Lemma or_epidata : forall a b,
  epidata (g_or a b) = dupdate triple_eqb (epidata a) (new_marker_pairs a b ++ epidata b) /\
  epidata (g_ior a b) = epidata (g_or a b) /\
  dkeys (epidata (g_or a b)) =
    dkeys (epidata a) ++ uniq_from triple_eqb (dkeys (epidata a)) (new_marker_keys a b ++ dkeys (epidata b)) /\
  (dict_wf triple_eqb (epidata b) ->
   forall t, tget t (epidata (g_or a b)) =
             match tget t (epidata b) with Some l => Some l | None => tget t (epidata a) end).
Proof.
  intros a b.
  assert (E : epidata (g_or a b) = dupdate triple_eqb (epidata a) (new_marker_pairs a b ++ epidata b)).
  { change (epidata (g_or a b)) with (ior_epidata (with_meta a []) b).
    rewrite ior_epidata_dupdate. reflexivity. }
  split; [exact E|]. split; [reflexivity|]. split.
  - rewrite E, (dkeys_dupdate triple_eqb), map_app, new_marker_pairs_keys. reflexivity.
  - intros W t. rewrite E, dupdate_app.
    rewrite (dget_dupdate triple_eqb triple_eqb_sym triple_eqb_trans _ _ _ W).
    destruct (tget t (epidata b)) as [l|] eqn:G; [reflexivity|].
    rewrite (dget_dupdate_agree (epidata b)); [|apply new_marker_pairs_agree].
    rewrite (new_marker_pairs_get a b t G). reflexivity.
Qed.

(* ---- difference *)
Lemma isub_epidata_filter : forall order ed, dict_wf triple_eqb ed ->
  isub_epidata order ed = filter (fun kv => negb (tmem (fst kv) order)) ed.
Proof.
  unfold isub_epidata. induction order as [|t order IH]; intros ed W; simpl.
  - symmetry. apply filter_all. intros; reflexivity.
  - rewrite (del_if_present triple_eqb triple_eqb_sym triple_eqb_trans t ed W).
    rewrite IH; [|apply (wf_filter triple_eqb); exact W].
    rewrite filter_filter. apply filter_ext'. intros [k v]. simpl.
    unfold tmem. simpl. rewrite (triple_eqb_sym k t).
    destruct (triple_eqb t k); reflexivity.
Qed.

Lemma possible_variables_occurs : forall v ts, mem atom_eqb v (possible_variables ts) = occurs v ts.
Proof.
  intros v ts. unfold possible_variables, occurs, mem.
  induction ts as [|t ts IH]; simpl; [reflexivity|]. rewrite IH.
  rewrite orb_assoc. reflexivity.
Qed.

Lemma sub_spec : forall a b,
  triples (g_sub a b) = filter (fun t => negb (tmem t (triples b))) (triples a) /\
  Sublist (triples (g_sub a b)) (triples a) /\
  gmeta (g_sub a b) = [] /\
  gtop (g_sub a b) = match gtop a with
                     | Some v => if occurs v (triples (g_sub a b)) then Some v else None
                     | None => None
                     end /\
  (dict_wf triple_eqb (epidata a) ->
   epidata (g_sub a b) = filter (fun kv => negb (tmem (fst kv) (triples b))) (epidata a)).
Proof.
  intros a b. split; [reflexivity|]. split; [apply filter_Sublist|]. split; [reflexivity|]. split.
  - unfold g_sub, g_isub, g_isub_ord. cbn [gtop triples with_meta].
    destruct (gtop a) as [v|]; [|reflexivity]. rewrite possible_variables_occurs. reflexivity.
  - intro W. unfold g_sub, g_isub, g_isub_ord. cbn [epidata with_meta].
    rewrite (isub_epidata_filter _ _ W). apply filter_ext'. intros [k v]. simpl.
    unfold tmem. rewrite (mem_dedup triple_eqb triple_eqb_sym triple_eqb_trans). reflexivity.
Qed.

Lemma isub_order_irrelevant : forall order a b, dict_wf triple_eqb (epidata a) ->
  (forall t, tmem t order = tmem t (triples b)) -> g_isub_ord order a b = g_isub a b.
Proof.
  intros order a b W H. unfold g_isub, g_isub_ord. f_equal.
  rewrite !(isub_epidata_filter _ _ W). apply filter_ext'. intros [k v]. simpl.
  rewrite H. unfold tmem. rewrite (mem_dedup triple_eqb triple_eqb_sym triple_eqb_trans). reflexivity.
Qed.

Lemma inplace_same : forall a b,
  (triples (g_ior a b) = triples (g_or a b) /\ epidata (g_ior a b) = epidata (g_or a b) /\
   gtop (g_ior a b) = gtop (g_or a b) /\ gtop (g_or a b) = gtop a /\
   gmeta (g_ior a b) = gmeta a /\ gmeta (g_or a b) = []) /\
  (triples (g_isub a b) = triples (g_sub a b) /\ epidata (g_isub a b) = epidata (g_sub a b) /\
   gtop (g_isub a b) = gtop (g_sub a b) /\
   gmeta (g_isub a b) = gmeta a /\ gmeta (g_sub a b) = []).
Proof. intros a b. repeat split; reflexivity. Qed.

Lemma epidata_wf_preserved : forall a b, dict_wf triple_eqb (epidata a) ->
  dict_wf triple_eqb (epidata (g_ior a b)) /\ dict_wf triple_eqb (epidata (g_or a b)) /\
  dict_wf triple_eqb (epidata (g_isub a b)) /\ dict_wf triple_eqb (epidata (g_sub a b)).
Proof.
  intros a b W.
  assert (U : dict_wf triple_eqb (epidata (g_or a b))).
  { destruct (or_epidata a b) as [E _]. rewrite E. apply (wf_dupdate triple_eqb triple_eqb_sym). exact W. }
  assert (S : dict_wf triple_eqb (epidata (g_sub a b))).
  { destruct (sub_spec a b) as [_ [_ [_ [_ E]]]]. rewrite (E W). apply (wf_filter triple_eqb). exact W. }
  split; [exact U|]. split; [exact U|]. split; exact S.
Qed.

(* ---- membership characterisations and set algebra *)
Lemma mem_or : forall a b t,
  tmem t (triples (g_or a b)) = tmem t (triples a) || tmem t (triples b).
Proof.
  intros a b t. rewrite or_triples, tmem_app, tmem_filter; [|intros u v H; apply notin_cong; exact H].
  destruct (tmem t (triples a)), (tmem t (triples b)); reflexivity.
Qed.
Lemma mem_sub : forall a b t,
  tmem t (triples (g_sub a b)) = tmem t (triples a) && negb (tmem t (triples b)).
Proof.
  intros a b t. destruct (sub_spec a b) as [E _]. rewrite E.
  apply tmem_filter. intros u v H. apply notin_cong. exact H.
Qed.

Lemma or_idem : forall a,
  triples (g_or a a) = triples a /\ gtop (g_or a a) = gtop a /\ graph_eq_py (g_or a a) a = true.
Proof.
  intro a.
  assert (T : triples (g_or a a) = triples a).
  { rewrite or_triples. rewrite filter_none; [apply app_nil_r|].
    intros x Hx. rewrite (tmem_In x _ Hx). reflexivity. }
  split; [exact T|]. split; [reflexivity|].
  unfold graph_eq_py, top_value, graph_top. rewrite T. cbn [gtop g_or g_ior with_meta].
  rewrite atom_eqb_refl, Nat.eqb_refl. simpl.
  assert (R : subset_b (triples a) (triples a) = true).
  { unfold subset_b. apply forallb_forall. intros x Hx. apply tmem_In. exact Hx. }
  rewrite R. reflexivity.
Qed.

Lemma or_sub_subset : forall a b,
  triples (g_sub (g_or a b) b) = triples (g_sub a b) /\
  set_sub (triples (g_sub (g_or a b) b)) (triples a).
Proof.
  intros a b.
  assert (L : triples (g_sub (g_or a b) b) = triples (g_sub a b)).
  { destruct (sub_spec (g_or a b) b) as [E _]. rewrite E.
    destruct (sub_spec a b) as [E' _]. rewrite E'.
    rewrite or_triples, filter_app, filter_filter.
    rewrite (filter_none _ (triples b)); [apply app_nil_r|].
    intros x Hx. rewrite (tmem_In x _ Hx). apply andb_false_r. }
  split; [exact L|].
  intros t H. rewrite L, mem_sub in H. apply andb_true_iff in H. apply H.
Qed.

Lemma sub_or_superset : forall a b, set_sub (triples a) (triples (g_or (g_sub a b) b)).
Proof.
  intros a b t H. rewrite mem_or, mem_sub, H.
  destruct (tmem t (triples b)); reflexivity.
Qed.

Lemma sub_self_empty : forall a, triples (g_sub a a) = [] /\ gtop (g_sub a a) = None.
Proof.
  intro a.
  assert (T : triples (g_sub a a) = []).
  { destruct (sub_spec a a) as [E _]. rewrite E. apply filter_none.
    intros x Hx. rewrite (tmem_In x _ Hx). reflexivity. }
  split; [exact T|].
  destruct (sub_spec a a) as [_ [_ [_ [G _]]]]. rewrite G, T. destruct (gtop a); reflexivity.
Qed.

Lemma or_assoc : forall a b c,
  triples (g_or (g_or a b) c) = triples (g_or a (g_or b c)) /\
  set_eq (triples (g_or (g_or a b) c)) (triples (g_or a (g_or b c))).
Proof.
  intros a b c.
  assert (L : triples (g_or (g_or a b) c) = triples (g_or a (g_or b c))).
  { rewrite (or_triples (g_or a b) c), (or_triples a (g_or b c)), (or_triples a b), (or_triples b c).
    rewrite filter_app, filter_filter, <- app_assoc. f_equal. f_equal.
    apply filter_ext'. intro x. rewrite tmem_app.
    rewrite tmem_filter; [|intros u v H; apply notin_cong; exact H].
    destruct (tmem x (triples a)), (tmem x (triples b)); reflexivity. }
  split; [exact L|]. intro t. rewrite L. reflexivity.
Qed.

Lemma or_comm_set : forall a b, set_eq (triples (g_or a b)) (triples (g_or b a)).
Proof. intros a b t. rewrite !mem_or. apply orb_comm. Qed.

Lemma apply_op_mem : forall g o t,
  tmem t (triples (apply_op g o)) = eval_op t (tmem t (triples g)) o.
Proof.
  intros g o t. destruct o as [b|b|b|b]; cbn [apply_op eval_op].
  - apply mem_or.
  - rewrite ior_triples. apply mem_or.
  - apply mem_sub.
  - change (triples (g_isub g b)) with (triples (g_sub g b)). apply mem_sub.
Qed.

Lemma sequences : forall ops g t,
  tmem t (triples (run_ops g ops)) = eval_ops t (tmem t (triples g)) ops.
Proof.
  unfold run_ops, eval_ops. induction ops as [|o ops IH]; intros g t; simpl; [reflexivity|].
  rewrite IH, apply_op_mem. reflexivity.
Qed.

Lemma eq_refl_py : forall a, graph_eq_py a a = true.
Proof.
  intro a. unfold graph_eq_py. rewrite atom_eqb_refl, Nat.eqb_refl. simpl.
  assert (R : subset_b (triples a) (triples a) = true).
  { unfold subset_b. apply forallb_forall. intros x Hx. apply tmem_In. exact Hx. }
  rewrite R. reflexivity.
Qed.

(* ------------------------------------------------------------------ *)
(** * Part 6: concrete instances (the statements are not vacuous) *)

Module Ex.
  Definition va := AStr [97%N].   Definition vb := AStr [98%N].
  Definition vx := AStr [120%N].  Definition vz := AStr [122%N].
  Definition R : str := [58; 82]%N.
  Definition t_inst : triple := (va, INSTANCE, vb).     (* concept spelled like the variable b *)
  Definition t_ab : triple := (va, R, vb).
  Definition t_ba : triple := (vb, R, va).
  Definition t_ax : triple := (va, R, vx).
  Definition t_bx : triple := (vb, R, vx).
  Definition t_an : triple := (va, R, ANone).
  (* duplicates, concept = variable, None target, implicit top *)
  Definition g1 := mkGraph [t_inst; t_ab; t_ba; t_ax; t_ab; t_an] None [] [].
  (* left and right operands with markers and metadata *)
  Definition ga := mkGraph [t_inst] (Some va) [(t_inst, [Push va])] [([105; 100]%N, [49%N])].
  Definition gb := mkGraph [t_ab; t_inst; t_ab; t_ax] None [(t_ax, [Pop]); (t_inst, []); (t_ab, [Pop; Pop])] [].
  (* top b occurs only as a source / only as a target *)
  Definition gs := mkGraph [t_bx; t_ax] (Some vb) [(t_bx, [Pop]); (t_ax, [])] [([105; 100]%N, [49%N])].
  Definition gt := mkGraph [t_ab; t_bx] (Some vb) [] [].
  Definition rm := mkGraph [t_bx] None [] [].
End Ex.

Lemma examples :
  instances Ex.g1 = [Ex.t_inst] /\
  edges Ex.g1 None None None = [Ex.t_ab; Ex.t_ba; Ex.t_ab] /\
  attributes Ex.g1 None None None = [Ex.t_ax; Ex.t_an] /\
  edges Ex.g1 (Some Ex.va) None (Some Ex.vb) = [Ex.t_ab; Ex.t_ab] /\
  graph_top Ex.g1 = Some Ex.va /\
  reentrancies Ex.g1 = [(Ex.va, 1%N); (Ex.vb, 1%N)] /\
  set_top Ex.g1 Ex.vz = GraphErr /\
  set_top Ex.g1 Ex.vb = Ok (with_top Ex.g1 (Some Ex.vb)) /\
  dict_wf triple_eqb (epidata Ex.ga) /\ dict_wf triple_eqb (epidata Ex.gb) /\
  g_or Ex.ga Ex.gb =
    mkGraph [Ex.t_inst; Ex.t_ab; Ex.t_ab; Ex.t_ax] (Some Ex.va)
            [(Ex.t_inst, []); (Ex.t_ab, [Pop; Pop]); (Ex.t_ax, [Pop])] [] /\
  gmeta (g_ior Ex.ga Ex.gb) = gmeta Ex.ga /\
  g_sub Ex.gs Ex.rm = mkGraph [Ex.t_ax] None [(Ex.t_ax, [])] [] /\
  g_sub Ex.gt Ex.rm = mkGraph [Ex.t_ab] (Some Ex.vb) [] [] /\
  run_ops Ex.ga [OpIor Ex.gb; OpSub Ex.rm; OpIsub Ex.ga; OpOr Ex.gt] =
    mkGraph [Ex.t_ab; Ex.t_ab; Ex.t_ax; Ex.t_bx] (Some Ex.va) [(Ex.t_ab, [Pop; Pop]); (Ex.t_ax, [Pop])] [] /\
  graph_eq_py Ex.ga Ex.gb = false.
Proof.
  repeat match goal with
         | |- dict_wf _ _ /\ _ => split; [repeat constructor|]
         | |- _ /\ _ => split; [vm_compute; reflexivity|]
         end.
  vm_compute. reflexivity.
Qed.
