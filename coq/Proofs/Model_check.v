(** Verified boolean checkers over model tables: [of_free_check] (sound for
    [of_free]); [norm_closed_b] (Spec/RoleAlgebra.v) is already computable. *)
From PM Require Import Spec.RoleAlgebra Proofs.Model_lemmas.
From Coq Require Import Lia.

(* ------------------------------------------------------------------ *)
(** * Facts about [match_pat] *)

Lemma match_lit : forall x s, match_pat (lit x) s = str_eqb x s.
Proof.
  induction x as [|c x IH]; intros [|d s]; simpl; try reflexivity.
  rewrite IH. reflexivity.
Qed.

Lemma match_lit_eq : forall x s, match_pat (lit x) s = true <-> s = x.
Proof.
  intros x s. rewrite match_lit, str_eqb_eq. split; intro E; symmetry; exact E.
Qed.

(* the [+] loop of [match_pat] as a top-level function *)
Fixpoint plus_match (lo hi : N) (p' : rpat) (s : str) : bool :=
  match s with
  | d :: s' => in_range lo hi d && (match_pat p' s' || plus_match lo hi p' s')
  | [] => false
  end.

Lemma match_plus : forall lo hi p' s,
  match_pat (PRangePlus lo hi :: p') s = plus_match lo hi p' s.
Proof. intros lo hi p' s. induction s as [|d s IH]; simpl; [reflexivity|]. rewrite <- IH. reflexivity. Qed.

(* does character [d] satisfy pattern item [i]? *)
Definition item_ok (i : pitem) (d : N) : bool :=
  match i with
  | PChar c => eqc c d
  | PRange lo hi => in_range lo hi d
  | PRangePlus lo hi => in_range lo hi d
  end.

Fixpoint last_item (q : rpat) : option pitem :=
  match q with
  | [] => None
  | i :: q' => match q' with [] => Some i | _ :: _ => last_item q' end
  end.

Definition ends_ok (i : pitem) (s : str) : Prop :=
  exists s' d, s = s' ++ [d] /\ item_ok i d = true.

Lemma ends_ok_cons : forall i d s, ends_ok i s -> ends_ok i (d :: s).
Proof.
  intros i d s [s' [e [E K]]]. exists (d :: s'), e. split; [subst; reflexivity|exact K].
Qed.

Lemma match_nil : forall s, match_pat [] s = true -> s = [].
Proof. intros [|d s] E; [reflexivity|discriminate]. Qed.

Lemma plus_last_nil : forall lo hi s,
  plus_match lo hi [] s = true -> ends_ok (PRangePlus lo hi) s.
Proof.
  intros lo hi. induction s as [|d s IH]; simpl; intros E; [discriminate|].
  apply andb_true_iff in E. destruct E as [R E]. apply orb_true_iff in E.
  destruct E as [E|E].
  - apply match_nil in E. subst s. exists [], d. split; [reflexivity|exact R].
  - apply ends_ok_cons. apply IH. exact E.
Qed.

Lemma plus_last_cons : forall i lo hi p' s,
  (forall s0, match_pat p' s0 = true -> ends_ok i s0) ->
  plus_match lo hi p' s = true -> ends_ok i s.
Proof.
  intros i lo hi p' s HP. induction s as [|d s IH]; simpl; intros E; [discriminate|].
  apply andb_true_iff in E. destruct E as [_ E]. apply orb_true_iff in E.
  apply ends_ok_cons. destruct E as [E|E]; [apply HP; exact E|apply IH; exact E].
Qed.

(* a matched string ends with a character satisfying the pattern's last item *)
Lemma match_last : forall q i s,
  last_item q = Some i -> match_pat q s = true -> ends_ok i s.
Proof.
  induction q as [|i0 q IH]; intros i s L M; [discriminate|].
  destruct q as [|i1 q].
  - (* single item *)
    simpl in L. inversion L; subst i0. clear L.
    destruct i as [c|lo hi|lo hi].
    + destruct s as [|d s]; simpl in M; [discriminate|].
      apply andb_true_iff in M. destruct M as [M1 M2]. apply match_nil in M2. subst s.
      exists [], d. split; [reflexivity|exact M1].
    + destruct s as [|d s]; simpl in M; [discriminate|].
      apply andb_true_iff in M. destruct M as [M1 M2]. apply match_nil in M2. subst s.
      exists [], d. split; [reflexivity|exact M1].
    + rewrite match_plus in M. apply plus_last_nil. exact M.
  - change (last_item (i0 :: i1 :: q)) with (last_item (i1 :: q)) in L.
    destruct i0 as [c|lo hi|lo hi].
    + destruct s as [|d s]; [discriminate|].
      change (eqc c d && match_pat (i1 :: q) s = true) in M.
      apply andb_true_iff in M. destruct M as [_ M].
      apply ends_ok_cons. apply IH; assumption.
    + destruct s as [|d s]; [discriminate|].
      change (in_range lo hi d && match_pat (i1 :: q) s = true) in M.
      apply andb_true_iff in M. destruct M as [_ M].
      apply ends_ok_cons. apply IH; assumption.
    + rewrite match_plus in M. eapply plus_last_cons; [|exact M].
      intros s0 M0. apply IH; assumption.
Qed.

(* ------------------------------------------------------------------ *)
(** * The [of_free] checker *)

Definition CH_f : N := 102%N.   (* 'f', the last character of "-of" *)

Definition cannot_end (c : N) (q : rpat) : bool :=
  match last_item q with Some i => negb (item_ok i c) | None => false end.

Fixpoint as_lit (q : rpat) : option str :=
  match q with
  | [] => Some []
  | PChar c :: q' => match as_lit q' with Some x => Some (c :: x) | None => None end
  | _ => None
  end.

Lemma as_lit_sound : forall q x, as_lit q = Some x -> q = lit x.
Proof.
  induction q as [|i q IH]; intros x E; simpl in E.
  - inversion E. reflexivity.
  - destruct i as [c|lo hi|lo hi]; try discriminate.
    destruct (as_lit q) as [y|]; [|discriminate].
    inversion E. simpl. rewrite (IH y eq_refl). reflexivity.
Qed.

Definition all_pats (t : mtable) : list rpat :=
  t_roles t ++ [lit (t_top_role t); lit INSTANCE].

Definition pat_of_ok (pats : list rpat) (q : rpat) : bool :=
  cannot_end CH_f q ||
  match as_lit q with
  | Some x =>
      if endswith x OF
      then forallb (fun p => negb (match_pat p (drop_last 3 x))) pats
      else true
  | None => false
  end.

Definition of_free_check (t : mtable) : bool :=
  forallb (pat_of_ok (all_pats t)) (all_pats t).

Lemma cannot_end_f_sound : forall q s,
  cannot_end CH_f q = true -> match_pat q (s ++ OF) = false.
Proof.
  intros q s C. destruct (match_pat q (s ++ OF)) eqn:M; [|reflexivity]. exfalso.
  unfold cannot_end in C. destruct (last_item q) as [i|] eqn:L; [|discriminate].
  destruct (match_last q i _ L M) as [s' [d [E K]]].
  change (s ++ OF) with (s ++ [45; 111]%N ++ [CH_f]) in E.
  rewrite app_assoc in E. apply app_inj_tail in E. destruct E as [_ E]. subst d.
  rewrite K in C. discriminate.
Qed.

Lemma of_free_check_sound : forall t, of_free_check t = true -> of_free (model_of_table t).
Proof.
  intros t C r Hr.
  destruct (has_exact (model_of_table t) (r ++ OF)) eqn:Hx; [|reflexivity]. exfalso.
  change (existsb (fun p => match_pat p r) (all_pats t) = true) in Hr.
  change (existsb (fun p => match_pat p (r ++ OF)) (all_pats t) = true) in Hx.
  apply existsb_exists in Hx. destruct Hx as [q [Qin Qm]].
  apply existsb_exists in Hr. destruct Hr as [p [Pin Pm]].
  unfold of_free_check in C. rewrite forallb_forall in C. specialize (C q Qin).
  unfold pat_of_ok in C. apply orb_true_iff in C. destruct C as [C|C].
  - rewrite (cannot_end_f_sound q r C) in Qm. discriminate.
  - destruct (as_lit q) as [x|] eqn:L; [|discriminate].
    apply as_lit_sound in L. subst q. apply match_lit_eq in Qm. subst x.
    rewrite endswith_app, drop_last_OF in C.
    rewrite forallb_forall in C. specialize (C p Pin). rewrite Pm in C. discriminate.
Qed.

(* ------------------------------------------------------------------ *)
(** * Tests *)

Example of_free_check_default : of_free_check default_table = true.
Proof. vm_compute. reflexivity. Qed.

Example norm_closed_default : norm_closed_b default_model = true.
Proof. vm_compute. reflexivity. Qed.

(* the extra hypothesis of C13_canon_idem / C13_canon_tree_idem *)
Example slash_of_undefined_default : has_exact default_model (SLASHS ++ OF) = false.
Proof. vm_compute. reflexivity. Qed.

Corollary of_free_default : of_free default_model.
Proof. apply of_free_check_sound. vm_compute. reflexivity. Qed.

Corollary of_free_noop : of_free noop_model.
Proof. apply of_free_check_sound. vm_compute. reflexivity. Qed.

(* roles  ":consist-of"  ":mod"  ":op[0-9]+" *)
Definition test_table : mtable :=
  mkTable [ lit [58;99;111;110;115;105;115;116;45;111;102]%N;
            lit [58;109;111;100]%N;
            [PChar 58; PChar 111; PChar 112; PRangePlus 48 57]%N ]
          true [] [] TOPROLE TOPVAR.

Example of_free_check_test : of_free_check test_table = true.
Proof. vm_compute. reflexivity. Qed.

Example norm_closed_test : norm_closed_b (model_of_table test_table) = true.
Proof. vm_compute. reflexivity. Qed.

(* tests/test_model.py: ":consist" canonicalises to ":consist-of-of" *)
Example consist_of_of :
  canonicalize_role (model_of_table test_table) [58;99;111;110;115;105;115;116]%N
  = Some [58;99;111;110;115;105;115;116;45;111;102;45;111;102]%N.
Proof. vm_compute. reflexivity. Qed.

(* fail-closed: a table closed under appending "-of" is rejected *)
Example of_free_check_rejects :
  of_free_check (mkTable [[PChar 58; PRangePlus 45 122]%N] true [] [] TOPROLE TOPVAR) = false.
Proof. vm_compute. reflexivity. Qed.

(* the model refuting the original C13_canon_idem statement is of_free, so
   [of_free] could not have replaced the added hypothesis *)
Example of_free_slash_of : of_free (model_of_table slash_of_table).
Proof. apply of_free_check_sound. vm_compute. reflexivity. Qed.
