(** Lemmas about Impl.Parse for C07: fuel sufficiency and cleanliness (only Ok or
    DecodeErr), soundness and completeness w.r.t. Spec.Grammar, simulation by the
    pushdown recogniser, error positions. *)
From Coq Require Import Lia Arith.
From PM Require Import Impl.Parse Spec.Grammar.

(* ------------------------------------------------------------------------ *)
(** * Outcome plumbing *)

Definition good {A} (o : outcome A) : Prop :=
  match o with Ok _ => True | DecodeErr _ _ => True | _ => False end.

Lemma bind_ok : forall A B (x : outcome A) (f : A -> outcome B) b,
  bind x f = Ok b -> exists a, x = Ok a /\ f a = Ok b.
Proof. intros A B x f b H. destruct x; simpl in H; try discriminate. eauto. Qed.

Lemma bind_good : forall A B (x : outcome A) (f : A -> outcome B),
  good x -> (forall a, x = Ok a -> good (f a)) -> good (bind x f).
Proof. intros A B x f Hx Hf. destruct x; simpl in *; auto. Qed.

Lemma good_err_end : forall A it, good (@err_end A it).
Proof. intros A it. unfold err_end. destruct (it_last it); exact I. Qed.
Lemma good_err_at : forall A t, good (@err_at A t).
Proof. intros; exact I. Qed.

(* ------------------------------------------------------------------------ *)
(** * Iterator primitives *)

Lemma peek_cons : forall t r l, peek (mkIter (t :: r) l) = Ok t.
Proof. reflexivity. Qed.
Lemma peek_nil : forall l, peek (mkIter [] l) = err_end (mkIter [] l).
Proof. reflexivity. Qed.
Lemma next_cons : forall t r l, next (mkIter (t :: r) l) = Ok (t, mkIter r (Some t)).
Proof. reflexivity. Qed.

Lemma peek_ok : forall it t, peek it = Ok t -> exists r, it_rest it = t :: r.
Proof.
  intros [ts l] t H. unfold peek in H. simpl in *. destruct ts as [|x r].
  - unfold err_end in H. simpl in H. destruct l; discriminate.
  - inversion H; subst. eauto.
Qed.

Lemma good_peek : forall it, good (peek it).
Proof. intros [ts l]. unfold peek. simpl. destruct ts; [apply good_err_end | exact I]. Qed.

Lemma expect_ok : forall it cs t it',
  expect it cs = Ok (t, it') ->
  it_rest it = t :: it_rest it' /\ ty_in (tty t) cs = true /\ it_last it' = Some t.
Proof.
  intros [ts l] cs t it' H. unfold expect in H. simpl in *. destruct ts as [|x r].
  - unfold err_end in H. simpl in H. destruct l; discriminate.
  - destruct (ty_in (tty x) cs) eqn:E; [|discriminate].
    inversion H; subst. simpl. auto.
Qed.

Lemma good_expect : forall it cs, good (expect it cs).
Proof.
  intros [ts l] cs. unfold expect. simpl. destruct ts as [|x r]; [apply good_err_end|].
  destruct (ty_in (tty x) cs); exact I.
Qed.

Lemma tokty_eqb_eq : forall a b, tokty_eqb a b = true <-> a = b.
Proof. intros a b. destruct a, b; simpl; split; intro H; try reflexivity; try discriminate. Qed.
Lemma tokty_eqb_refl : forall a, tokty_eqb a a = true.
Proof. destruct a; reflexivity. Qed.

Lemma ty_in_1 : forall k c, ty_in k [c] = true <-> k = c.
Proof.
  intros k c. unfold ty_in. simpl. rewrite orb_false_r. apply tokty_eqb_eq.
Qed.

(* ------------------------------------------------------------------------ *)
(** * parse_node with its inner loop named *)

Definition label_after (t : token) (it : titer) : outcome (list branch * titer) :=
  if tokty_eqb (tty t) SLASH then
    '(_, it) <- next it ;;
    t2 <- peek it ;;
    if ty_in (tty t2) [SYMBOL; STRING] then
      '(c, it) <- next it ;;
      '(concept, it) <- glue_alignment (ttext c) it ;;
      Ok ([(SLASHS, TAtom (AStr concept))], it)
    else Ok ([(SLASHS, TAtom ANone)], it)
  else Ok ([], it).

Definition edges_loop (pn : titer -> outcome (node * titer)) (v : token)
  : nat -> list branch -> titer -> outcome (node * titer) :=
  fix edges (g : nat) (acc : list branch) (it : titer) {struct g} : outcome (node * titer) :=
    match g with
    | O => OutOfFuel
    | S g' =>
        t <- peek it ;;
        if tokty_eqb (tty t) RPAREN then
          '(_, it) <- expect it [RPAREN] ;; Ok (Node (AStr (ttext v)) (rev acc), it)
        else
          '(rt, it) <- expect it [ROLE] ;;
          '(role, it) <- glue_alignment (ttext rt) it ;;
          nx <- peek it ;;
          if ty_in (tty nx) [SYMBOL; STRING] then
            '(tg, it) <- next it ;;
            '(target, it) <- glue_alignment (ttext tg) it ;;
            edges g' ((role, TAtom (AStr target)) :: acc) it
          else if tokty_eqb (tty nx) LPAREN then
            '(n, it) <- pn it ;;
            edges g' ((role, TNode n) :: acc) it
          else if ty_in (tty nx) [ROLE; RPAREN] then
            edges g' ((role, TAtom ANone) :: acc) it
          else err_at nx
    end.

Lemma parse_node_S : forall f' it,
  parse_node (S f') it =
    ('(_, it) <- expect it [LPAREN] ;;
     t <- peek it ;;
     if tokty_eqb (tty t) RPAREN then
       '(_, it) <- expect it [RPAREN] ;; Ok (Node ANone [], it)
     else
       '(v, it) <- expect it [SYMBOL] ;;
       t <- peek it ;;
       '(edges0, it) <- label_after t it ;;
       edges_loop (parse_node f') v (S (length (it_rest it))) (rev edges0) it).
Proof. reflexivity. Qed.

Lemma edges_loop_S : forall pn v g' acc it,
  edges_loop pn v (S g') acc it =
    (t <- peek it ;;
     if tokty_eqb (tty t) RPAREN then
       '(_, it) <- expect it [RPAREN] ;; Ok (Node (AStr (ttext v)) (rev acc), it)
     else
       '(rt, it) <- expect it [ROLE] ;;
       '(role, it) <- glue_alignment (ttext rt) it ;;
       nx <- peek it ;;
       if ty_in (tty nx) [SYMBOL; STRING] then
         '(tg, it) <- next it ;;
         '(target, it) <- glue_alignment (ttext tg) it ;;
         edges_loop pn v g' ((role, TAtom (AStr target)) :: acc) it
       else if tokty_eqb (tty nx) LPAREN then
         '(n, it) <- pn it ;;
         edges_loop pn v g' ((role, TNode n) :: acc) it
       else if ty_in (tty nx) [ROLE; RPAREN] then
         edges_loop pn v g' ((role, TAtom ANone) :: acc) it
       else err_at nx).
Proof. reflexivity. Qed.

(* ------------------------------------------------------------------------ *)
(** * Computation rules on explicit token lists *)

Lemma glue_nil : forall txt l, glue_alignment txt (mkIter [] l) = err_end (mkIter [] l).
Proof. intros. unfold glue_alignment, peek, err_end. simpl. destruct l; reflexivity. Qed.
Lemma glue_cons : forall txt a r l,
  glue_alignment txt (mkIter (a :: r) l) =
    if tokty_eqb (tty a) ALIGNMENT then Ok (txt ++ ttext a, mkIter r (Some a))
    else Ok (txt, mkIter (a :: r) l).
Proof.
  intros. unfold glue_alignment. rewrite peek_cons. simpl.
  destruct (tokty_eqb (tty a) ALIGNMENT); reflexivity.
Qed.

Lemma expect_cons : forall t r l cs,
  expect (mkIter (t :: r) l) cs =
    if ty_in (tty t) cs then Ok (t, mkIter r (Some t)) else err_at t.
Proof. reflexivity. Qed.
Lemma expect_nil : forall l cs, expect (mkIter [] l) cs = err_end (mkIter [] l).
Proof. reflexivity. Qed.

Fixpoint last_opt (l : list token) : option token :=
  match l with
  | [] => None
  | [x] => Some x
  | _ :: r => last_opt r
  end.
Lemma last_opt_snoc : forall l x, last_opt (l ++ [x]) = Some x.
Proof.
  induction l as [|a l IH]; intro x; simpl; [reflexivity|].
  rewrite IH. destruct (l ++ [x]) eqn:E; [destruct l; discriminate | reflexivity].
Qed.
Lemma last_opt_cons_snoc : forall a l x, last_opt (a :: l ++ [x]) = Some x.
Proof. intros. change (a :: l ++ [x]) with ((a :: l) ++ [x]). apply last_opt_snoc. Qed.

(* every derivable node ends with its RPAREN *)
Lemma derives_node_ends : forall pre n, derives_node pre n ->
  exists p r, pre = p ++ [r] /\ tty r = RPAREN.
Proof.
  intros pre n H. inversion H; subst.
  - exists [l], r. auto.
  - exists (l :: v :: lab ++ es), r. split; [|assumption].
    simpl. rewrite app_assoc. reflexivity.
Qed.
Lemma derives_node_starts : forall pre n, derives_node pre n ->
  exists l p, pre = l :: p /\ tty l = LPAREN.
Proof. intros pre n H. inversion H; subst; eauto. Qed.

Ltac tyc H := (* decide a token-type test from a hypothesis tty t = K *)
  rewrite H; simpl.

(* ------------------------------------------------------------------------ *)
(** * Soundness: what the parser accepts is derivable *)

Definition node_sound (pn : titer -> outcome (node * titer)) : Prop :=
  forall it n it', pn it = Ok (n, it') ->
    exists p r, it_rest it = (p ++ [r]) ++ it_rest it' /\ derives_node (p ++ [r]) n /\
                it_last it' = Some r.

Lemma edges_sound : forall pn v, node_sound pn ->
  forall g acc ts l n it',
    edges_loop pn v g acc (mkIter ts l) = Ok (n, it') ->
    exists es eb r, ts = es ++ r :: it_rest it' /\ derives_edges es eb /\ tty r = RPAREN /\
                    n = Node (AStr (ttext v)) (rev acc ++ eb) /\ it_last it' = Some r.
Proof.
  intros pn v Hpn. induction g as [|g IH]; intros acc ts l n it' H; [discriminate|].
  rewrite edges_loop_S in H.
  destruct ts as [|t ts].
  { rewrite peek_nil in H. unfold err_end in H. simpl in H. destruct l; discriminate. }
  rewrite peek_cons in H. cbn [bind] in H.
  destruct (tokty_eqb (tty t) RPAREN) eqn:Erp.
  { apply tokty_eqb_eq in Erp. rewrite expect_cons in H.
    replace (ty_in (tty t) [RPAREN]) with true in H by (symmetry; apply ty_in_1; exact Erp).
    simpl in H. inversion H; subst. simpl.
    exists [], [], t. rewrite app_nil_r. repeat split; auto. constructor. }
  rewrite expect_cons in H.
  destruct (ty_in (tty t) [ROLE]) eqn:Erole; [|discriminate].
  apply ty_in_1 in Erole. cbn [bind] in H.
  (* role alignment *)
  destruct ts as [|a ts].
  { rewrite glue_nil in H. discriminate. }
  rewrite glue_cons in H.
  destruct (tokty_eqb (tty a) ALIGNMENT) eqn:Eal.
  - apply tokty_eqb_eq in Eal. cbn [bind] in H.
    assert (Hr : derives_role [t; a] (ttext t ++ ttext a)) by (constructor; assumption).
    destruct ts as [|nx ts].
    { rewrite peek_nil in H. discriminate. }
    rewrite peek_cons in H. cbn [bind] in H.
    destruct (ty_in (tty nx) [SYMBOL; STRING]) eqn:Eat.
    + (* atomic target *)
      rewrite next_cons in H. cbn [bind] in H.
      assert (Hat : is_atom_ty (tty nx) = true) by (destruct (tty nx); simpl in *; congruence).
      destruct ts as [|b ts]; [rewrite glue_nil in H; discriminate|].
      rewrite glue_cons in H.
      destruct (tokty_eqb (tty b) ALIGNMENT) eqn:Eb.
      * apply tokty_eqb_eq in Eb. cbn [bind] in H.
        apply IH in H. destruct H as (es & eb & r & Hts & Hes & Hr' & Hn & Hl).
        exists ([t; a] ++ [nx; b] ++ es), ((ttext t ++ ttext a, TAtom (AStr (ttext nx ++ ttext b))) :: eb), r.
        repeat split; auto.
        -- simpl. rewrite Hts. reflexivity.
        -- apply DE_atom; auto. constructor; assumption.
        -- rewrite Hn. simpl. rewrite <- app_assoc. reflexivity.
      * cbn [bind] in H.
        apply IH in H. destruct H as (es & eb & r & Hts & Hes & Hr' & Hn & Hl).
        exists ([t; a] ++ [nx] ++ es), ((ttext t ++ ttext a, TAtom (AStr (ttext nx))) :: eb), r.
        repeat split; auto.
        -- simpl. rewrite Hts. reflexivity.
        -- apply DE_atom; auto. constructor; assumption.
        -- rewrite Hn. simpl. rewrite <- app_assoc. reflexivity.
    + destruct (tokty_eqb (tty nx) LPAREN) eqn:Elp.
      * (* nested node *)
        destruct (pn (mkIter (nx :: ts) (Some a))) as [[n1 it1]| | | | | | | |] eqn:Epn; try discriminate.
        cbn [bind] in H.
        apply Hpn in Epn. destruct Epn as (p & r1 & Hrest & Hd & Hl1). simpl in Hrest.
        destruct it1 as [ts1 l1]. simpl in *.
        apply IH in H. destruct H as (es & eb & r & Hts & Hes & Hr' & Hn & Hl).
        exists ([t; a] ++ (p ++ [r1]) ++ es), ((ttext t ++ ttext a, TNode n1) :: eb), r.
        repeat split; auto.
        -- simpl. rewrite Hrest. rewrite Hts. rewrite <- !app_assoc. reflexivity.
        -- apply DE_node; auto.
        -- rewrite Hn. simpl. rewrite <- app_assoc. reflexivity.
      * destruct (ty_in (tty nx) [ROLE; RPAREN]) eqn:Err; [|discriminate].
        apply IH in H. destruct H as (es & eb & r & Hts & Hes & Hr' & Hn & Hl).
        exists ([t; a] ++ es), ((ttext t ++ ttext a, TAtom ANone) :: eb), r.
        repeat split; auto.
        -- simpl. rewrite Hts. reflexivity.
        -- apply DE_missing; auto.
        -- rewrite Hn. simpl. rewrite <- app_assoc. reflexivity.
  - cbn [bind] in H.
    assert (Hr : derives_role [t] (ttext t)) by (constructor; assumption).
    rewrite peek_cons in H. cbn [bind] in H.
    destruct (ty_in (tty a) [SYMBOL; STRING]) eqn:Eat.
    + rewrite next_cons in H. cbn [bind] in H.
      assert (Hat : is_atom_ty (tty a) = true) by (destruct (tty a); simpl in *; congruence).
      destruct ts as [|b ts]; [rewrite glue_nil in H; discriminate|].
      rewrite glue_cons in H.
      destruct (tokty_eqb (tty b) ALIGNMENT) eqn:Eb.
      * apply tokty_eqb_eq in Eb. cbn [bind] in H.
        apply IH in H. destruct H as (es & eb & r & Hts & Hes & Hr' & Hn & Hl).
        exists ([t] ++ [a; b] ++ es), ((ttext t, TAtom (AStr (ttext a ++ ttext b))) :: eb), r.
        repeat split; auto.
        -- simpl. rewrite Hts. reflexivity.
        -- apply DE_atom; auto. constructor; assumption.
        -- rewrite Hn. simpl. rewrite <- app_assoc. reflexivity.
      * cbn [bind] in H.
        apply IH in H. destruct H as (es & eb & r & Hts & Hes & Hr' & Hn & Hl).
        exists ([t] ++ [a] ++ es), ((ttext t, TAtom (AStr (ttext a))) :: eb), r.
        repeat split; auto.
        -- simpl. rewrite Hts. reflexivity.
        -- apply DE_atom; auto. constructor; assumption.
        -- rewrite Hn. simpl. rewrite <- app_assoc. reflexivity.
    + destruct (tokty_eqb (tty a) LPAREN) eqn:Elp.
      * destruct (pn (mkIter (a :: ts) (Some t))) as [[n1 it1]| | | | | | | |] eqn:Epn; try discriminate.
        cbn [bind] in H.
        apply Hpn in Epn. destruct Epn as (p & r1 & Hrest & Hd & Hl1). simpl in Hrest.
        destruct it1 as [ts1 l1]. simpl in *.
        apply IH in H. destruct H as (es & eb & r & Hts & Hes & Hr' & Hn & Hl).
        exists ([t] ++ (p ++ [r1]) ++ es), ((ttext t, TNode n1) :: eb), r.
        repeat split; auto.
        -- simpl. rewrite Hrest. rewrite Hts. rewrite <- !app_assoc. reflexivity.
        -- apply DE_node; auto.
        -- rewrite Hn. simpl. rewrite <- app_assoc. reflexivity.
      * destruct (ty_in (tty a) [ROLE; RPAREN]) eqn:Err; [|discriminate].
        apply IH in H. destruct H as (es & eb & r & Hts & Hes & Hr' & Hn & Hl).
        exists ([t] ++ es), ((ttext t, TAtom ANone) :: eb), r.
        repeat split; auto.
        -- simpl. rewrite Hts. reflexivity.
        -- apply DE_missing; auto.
        -- rewrite Hn. simpl. rewrite <- app_assoc. reflexivity.
Qed.

Lemma label_after_sound : forall t ts l lb it',
  label_after t (mkIter (t :: ts) l) = Ok (lb, it') ->
  exists lab, t :: ts = lab ++ it_rest it' /\ derives_label lab lb /\
              (lab = [] -> it' = mkIter (t :: ts) l) /\
              (lab <> [] -> it_last it' = last_opt lab).
Proof.
  intros t ts l lb it' H. unfold label_after in H.
  destruct (tokty_eqb (tty t) SLASH) eqn:Esl.
  2:{ inversion H; subst. exists []. repeat split; auto; try constructor. intro C; congruence. }
  apply tokty_eqb_eq in Esl. rewrite next_cons in H. cbn [bind] in H.
  destruct ts as [|c ts]; [rewrite peek_nil in H; discriminate|].
  rewrite peek_cons in H. cbn [bind] in H.
  destruct (ty_in (tty c) [SYMBOL; STRING]) eqn:Eat.
  - assert (Hat : is_atom_ty (tty c) = true) by (destruct (tty c); simpl in *; congruence).
    rewrite next_cons in H. cbn [bind] in H.
    destruct ts as [|b ts]; [rewrite glue_nil in H; discriminate|].
    rewrite glue_cons in H. destruct (tokty_eqb (tty b) ALIGNMENT) eqn:Eb.
    + apply tokty_eqb_eq in Eb. cbn [bind] in H. inversion H; subst.
      exists [t; c; b]. simpl. repeat split; auto; try congruence.
      constructor; auto. constructor; auto.
    + cbn [bind] in H. inversion H; subst.
      exists [t; c]. simpl. repeat split; auto; try congruence.
      constructor; auto. constructor; auto.
  - inversion H; subst. exists [t]. simpl. repeat split; auto; try congruence.
    constructor; auto.
Qed.

Lemma parse_node_sound : forall f, node_sound (parse_node f).
Proof.
  induction f as [|f IH]; intros [ts l] n it' H; [discriminate|].
  rewrite parse_node_S in H.
  destruct ts as [|lp ts]; [rewrite expect_nil in H; unfold err_end in H; simpl in H; destruct l; discriminate|].
  rewrite expect_cons in H. destruct (ty_in (tty lp) [LPAREN]) eqn:Elp; [|discriminate].
  apply ty_in_1 in Elp. cbn [bind] in H.
  destruct ts as [|t ts]; [rewrite peek_nil in H; discriminate|].
  rewrite peek_cons in H. cbn [bind] in H.
  destruct (tokty_eqb (tty t) RPAREN) eqn:Erp.
  { apply tokty_eqb_eq in Erp. rewrite expect_cons in H.
    replace (ty_in (tty t) [RPAREN]) with true in H by (symmetry; apply ty_in_1; exact Erp).
    cbn [bind] in H. inversion H; subst. simpl.
    exists [lp], t. repeat split; auto. constructor; auto. }
  rewrite expect_cons in H. destruct (ty_in (tty t) [SYMBOL]) eqn:Esy; [|discriminate].
  apply ty_in_1 in Esy. cbn [bind] in H.
  destruct ts as [|u ts]; [rewrite peek_nil in H; discriminate|].
  rewrite peek_cons in H. cbn [bind] in H.
  destruct (label_after u (mkIter (u :: ts) (Some t))) as [[lb it1]| | | | | | | |] eqn:Elab; try discriminate.
  cbn [bind] in H. apply label_after_sound in Elab.
  destruct Elab as (lab & Hlab & Hdl & _ & _).
  destruct it1 as [ts1 l1]. simpl in Hlab.
  apply (edges_sound _ _ IH) in H.
  destruct H as (es & eb & r & Hts & Hes & Hr & Hn & Hl).
  exists (lp :: t :: lab ++ es), r. simpl. repeat split; auto.
  - rewrite Hlab, Hts. rewrite <- !app_assoc. reflexivity.
  - rewrite <- app_assoc. rewrite Hn.
    replace (rev (rev lb)) with lb by (symmetry; apply rev_involutive).
    apply DN_full; auto.
Qed.

Lemma parse_node_progress : forall f it n it',
  parse_node f it = Ok (n, it') -> length (it_rest it') < length (it_rest it).
Proof.
  intros f it n it' H. apply parse_node_sound in H.
  destruct H as (p & r & Hr & _ & _). rewrite Hr. rewrite !app_length. simpl. lia.
Qed.

(* ------------------------------------------------------------------------ *)
(** * Simulation: the recursive-descent parser and the pushdown recogniser *)

Definition resume (K : list pending) (n : node) (last : option token) (rest : list token) : rres :=
  match close_node n K with
  | PDone n' => RAccept n' rest last
  | PNext st => pda_run st last rest
  | PDead => RFail rest
  end.

(* the parser's outcome [o] in a context with enclosing frames [K] versus the
   recogniser's run [r] over the same tokens *)
Definition sim (o : outcome (node * titer)) (K : list pending) (r : rres) : Prop :=
  match o with
  | Ok (n, it') => r = resume K n (it_last it') (it_rest it')
  | DecodeErr lo off => rres_pos r = Some (lo, off)
  | _ => False
  end.

Lemma run_close : forall st l t rest n K,
  pda_step st t = close_node n K -> pda_run st l (t :: rest) = resume K n (Some t) rest.
Proof.
  intros st l t rest n K H. unfold resume. cbn [pda_run]. rewrite H.
  destruct K as [|[fr role] K']; reflexivity.
Qed.

Lemma bind_err_end : forall A B it (f : A -> outcome B), bind (err_end it) f = err_end it.
Proof. intros. unfold err_end. destruct (it_last it); reflexivity. Qed.
Lemma bind_err_at : forall A B t (f : A -> outcome B), bind (err_at t) f = err_at t.
Proof. reflexivity. Qed.

Lemma sim_end : forall l K, sim (err_end (mkIter [] l)) K (REnd l).
Proof. intros l K. unfold err_end. simpl. destruct l; reflexivity. Qed.
Lemma sim_at : forall t ts K, sim (err_at t) K (RFail (t :: ts)).
Proof. reflexivity. Qed.

(* token types on which mode [m] behaves like MEdges after committing its pending branch *)
Definition neutral (m : mode) (k : tokty) : bool :=
  match m with
  | MStart | MOpen => false
  | MEdges => true
  | MVar => negb (tokty_eqb k SLASH)
  | MSlash => negb (is_atom_ty k)
  | MConcept _ | MTarget _ _ => negb (tokty_eqb k ALIGNMENT)
  | MRole _ => negb (is_atom_ty k || tokty_eqb k ALIGNMENT || tokty_eqb k LPAREN)
  | MRoleA _ => negb (is_atom_ty k || tokty_eqb k LPAREN)
  end.

Lemma step_flush_equiv : forall m var acc0 acc K t,
  flush m acc0 = Some acc -> neutral m (tty t) = true ->
  pda_step (mkP m (mkFrame var acc0) K) t = pda_step (mkP MEdges (mkFrame var acc) K) t.
Proof.
  intros m var acc0 acc K t Hf Hn. unfold pda_step. cbn [p_mode p_cur p_stack f_var f_acc].
  destruct m; simpl in Hf; try discriminate; inversion Hf; subst; clear Hf;
    destruct (tty t); simpl in Hn; try discriminate; reflexivity.
Qed.

Lemma run_flush_equiv : forall m var acc0 acc K l ts,
  flush m acc0 = Some acc ->
  (forall t r, ts = t :: r -> neutral m (tty t) = true) ->
  pda_run (mkP m (mkFrame var acc0) K) l ts = pda_run (mkP MEdges (mkFrame var acc) K) l ts.
Proof.
  intros m var acc0 acc K l ts Hf Hn. destruct ts as [|t r]; [reflexivity|].
  cbn [pda_run]. rewrite (step_flush_equiv m var acc0 acc K t Hf (Hn t r eq_refl)). reflexivity.
Qed.

Definition loop_ok (pn : titer -> outcome (node * titer)) (v : token) (g B : nat) : Prop :=
  forall acc ts l K, length ts < g -> length ts <= B ->
    sim (edges_loop pn v g acc (mkIter ts l)) K
        (pda_run (mkP MEdges (mkFrame (ttext v) acc) K) l ts).

Definition node_ok (pn : titer -> outcome (node * titer)) (B : nat) : Prop :=
  forall K lp ts l, tty lp = LPAREN -> length (lp :: ts) <= B ->
    sim (pn (mkIter (lp :: ts) l)) K (pda_run (mkP MOpen frame0 K) (Some lp) ts).

Definition progresses (pn : titer -> outcome (node * titer)) : Prop :=
  forall it n it', pn it = Ok (n, it') -> length (it_rest it') < length (it_rest it).

(* phase: an atomic target [nx] has just been read *)
Lemma target_phase : forall pn v g B, loop_ok pn v g B ->
  forall role nx acc ts K, length ts < g -> length ts <= B ->
    sim ('(target, it) <- glue_alignment (ttext nx) (mkIter ts (Some nx)) ;;
         edges_loop pn v g ((role, TAtom (AStr target)) :: acc) it) K
        (pda_run (mkP (MTarget role (ttext nx)) (mkFrame (ttext v) acc) K) (Some nx) ts).
Proof.
  intros pn v g B Hloop role nx acc ts K Hg HB.
  destruct ts as [|b ts].
  { rewrite glue_nil, bind_err_end. apply sim_end. }
  rewrite glue_cons. destruct (tokty_eqb (tty b) ALIGNMENT) eqn:Eb.
  - apply tokty_eqb_eq in Eb. cbn [bind]. cbn [pda_run]. unfold pda_step.
    rewrite Eb. cbn [p_mode p_cur p_stack f_var f_acc].
    simpl in Hg, HB. apply Hloop; lia.
  - cbn [bind].
    rewrite (run_flush_equiv (MTarget role (ttext nx)) (ttext v) acc
               ((role, TAtom (AStr (ttext nx))) :: acc) K (Some nx) (b :: ts)).
    + apply Hloop; assumption.
    + reflexivity.
    + intros t r E. inversion E; subst. simpl. rewrite Eb. reflexivity.
Qed.

(* phase: the role (with its optional alignment) has been read; [m] is MRoleA, or
   MRole when the next token is not an ALIGNMENT *)
Lemma after_role_phase : forall pn v g B, loop_ok pn v g B -> node_ok pn B -> progresses pn ->
  forall m role acc ts l K, length ts < g -> length ts <= B ->
    (m = MRoleA role \/
     (m = MRole role /\ forall t r, ts = t :: r -> tokty_eqb (tty t) ALIGNMENT = false)) ->
    sim (nx <- peek (mkIter ts l) ;;
         if ty_in (tty nx) [SYMBOL; STRING] then
           '(tg, it) <- next (mkIter ts l) ;;
           '(target, it) <- glue_alignment (ttext tg) it ;;
           edges_loop pn v g ((role, TAtom (AStr target)) :: acc) it
         else if tokty_eqb (tty nx) LPAREN then
           '(n, it) <- pn (mkIter ts l) ;;
           edges_loop pn v g ((role, TNode n) :: acc) it
         else if ty_in (tty nx) [ROLE; RPAREN] then
           edges_loop pn v g ((role, TAtom ANone) :: acc) (mkIter ts l)
         else err_at nx) K
        (pda_run (mkP m (mkFrame (ttext v) acc) K) l ts).
Proof.
  intros pn v g B Hloop Hnode Hprog m role acc ts l K Hg HB Hm.
  destruct ts as [|nx ts].
  { rewrite peek_nil, bind_err_end. apply sim_end. }
  rewrite peek_cons. cbn [bind]. simpl in Hg, HB.
  assert (Hmode : (m = MRoleA role \/ m = MRole role)) by (destruct Hm as [?|[? _]]; auto).
  assert (Hnal : m = MRole role -> tokty_eqb (tty nx) ALIGNMENT = false).
  { intro E. destruct Hm as [E'|[_ Hx]]; [congruence|]. apply (Hx nx ts eq_refl). }
  destruct (tty nx) eqn:Enx; cbn [ty_in existsb tokty_eqb orb].
  - (* COMMENT *) cbn [pda_run]. unfold pda_step. rewrite Enx.
    destruct Hmode; subst m; apply sim_at.
  - (* STRING *) rewrite next_cons. cbn [bind]. cbn [pda_run]. unfold pda_step. rewrite Enx.
    cbn [p_mode p_cur p_stack].
    destruct Hmode; subst m; apply (target_phase pn v g B Hloop); lia.
  - (* LPAREN *)
    cbn [pda_run]. unfold pda_step. rewrite Enx. cbn [p_mode p_cur p_stack].
    assert (Hs : sim (pn (mkIter (nx :: ts) l)) ((mkFrame (ttext v) acc, role) :: K)
                     (pda_run (mkP MOpen frame0 ((mkFrame (ttext v) acc, role) :: K)) (Some nx) ts)).
    { apply Hnode; [assumption | simpl; lia]. }
    assert (Hgoal : sim ('(n, it) <- pn (mkIter (nx :: ts) l) ;;
                          edges_loop pn v g ((role, TNode n) :: acc) it) K
                        (pda_run (mkP MOpen frame0 ((mkFrame (ttext v) acc, role) :: K)) (Some nx) ts)).
    { destruct (pn (mkIter (nx :: ts) l)) as [[n1 it1]| | | | | | | |] eqn:Epn; simpl in Hs; try contradiction.
      - cbn [bind]. rewrite Hs. unfold resume. cbn [close_node f_var f_acc].
        apply Hprog in Epn. simpl in Epn. destruct it1 as [ts1 l1]. simpl in *.
        apply Hloop; lia.
      - exact Hs. }
    destruct Hmode; subst m; exact Hgoal.
  - (* RPAREN *)
    rewrite (run_flush_equiv m (ttext v) acc ((role, TAtom ANone) :: acc) K l (nx :: ts)).
    + apply Hloop; simpl; lia.
    + destruct Hmode; subst m; reflexivity.
    + intros t r E. inversion E; subst. rewrite Enx. destruct Hmode; subst m; reflexivity.
  - (* SLASH *) cbn [pda_run]. unfold pda_step. rewrite Enx.
    destruct Hmode; subst m; apply sim_at.
  - (* ROLE *)
    rewrite (run_flush_equiv m (ttext v) acc ((role, TAtom ANone) :: acc) K l (nx :: ts)).
    + apply Hloop; simpl; lia.
    + destruct Hmode; subst m; reflexivity.
    + intros t r E. inversion E; subst. rewrite Enx. destruct Hmode; subst m; reflexivity.
  - (* SYMBOL *) rewrite next_cons. cbn [bind]. cbn [pda_run]. unfold pda_step. rewrite Enx.
    cbn [p_mode p_cur p_stack].
    destruct Hmode; subst m; apply (target_phase pn v g B Hloop); lia.
  - (* ALIGNMENT *)
    destruct Hmode as [E|E]; subst m.
    + cbn [pda_run]. unfold pda_step. rewrite Enx. apply sim_at.
    + specialize (Hnal eq_refl). discriminate.
  - (* UNEXPECTED *) cbn [pda_run]. unfold pda_step. rewrite Enx.
    destruct Hmode; subst m; apply sim_at.
Qed.

Lemma loop_ok_all : forall pn v B, node_ok pn B -> progresses pn -> forall g, loop_ok pn v g B.
Proof.
  intros pn v B Hnode Hprog. induction g as [|g IH]; intros acc ts l K Hg HB; [lia|].
  rewrite edges_loop_S.
  destruct ts as [|t ts].
  { rewrite peek_nil, bind_err_end. apply sim_end. }
  rewrite peek_cons. cbn [bind]. simpl in Hg, HB.
  destruct (tty t) eqn:Et; cbn [tokty_eqb]; rewrite ?expect_cons, ?Et; cbn [ty_in existsb tokty_eqb orb bind];
    try (cbn [pda_run]; unfold pda_step; rewrite Et; apply sim_at).
  - (* RPAREN *)
    rewrite (run_close _ l t ts (Node (AStr (ttext v)) (rev acc)) K).
    + reflexivity.
    + unfold pda_step. rewrite Et. reflexivity.
  - (* ROLE *)
    cbn [pda_run]. unfold pda_step at 1. rewrite Et. cbn [p_mode p_cur p_stack f_var f_acc flush].
    destruct ts as [|a ts].
    { rewrite glue_nil, bind_err_end. apply sim_end. }
    rewrite glue_cons. destruct (tokty_eqb (tty a) ALIGNMENT) eqn:Ea.
    + apply tokty_eqb_eq in Ea. cbn [bind]. cbn [pda_run]. unfold pda_step at 1. rewrite Ea.
      cbn [p_mode p_cur p_stack f_var f_acc].
      apply (after_role_phase pn v g B IH Hnode Hprog (MRoleA (ttext t ++ ttext a))); simpl in *; try lia.
      left; reflexivity.
    + cbn [bind].
      apply (after_role_phase pn v g B IH Hnode Hprog (MRole (ttext t))); simpl in *; try lia.
      right. split; [reflexivity|]. intros t0 r E. inversion E; subst. exact Ea.
Qed.

(* phase: the variable [v] has been read *)
Lemma label_phase : forall pn v B, node_ok pn B -> progresses pn ->
  forall ts K, length ts <= B ->
    sim (t <- peek (mkIter ts (Some v)) ;;
         '(edges0, it) <- label_after t (mkIter ts (Some v)) ;;
         edges_loop pn v (S (length (it_rest it))) (rev edges0) it) K
        (pda_run (mkP MVar (mkFrame (ttext v) []) K) (Some v) ts).
Proof.
  intros pn v B Hnode Hprog ts K HB.
  pose proof (loop_ok_all pn v B Hnode Hprog) as Hloop.
  destruct ts as [|u ts].
  { rewrite peek_nil, bind_err_end. apply sim_end. }
  rewrite peek_cons. cbn [bind]. unfold label_after.
  destruct (tokty_eqb (tty u) SLASH) eqn:Eu.
  2:{ cbn [bind it_rest rev].
      rewrite (run_flush_equiv MVar (ttext v) [] [] K (Some v) (u :: ts)).
      - apply Hloop; [lia | assumption].
      - reflexivity.
      - intros t r E. inversion E; subst. simpl. rewrite Eu. reflexivity. }
  apply tokty_eqb_eq in Eu. rewrite next_cons. cbn [bind].
  cbn [pda_run]. unfold pda_step at 1. rewrite Eu. cbn [p_mode p_cur p_stack].
  simpl in HB.
  destruct ts as [|c ts].
  { rewrite peek_nil, !bind_err_end. apply sim_end. }
  rewrite peek_cons. cbn [bind].
  destruct (ty_in (tty c) [SYMBOL; STRING]) eqn:Ec.
  - rewrite next_cons. cbn [bind].
    assert (Hstep : pda_step (mkP MSlash (mkFrame (ttext v) []) K) c =
                    PNext (mkP (MConcept (ttext c)) (mkFrame (ttext v) []) K)).
    { unfold pda_step. destruct (tty c); simpl in Ec; try discriminate; reflexivity. }
    cbn [pda_run]. rewrite Hstep. simpl in HB.
    destruct ts as [|b ts].
    { rewrite glue_nil, !bind_err_end. apply sim_end. }
    rewrite glue_cons. destruct (tokty_eqb (tty b) ALIGNMENT) eqn:Eb.
    + apply tokty_eqb_eq in Eb. cbn [bind it_rest rev app].
      cbn [pda_run]. unfold pda_step at 1. rewrite Eb. cbn [p_mode p_cur p_stack f_var f_acc].
      simpl in HB. apply Hloop; lia.
    + cbn [bind it_rest rev app].
      rewrite (run_flush_equiv (MConcept (ttext c)) (ttext v) [] [(SLASHS, TAtom (AStr (ttext c)))] K (Some c) (b :: ts)).
      * apply Hloop; lia.
      * reflexivity.
      * intros t r E. inversion E; subst. simpl. rewrite Eb. reflexivity.
  - cbn [bind it_rest rev app].
    rewrite (run_flush_equiv MSlash (ttext v) [] [(SLASHS, TAtom ANone)] K (Some u) (c :: ts)).
    + apply Hloop; simpl in *; lia.
    + reflexivity.
    + intros t r E. inversion E; subst. simpl.
      destruct (tty t); simpl in Ec; try discriminate; reflexivity.
Qed.

Lemma parse_node_sim : forall f, node_ok (parse_node (S f)) f.
Proof.
  induction f as [|f IH]; intros K lp ts l Hlp HB; [simpl in HB; lia|].
  rewrite parse_node_S. rewrite expect_cons.
  replace (ty_in (tty lp) [LPAREN]) with true by (symmetry; apply ty_in_1; exact Hlp).
  cbn [bind]. simpl in HB.
  destruct ts as [|t ts].
  { rewrite peek_nil, bind_err_end. apply sim_end. }
  rewrite peek_cons. cbn [bind].
  destruct (tty t) eqn:Et; cbn [tokty_eqb]; rewrite ?expect_cons, ?Et; cbn [ty_in existsb tokty_eqb orb bind];
    try (cbn [pda_run]; unfold pda_step; rewrite Et; apply sim_at).
  - (* RPAREN: empty node *)
    rewrite (run_close _ (Some lp) t ts (Node ANone []) K).
    + reflexivity.
    + unfold pda_step. rewrite Et. reflexivity.
  - (* SYMBOL *)
    cbn [pda_run]. unfold pda_step at 1. rewrite Et. cbn [p_mode p_cur p_stack].
    apply (label_phase (parse_node (S f)) t f).
    + exact IH.
    + intros it n it' H. eapply parse_node_progress; eassumption.
    + simpl in HB. lia.
Qed.

(* ------------------------------------------------------------------------ *)
(** * The recogniser accepts every derivable node (no fuel, no lookahead) *)

Scheme derives_node_min := Minimality for derives_node Sort Prop
  with derives_edges_min := Minimality for derives_edges Sort Prop.
Combined Scheme derives_min from derives_node_min, derives_edges_min.

Definition Pnode (nt : list token) (n : node) : Prop :=
  match nt with
  | [] => False
  | lp :: tl => tty lp = LPAREN /\
      forall K rest, pda_run (mkP MOpen frame0 K) (Some lp) (tl ++ rest) = resume K n (last_opt nt) rest
  end.
Definition Pedges (es : list token) (eb : list branch) : Prop :=
  forall m var acc0 acc K l r rest, flush m acc0 = Some acc -> tty r = RPAREN ->
    pda_run (mkP m (mkFrame var acc0) K) l (es ++ r :: rest) =
    resume K (Node (AStr var) (rev acc ++ eb)) (Some r) rest.

Lemma step_role : forall m var acc0 acc K t, flush m acc0 = Some acc -> tty t = ROLE ->
  pda_step (mkP m (mkFrame var acc0) K) t = PNext (mkP (MRole (ttext t)) (mkFrame var acc) K).
Proof.
  intros m var acc0 acc K t Hf Ht. unfold pda_step. rewrite Ht.
  cbn [p_mode p_cur p_stack f_var f_acc]. rewrite Hf. reflexivity.
Qed.
Lemma step_rparen : forall m var acc0 acc K t, flush m acc0 = Some acc -> tty t = RPAREN ->
  pda_step (mkP m (mkFrame var acc0) K) t = close_node (Node (AStr var) (rev acc)) K.
Proof.
  intros m var acc0 acc K t Hf Ht. unfold pda_step. rewrite Ht.
  cbn [p_mode p_cur p_stack f_var f_acc]. rewrite Hf.
  destruct m; simpl in Hf; try discriminate; reflexivity.
Qed.
Lemma step_atom_role : forall m r cur K t, (m = MRole r \/ m = MRoleA r) -> is_atom_ty (tty t) = true ->
  pda_step (mkP m cur K) t = PNext (mkP (MTarget r (ttext t)) cur K).
Proof.
  intros m r cur K t Hm Ht. unfold pda_step.
  destruct Hm; subst m; destruct (tty t); simpl in Ht; try discriminate; reflexivity.
Qed.
Lemma step_lparen_role : forall m r cur K t, (m = MRole r \/ m = MRoleA r) -> tty t = LPAREN ->
  pda_step (mkP m cur K) t = PNext (mkP MOpen frame0 ((cur, r) :: K)).
Proof.
  intros m r cur K t Hm Ht. unfold pda_step. rewrite Ht. destruct Hm; subst m; reflexivity.
Qed.

Lemma pda_complete_mut :
  (forall nt n, derives_node nt n -> Pnode nt n) /\
  (forall es eb, derives_edges es eb -> Pedges es eb).
Proof.
  apply derives_min.
  - (* DN_empty *)
    intros l r Hl Hr. unfold Pnode. split; [assumption|]. intros K rest.
    cbn [app]. apply run_close. unfold pda_step. rewrite Hr. reflexivity.
  - (* DN_full *)
    intros l v lab lb es eb r Hl Hv Hlab _ IHes Hr. unfold Pnode. split; [assumption|].
    intros K rest.
    replace (last_opt (l :: v :: lab ++ es ++ [r])) with (Some r).
    2:{ symmetry. replace (l :: v :: lab ++ es ++ [r]) with ((l :: v :: lab ++ es) ++ [r]).
        - apply last_opt_snoc.
        - simpl. rewrite <- app_assoc. reflexivity. }
    replace ((v :: lab ++ es ++ [r]) ++ rest) with (v :: lab ++ (es ++ r :: rest)).
    2:{ simpl. rewrite <- !app_assoc. reflexivity. }
    cbn [pda_run]. unfold pda_step at 1. rewrite Hv. cbn [p_mode p_cur p_stack].
    inversion Hlab as [|s Hs|s ct c Hs Hat]; subst.
    + (* no label *)
      cbn [app]. apply (IHes MVar (ttext v) [] [] K (Some v) r rest); auto.
    + (* slash alone *)
      cbn [app pda_run]. unfold pda_step at 1. rewrite Hs. cbn [p_mode p_cur p_stack].
      apply (IHes MSlash (ttext v) [] [(SLASHS, TAtom ANone)] K (Some s) r rest); auto.
    + inversion Hat as [c0 Hc0|c0 a Hc0 Ha]; subst.
      * cbn [app pda_run]. unfold pda_step at 1. rewrite Hs. cbn [p_mode p_cur p_stack].
        assert (Hst : pda_step (mkP MSlash (mkFrame (ttext v) []) K) c0 =
                      PNext (mkP (MConcept (ttext c0)) (mkFrame (ttext v) []) K)).
        { unfold pda_step. destruct (tty c0); simpl in Hc0; try discriminate; reflexivity. }
        rewrite Hst.
        apply (IHes (MConcept (ttext c0)) (ttext v) [] [(SLASHS, TAtom (AStr (ttext c0)))] K (Some c0) r rest); auto.
      * cbn [app pda_run]. unfold pda_step at 1. rewrite Hs. cbn [p_mode p_cur p_stack].
        assert (Hst : pda_step (mkP MSlash (mkFrame (ttext v) []) K) c0 =
                      PNext (mkP (MConcept (ttext c0)) (mkFrame (ttext v) []) K)).
        { unfold pda_step. destruct (tty c0); simpl in Hc0; try discriminate; reflexivity. }
        rewrite Hst. unfold pda_step at 1. rewrite Ha. cbn [p_mode p_cur p_stack f_var f_acc].
        apply (IHes MEdges (ttext v) _ [(SLASHS, TAtom (AStr (ttext c0 ++ ttext a)))] K (Some a) r rest); auto.
  - (* DE_nil *)
    intros m var acc0 acc K l r rest Hf Hr. cbn [app]. rewrite app_nil_r.
    apply run_close. apply step_rparen; assumption.
  - (* DE_missing *)
    intros rt role es eb Hrole _ IHes m var acc0 acc K l r rest Hf Hr.
    inversion Hrole as [t Ht|t a Ht Ha]; subst.
    + cbn [app pda_run]. rewrite (step_role m var acc0 acc K t Hf Ht).
      rewrite (IHes (MRole (ttext t)) var acc ((ttext t, TAtom ANone) :: acc) K (Some t) r rest); auto.
      simpl. rewrite <- app_assoc. reflexivity.
    + cbn [app pda_run]. rewrite (step_role m var acc0 acc K t Hf Ht).
      unfold pda_step at 1. rewrite Ha. cbn [p_mode p_cur p_stack].
      rewrite (IHes (MRoleA (ttext t ++ ttext a)) var acc ((ttext t ++ ttext a, TAtom ANone) :: acc) K (Some a) r rest); auto.
      simpl. rewrite <- app_assoc. reflexivity.
  - (* DE_atom *)
    intros rt role at_ a0 es eb Hrole Hat _ IHes m var acc0 acc K l r rest Hf Hr.
    assert (Hmid : forall m' l', (m' = MRole role \/ m' = MRoleA role) ->
              pda_run (mkP m' (mkFrame var acc) K) l' (at_ ++ es ++ r :: rest) =
              resume K (Node (AStr var) (rev acc ++ (role, TAtom (AStr a0)) :: eb)) (Some r) rest).
    { intros m' l' Hm'. inversion Hat as [nx Hnx|nx b Hnx Hb]; subst.
      - cbn [app pda_run]. rewrite (step_atom_role m' role _ K nx Hm' Hnx).
        rewrite (IHes (MTarget role (ttext nx)) var acc ((role, TAtom (AStr (ttext nx))) :: acc) K (Some nx) r rest); auto.
        simpl. rewrite <- app_assoc. reflexivity.
      - cbn [app pda_run]. rewrite (step_atom_role m' role _ K nx Hm' Hnx).
        unfold pda_step at 1. rewrite Hb. cbn [p_mode p_cur p_stack f_var f_acc].
        rewrite (IHes MEdges var _ ((role, TAtom (AStr (ttext nx ++ ttext b))) :: acc) K (Some b) r rest); auto.
        simpl. rewrite <- app_assoc. reflexivity. }
    inversion Hrole as [t Ht|t a Ht Ha]; subst.
    + replace (([t] ++ at_ ++ es) ++ r :: rest) with (t :: at_ ++ es ++ r :: rest)
        by (simpl; rewrite <- app_assoc; reflexivity).
      cbn [pda_run]. rewrite (step_role m var acc0 acc K t Hf Ht).
      apply Hmid. left; reflexivity.
    + replace (([t; a] ++ at_ ++ es) ++ r :: rest) with (t :: a :: at_ ++ es ++ r :: rest)
        by (simpl; rewrite <- app_assoc; reflexivity).
      cbn [pda_run]. rewrite (step_role m var acc0 acc K t Hf Ht).
      unfold pda_step at 1. rewrite Ha. cbn [p_mode p_cur p_stack].
      apply Hmid. right; reflexivity.
  - (* DE_node *)
    intros rt role nt n Hes_ eb Hrole _ IHn _ IHes m var acc0 acc K l r rest Hf Hr.
    rename Hes_ into es.
    assert (Hmid : forall m' l', (m' = MRole role \/ m' = MRoleA role) ->
              pda_run (mkP m' (mkFrame var acc) K) l' (nt ++ es ++ r :: rest) =
              resume K (Node (AStr var) (rev acc ++ (role, TNode n) :: eb)) (Some r) rest).
    { intros m' l' Hm'. unfold Pnode in IHn. destruct nt as [|lp tl]; [contradiction|].
      destruct IHn as [Hlp Hrun].
      cbn [app pda_run]. rewrite (step_lparen_role m' role _ K lp Hm' Hlp).
      rewrite Hrun. unfold resume at 1. cbn [close_node f_var f_acc].
      rewrite (IHes MEdges var _ ((role, TNode n) :: acc) K (last_opt (lp :: tl)) r rest); auto.
      simpl. rewrite <- app_assoc. reflexivity. }
    inversion Hrole as [t Ht|t a Ht Ha]; subst.
    + replace (([t] ++ nt ++ es) ++ r :: rest) with (t :: nt ++ es ++ r :: rest)
        by (simpl; rewrite <- app_assoc; reflexivity).
      cbn [pda_run]. rewrite (step_role m var acc0 acc K t Hf Ht).
      apply Hmid. left; reflexivity.
    + replace (([t; a] ++ nt ++ es) ++ r :: rest) with (t :: a :: nt ++ es ++ r :: rest)
        by (simpl; rewrite <- app_assoc; reflexivity).
      cbn [pda_run]. rewrite (step_role m var acc0 acc K t Hf Ht).
      unfold pda_step at 1. rewrite Ha. cbn [p_mode p_cur p_stack].
      apply Hmid. right; reflexivity.
Qed.

(* ------------------------------------------------------------------------ *)
(** * Top level: parser = recogniser, as one equation *)

Definition rres_outcome (r : rres) : outcome (node * titer) :=
  match r with
  | RAccept n rest last => Ok (n, mkIter rest last)
  | RFail (t :: _) => err_at t
  | RFail [] => Other 0
  | REnd last => err_end (mkIter [] last)
  end.

Lemma pda_run_fail_nonempty : forall ts st l r, pda_run st l ts = RFail r -> r <> [].
Proof.
  induction ts as [|t ts IH]; intros st l r H; simpl in H; [discriminate|].
  destruct (pda_step st t) eqn:E.
  - eapply IH; eassumption.
  - discriminate.
  - inversion H; subst. discriminate.
Qed.

Lemma good_rres_outcome : forall st l ts, good (rres_outcome (pda_run st l ts)).
Proof.
  intros st l ts. destruct (pda_run st l ts) as [n rest last|r|last] eqn:E; simpl.
  - exact I.
  - destruct r; [|exact I]. apply pda_run_fail_nonempty in E. congruence.
  - apply good_err_end.
Qed.

Lemma sim_top : forall o r, sim o [] r -> o = rres_outcome r.
Proof.
  intros o r H. destruct o as [[n it']|lo off| | | | | | |]; simpl in H; try contradiction.
  - subst r. unfold resume. simpl. destruct it'; reflexivity.
  - destruct r as [n rest last|[|t rest]|[t|]]; simpl in H; try discriminate;
      inversion H; subst; reflexivity.
Qed.

Lemma step_init_lparen : forall lp, tty lp = LPAREN ->
  pda_step pda_init lp = PNext (mkP MOpen frame0 []).
Proof. intros lp H. unfold pda_step. rewrite H. reflexivity. Qed.

Theorem parse_node_run : forall f ts l, length ts <= f ->
  parse_node (S f) (mkIter ts l) = rres_outcome (pda_run pda_init l ts).
Proof.
  intros f ts l Hf. destruct ts as [|lp ts].
  { rewrite parse_node_S, expect_nil, bind_err_end. reflexivity. }
  destruct (tokty_eqb (tty lp) LPAREN) eqn:Elp.
  - apply tokty_eqb_eq in Elp. apply sim_top.
    cbn [pda_run]. rewrite (step_init_lparen lp Elp).
    apply parse_node_sim; assumption.
  - rewrite parse_node_S, expect_cons. unfold ty_in. simpl existsb. rewrite Elp. simpl.
    unfold pda_step. destruct (tty lp); simpl in Elp; try discriminate; reflexivity.
Qed.

Theorem parse_node_recognise : forall ts,
  parse_node (parse_fuel ts) (iter_of ts) = rres_outcome (recognise_full ts).
Proof. intro ts. unfold parse_fuel, iter_of, recognise_full. apply parse_node_run. lia. Qed.

Lemma parse_node_good : forall f it, length (it_rest it) < f -> good (parse_node f it).
Proof.
  intros f [ts l] H. simpl in H. destruct f as [|f]; [lia|].
  rewrite parse_node_run by lia. apply good_rres_outcome.
Qed.

(* fuel beyond sufficiency does not matter *)
Lemma parse_node_fuel_irrelevant : forall f1 f2 it,
  length (it_rest it) < f1 -> length (it_rest it) < f2 -> parse_node f1 it = parse_node f2 it.
Proof.
  intros f1 f2 [ts l] H1 H2. simpl in *. destruct f1 as [|f1]; [lia|]. destruct f2 as [|f2]; [lia|].
  rewrite !parse_node_run by lia. reflexivity.
Qed.

(** Completeness *)
Theorem parse_node_complete_gen : forall pre n, derives_node pre n ->
  forall rest l f, length (pre ++ rest) < f ->
    parse_node f (mkIter (pre ++ rest) l) = Ok (n, mkIter rest (last_opt pre)).
Proof.
  intros pre n Hd rest l f Hf. destruct f as [|f]; [lia|].
  rewrite parse_node_run by lia.
  apply (proj1 pda_complete_mut) in Hd. unfold Pnode in Hd.
  destruct pre as [|lp tl]; [contradiction|]. destruct Hd as [Hlp Hrun].
  cbn [app pda_run]. rewrite (step_init_lparen lp Hlp).
  rewrite Hrun. reflexivity.
Qed.

Theorem recognise_complete : forall pre n rest, derives_node pre n ->
  recognise (pre ++ rest) = Some (n, rest).
Proof.
  intros pre n rest Hd. unfold recognise, recognise_full.
  apply (proj1 pda_complete_mut) in Hd. unfold Pnode in Hd.
  destruct pre as [|lp tl]; [contradiction|]. destruct Hd as [Hlp Hrun].
  cbn [app pda_run]. rewrite (step_init_lparen lp Hlp).
  rewrite Hrun. reflexivity.
Qed.

Theorem recognise_sound : forall ts n rest, recognise ts = Some (n, rest) ->
  exists pre, ts = pre ++ rest /\ derives_node pre n.
Proof.
  intros ts n rest H. unfold recognise in H.
  pose proof (parse_node_recognise ts) as E.
  destruct (recognise_full ts) as [n' rest' last| |]; try discriminate.
  inversion H; subst. cbn [rres_outcome] in E. apply parse_node_sound in E.
  destruct E as (p & r & Hr & Hd & _). simpl in Hr. eauto.
Qed.

(* ------------------------------------------------------------------------ *)
(** * Error positions: viable prefixes *)

Lemma run_after : forall pre st st' l x, pda_after st pre = Some st' ->
  pda_run st l (pre ++ x) = pda_run st' (match pre with [] => l | _ => last_opt pre end) x.
Proof.
  induction pre as [|t pre IH]; intros st st' l x H; simpl in H.
  - inversion H; subst. reflexivity.
  - destruct (pda_step st t) eqn:E; try discriminate.
    cbn [app pda_run]. rewrite E. rewrite (IH _ _ (Some t) x H).
    destruct pre; reflexivity.
Qed.

Lemma run_fail_split : forall ts st l r, pda_run st l ts = RFail r ->
  exists pre t post st', ts = pre ++ t :: post /\ r = t :: post /\
    pda_after st pre = Some st' /\ pda_step st' t = PDead.
Proof.
  induction ts as [|t ts IH]; intros st l r H; simpl in H; [discriminate|].
  destruct (pda_step st t) eqn:E.
  - apply IH in H. destruct H as (pre & t' & post & st' & H1 & H2 & H3 & H4).
    exists (t :: pre), t', post, st'. simpl. rewrite E. subst. auto.
  - discriminate.
  - inversion H; subst. exists [], t, ts, st. auto.
Qed.

Lemma run_end_after : forall ts st l last, pda_run st l ts = REnd last ->
  (exists st', pda_after st ts = Some st') /\ last = match ts with [] => l | _ => last_opt ts end.
Proof.
  induction ts as [|t ts IH]; intros st l last H; simpl in H.
  - inversion H; subst. split; [eexists; reflexivity | reflexivity].
  - destruct (pda_step st t) eqn:E; try discriminate.
    apply IH in H. destruct H as [[st' H1] H2]. split.
    + exists st'. simpl. rewrite E. exact H1.
    + rewrite H2. destruct ts; reflexivity.
Qed.

Lemma run_next : forall st st' l t r, pda_step st t = PNext st' ->
  pda_run st l (t :: r) = pda_run st' (Some t) r.
Proof. intros st st' l t r H. cbn [pda_run]. rewrite H. reflexivity. Qed.

Definition RP0 : token := mkToken RPAREN [41%N] 0 0.
Definition LP0 : token := mkToken LPAREN [40%N] 0 0.

(* every live state inside a node is closed by enough right parentheses *)
Lemma closers_accept : forall K m cur l, m <> MStart ->
  exists n last, pda_run (mkP m cur K) l (repeat RP0 (S (length K))) = RAccept n [] last.
Proof.
  induction K as [|[fr role] K IH]; intros m cur l Hm.
  - simpl. unfold pda_step. simpl.
    destruct m; try congruence; simpl; eauto.
  - assert (Hs : exists n, pda_step (mkP m cur ((fr, role) :: K)) RP0 =
                   PNext (mkP MEdges (mkFrame (f_var fr) ((role, TNode n) :: f_acc fr)) K)).
    { unfold pda_step. simpl. destruct m; try congruence; simpl; eauto. }
    destruct Hs as [n Hs].
    change (repeat RP0 (S (length ((fr, role) :: K)))) with (RP0 :: repeat RP0 (S (length K))).
    rewrite (run_next _ _ l RP0 _ Hs). apply IH. discriminate.
Qed.

Lemma live_viable : forall pre st, pda_after pda_init pre = Some st -> viable pre.
Proof.
  intros pre st H. unfold viable.
  assert (Hc : exists suffix n last, pda_run st (match pre with [] => None | _ => last_opt pre end) suffix = RAccept n [] last).
  { destruct st as [m cur K]. destruct m.
    - (* MStart: open and close *)
      destruct (closers_accept K MOpen frame0 (Some LP0)) as (n & last & Hr); [discriminate|].
      exists (LP0 :: repeat RP0 (S (length K))), n, last.
      rewrite (run_next _ (mkP MOpen frame0 K) _ LP0 _); [exact Hr | reflexivity].
    - destruct (closers_accept K MOpen cur (match pre with [] => None | _ => last_opt pre end)) as (n & last & Hr); [discriminate|]; eauto.
    - destruct (closers_accept K MVar cur (match pre with [] => None | _ => last_opt pre end)) as (n & last & Hr); [discriminate|]; eauto.
    - destruct (closers_accept K MSlash cur (match pre with [] => None | _ => last_opt pre end)) as (n & last & Hr); [discriminate|]; eauto.
    - destruct (closers_accept K (MConcept c) cur (match pre with [] => None | _ => last_opt pre end)) as (n & last & Hr); [discriminate|]; eauto.
    - destruct (closers_accept K MEdges cur (match pre with [] => None | _ => last_opt pre end)) as (n & last & Hr); [discriminate|]; eauto.
    - destruct (closers_accept K (MRole r) cur (match pre with [] => None | _ => last_opt pre end)) as (n & last & Hr); [discriminate|]; eauto.
    - destruct (closers_accept K (MRoleA r) cur (match pre with [] => None | _ => last_opt pre end)) as (n & last & Hr); [discriminate|]; eauto.
    - destruct (closers_accept K (MTarget r a) cur (match pre with [] => None | _ => last_opt pre end)) as (n & last & Hr); [discriminate|]; eauto. }
  destruct Hc as (suffix & n & last & Hr).
  exists suffix, n.
  assert (Hrec : recognise (pre ++ suffix) = Some (n, [])).
  { unfold recognise, recognise_full. rewrite (run_after pre pda_init st None suffix H). rewrite Hr. reflexivity. }
  apply recognise_sound in Hrec. destruct Hrec as (p & Hp & Hd). rewrite app_nil_r in Hp. subst p. exact Hd.
Qed.

Lemma dead_not_viable : forall pre t st, pda_after pda_init pre = Some st -> pda_step st t = PDead ->
  ~ viable (pre ++ [t]).
Proof.
  intros pre t st Ha Hs [suffix [n Hd]].
  pose proof (recognise_complete _ n [] Hd) as Hr. rewrite app_nil_r in Hr.
  unfold recognise, recognise_full in Hr.
  rewrite <- app_assoc in Hr. rewrite (run_after pre pda_init st None _ Ha) in Hr.
  simpl in Hr. rewrite Hs in Hr. discriminate.
Qed.

Lemma viable_prefix : forall a b, viable (a ++ b) -> viable a.
Proof. intros a b [s [n H]]. exists (b ++ s), n. rewrite app_assoc. exact H. Qed.

(* position at which input ran out *)
Definition end_pos (ts : list token) : N * N :=
  match last_opt ts with Some t => tok_end_pos t | None => (0%N, 0%N) end.

Theorem recognise_fail_viable : forall ts r, recognise_full ts = RFail r ->
  exists pre t post, ts = pre ++ t :: post /\ r = t :: post /\ viable pre /\ ~ viable (pre ++ [t]).
Proof.
  intros ts r H. unfold recognise_full in H. apply run_fail_split in H.
  destruct H as (pre & t & post & st' & H1 & H2 & H3 & H4).
  exists pre, t, post. repeat split; auto.
  - eapply live_viable; eassumption.
  - eapply dead_not_viable; eassumption.
Qed.

Theorem recognise_end_viable : forall ts last, recognise_full ts = REnd last ->
  viable ts /\ last = last_opt ts.
Proof.
  intros ts last H. unfold recognise_full in H. apply run_end_after in H.
  destruct H as [[st' Ha] Hl]. split.
  - eapply live_viable; eassumption.
  - rewrite Hl. destruct ts; reflexivity.
Qed.

Theorem parse_error_position : forall ts lo off,
  parse_node (parse_fuel ts) (iter_of ts) = DecodeErr lo off ->
  (exists pre t post, ts = pre ++ t :: post /\ viable pre /\ ~ viable (pre ++ [t]) /\
                      (lo, off) = (tline t, toff t))
  \/ (viable ts /\ (lo, off) = end_pos ts).
Proof.
  intros ts lo off H. rewrite parse_node_recognise in H.
  destruct (recognise_full ts) as [n rest last|r|last] eqn:E; simpl in H.
  - discriminate.
  - left. apply recognise_fail_viable in E.
    destruct E as (pre & t & post & H1 & H2 & H3 & H4). subst r.
    exists pre, t, post. repeat split; auto. unfold err_at in H. inversion H; reflexivity.
  - right. apply recognise_end_viable in E. destruct E as [Hv Hl]. split; [assumption|].
    unfold end_pos. rewrite <- Hl. unfold err_end in H. simpl in H.
    destruct last; inversion H; reflexivity.
Qed.

(* ------------------------------------------------------------------------ *)
(** * parse_tree: leading comments, then a node *)

Lemma skip_comments_length : forall ts l, length (snd (skip_comments l ts)) <= length ts.
Proof.
  induction ts as [|t ts IH]; intro l; simpl; [lia|].
  destruct (tty t); simpl; try lia. specialize (IH (Some t)). lia.
Qed.

Lemma skip_comments_split : forall ts l, exists cs,
  ts = cs ++ snd (skip_comments l ts) /\ Forall (fun t => tty t = COMMENT) cs /\
  fst (skip_comments l ts) = match cs with [] => l | _ => last_opt cs end /\
  (forall t r, snd (skip_comments l ts) = t :: r -> tty t <> COMMENT).
Proof.
  induction ts as [|t ts IH]; intro l.
  - exists []. simpl. repeat split; auto. intros; discriminate.
  - simpl. destruct (tty t) eqn:Et;
      try (exists []; simpl; repeat split; auto; intros t0 r E; inversion E; subst; congruence).
    destruct (IH (Some t)) as (cs & H1 & H2 & H3 & H4).
    exists (t :: cs). simpl. repeat split; auto.
    all: try (f_equal; exact H1).
    all: try (rewrite H3; destruct cs; reflexivity).
Qed.

Lemma parse_comments_spec : forall f ts l md, length ts < f ->
  exists md', parse_comments f (mkIter ts l) md =
    match snd (skip_comments l ts) with
    | [] => err_end (mkIter [] (fst (skip_comments l ts)))
    | r => Ok (md', mkIter r (fst (skip_comments l ts)))
    end.
Proof.
  induction f as [|f IH]; intros ts l md Hf; [lia|].
  destruct ts as [|t ts].
  - exists md. cbn [parse_comments]. rewrite peek_nil, bind_err_end. reflexivity.
  - cbn [parse_comments]. rewrite peek_cons. cbn [bind]. simpl in Hf.
    destruct (tty t) eqn:Et; cbn [tokty_eqb skip_comments]; rewrite ?Et;
      try (exists md; reflexivity).
    rewrite next_cons. cbn [bind]. apply IH. lia.
Qed.

Definition tree_node_outcome (o : outcome (tree * titer)) : outcome (node * titer) :=
  '(t, it) <- o ;; Ok (troot t, it).

Lemma recognise_tree_eq : forall ts, recognise_tree ts = recognise_tree_from None ts.
Proof. reflexivity. Qed.

Theorem parse_tree_run : forall ts l,
  tree_node_outcome (parse_tree (mkIter ts l)) = rres_outcome (recognise_tree_from l ts).
Proof.
  intros ts l. unfold parse_tree, parse_fuel, recognise_tree_from. cbn [it_rest].
  destruct (parse_comments_spec (S (length ts)) ts l [] (Nat.lt_succ_diag_r _)) as [md' Hc].
  rewrite Hc. pose proof (skip_comments_length ts l) as Hlen.
  destruct (skip_comments l ts) as [last r]. cbn [fst snd] in *.
  destruct r as [|t r].
  - rewrite bind_err_end. unfold tree_node_outcome. rewrite bind_err_end. reflexivity.
  - cbn [bind]. rewrite parse_node_run by exact Hlen.
    unfold tree_node_outcome.
    destruct (rres_outcome (pda_run pda_init last (t :: r))) as [[n it']| | | | | | | |]; reflexivity.
Qed.

Lemma good_tree_node_outcome : forall o, good (tree_node_outcome o) -> good o.
Proof. intros o. destruct o as [[t it]| | | | | | | |]; simpl; auto. Qed.

Theorem parse_tree_good : forall it, good (parse_tree it).
Proof.
  intros [ts l]. apply good_tree_node_outcome. rewrite parse_tree_run. apply good_rres_outcome.
Qed.

Lemma run_accept_shorter : forall ts st l n rest last,
  pda_run st l ts = RAccept n rest last -> length rest < length ts.
Proof.
  induction ts as [|t ts IH]; intros st l n rest last H; simpl in H; [discriminate|].
  destruct (pda_step st t) eqn:E.
  - apply IH in H. simpl. lia.
  - inversion H; subst. simpl. lia.
  - discriminate.
Qed.

Theorem parse_tree_progress : forall it tr it',
  parse_tree it = Ok (tr, it') -> length (it_rest it') < length (it_rest it).
Proof.
  intros [ts l] tr it' H. pose proof (parse_tree_run ts l) as E. rewrite H in E.
  unfold tree_node_outcome in E. cbn [bind] in E. unfold recognise_tree_from in E.
  pose proof (skip_comments_length ts l) as Hlen.
  destruct (pda_run pda_init (fst (skip_comments l ts)) (snd (skip_comments l ts))) as [n rest last|[|x r]|last] eqn:Er;
    simpl in E; try discriminate.
  - apply run_accept_shorter in Er. inversion E; subst. simpl. lia.
  - unfold err_end in E. simpl in E. destruct last; discriminate.
Qed.

(* ------------------------------------------------------------------------ *)
(** * iterparse: only Ok or DecodeErr, never out of fuel *)

Theorem iterparse_toks_good : forall f it acc,
  length (it_rest it) < f -> good (snd (iterparse_toks f it acc)).
Proof.
  induction f as [|f IH]; intros [ts l] acc Hf; simpl in Hf; [lia|].
  cbn [iterparse_toks it_rest].
  destruct ts as [|t ts]; [exact I|].
  destruct (ty_in (tty t) [COMMENT; LPAREN]); [|exact I].
  pose proof (parse_tree_good (mkIter (t :: ts) l)) as Hg.
  destruct (parse_tree (mkIter (t :: ts) l)) as [[tr it']| | | | | | | |] eqn:E; simpl in Hg; try contradiction.
  - apply IH. apply parse_tree_progress in E. simpl in *. lia.
  - exact I.
Qed.

(* ------------------------------------------------------------------------ *)
(** * parse_triples: only Ok or DecodeErr, never out of fuel *)

Lemma accept_spec : forall it cs p, accept it cs = Some p ->
  exists t, it_rest it = t :: it_rest (snd p) /\ fst p = t.
Proof.
  intros [ts l] cs [t it'] H. unfold accept in H. simpl in *.
  destruct ts as [|x r]; [discriminate|]. destruct (ty_in (tty x) cs); [|discriminate].
  inversion H; subst. simpl. eauto.
Qed.

Lemma parse_triple_good : forall sym it, good (parse_triple sym it) /\
  forall s tg it', parse_triple sym it = Ok (s, tg, it') -> length (it_rest it') <= length (it_rest it).
Proof.
  intros sym it. unfold parse_triple.
  destruct (partition [COMMA] (ttext sym)) as [[source comma] rest].
  destruct rest as [|c rest].
  2:{ split; [exact I|]. intros s tg it' H. inversion H; subst. lia. }
  destruct comma.
  - destruct (accept it [SYMBOL; STRING]) as [[nx it1]|] eqn:E1.
    + split; [exact I|]. intros s tg it' H. inversion H; subst.
      apply accept_spec in E1. destruct E1 as (t & Hr & _). simpl in Hr. rewrite Hr. simpl. lia.
    + split; [exact I|]. intros s tg it' H. inversion H; subst. lia.
  - destruct (accept it [SYMBOL]) as [[nx it1]|] eqn:E1.
    2:{ split; [exact I|]. intros s tg it' H. inversion H; subst. lia. }
    apply accept_spec in E1. destruct E1 as (t & Hr & _). simpl in Hr.
    destruct (str_eqb (ttext nx) [COMMA]).
    + destruct (accept it1 [SYMBOL; STRING]) as [[n2 it2]|] eqn:E2.
      * split; [exact I|]. intros s tg it' H. inversion H; subst.
        apply accept_spec in E2. destruct E2 as (t2 & Hr2 & _). simpl in Hr2.
        rewrite Hr, Hr2. simpl. lia.
      * split; [exact I|]. intros s tg it' H. inversion H; subst. rewrite Hr. simpl. lia.
    + destruct (startswith (ttext nx) [COMMA]).
      * split; [exact I|]. intros s tg it' H. inversion H; subst. rewrite Hr. simpl. lia.
      * split; [exact I|]. intros s tg it' H. discriminate.
Qed.

Theorem parse_triples_loop_good : forall f it sc acc,
  length (it_rest it) < f -> good (parse_triples_loop f it sc acc).
Proof.
  induction f as [|f IH]; intros it sc acc Hf; [lia|].
  simpl parse_triples_loop.
  apply bind_good; [apply good_expect|]. intros [rt it1] E1.
  apply expect_ok in E1. destruct E1 as (R1 & _ & _). simpl in R1.
  apply bind_good; [apply good_expect|]. intros [lp it2] E2.
  apply expect_ok in E2. destruct E2 as (R2 & _ & _). simpl in R2.
  apply bind_good; [apply good_expect|]. intros [sym it3] E3.
  apply expect_ok in E3. destruct E3 as (R3 & _ & _). simpl in R3.
  destruct (parse_triple_good sym it3) as [Hg Hle].
  apply bind_good; [exact Hg|]. intros [[source tg] it4] E4.
  apply Hle in E4.
  apply bind_good; [apply good_expect|]. intros [rp it5] E5.
  apply expect_ok in E5. destruct E5 as (R5 & _ & _). simpl in R5.
  assert (Hlen : length (it_rest it5) + 4 <= length (it_rest it)).
  { rewrite R1, R2, R3. simpl. rewrite R5 in E4. simpl in E4. lia. }
  destruct it5 as [ts5 l5]. cbn [it_rest] in *.
  destruct ts5 as [|nx ts5]; [exact I|].
  destruct (negb (tokty_eqb (tty nx) SYMBOL) || negb (startswith (ttext nx) [CARET])); [exact I|].
  destruct (str_eqb (ttext nx) [CARET]).
  - rewrite next_cons. cbn [bind]. apply IH. simpl in *. lia.
  - apply IH. simpl in *. lia.
Qed.

(* ------------------------------------------------------------------------ *)
(** * Lifting to strings *)

Theorem parse_good : forall s, good (parse s).
Proof.
  intro s. unfold parse.
  pose proof (parse_tree_good (iter_of (lex_str PENMAN_ALTS s))) as H.
  destruct (parse_tree (iter_of (lex_str PENMAN_ALTS s))) as [[t it]| | | | | | | |]; simpl in *; auto.
Qed.

Theorem iterparse_str_good : forall s, good (snd (iterparse_str s)).
Proof.
  intro s. unfold iterparse_str, iterparse_lines. apply iterparse_toks_good. simpl. lia.
Qed.

Theorem iterparse_lines_good : forall ls, good (snd (iterparse_lines ls)).
Proof. intro ls. unfold iterparse_lines. apply iterparse_toks_good. simpl. lia. Qed.

Theorem parse_triples_good : forall s, good (parse_triples s).
Proof. intro s. unfold parse_triples. apply parse_triples_loop_good. simpl. lia. Qed.

(* ------------------------------------------------------------------------ *)
(** * The grammar is prefix-deterministic *)

Theorem derives_node_deterministic : forall pre1 n1 rest1 pre2 n2 rest2,
  derives_node pre1 n1 -> derives_node pre2 n2 -> pre1 ++ rest1 = pre2 ++ rest2 ->
  pre1 = pre2 /\ n1 = n2 /\ rest1 = rest2.
Proof.
  intros pre1 n1 rest1 pre2 n2 rest2 H1 H2 E.
  pose proof (recognise_complete pre1 n1 rest1 H1) as R1.
  pose proof (recognise_complete pre2 n2 rest2 H2) as R2.
  rewrite E in R1. rewrite R1 in R2. inversion R2; subst.
  repeat split; auto. apply app_inv_tail in E. exact E.
Qed.

(* ------------------------------------------------------------------------ *)
(** * Error position for a whole tree (comments + node) *)

Lemma last_opt_app : forall a b, b <> [] -> last_opt (a ++ b) = last_opt b.
Proof.
  induction a as [|x a IH]; intros b Hb; [reflexivity|].
  simpl. rewrite IH by assumption. destruct (a ++ b) eqn:E; [|reflexivity].
  apply app_eq_nil in E. destruct E; congruence.
Qed.

Lemma comment_prefix_unique : forall cs1 cs2 x a y b,
  Forall (fun t => tty t = COMMENT) cs1 -> Forall (fun t => tty t = COMMENT) cs2 ->
  tty x <> COMMENT -> tty y <> COMMENT -> cs1 ++ x :: a = cs2 ++ y :: b ->
  cs1 = cs2 /\ x :: a = y :: b.
Proof.
  induction cs1 as [|c cs1 IH]; intros cs2 x a y b F1 F2 Hx Hy E.
  - destruct cs2 as [|d cs2]; [auto|]. simpl in E. inversion E; subst.
    inversion F2; subst. contradiction.
  - destruct cs2 as [|d cs2].
    + simpl in E. inversion E; subst. inversion F1; subst. contradiction.
    + simpl in E. inversion E; subst. inversion F1; inversion F2; subst.
      destruct (IH cs2 x a y b) as [E1 E2]; auto. subst. auto.
Qed.

Theorem parse_tree_error_position : forall ts l lo off,
  ts <> [] \/ l = None ->
  parse_tree (mkIter ts l) = DecodeErr lo off ->
  (exists pre t post, ts = pre ++ t :: post /\ viable_tree pre /\ ~ viable_tree (pre ++ [t]) /\
                      (lo, off) = (tline t, toff t))
  \/ (viable_tree ts /\ (lo, off) = end_pos ts).
Proof.
  intros ts l lo off Hl H.
  pose proof (parse_tree_run ts l) as E. rewrite H in E. simpl in E.
  unfold recognise_tree_from in E.
  destruct (skip_comments_split ts l) as (cs & Hts & Hcs & Hlast & Hhead).
  destruct (skip_comments l ts) as [last r]. cbn [fst snd] in *.
  destruct (pda_run pda_init last r) as [n rest last'|fr|last'] eqn:Er; simpl in E.
  - discriminate.
  - left. apply run_fail_split in Er.
    destruct Er as (pre & t & post & st' & H1 & H2 & H3 & H4). subst fr.
    unfold err_at in E. inversion E; subst lo off.
    exists (cs ++ pre), t, post. repeat split.
    + rewrite Hts, H1. rewrite <- app_assoc. reflexivity.
    + destruct (live_viable pre st' H3) as (suf & n & Hd).
      exists suf, n. exists cs, (pre ++ suf). rewrite <- app_assoc. auto.
    + intros (suf & n & cs' & nt & Heq & Hcs' & Hd).
      apply (dead_not_viable pre t st' H3 H4).
      destruct (derives_node_starts _ _ Hd) as (lp & p & Hnt & Hlp). subst nt.
      assert (Hr0 : exists x a, (pre ++ [t]) ++ suf = x :: a /\ tty x <> COMMENT).
      { destruct pre as [|p0 pre'].
        - exists t, suf. split; [reflexivity|]. apply (Hhead t post). rewrite H1. reflexivity.
        - exists p0, ((pre' ++ [t]) ++ suf). split; [reflexivity|].
          apply (Hhead p0 (pre' ++ t :: post)). rewrite H1. reflexivity. }
      destruct Hr0 as (x & a & Hxa & Hx).
      assert (Heq' : cs ++ x :: a = cs' ++ lp :: p).
      { rewrite <- Hxa. rewrite <- Heq. rewrite <- !app_assoc. reflexivity. }
      destruct (comment_prefix_unique cs cs' x a lp p Hcs Hcs' Hx) as [_ E2]; auto.
      { rewrite Hlp. discriminate. }
      exists suf, n. rewrite Hxa. rewrite E2. exact Hd.
  - right. apply run_end_after in Er. destruct Er as [[st' Ha] Hl'].
    split.
    + destruct (live_viable r st' Ha) as (suf & n & Hd).
      exists suf, n. exists cs, (r ++ suf). rewrite Hts at 1. rewrite <- app_assoc. auto.
    + unfold end_pos. unfold err_end in E. simpl in E.
      assert (Hlo : last' = last_opt ts \/ (ts = [] /\ last' = l)).
      { rewrite Hl'. destruct r as [|r0 r'].
        - rewrite app_nil_r in Hts. subst cs. rewrite Hlast.
          destruct ts; [right; auto | left; reflexivity].
        - left. rewrite Hts. symmetry. apply last_opt_app. discriminate. }
      destruct Hlo as [Hlo|[Hnil Hlo]].
      * rewrite <- Hlo. destruct last'; inversion E; reflexivity.
      * destruct Hl as [Hne|Hnone]; [congruence|]. rewrite Hnil. simpl.
        rewrite Hlo, Hnone in E. inversion E; reflexivity.
Qed.

(* ------------------------------------------------------------------------ *)
(** * Statements in the form used by Properties/C07.v *)

Lemma c07_parse_sound : forall ts n it',
  parse_node (parse_fuel ts) (iter_of ts) = Ok (n, it') ->
  exists pre, ts = pre ++ it_rest it' /\ derives_node pre n.
Proof.
  intros ts n it' H. apply parse_node_sound in H.
  destruct H as (p & r & Hr & Hd & _). simpl in Hr. eauto.
Qed.

Lemma c07_parse_complete : forall pre n rest,
  derives_node pre n ->
  parse_node (parse_fuel (pre ++ rest)) (iter_of (pre ++ rest)) = Ok (n, mkIter rest (last_opt pre)).
Proof.
  intros pre n rest H. apply parse_node_complete_gen; [assumption|]. unfold parse_fuel. lia.
Qed.

Lemma c07_clean_tokens : forall ts l,
  good (parse_node (parse_fuel ts) (mkIter ts l)) /\
  good (parse_tree (mkIter ts l)) /\
  (forall acc, good (snd (iterparse_toks (S (length ts)) (mkIter ts l) acc))) /\
  (forall sc acc, good (parse_triples_loop (S (length ts)) (mkIter ts l) sc acc)).
Proof.
  intros ts l. repeat split.
  - apply parse_node_good. simpl. unfold parse_fuel. lia.
  - apply parse_tree_good.
  - intro acc. apply iterparse_toks_good. simpl. lia.
  - intros sc acc. apply parse_triples_loop_good. simpl. lia.
Qed.

Lemma c07_clean : forall s,
  (exists t, parse s = Ok t) \/ (exists l o, parse s = DecodeErr l o).
Proof.
  intro s. pose proof (parse_good s) as H.
  destruct (parse s); simpl in H; try contradiction; eauto.
Qed.

Lemma c07_clean_iterparse : forall s,
  snd (iterparse_str s) = Ok tt \/ (exists l o, snd (iterparse_str s) = DecodeErr l o).
Proof.
  intro s. pose proof (iterparse_str_good s) as H.
  destruct (snd (iterparse_str s)) as [[]| | | | | | | |]; simpl in H; try contradiction; eauto.
Qed.

Lemma c07_clean_iterparse_lines : forall ls,
  snd (iterparse_lines ls) = Ok tt \/ (exists l o, snd (iterparse_lines ls) = DecodeErr l o).
Proof.
  intro ls. pose proof (iterparse_lines_good ls) as H.
  destruct (snd (iterparse_lines ls)) as [[]| | | | | | | |]; simpl in H; try contradiction; eauto.
Qed.

Lemma c07_clean_triples : forall s,
  (exists ts, parse_triples s = Ok ts) \/ (exists l o, parse_triples s = DecodeErr l o).
Proof.
  intro s. pose proof (parse_triples_good s) as H.
  destruct (parse_triples s); simpl in H; try contradiction; eauto.
Qed.

Lemma c07_recognise_agrees_accept : forall ts n rest,
  recognise ts = Some (n, rest) <->
  exists last, parse_node (parse_fuel ts) (iter_of ts) = Ok (n, mkIter rest last).
Proof.
  intros ts n rest. rewrite parse_node_recognise. unfold recognise.
  destruct (recognise_full ts) as [n' rest' last'|[|t r]|last']; simpl; split; intro H.
  - inversion H; subst. eauto.
  - destruct H as [last H]. inversion H; subst. reflexivity.
  - discriminate.
  - destruct H as [last H]. discriminate.
  - discriminate.
  - destruct H as [last H]. discriminate.
  - discriminate.
  - destruct H as [last H]. unfold err_end in H. simpl in H. destruct last'; discriminate.
Qed.

Lemma c07_recognise_tree_agrees : forall ts,
  tree_node_outcome (parse_tree (iter_of ts)) = rres_outcome (recognise_tree ts).
Proof. intro ts. rewrite recognise_tree_eq. apply parse_tree_run. Qed.

Lemma c07_recognise_correct : forall ts n rest,
  recognise ts = Some (n, rest) <-> exists pre, ts = pre ++ rest /\ derives_node pre n.
Proof.
  intros ts n rest. split.
  - apply recognise_sound.
  - intros (pre & E & Hd). subst ts. apply recognise_complete. exact Hd.
Qed.

(* ( a / b~1 :r ( ) :s~2 dquote x dquote :t ) : extensions 1 and 3, both kinds of alignment *)
Definition ex_toks : list token :=
  [mkToken LPAREN [40] 1 0; mkToken SYMBOL [97] 1 1; mkToken SLASH [47] 1 3;
   mkToken SYMBOL [98] 1 5; mkToken ALIGNMENT [126;49] 1 6; mkToken ROLE [58;114] 1 9;
   mkToken LPAREN [40] 1 12; mkToken RPAREN [41] 1 13; mkToken ROLE [58;115] 1 15;
   mkToken ALIGNMENT [126;50] 1 17; mkToken STRING [34;120;34] 1 20; mkToken ROLE [58;116] 1 24;
   mkToken RPAREN [41] 1 26]%N.
Definition ex_node : node :=
  Node (AStr [97%N])
    [(SLASHS, TAtom (AStr [98;126;49]%N)); ([58;114]%N, TNode (Node ANone []));
     ([58;115;126;50]%N, TAtom (AStr [34;120;34]%N)); ([58;116]%N, TAtom ANone)].
Lemma c07_example_derivable : derives_node ex_toks ex_node /\
  parse_node (parse_fuel (ex_toks ++ ex_toks)) (iter_of (ex_toks ++ ex_toks))
    = Ok (ex_node, mkIter ex_toks (last_opt ex_toks)).
Proof.
  assert (Hd : derives_node ex_toks ex_node).
  { destruct (c07_parse_sound ex_toks ex_node (mkIter [] (Some (mkToken RPAREN [41%N] 1 26))))
      as (pre & Hpre & Hd).
    { vm_compute. reflexivity. }
    simpl in Hpre. rewrite app_nil_r in Hpre. subst pre. exact Hd. }
  split; [exact Hd|]. apply c07_parse_complete. exact Hd.
Qed.

(* ------------------------------------------------------------------------ *)
(** * iterparse = the recogniser applied repeatedly *)

Definition seq_agree (o : outcome unit) (e : option (N * N)) : Prop :=
  match o with
  | Ok _ => e = None
  | DecodeErr lo off => e = Some (lo, off)
  | _ => False
  end.

Lemma rres_outcome_pos : forall r lo off,
  rres_outcome r = DecodeErr lo off -> rres_pos r = Some (lo, off).
Proof.
  intros r lo off H. destruct r as [n rest last|[|t rest]|[t|]]; simpl in H; try discriminate;
    inversion H; reflexivity.
Qed.

Theorem iterparse_recognise_seq : forall f ts l acc,
  length ts < f ->
  map troot (fst (iterparse_toks f (mkIter ts l) acc)) = fst (recognise_seq f l ts (map troot acc)) /\
  seq_agree (snd (iterparse_toks f (mkIter ts l) acc)) (snd (recognise_seq f l ts (map troot acc))).
Proof.
  induction f as [|f IH]; intros ts l acc Hf; [lia|].
  cbn [iterparse_toks recognise_seq it_rest].
  destruct ts as [|t ts].
  { simpl. rewrite map_rev. split; reflexivity. }
  assert (Hst : ty_in (tty t) [COMMENT; LPAREN] = starts_tree t).
  { unfold starts_tree. destruct (tty t); reflexivity. }
  rewrite Hst. destruct (starts_tree t).
  2:{ simpl. rewrite map_rev. split; reflexivity. }
  pose proof (parse_tree_run (t :: ts) l) as E.
  destruct (parse_tree (mkIter (t :: ts) l)) as [[tr it']|lo off| | | | | | |] eqn:Ep;
    unfold tree_node_outcome in E; cbn [bind] in E.
  - destruct (recognise_tree_from l (t :: ts)) as [n rest last|[|x r]|last]; simpl in E;
      try discriminate.
    + inversion E; subst. apply parse_tree_progress in Ep. simpl in Ep.
      apply (IH rest last (tr :: acc)). simpl in Hf. lia.
    + unfold err_end in E. simpl in E. destruct last; discriminate.
  - symmetry in E. apply rres_outcome_pos in E.
    destruct (recognise_tree_from l (t :: ts)) as [n rest last|r|last]; simpl in E; try discriminate;
      simpl; rewrite map_rev; split; auto.
  - destruct (recognise_tree_from l (t :: ts)) as [n rest last|[|x r]|[x|]]; discriminate.
  - destruct (recognise_tree_from l (t :: ts)) as [n rest last|[|x r]|[x|]]; discriminate.
  - destruct (recognise_tree_from l (t :: ts)) as [n rest last|[|x r]|[x|]]; discriminate.
  - destruct (recognise_tree_from l (t :: ts)) as [n rest last|[|x r]|[x|]]; discriminate.
  - destruct (recognise_tree_from l (t :: ts)) as [n rest last|[|x r]|[x|]]; discriminate.
  - pose proof (good_rres_outcome pda_init (fst (skip_comments l (t :: ts))) (snd (skip_comments l (t :: ts)))) as Hg.
    unfold recognise_tree_from in E. rewrite <- E in Hg. contradiction.
  - destruct (recognise_tree_from l (t :: ts)) as [n rest last|[|x r]|[x|]]; discriminate.
Qed.

Lemma c07_iterparse_recognise : forall ts,
  map troot (fst (iterparse_toks (S (length ts)) (iter_of ts) [])) = fst (recognise_all ts) /\
  seq_agree (snd (iterparse_toks (S (length ts)) (iter_of ts) [])) (snd (recognise_all ts)).
Proof. intro ts. apply (iterparse_recognise_seq (S (length ts)) ts None []). lia. Qed.
