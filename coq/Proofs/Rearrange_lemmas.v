(** Proofs for C05: rearrange / reconfigure never change the graph; the branch
    order rearrange produces is THE stable sort by (criterion1, key(role)).
    Also the vocabulary the C05 theorems are stated in ([rearranged], the
    orders on key values). *)
From PM Require Import Impl.Layout Spec.WfLayout Proofs.Model_lemmas Proofs.Configure_fast.
From Coq Require Import Lia Sorting.Permutation Sorting.Sorted.

(* ------------------------------------------------------------------ *)
(** * Orders on key values *)

Section StrictOrder.
  Context {K : Type} (ltb : K -> K -> bool).
  Definition sto_irrefl := forall a, ltb a a = false.
  Definition sto_trans := forall a b c, ltb a b = true -> ltb b c = true -> ltb a c = true.
  Definition sto_tricho := forall a b, ltb a b = false -> ltb b a = false -> a = b.
  Definition leb_of (a b : K) : bool := negb (ltb b a).

  Lemma leb_of_total : sto_irrefl -> sto_trans -> total leb_of.
  Proof.
    intros Irr Tr a b. unfold leb_of.
    destruct (ltb b a) eqn:E1; [|left; reflexivity].
    destruct (ltb a b) eqn:E2; [|right; reflexivity].
    pose proof (Tr a b a E2 E1) as X. rewrite Irr in X. discriminate.
  Qed.

  Lemma leb_of_transitive : sto_trans -> sto_tricho -> transitive leb_of.
  Proof.
    intros Tr Tri a b c. unfold leb_of. rewrite !negb_true_iff. intros H1 H2.
    destruct (ltb c a) eqn:E; [|reflexivity].
    destruct (ltb a b) eqn:E2.
    - rewrite (Tr c a b E E2) in H2. discriminate.
    - pose proof (Tri a b E2 H1). subst b. congruence.
  Qed.
End StrictOrder.

Lemma str_ltb_irrefl : sto_irrefl str_ltb.
Proof.
  intros a. induction a as [|x a IH]; [reflexivity|].
  simpl. rewrite N.ltb_irrefl, N.eqb_refl. exact IH.
Qed.

Lemma str_ltb_trans : sto_trans str_ltb.
Proof.
  intros a. induction a as [|x a IH]; intros [|y b] [|z c] H1 H2; simpl in *;
    try discriminate; try reflexivity.
  destruct (N.ltb_spec x y) as [Lxy|Lxy].
  - destruct (N.ltb_spec y z) as [Lyz|Lyz].
    + destruct (N.ltb_spec x z); [reflexivity|lia].
    + destruct (N.eqb_spec y z) as [E|E]; [|discriminate]. subst z.
      destruct (N.ltb_spec x y); [reflexivity|lia].
  - destruct (N.eqb_spec x y) as [E|E]; [|discriminate]. subst y.
    destruct (N.ltb_spec x z) as [Lxz|Lxz]; [reflexivity|].
    destruct (N.eqb_spec x z) as [E|E]; [|discriminate]. subst z.
    apply IH with b; assumption.
Qed.

Lemma str_ltb_tricho : sto_tricho str_ltb.
Proof.
  intros a. induction a as [|x a IH]; intros [|y b] H1 H2; simpl in *;
    try discriminate; try reflexivity.
  destruct (N.ltb_spec x y) as [Lxy|Lxy]; [discriminate|].
  destruct (N.ltb_spec y x) as [Lyx|Lyx]; [discriminate|].
  assert (x = y) by lia. subst y. rewrite N.eqb_refl in *.
  f_equal. apply IH; assumption.
Qed.

Lemma str_eqb_false_iff : forall a b, str_eqb a b = false <-> a <> b.
Proof.
  intros a b. split.
  - intros E H. apply str_eqb_eq in H. congruence.
  - apply str_eqb_neq.
Qed.

Lemma alnum_ltb_irrefl : sto_irrefl alnum_ltb.
Proof.
  intros [s n]. unfold alnum_ltb. simpl. rewrite str_ltb_irrefl, N.ltb_irrefl, andb_false_r. reflexivity.
Qed.

Lemma alnum_ltb_trans : sto_trans alnum_ltb.
Proof.
  intros [s1 n1] [s2 n2] [s3 n3]. unfold alnum_ltb. simpl. intros H1 H2.
  apply orb_true_iff in H1. apply orb_true_iff in H2. apply orb_true_iff.
  destruct H1 as [H1|H1]; destruct H2 as [H2|H2].
  - left. apply str_ltb_trans with s2; assumption.
  - apply andb_true_iff in H2. destruct H2 as [E _]. apply str_eqb_eq in E. subst. left; assumption.
  - apply andb_true_iff in H1. destruct H1 as [E _]. apply str_eqb_eq in E. subst. left; assumption.
  - apply andb_true_iff in H1. apply andb_true_iff in H2.
    destruct H1 as [E1 L1]. destruct H2 as [E2 L2].
    apply str_eqb_eq in E1. apply str_eqb_eq in E2. subst. right.
    rewrite str_eqb_refl. simpl. apply N.ltb_lt. apply N.ltb_lt in L1. apply N.ltb_lt in L2. lia.
Qed.

Lemma alnum_ltb_tricho : sto_tricho alnum_ltb.
Proof.
  intros [s1 n1] [s2 n2]. unfold alnum_ltb. simpl. intros H1 H2.
  apply orb_false_iff in H1. apply orb_false_iff in H2.
  destruct H1 as [A1 B1]. destruct H2 as [A2 B2].
  pose proof (str_ltb_tricho _ _ A1 A2). subst s2.
  rewrite str_eqb_refl in *. simpl in *.
  apply N.ltb_ge in B1. apply N.ltb_ge in B2. f_equal. lia.
Qed.

Lemma alnum_leb_total : total alnum_leb.
Proof. exact (leb_of_total alnum_ltb alnum_ltb_irrefl alnum_ltb_trans). Qed.
Lemma alnum_leb_transitive : transitive alnum_leb.
Proof. exact (leb_of_transitive alnum_ltb alnum_ltb_trans alnum_ltb_tricho). Qed.

Lemma bool_leb_total : total bool_leb.
Proof. intros [|] [|]; simpl; auto. Qed.
Lemma bool_leb_transitive : transitive bool_leb.
Proof. intros [|] [|] [|]; simpl; auto. Qed.
Lemma unit_leb_total : total unit_leb.
Proof. intros a b. left. reflexivity. Qed.
Lemma unit_leb_transitive : transitive unit_leb.
Proof. intros a b c _ _. reflexivity. Qed.
Lemma N_leb_total : total N.leb.
Proof. intros a b. destruct (N.leb_spec a b); [left; reflexivity|right; apply N.leb_le; lia]. Qed.
Lemma N_leb_transitive : transitive N.leb.
Proof. intros a b c H1 H2. apply N.leb_le in H1. apply N.leb_le in H2. apply N.leb_le. lia. Qed.

Section PairLeb.
  Context {A B : Type} (la : A -> A -> bool) (lb : B -> B -> bool).
  Lemma pair_leb_total : total la -> total lb -> total (pair_leb la lb).
  Proof.
    intros Ta Tb [x1 x2] [y1 y2]. unfold pair_leb. simpl.
    destruct (la x1 y1) eqn:E1; destruct (la y1 x1) eqn:E2; simpl;
      try (left; reflexivity); try (right; reflexivity).
    - apply Tb.
    - destruct (Ta x1 y1); congruence.
  Qed.
  Lemma pair_leb_transitive : transitive la -> transitive lb -> transitive (pair_leb la lb).
  Proof.
    intros Ta Tb [x1 x2] [y1 y2] [z1 z2]. unfold pair_leb. simpl. intros H1 H2.
    apply andb_true_iff in H1. apply andb_true_iff in H2.
    destruct H1 as [A1 B1]. destruct H2 as [A2 B2].
    rewrite (Ta _ _ _ A1 A2). simpl.
    destruct (la z1 x1) eqn:Ezx; [|reflexivity]. simpl.
    rewrite (Ta _ _ _ Ezx A1) in B2. rewrite (Ta _ _ _ A2 Ezx) in B1. simpl in *.
    apply Tb with y2; assumption.
  Qed.
End PairLeb.

Lemma canonical_leb_total : total canonical_leb.
Proof. apply pair_leb_total; [exact bool_leb_total | exact alnum_leb_total]. Qed.
Lemma canonical_leb_transitive : transitive canonical_leb.
Proof. apply pair_leb_transitive; [exact bool_leb_transitive | exact alnum_leb_transitive]. Qed.

(* numeric suffixes compare numerically *)
Lemma span_all : forall p a, forallb p a = true -> forall b, (match b with [] => True | c :: _ => p c = false end) ->
  span p (a ++ b) = (a, b).
Proof.
  intros p a. induction a as [|x a IH]; intros Ha b Hb.
  - simpl. destruct b as [|c b]; [reflexivity|]. simpl. rewrite Hb. reflexivity.
  - simpl in Ha. apply andb_true_iff in Ha. destruct Ha as [Hx Ha].
    simpl. rewrite Hx. rewrite (IH Ha b Hb). reflexivity.
Qed.

Lemma alnum_key_split : forall name c digits d,
  is_digit c = false -> forallb is_digit (d :: digits) = true ->
  alnum_key (name ++ [c] ++ d :: digits) = (name ++ [c], digits_to_N (d :: digits)).
Proof.
  intros name c digits d Hc Hd. unfold alnum_key.
  replace (rev (name ++ [c] ++ d :: digits)) with (rev (d :: digits) ++ (c :: rev name)).
  2:{ rewrite !rev_app_distr. simpl. rewrite <- !app_assoc. reflexivity. }
  rewrite span_all.
  - destruct (rev (d :: digits)) eqn:R.
    + apply (f_equal (@length N)) in R. rewrite rev_length in R. discriminate.
    + rewrite <- R. rewrite rev_involutive. f_equal.
      change (c :: rev name) with ([c] ++ rev name).
      rewrite rev_app_distr, rev_involutive. reflexivity.
  - rewrite forallb_forall in *. intros x Hx. apply Hd. apply in_rev. exact Hx.
  - exact Hc.
Qed.

Lemma alnum_numeric : forall name c digits1 d1 digits2 d2,
  is_digit c = false ->
  forallb is_digit (d1 :: digits1) = true -> forallb is_digit (d2 :: digits2) = true ->
  alnum_ltb (alnum_key (name ++ [c] ++ d1 :: digits1)) (alnum_key (name ++ [c] ++ d2 :: digits2))
  = N.ltb (digits_to_N (d1 :: digits1)) (digits_to_N (d2 :: digits2)).
Proof.
  intros. rewrite !alnum_key_split by assumption. unfold alnum_ltb. simpl fst. simpl snd.
  rewrite str_ltb_irrefl, str_eqb_refl. reflexivity.
Qed.

(* ":op2" sorts before ":op10" *)
Lemma alnum_op2_op10 :
  alnum_ltb (alnum_key [58;111;112;50]%N) (alnum_key [58;111;112;49;48]%N) = true /\
  str_ltb [58;111;112;50]%N [58;111;112;49;48]%N = false.
Proof. split; vm_compute; reflexivity. Qed.

Lemma canonical_inverted_last : forall m r1 r2,
  is_role_inverted m r1 = false -> is_role_inverted m r2 = true ->
  canonical_leb (canonical_key m r1) (canonical_key m r2) = true /\
  canonical_leb (canonical_key m r2) (canonical_key m r1) = false.
Proof.
  intros m r1 r2 H1 H2. unfold canonical_leb, canonical_key, pair_leb. simpl.
  rewrite H1, H2. simpl. split; reflexivity.
Qed.

(* ------------------------------------------------------------------ *)
(** * _rearrange without the local fixpoint *)

Section RearrEq.
  Context {K S : Type}.
  Variable leb : K -> K -> bool.
  Variable key : S -> str -> S * K.
  Variable vars : list atom.

  Fixpoint rearrange_bs (s : S) (bs : list branch) : S * list branch :=
    match bs with
    | [] => (s, [])
    | (r, TAtom a) :: bs' => let '(s1, l) := rearrange_bs s bs' in (s1, (r, TAtom a) :: l)
    | (r, TNode n') :: bs' =>
        let '(s1, n1) := rearrange_node leb key vars s n' in
        let '(s2, l) := rearrange_bs s1 bs' in (s2, (r, TNode n1) :: l)
    end.

  Definition finish_node (v : atom) (first : list branch) (s : S) (bs : list branch) : S * node :=
    let '(s1, rest) := rearrange_bs s bs in
    let '(s2, srt) := sorted_st (branch_leb leb) (branch_key key vars) s1 rest in
    (s2, Node v (first ++ srt)).

  Lemma rearrange_node_eq : forall s v bs,
    rearrange_node leb key vars s (Node v bs) =
    match bs with
    | (r, t) :: bs' =>
        if str_eqb r SLASHS then finish_node v [(r, t)] s bs' else finish_node v [] s bs
    | [] => (s, Node v [])
    end.
  Proof.
    intros s v bs. simpl.
    match goal with
    | |- context [?g s bs] =>
        assert (E : forall l s0, g s0 l = rearrange_bs s0 l)
    end.
    { induction l as [|[r [a|n']] l IH]; intros s0; [reflexivity| |].
      - simpl. rewrite IH. reflexivity.
      - simpl. destruct (rearrange_node leb key vars s0 n') as [s1 n1]. rewrite IH. reflexivity. }
    destruct bs as [|[r t] bs']; [reflexivity|].
    unfold finish_node. rewrite !E. reflexivity.
  Qed.
End RearrEq.

(* ------------------------------------------------------------------ *)
(** * What rearranging may do to a tree *)

Definition rel_target (R : node -> node -> Prop) (t t1 : target) : Prop :=
  match t, t1 with
  | TAtom a, TAtom a1 => a = a1
  | TNode n0, TNode n1 => R n0 n1
  | _, _ => False
  end.
Definition rel_branch (R : node -> node -> Prop) (b b1 : branch) : Prop :=
  fst b = fst b1 /\ rel_target R (snd b) (snd b1).

(* a leading "/" branch stays where it is, untouched *)
Definition slash_kept (bs bs' : list branch) : Prop :=
  match bs with
  | (r, t) :: _ => str_eqb r SLASHS = true -> exists rest', bs' = (r, t) :: rest'
  | [] => True
  end.

(* [rearranged n n']: same variable; the branches of [n'] are a permutation of
   the branches of [n] in which nested nodes were (recursively) rearranged *)
Fixpoint rearranged (n n' : node) {struct n} : Prop :=
  match n with
  | Node v bs =>
      v = node_var n' /\
      exists bs1,
        (fix rel (bs bs1 : list branch) {struct bs} : Prop :=
           match bs, bs1 with
           | [], [] => True
           | (r, t) :: bs, (r1, t1) :: bs1 =>
               r = r1 /\
               match t, t1 with
               | TAtom a, TAtom a1 => a = a1
               | TNode n0, TNode n1 => rearranged n0 n1
               | _, _ => False
               end /\ rel bs bs1
           | _, _ => False
           end) bs bs1
        /\ Permutation bs1 (node_branches n') /\ slash_kept bs (node_branches n')
  end.

Lemma rearranged_eq : forall v bs n',
  rearranged (Node v bs) n' <->
  v = node_var n' /\
  exists bs1, Forall2 (rel_branch rearranged) bs bs1 /\
              Permutation bs1 (node_branches n') /\ slash_kept bs (node_branches n').
Proof.
  intros v bs n'. simpl.
  match goal with
  | |- (_ /\ exists bs1, ?rel bs bs1 /\ _) <-> _ =>
      assert (E : forall l l1, rel l l1 <-> Forall2 (rel_branch rearranged) l l1)
  end.
  { induction l as [|[r t] l IH]; intros [|[r1 t1] l1].
    - split; intros _; [constructor | exact I].
    - split; intros H; [destruct H | inversion H].
    - split; intros H; [destruct H | inversion H].
    - split; intros H.
      + destruct H as [H1 [H2 H3]]. constructor.
        * split; [exact H1|]. destruct t, t1; exact H2.
        * apply IH. exact H3.
      + inversion H as [|? ? ? ? [H1 H2] H3]; subst. simpl in H1, H2.
        split; [exact H1|]. split; [destruct t, t1; exact H2 | apply IH; exact H3]. }
  split; intros [Hv [bs1 [H1 H2]]]; (split; [exact Hv|]); exists bs1; (split; [apply E; exact H1 | exact H2]).
Qed.

Lemma rearranged_refl : forall n, rearranged n n.
Proof.
  induction n as [v bs IHbs] using node_ind'.
  apply rearranged_eq. split; [reflexivity|]. exists bs. split; [|split].
  - induction IHbs as [|[r t] bs Hb Hbs IH]; constructor; [|exact IH].
    split; [reflexivity|]. destruct t as [a|n0]; simpl; [reflexivity|exact Hb].
  - apply Permutation_refl.
  - simpl. destruct bs as [|[r t] bs]; [exact I|]. intros _. exists bs. reflexivity.
Qed.

Section RearrPerm.
  Context {K S : Type}.
  Variable leb : K -> K -> bool.
  Variable key : S -> str -> S * K.
  Variable vars : list atom.

  Lemma rearrange_bs_rel : forall bs,
    Forall (branch_ok (fun n => forall s, rearranged n (snd (rearrange_node leb key vars s n)))) bs ->
    forall s, Forall2 (rel_branch rearranged) bs (snd (rearrange_bs leb key vars s bs)).
  Proof.
    intros bs F. induction F as [|[r t] bs Hb Hbs IH]; intros s; [constructor|].
    destruct t as [a|n0]; simpl.
    - specialize (IH s). destruct (rearrange_bs leb key vars s bs) as [s1 l]. simpl in *.
      constructor; [split; reflexivity | exact IH].
    - unfold branch_ok in Hb. simpl in Hb. specialize (Hb s).
      destruct (rearrange_node leb key vars s n0) as [s1 n1]. simpl in Hb.
      specialize (IH s1). destruct (rearrange_bs leb key vars s1 bs) as [s2 l]. simpl in *.
      constructor; [split; [reflexivity | exact Hb] | exact IH].
  Qed.

  Lemma finish_node_branches : forall v first s bs,
    exists srt, snd (finish_node leb key vars v first s bs) = Node v (first ++ srt) /\
                Permutation (snd (rearrange_bs leb key vars s bs)) srt.
  Proof.
    intros v first s bs. unfold finish_node.
    destruct (rearrange_bs leb key vars s bs) as [s1 rest]. simpl.
    pose proof (sorted_st_perm (branch_leb leb) (branch_key key vars) s1 rest) as P.
    destruct (sorted_st (branch_leb leb) (branch_key key vars) s1 rest) as [s2 srt]. simpl in *.
    exists srt. split; [reflexivity | apply Permutation_sym; exact P].
  Qed.

  Theorem rearrange_node_rearranged : forall n s,
    rearranged n (snd (rearrange_node leb key vars s n)).
  Proof.
    induction n as [v bs IHbs] using node_ind'. intros s.
    rewrite rearrange_node_eq. apply rearranged_eq.
    destruct bs as [|[r t] bs'].
    - simpl. split; [reflexivity|]. exists []. split; [constructor|]. split; [apply perm_nil | exact I].
    - destruct (str_eqb r SLASHS) eqn:SL.
      + inversion IHbs as [|? ? Hb Hbs]; subst.
        destruct (finish_node_branches v [(r, t)] s bs') as [srt [E P]]. rewrite E. simpl.
        split; [reflexivity|].
        exists ((r, t) :: snd (rearrange_bs leb key vars s bs')). split; [|split].
        * constructor; [|apply rearrange_bs_rel; exact Hbs].
          split; [reflexivity|]. destruct t as [a|n0]; simpl; [reflexivity | apply rearranged_refl].
        * apply perm_skip. exact P.
        * intros _. exists srt. reflexivity.
      + destruct (finish_node_branches v [] s ((r, t) :: bs')) as [srt [E P]].
        unfold branch in *. rewrite E. simpl.
        split; [reflexivity|].
        exists (snd (rearrange_bs leb key vars s ((r, t) :: bs'))). split; [|split].
        * apply rearrange_bs_rel. exact IHbs.
        * exact P.
        * intros H. congruence.
  Qed.
End RearrPerm.

(* ------------------------------------------------------------------ *)
(** * Rearranging keeps the graph *)

Lemma map_flat_map : forall {A B C} (f : B -> C) (g : A -> list B) (l : list A),
  map f (flat_map g l) = flat_map (fun x => map f (g x)) l.
Proof.
  intros A B C f g l. induction l as [|x l IH]; [reflexivity|].
  simpl. rewrite map_app, IH. reflexivity.
Qed.

Lemma flat_map_rel : forall {A B} (R : A -> A -> Prop) (f : A -> list B) l l1,
  Forall2 R l l1 -> (forall b b1, R b b1 -> Permutation (f b1) (f b)) ->
  Permutation (flat_map f l1) (flat_map f l).
Proof.
  intros A B R f l l1 F H. induction F as [|b b1 l l1 Hb F IH]; [apply perm_nil|].
  simpl. apply Permutation_app; [apply H; exact Hb | exact IH].
Qed.

Lemma forallb_rel : forall {A} (R : A -> A -> Prop) (f : A -> bool) l l1,
  Forall2 R l l1 -> (forall b b1, R b b1 -> f b1 = f b) -> forallb f l1 = forallb f l.
Proof.
  intros A R f l l1 F H. induction F as [|b b1 l l1 Hb F IH]; [reflexivity|].
  simpl. rewrite IH, (H _ _ Hb). reflexivity.
Qed.
Lemma existsb_rel : forall {A} (R : A -> A -> Prop) (f : A -> bool) l l1,
  Forall2 R l l1 -> (forall b b1, R b b1 -> f b1 = f b) -> existsb f l1 = existsb f l.
Proof.
  intros A R f l l1 F H. induction F as [|b b1 l l1 Hb F IH]; [reflexivity|].
  simpl. rewrite IH, (H _ _ Hb). reflexivity.
Qed.
Lemma forallb_perm : forall {A} (f : A -> bool) l l', Permutation l l' -> forallb f l = forallb f l'.
Proof.
  intros A f l l' P. induction P; simpl; try congruence.
  destruct (f x), (f y); reflexivity.
Qed.
Lemma existsb_perm : forall {A} (f : A -> bool) l l', Permutation l l' -> existsb f l = existsb f l'.
Proof.
  intros A f l l' P. induction P; simpl; try congruence.
  destruct (f x), (f y); reflexivity.
Qed.

Lemma rel_lift : forall (Q : node -> node -> Prop) bs bs1,
  Forall (branch_ok (fun n => forall n', rearranged n n' -> Q n n')) bs ->
  Forall2 (rel_branch rearranged) bs bs1 -> Forall2 (rel_branch Q) bs bs1.
Proof.
  intros Q bs bs1 F F2. revert F. induction F2 as [|[r t] [r1 t1] bs bs1 [H1 H2] F2 IH]; intros F; [constructor|].
  inversion F as [|? ? Hb Hbs]; subst. constructor; [|apply IH; exact Hbs].
  split; [exact H1|]. simpl in *. destruct t as [a|n0], t1 as [a1|n1]; simpl in *; try exact H2.
  apply Hb. exact H2.
Qed.

(* everything [interpret] looks at is invariant *)
Definition same_content (n n1 : node) : Prop :=
  node_var n1 = node_var n /\
  node_ok n1 = node_ok n /\
  Permutation (tree_vars n1) (tree_vars n) /\
  forall m vars, Permutation (map fst (entries m vars n1)) (map fst (entries m vars n)).

Lemma rearranged_same_content : forall n n', rearranged n n' -> same_content n n'.
Proof.
  induction n as [v bs IHbs] using node_ind'. intros [v' bs'] H.
  apply rearranged_eq in H. destruct H as [Hv [bs1 [F2 [Pm _]]]]. simpl in Hv, Pm. subst v'.
  pose proof (rel_lift same_content bs bs1 IHbs F2) as FQ.
  unfold same_content. split; [reflexivity|]. split; [|split].
  - rewrite !node_ok_eq. rewrite <- (forallb_perm _ _ _ Pm).
    apply (forallb_rel _ _ _ _ FQ). intros [r t] [r1 t1] [H1 H2]. simpl in H1, H2. subst r1.
    unfold branch_okb. simpl. f_equal.
    destruct t as [a|n0], t1 as [a1|n1]; simpl in *; try contradiction; [subst; reflexivity|].
    destruct H2 as [_ [H2 _]]. exact H2.
  - rewrite !tree_vars_eq. unfold bs_vars. apply Permutation_app_head.
    apply perm_trans with (flat_map (fun b : branch => target_vars (snd b)) bs1).
    + apply Permutation_flat_map. apply Permutation_sym. exact Pm.
    + apply (flat_map_rel _ _ _ _ FQ). intros [r t] [r1 t1] [H1 H2]. simpl in *.
      destruct t as [a|n0], t1 as [a1|n1]; simpl in *; try contradiction; [apply perm_nil|].
      destruct H2 as [_ [_ [H2 _]]]. exact H2.
  - intros m vars. rewrite !entries_eq.
    assert (HC : has_concept bs' = has_concept bs).
    { unfold has_concept. rewrite <- (existsb_perm _ _ _ Pm).
      apply (existsb_rel _ _ _ _ FQ). intros [r t] [r1 t1] [H1 _]. simpl in *. subst. reflexivity. }
    rewrite HC.
    assert (PE : Permutation (map fst (entries_bs m vars v bs')) (map fst (entries_bs m vars v bs))).
    { unfold entries_bs. rewrite !map_flat_map.
      apply perm_trans with (flat_map (fun x => map fst (branch_entries m vars v x)) bs1).
      - apply Permutation_flat_map. apply Permutation_sym. exact Pm.
      - apply (flat_map_rel _ _ _ _ FQ). intros [r t] [r1 t1] [H1 H2]. simpl in H1, H2. subst r1.
        unfold branch_entries. simpl fst. simpl snd.
        destruct t as [a|n0], t1 as [a1|n1]; simpl in H2; try contradiction.
        + subst. apply Permutation_refl.
        + destruct H2 as [H2 [_ [_ H3]]].
          change (map fst (?x :: ?l)) with (fst x :: map fst l).
          rewrite !map_fst_add_pop_last. simpl fst. rewrite H2. apply perm_skip. apply H3. }
    destruct (has_concept bs); [exact PE|].
    change (map fst (?x :: ?l)) with (fst x :: map fst l). apply perm_skip. exact PE.
Qed.

(* [entries] looks at [vars] through membership only *)
Lemma entries_vars_ext : forall m vars vars' n,
  (forall a, mem atom_eqb a vars = mem atom_eqb a vars') ->
  entries m vars n = entries m vars' n.
Proof.
  intros m vars vars' n Hm. induction n as [v bs IHbs] using node_ind'.
  rewrite !entries_eq. assert (E : entries_bs m vars v bs = entries_bs m vars' v bs).
  { unfold entries_bs. induction IHbs as [|[r t] bs Hb Hbs IH]; [reflexivity|].
    simpl. rewrite IH. f_equal. unfold branch_entries. simpl.
    destruct t as [a|n0].
    - unfold atom_triple. rewrite Hm. reflexivity.
    - unfold branch_ok in Hb. simpl in Hb. rewrite Hb. reflexivity. }
  rewrite E. reflexivity.
Qed.

Theorem rearranged_interpret : forall m n n' meta g,
  rearranged n n' -> interpret m (mkTree n meta) = Ok g ->
  exists g', interpret m (mkTree n' meta) = Ok g' /\
             gtop g' = gtop g /\ gmeta g' = gmeta g /\
             Permutation (triples g') (triples g).
Proof.
  intros m n n' meta g R H. unfold interpret in *. simpl troot in *. simpl tmeta in *.
  destruct (rearranged_same_content n n' R) as [Hv [Hok [Hvars Hent]]].
  destruct (interp_node m (tree_vars n) n) as [[ts es]| | | | | | | |] eqn:IN; try discriminate.
  simpl in H. inversion H; subst g. clear H.
  destruct (interp_ok_inv _ _ _ _ _ IN) as [NO [Ets Ees]].
  destruct (interp_node_spec m (tree_vars n') n') as [S1 _].
  rewrite Hok, NO in S1. rewrite (S1 eq_refl). simpl.
  eexists. split; [reflexivity|]. rewrite Hv. split; [reflexivity|]. split; [reflexivity|].
  unfold mk_graph. simpl triples. apply Permutation_map. subst ts.
  rewrite (entries_vars_ext m (tree_vars n') (tree_vars n) n').
  - apply Hent.
  - intros a. unfold mem. apply existsb_perm. exact Hvars.
Qed.

Theorem rearrange_st_content : forall {K S} (leb : K -> K -> bool) (key : S -> str -> S * K) af s m t g,
  interpret m t = Ok g ->
  exists g', interpret m (snd (rearrange_st leb key af s t)) = Ok g' /\
             gtop g' = gtop g /\ gmeta g' = gmeta g /\
             Permutation (triples g') (triples g).
Proof.
  intros K S leb key af s m [n meta] g H. unfold rearrange_st. simpl troot. simpl tmeta.
  pose proof (rearrange_node_rearranged leb key (if af then tree_vars n else []) n s) as R.
  destruct (rearrange_node leb key (if af then tree_vars n else []) s n) as [s' n']. simpl in *.
  apply (rearranged_interpret m n n' meta g R H).
Qed.

(* ------------------------------------------------------------------ *)
(** * Pure keys: the non-first branches are THE stable sort by (criterion1, key) *)

Section Pure.
  Context {K : Type}.
  Variable leb : K -> K -> bool.
  Variable k : str -> K.
  Variable vars : list atom.

  Definition bkey (b : branch) : bool * K := (crit1 vars b, k (fst b)).
  Definition rn (n : node) : node := snd (rearrange_node leb (pure_key k) vars tt n).
  Definition rbs (bs : list branch) : list branch := snd (rearrange_bs leb (pure_key k) vars tt bs).
  Definition rtarget (b : branch) : branch :=
    match snd b with TNode n => (fst b, TNode (rn n)) | TAtom _ => b end.
  Definition split_concept (bs : list branch) : list branch * list branch :=
    match bs with
    | (r, t) :: bs' => if str_eqb r SLASHS then ([(r, t)], bs') else ([], bs)
    | [] => ([], [])
    end.

  Lemma pure_state_node : forall n (s : unit), fst (rearrange_node leb (pure_key k) vars s n) = tt.
  Proof. intros n s. destruct (fst (rearrange_node leb (pure_key k) vars s n)). reflexivity. Qed.

  Lemma rbs_map : forall bs, rbs bs = map rtarget bs.
  Proof.
    unfold rbs. induction bs as [|[r [a|n]] bs IH]; [reflexivity| |].
    - simpl. destruct (rearrange_bs leb (pure_key k) vars tt bs) as [s1 l]. simpl in *.
      rewrite IH. reflexivity.
    - simpl. unfold rtarget at 1. simpl. unfold rn.
      destruct (rearrange_node leb (pure_key k) vars tt n) as [[] n1]. simpl.
      destruct (rearrange_bs leb (pure_key k) vars tt bs) as [s2 l]. simpl in *.
      rewrite IH. reflexivity.
  Qed.

  Lemma finish_node_pure : forall v first bs,
    snd (finish_node leb (pure_key k) vars v first tt bs) =
    Node v (first ++ sorted_by (branch_leb leb) bkey (rbs bs)).
  Proof.
    intros v first bs. unfold finish_node, rbs.
    destruct (rearrange_bs leb (pure_key k) vars tt bs) as [[] rest]. simpl snd.
    change (branch_key (pure_key k) vars) with (fun (s : unit) (b : branch) => (s, bkey b)).
    rewrite sorted_st_pure. reflexivity.
  Qed.

  Theorem rearrange_pure_eq : forall v bs,
    rn (Node v bs) =
    Node v (fst (split_concept bs) ++ sorted_by (branch_leb leb) bkey (map rtarget (snd (split_concept bs)))).
  Proof.
    intros v bs. unfold rn. rewrite rearrange_node_eq. rewrite <- rbs_map.
    destruct bs as [|[r t] bs']; [reflexivity|]. unfold split_concept.
    destruct (str_eqb r SLASHS); simpl fst; simpl snd; apply finish_node_pure.
  Qed.

  Lemma branch_leb_total : total leb -> total (branch_leb leb).
  Proof. intros T. apply pair_leb_total; [exact bool_leb_total | exact T]. Qed.
  Lemma branch_leb_transitive : transitive leb -> transitive (branch_leb leb).
  Proof. intros T. apply pair_leb_transitive; [exact bool_leb_transitive | exact T]. Qed.

  Theorem rearrange_sorted_stable : total leb -> transitive leb -> forall v bs,
    let rest := map rtarget (snd (split_concept bs)) in
    exists srt,
      node_branches (rn (Node v bs)) = fst (split_concept bs) ++ srt /\
      srt = sorted_by (branch_leb leb) bkey rest /\
      Permutation srt rest /\
      StronglySorted (key_le (branch_leb leb) bkey) srt /\
      (forall kk, kclass (branch_leb leb) bkey kk srt = kclass (branch_leb leb) bkey kk rest) /\
      (forall l', StronglySorted (key_le (branch_leb leb) bkey) l' ->
                  (forall kk, kclass (branch_leb leb) bkey kk l' = kclass (branch_leb leb) bkey kk rest) ->
                  l' = srt).
  Proof.
    intros Tot Tr v bs rest. exists (sorted_by (branch_leb leb) bkey rest).
    rewrite rearrange_pure_eq. split; [reflexivity|]. split; [reflexivity|].
    split; [apply sorted_by_perm|]. split; [|split].
    - apply sorted_by_sorted; [apply branch_leb_total | apply branch_leb_transitive]; assumption.
    - intros kk. apply sorted_by_stable. apply branch_leb_transitive. exact Tr.
    - intros l' S C. apply sorted_by_unique; try assumption;
        [apply branch_leb_total | apply branch_leb_transitive]; assumption.
  Qed.
End Pure.

Lemma sorted_by_key_ext : forall {A K} (leb : K -> K -> bool) (key key' : A -> K) l,
  (forall a, key a = key' a) -> sorted_by leb key l = sorted_by leb key' l.
Proof.
  intros A K leb key key' l H. induction l as [|x l IH]; [reflexivity|].
  simpl. rewrite IH. generalize (sorted_by leb key' l). intros s.
  induction s as [|y s IHs]; [reflexivity|]. simpl. rewrite !H, IHs. reflexivity.
Qed.

(* key=None: every branch has the same criterion2; with attributes_first=False
   nothing moves at all *)
Lemma rearrange_none_noaf_id_branches : forall v bs,
  node_branches (rn unit_leb (fun _ => tt) [] (Node v bs)) =
  fst (split_concept bs) ++ map (rtarget unit_leb (fun _ => tt) []) (snd (split_concept bs)).
Proof.
  intros v bs. rewrite rearrange_pure_eq. simpl. f_equal.
  rewrite (sorted_by_key_ext _ _ (fun _ => (false, tt))).
  - apply (sorted_by_const (branch_leb unit_leb) (false, tt)). reflexivity.
  - intros [r [a|n]]; reflexivity.
Qed.

(* ------------------------------------------------------------------ *)
(** * reconfigure: what is handed to configure *)

Lemma last_such_filter : forall (p q : epi -> bool) l,
  (forall e, p e = true -> q e = true) -> last_such p (filter q l) = last_such p l.
Proof.
  intros p q l H. unfold last_such. generalize (@None epi).
  induction l as [|e l IH]; intros acc; [reflexivity|].
  simpl. destruct (q e) eqn:Q; simpl.
  - apply IH.
  - destruct (p e) eqn:P; [rewrite (H e P) in Q; discriminate | apply IH].
Qed.

Lemma get_alignments_strip : forall p ed top ts meta ts',
  (forall e, p e = true -> negb (is_layout e) = true) ->
  get_alignments p (mkGraph ts' top (strip_layout ed) meta) = get_alignments p (mkGraph ts top ed meta).
Proof.
  intros p ed top ts meta ts' H. unfold get_alignments. simpl epidata.
  unfold strip_layout. induction ed as [|[t es] ed IH]; [reflexivity|].
  simpl. rewrite IH, last_such_filter by exact H. reflexivity.
Qed.

Lemma dget_strip : forall t ed,
  dget triple_eqb t (strip_layout ed) =
  option_map (filter (fun e => negb (is_layout e))) (dget triple_eqb t ed).
Proof.
  intros t ed. induction ed as [|[t' es] ed IH]; [reflexivity|].
  simpl. destruct (triple_eqb t t'); [reflexivity | exact IH].
Qed.

Theorem reconfigure_strips_markers : forall {K S} (leb : K -> K -> bool)
  (key : option (S -> str -> S * K)) (s : S) (g : graph),
  let g' := snd (reconfigure_graph_st leb key s g) in
  Forall (fun kv : triple * list epi => forallb (fun e => negb (is_layout e)) (snd kv) = true) (epidata g') /\
  map fst (epidata g') = map fst (epidata g) /\
  (forall t, epis_of g' t = filter (fun e => negb (is_layout e)) (epis_of g t)) /\
  Permutation (triples g') (triples g) /\
  (key = None -> triples g' = triples g) /\
  gtop g' = gtop g /\ gmeta g' = gmeta g /\
  alignments g' = alignments g /\ role_alignments g' = role_alignments g.
Proof.
  intros K S leb key s g g'.
  assert (ED : epidata g' = strip_layout (epidata g)).
  { unfold g', reconfigure_graph_st. destruct key as [k|]; [|reflexivity].
    destruct (sorted_st leb (fun s0 t => k s0 (trole t)) s (triples g)). reflexivity. }
  assert (TOP : gtop g' = gtop g).
  { unfold g', reconfigure_graph_st. destruct key as [k|]; [|reflexivity].
    destruct (sorted_st leb (fun s0 t => k s0 (trole t)) s (triples g)). reflexivity. }
  assert (META : gmeta g' = gmeta g).
  { unfold g', reconfigure_graph_st. destruct key as [k|]; [|reflexivity].
    destruct (sorted_st leb (fun s0 t => k s0 (trole t)) s (triples g)). reflexivity. }
  split; [|split; [|split; [|split; [|split; [|split; [|split; [|split]]]]]]].
  - rewrite ED. unfold strip_layout. apply Forall_forall. intros kv H.
    apply in_map_iff in H. destruct H as [[t es] [E _]]. subst kv. simpl.
    apply forallb_forall. intros e He. apply filter_In in He. tauto.
  - rewrite ED. unfold strip_layout. rewrite map_map. reflexivity.
  - intros t. unfold epis_of. rewrite ED, dget_strip.
    destruct (dget triple_eqb t (epidata g)); reflexivity.
  - unfold g', reconfigure_graph_st. destruct key as [k|]; [|apply Permutation_refl].
    pose proof (sorted_st_perm leb (fun s0 t => k s0 (trole t)) s (triples g)) as P.
    destruct (sorted_st leb (fun s0 t => k s0 (trole t)) s (triples g)). exact P.
  - intros E. subst key. reflexivity.
  - exact TOP.
  - exact META.
  - destruct g' as [ts' top' ed' meta'] eqn:G. simpl in ED, TOP, META. subst.
    destruct g as [ts top ed meta]. unfold alignments. apply get_alignments_strip.
    intros [ | | |]; simpl; congruence.
  - destruct g' as [ts' top' ed' meta'] eqn:G. simpl in ED, TOP, META. subst.
    destruct g as [ts top ed meta]. unfold role_alignments. apply get_alignments_strip.
    intros [ | | |]; simpl; congruence.
Qed.

(* ------------------------------------------------------------------ *)
(** * Statements used verbatim by Properties/C05.v *)

Theorem rearrange_content_pure : forall {K} (leb : K -> K -> bool) (key : option (str -> K))
  (af : bool) (m : model) (t : tree) (g : graph),
  interpret m t = Ok g ->
  exists g', interpret m (rearrange leb key af t) = Ok g' /\
             gtop g' = gtop g /\ gmeta g' = gmeta g /\
             Permutation (triples g') (triples g).
Proof.
  intros K leb [k|] af m t g H; unfold rearrange.
  - exact (rearrange_st_content leb (pure_key k) af tt m t g H).
  - exact (rearrange_st_content unit_leb (pure_key (fun _ => tt)) af tt m t g H).
Qed.

Theorem rearrange_is_rn : forall {K} (leb : K -> K -> bool) (k : str -> K) af t,
  troot (rearrange leb (Some k) af t) = rn leb k (if af then tree_vars (troot t) else []) (troot t) /\
  troot (rearrange leb (@None (str -> K)) af t) =
    rn unit_leb (fun _ => tt) (if af then tree_vars (troot t) else []) (troot t) /\
  tmeta (rearrange leb (Some k) af t) = tmeta t.
Proof.
  intros K leb k af t. unfold rearrange, rearrange_st, rn.
  destruct (rearrange_node leb (pure_key k) (if af then tree_vars (troot t) else []) tt (troot t)).
  destruct (rearrange_node unit_leb (pure_key (fun _ : str => tt)) (if af then tree_vars (troot t) else []) tt (troot t)).
  simpl. auto.
Qed.

(* lists of keys (the command line's composite key) compare lexicographically *)
Lemma list_leb_total : forall {K} (leb : K -> K -> bool), total leb -> total (list_leb leb).
Proof.
  intros K leb T a. induction a as [|x a IH]; intros [|y b]; simpl; auto.
  destruct (leb x y) eqn:E1; destruct (leb y x) eqn:E2; simpl;
    try (left; reflexivity); try (right; reflexivity).
  - apply IH.
  - destruct (T x y); congruence.
Qed.

Lemma list_leb_transitive : forall {K} (leb : K -> K -> bool), transitive leb -> transitive (list_leb leb).
Proof.
  intros K leb T a. induction a as [|x a IH]; intros [|y b] [|z c] H1 H2; simpl in *;
    try reflexivity; try discriminate.
  apply andb_true_iff in H1. apply andb_true_iff in H2.
  destruct H1 as [A1 B1]. destruct H2 as [A2 B2].
  rewrite (T _ _ _ A1 A2). simpl.
  destruct (leb z x) eqn:Ezx; [|reflexivity]. simpl.
  rewrite (T _ _ _ Ezx A1) in B2. rewrite (T _ _ _ A2 Ezx) in B1. simpl in *.
  apply IH with b; assumption.
Qed.

Theorem key_orders_total_preorders :
  (total alnum_leb /\ transitive alnum_leb) /\
  (total canonical_leb /\ transitive canonical_leb) /\
  (total bool_leb /\ transitive bool_leb) /\ (total N.leb /\ transitive N.leb) /\
  (forall K (leb : K -> K -> bool), total leb -> transitive leb ->
     total (list_leb leb) /\ transitive (list_leb leb)).
Proof.
  repeat split.
  - exact alnum_leb_total. - exact alnum_leb_transitive.
  - exact canonical_leb_total. - exact canonical_leb_transitive.
  - exact bool_leb_total. - exact bool_leb_transitive.
  - exact N_leb_total. - exact N_leb_transitive.
  - apply list_leb_total; assumption. - apply list_leb_transitive; assumption.
Qed.

(* ------------------------------------------------------------------ *)
(** * Every node of the rearranged tree is sorted *)

Section AllSorted.
  Context {K : Type}.
  Variable leb : K -> K -> bool.
  Variable k : str -> K.
  Variable vars : list atom.

  Definition rest_sorted (bs : list branch) : Prop :=
    StronglySorted (key_le (branch_leb leb) (bkey k vars)) (snd (split_concept bs)).

  (* [all_sorted n]: at [n] and at every nested node (the target of a leading "/"
     branch is not a place rearrange visits) the branches after a leading "/" are
     sorted by (criterion1, key) *)
  Fixpoint all_sorted (n : node) : Prop :=
    match n with
    | Node v bs =>
        rest_sorted bs /\
        (fix go (first : bool) (bs : list branch) : Prop :=
           match bs with
           | [] => True
           | (r, t) :: bs' =>
               (if first && str_eqb r SLASHS then True
                else match t with TNode n' => all_sorted n' | TAtom _ => True end)
               /\ go false bs'
           end) true bs
    end.

  Definition nested_sorted (b : branch) : Prop :=
    match snd b with TNode n' => all_sorted n' | TAtom _ => True end.
  Fixpoint go_sorted (first : bool) (bs : list branch) : Prop :=
    match bs with
    | [] => True
    | (r, t) :: bs' =>
        (if first && str_eqb r SLASHS then True else nested_sorted (r, t)) /\ go_sorted false bs'
    end.

  Lemma all_sorted_eq : forall v bs, all_sorted (Node v bs) <-> rest_sorted bs /\ go_sorted true bs.
  Proof.
    intros v bs. simpl.
    match goal with
    | |- (_ /\ ?g true bs) <-> _ => assert (E : forall l f, g f l <-> go_sorted f l)
    end.
    { induction l as [|[r t] l IH]; intros f; [reflexivity|]. simpl. rewrite IH. reflexivity. }
    rewrite E. reflexivity.
  Qed.

  Lemma go_sorted_forall : forall bs first, Forall nested_sorted bs -> go_sorted first bs.
  Proof.
    induction bs as [|[r t] bs IH]; intros first F; [exact I|].
    inversion F; subst. simpl. split; [|apply IH; assumption].
    destruct (first && str_eqb r SLASHS); [exact I | assumption].
  Qed.

  Lemma sorted_split : forall l, StronglySorted (key_le (branch_leb leb) (bkey k vars)) l ->
    StronglySorted (key_le (branch_leb leb) (bkey k vars)) (snd (split_concept l)).
  Proof.
    intros [|[r t] l] S; [constructor|]. unfold split_concept.
    destruct (str_eqb r SLASHS); simpl; [inversion S; assumption | exact S].
  Qed.

  Theorem rearrange_all_sorted : total leb -> transitive leb -> forall n, all_sorted (rn leb k vars n).
  Proof.
    intros Tot Tr. induction n as [v bs IHbs] using node_ind'.
    rewrite rearrange_pure_eq.
    set (rest := map (rtarget leb k vars) (snd (split_concept bs))).
    set (srt := sorted_by (branch_leb leb) (bkey k vars) rest).
    assert (SS : StronglySorted (key_le (branch_leb leb) (bkey k vars)) srt).
    { apply sorted_by_sorted; [apply branch_leb_total | apply branch_leb_transitive]; assumption. }
    assert (FR : Forall nested_sorted srt).
    { apply Permutation_Forall with rest; [apply Permutation_sym, sorted_by_perm|].
      unfold rest. apply Forall_forall. intros b Hb. apply in_map_iff in Hb.
      destruct Hb as [[r t] [E Hin]]. subst b.
      assert (Hin' : In (r, t) bs).
      { destruct bs as [|[r0 t0] bs0]; [destruct Hin|]. unfold split_concept in Hin.
        destruct (str_eqb r0 SLASHS); simpl in Hin; [right; exact Hin | exact Hin]. }
      unfold rtarget, nested_sorted. simpl. destruct t as [a|n']; simpl; [exact I|].
      rewrite Forall_forall in IHbs. apply (IHbs _ Hin'). }
    apply all_sorted_eq.
    destruct bs as [|[r t] bs0].
    - simpl. split; [constructor | exact I].
    - unfold split_concept at 1 2. unfold split_concept in rest.
      destruct (str_eqb r SLASHS) eqn:SL; simpl fst.
      + simpl app. split.
        * unfold rest_sorted, split_concept. rewrite SL. simpl. exact SS.
        * simpl. rewrite SL. split; [exact I|]. apply go_sorted_forall. exact FR.
      + simpl app. split.
        * unfold rest_sorted. apply sorted_split. exact SS.
        * apply go_sorted_forall. exact FR.
  Qed.
End AllSorted.
