(** Lemmas for C07b: the triple-conjunction parser (parse_triples_loop / parse_triple
    of Impl/Parse.v, mirror of penman/_parse.py _parse_triples / _parse_triple)
    against a declarative grammar over TOKENS, and where its error is reported.

      conj   := triple ( CARET triple  |  triple-whose-role-token-starts-with-caret )*
      triple := SYMBOL LPAREN first RPAREN
      first  := SYMBOL with text after its first comma                    a,b
              | SYMBOL ending in its first comma  (SYMBOL|STRING)?         a,   a, b
              | SYMBOL without comma                                       a
              | SYMBOL without comma, a lone comma SYMBOL, (SYMBOL|STRING)?   a ,   a , b
              | SYMBOL without comma, a SYMBOL starting with a comma       a ,b

    After the last triple the conjunction ends at the end of the input or at any
    token that is not a SYMBOL starting with a caret (predicate stops).
    The proof device is a one-token-per-step automaton (cstep / crun); the Python
    twin of it is triple_automaton in harness/c07.py. *)
From Coq Require Import Lia Arith.
From PM Require Import Impl.Parse Spec.Grammar Proofs.Parse_lemmas.

Definition triple3 := (str * str * option str)%type.

(* ------------------------------------------------------------------------ *)
(** * The declarative grammar *)

Definition no_comma (s : str) : Prop := ~ In COMMA s.
Definition is_target_tok (t : token) : Prop := tty t = SYMBOL \/ tty t = STRING.

(* role text: a glued caret is dropped (only when the separator was glued), a colon is
   put in front unless there is one *)
Definition role_of (strip : bool) (text : str) : str :=
  let r := if strip && startswith text [CARET] then skipn 1 text else text in
  if startswith r [COLON] then r else COLON :: r.

(* [derives_first text toks src tgt]: after a source SYMBOL with text [text], the tokens
   [toks] (before the RPAREN) give source [src] and target [tgt] *)
Inductive derives_first (text : str) : list token -> str -> option str -> Prop :=
| DF_glued : forall src rest,                       (* a,b *)
    text = src ++ COMMA :: rest -> no_comma src -> rest <> [] ->
    derives_first text [] src (Some rest)
| DF_comma_none : forall src,                       (* a, *)
    text = src ++ [COMMA] -> no_comma src ->
    derives_first text [] src None
| DF_comma_tgt : forall src t,                      (* a, b *)
    text = src ++ [COMMA] -> no_comma src -> is_target_tok t ->
    derives_first text [t] src (Some (ttext t))
| DF_none :                                         (* a *)
    no_comma text -> derives_first text [] text None
| DF_sep_none : forall c,                           (* a , *)
    no_comma text -> tty c = SYMBOL -> ttext c = [COMMA] ->
    derives_first text [c] text None
| DF_sep_tgt : forall c t,                          (* a , b *)
    no_comma text -> tty c = SYMBOL -> ttext c = [COMMA] -> is_target_tok t ->
    derives_first text [c; t] text (Some (ttext t))
| DF_lead : forall t r,                             (* a ,b *)
    no_comma text -> tty t = SYMBOL -> ttext t = COMMA :: r -> r <> [] ->
    derives_first text [t] text (Some r).

Inductive derives_triple (strip : bool) : list token -> triple3 -> Prop :=
| DT : forall r lp sym fst rp src tgt,
    tty r = SYMBOL -> tty lp = LPAREN -> tty sym = SYMBOL ->
    derives_first (ttext sym) fst src tgt -> tty rp = RPAREN ->
    derives_triple strip (r :: lp :: sym :: fst ++ [rp]) (src, role_of strip (ttext r), tgt).

Definition caret_sym (t : token) : Prop :=
  tty t = SYMBOL /\ startswith (ttext t) [CARET] = true.

(* [conj_from strip toks trs]: a conjunction whose first role token has its glued caret
   dropped iff [strip] *)
Inductive conj_from : bool -> list token -> list triple3 -> Prop :=
| CJ_last : forall strip tt tr,
    derives_triple strip tt tr -> conj_from strip tt [tr]
| CJ_caret : forall strip tt tr c rest trs,         (* triple ^ conj *)
    derives_triple strip tt tr -> tty c = SYMBOL -> ttext c = [CARET] ->
    conj_from false rest trs ->
    conj_from strip (tt ++ c :: rest) (tr :: trs)
| CJ_glued : forall strip tt tr t rest trs,         (* triple ^role(...) ... *)
    derives_triple strip tt tr -> caret_sym t -> ttext t <> [CARET] ->
    conj_from true (t :: rest) trs ->
    conj_from strip (tt ++ t :: rest) (tr :: trs).

Definition conj_derives (toks : list token) (trs : list triple3) : Prop :=
  conj_from false toks trs.

(* what may follow a complete conjunction *)
Definition stops (rest : list token) : Prop :=
  match rest with [] => True | t :: _ => ~ caret_sym t end.

Definition conj_viable (toks : list token) : Prop :=
  exists suffix trs, conj_derives (toks ++ suffix) trs.

(* ------------------------------------------------------------------------ *)
(** * The automaton: one token per step *)

Inductive cmode :=
| CRole (strip : bool)                          (* expecting the role SYMBOL *)
| CLp (role : str)                              (* expecting LPAREN *)
| CSym (role : str)                             (* expecting the source SYMBOL *)
| COpt (role src : str)                         (* after a comma: optional target, RPAREN *)
| CAfter (role src : str)                       (* after a comma-less source *)
| CRp (role src : str) (tgt : option str)       (* expecting RPAREN *)
| CDone.                                        (* after RPAREN *)

Inductive cstepres := CNext (m : cmode) (acc : list triple3) | CStop | CDead.

Definition is_sym (t : token) : bool := tokty_eqb (tty t) SYMBOL.

Definition cstep (m : cmode) (acc : list triple3) (t : token) : cstepres :=
  match m with
  | CRole strip => if is_sym t then CNext (CLp (role_of strip (ttext t))) acc else CDead
  | CLp role => if tokty_eqb (tty t) LPAREN then CNext (CSym role) acc else CDead
  | CSym role =>
      if is_sym t then
        let '(src, comma, rest) := partition [COMMA] (ttext t) in
        match rest with
        | _ :: _ => CNext (CRp role src (Some rest)) acc
        | [] => if comma then CNext (COpt role src) acc else CNext (CAfter role src) acc
        end
      else CDead
  | COpt role src =>
      if ty_in (tty t) [SYMBOL; STRING] then CNext (CRp role src (Some (ttext t))) acc
      else if tokty_eqb (tty t) RPAREN then CNext CDone ((src, role, None) :: acc)
      else CDead
  | CAfter role src =>
      if is_sym t then
        if str_eqb (ttext t) [COMMA] then CNext (COpt role src) acc
        else if startswith (ttext t) [COMMA] then CNext (CRp role src (Some (skipn 1 (ttext t)))) acc
        else CDead
      else if tokty_eqb (tty t) RPAREN then CNext CDone ((src, role, None) :: acc)
      else CDead
  | CRp role src tgt =>
      if tokty_eqb (tty t) RPAREN then CNext CDone ((src, role, tgt) :: acc) else CDead
  | CDone =>
      if is_sym t && startswith (ttext t) [CARET] then
        if str_eqb (ttext t) [CARET] then CNext (CRole false) acc
        else CNext (CLp (role_of true (ttext t))) acc
      else CStop
  end.

Inductive cres :=
| CAccept (trs : list triple3) (rest : list token)
| CFail (t : token) (post : list token)
| CEnd (last : option token).

Fixpoint crun (m : cmode) (acc : list triple3) (last : option token) (ts : list token) : cres :=
  match ts with
  | [] => match m with CDone => CAccept (rev acc) [] | _ => CEnd last end
  | t :: r =>
      match cstep m acc t with
      | CNext m' acc' => crun m' acc' (Some t) r
      | CStop => CAccept (rev acc) ts
      | CDead => CFail t r
      end
  end.

Definition cres_outcome (r : cres) : outcome (list triple3) :=
  match r with
  | CAccept trs _ => Ok trs
  | CFail t _ => err_at t
  | CEnd l => err_end (mkIter [] l)
  end.

Definition recognise_triples (ts : list token) : cres := crun (CRole false) [] None ts.

(* ------------------------------------------------------------------------ *)
(** * The parser loop IS the automaton (all token lists, model fuel) *)

Lemma ty_in_single : forall k c, ty_in k [c] = tokty_eqb k c.
Proof. intros. unfold ty_in. simpl. apply orb_false_r. Qed.

Lemma accept_cons : forall t r l cs,
  accept (mkIter (t :: r) l) cs = if ty_in (tty t) cs then Some (t, mkIter r (Some t)) else None.
Proof. reflexivity. Qed.
Lemma accept_nil : forall l cs, accept (mkIter [] l) cs = None.
Proof. reflexivity. Qed.

Definition loop_tail (f : nat) (it : titer) (acc' : list triple3) : outcome (list triple3) :=
  match it_rest it with
  | [] => Ok (rev acc')
  | nx :: _ =>
      if negb (tokty_eqb (tty nx) SYMBOL) || negb (startswith (ttext nx) [CARET]) then Ok (rev acc')
      else if str_eqb (ttext nx) [CARET] then
        '(_, it) <- next it ;; parse_triples_loop f it false acc'
      else parse_triples_loop f it true acc'
  end.

Lemma loop_S : forall f it sc acc,
  parse_triples_loop (S f) it sc acc =
    ('(rt, it) <- expect it [SYMBOL] ;;
     '(_, it) <- expect it [LPAREN] ;;
     '(sym, it) <- expect it [SYMBOL] ;;
     '(source, target, it) <- parse_triple sym it ;;
     '(_, it) <- expect it [RPAREN] ;;
     loop_tail f it ((source, role_of sc (ttext rt), target) :: acc)).
Proof. reflexivity. Qed.

Ltac nil_case :=
  rewrite ?accept_nil; cbn [bind]; rewrite ?expect_nil, ?bind_err_end; reflexivity.

Lemma tail_run : forall f ts l acc',
  (forall ts' l' sc, length ts' <= length ts ->
     parse_triples_loop f (mkIter ts' l') sc acc' = cres_outcome (crun (CRole sc) acc' l' ts')) ->
  loop_tail f (mkIter ts l) acc' = cres_outcome (crun CDone acc' l ts).
Proof.
  intros f ts l acc' H. destruct ts as [|nx r]; [reflexivity|].
  unfold loop_tail. cbn [it_rest crun cstep]. unfold is_sym.
  destruct (tokty_eqb (tty nx) SYMBOL) eqn:E1; cbn [negb orb andb]; [|reflexivity].
  destruct (startswith (ttext nx) [CARET]) eqn:E2; cbn [negb]; [|reflexivity].
  destruct (str_eqb (ttext nx) [CARET]) eqn:E3.
  - rewrite next_cons. cbn [bind]. apply H. simpl. lia.
  - rewrite H by (simpl; lia). cbn [crun cstep]. unfold is_sym. rewrite E1. reflexivity.
Qed.

(* expect RPAREN, then the tail *)
Lemma rp_run : forall f ts l role src tgt acc,
  (forall ts' l' sc acc', length ts' < length ts ->
     parse_triples_loop f (mkIter ts' l') sc acc' = cres_outcome (crun (CRole sc) acc' l' ts')) ->
  ('(_, it) <- expect (mkIter ts l) [RPAREN] ;; loop_tail f it ((src, role, tgt) :: acc))
  = cres_outcome (crun (CRp role src tgt) acc l ts).
Proof.
  intros f ts l role src tgt acc H. destruct ts as [|rp r]; [nil_case|].
  rewrite expect_cons, ty_in_single. cbn [crun cstep].
  destruct (tokty_eqb (tty rp) RPAREN); [|reflexivity]. cbn [bind].
  apply tail_run. intros. apply H. simpl. lia.
Qed.

Theorem loop_run : forall f ts l sc acc, length ts < f ->
  parse_triples_loop f (mkIter ts l) sc acc = cres_outcome (crun (CRole sc) acc l ts).
Proof.
  induction f as [|f IH]; intros ts l sc acc Hf; [lia|].
  rewrite loop_S.
  destruct ts as [|t1 ts]; [nil_case|].
  rewrite expect_cons, ty_in_single. cbn [crun cstep]. unfold is_sym at 1.
  destruct (tokty_eqb (tty t1) SYMBOL) eqn:E1; [|reflexivity]. cbn [bind].
  destruct ts as [|t2 ts]; [nil_case|].
  rewrite expect_cons, ty_in_single. cbn [crun cstep].
  destruct (tokty_eqb (tty t2) LPAREN) eqn:E2; [|reflexivity]. cbn [bind].
  destruct ts as [|t3 ts]; [nil_case|].
  rewrite expect_cons, ty_in_single. cbn [crun cstep]. unfold is_sym at 1.
  destruct (tokty_eqb (tty t3) SYMBOL) eqn:E3; [|reflexivity]. cbn [bind].
  simpl in Hf.
  assert (IH' : forall ts' l' sc' acc', length ts' <= length ts ->
     parse_triples_loop f (mkIter ts' l') sc' acc' = cres_outcome (crun (CRole sc') acc' l' ts')).
  { intros. apply IH. lia. }
  clear IH Hf.
  unfold parse_triple.
  destruct (partition [COMMA] (ttext t3)) as [[src comma] rest].
  destruct rest as [|c0 rest].
  2:{ cbn [bind]. apply rp_run. intros. apply IH'. lia. }
  destruct comma.
  - (* a,  then optional target *)
    destruct ts as [|t4 ts]; [nil_case|].
    rewrite accept_cons. cbn [crun cstep].
    destruct (ty_in (tty t4) [SYMBOL; STRING]) eqn:E4; cbn [bind].
    + apply rp_run. intros. apply IH'. simpl. lia.
    + rewrite expect_cons, ty_in_single.
      destruct (tokty_eqb (tty t4) RPAREN); [|reflexivity]. cbn [bind].
      apply tail_run. intros. apply IH'. simpl. lia.
  - (* a  then comma forms *)
    destruct ts as [|t4 ts]; [nil_case|].
    rewrite accept_cons, ty_in_single. cbn [crun cstep]. unfold is_sym at 1.
    destruct (tokty_eqb (tty t4) SYMBOL) eqn:E4.
    + destruct (str_eqb (ttext t4) [COMMA]) eqn:E5.
      * destruct ts as [|t5 ts]; [nil_case|].
        rewrite accept_cons. cbn [crun cstep].
        destruct (ty_in (tty t5) [SYMBOL; STRING]) eqn:E6; cbn [bind].
        -- apply rp_run. intros. apply IH'. simpl. lia.
        -- rewrite expect_cons, ty_in_single.
           destruct (tokty_eqb (tty t5) RPAREN); [|reflexivity]. cbn [bind].
           apply tail_run. intros. apply IH'. simpl. lia.
      * destruct (startswith (ttext t4) [COMMA]) eqn:E6; [|reflexivity]. cbn [bind].
        apply rp_run. intros. apply IH'. simpl. lia.
    + cbn [bind]. rewrite expect_cons, ty_in_single.
      destruct (tokty_eqb (tty t4) RPAREN); [|reflexivity]. cbn [bind].
      apply tail_run. intros. apply IH'. simpl. lia.
Qed.

(* ------------------------------------------------------------------------ *)
(** * Small facts about strings *)

Lemma tp_str_eqb_iff : forall a b, str_eqb a b = true <-> a = b.
Proof.
  induction a as [|x a IH]; destruct b as [|y b]; simpl; split; intro H;
    try reflexivity; try discriminate.
  - apply andb_true_iff in H. destruct H as [H1 H2]. apply N.eqb_eq in H1. apply IH in H2.
    subst. reflexivity.
  - inversion H; subst. rewrite N.eqb_refl. simpl. apply IH. reflexivity.
Qed.

Lemma tp_startswith_nil : forall s, startswith s [] = true.
Proof. destruct s; reflexivity. Qed.

Lemma partition_comma_inv : forall s src b rest, partition [COMMA] s = (src, b, rest) ->
  (b = true /\ s = src ++ COMMA :: rest /\ no_comma src) \/
  (b = false /\ rest = [] /\ src = s /\ no_comma s).
Proof.
  unfold partition, no_comma.
  induction s as [|c s IH]; intros src b rest H.
  - simpl in H. inversion H; subst. right. repeat split; auto.
  - cbn [partition_at startswith] in H. rewrite tp_startswith_nil in H. unfold eqc in H.
    destruct (N.eqb COMMA c) eqn:E; cbn [andb] in H.
    + apply N.eqb_eq in E. subst c. simpl in H. inversion H; subst.
      left. repeat split; auto.
    + apply N.eqb_neq in E.
      destruct (partition_at [COMMA] s) as [[a f] b'] eqn:P.
      destruct (IH a f b' eq_refl) as [(Hf & Hs & Hn) | (Hf & Hr & Ha & Hn)]; subst f.
      * inversion H; subst. left. repeat split; auto.
        intros [Hc | Hc]; [apply E; symmetry; exact Hc | exact (Hn Hc)].
      * inversion H; subst. right. repeat split; auto.
        intros [Hc | Hc]; [apply E; symmetry; exact Hc | exact (Hn Hc)].
Qed.

Lemma partition_comma_found : forall src rest, no_comma src ->
  partition [COMMA] (src ++ COMMA :: rest) = (src, true, rest).
Proof.
  unfold partition, no_comma. induction src as [|c src IH]; intros rest Hn.
  - cbn [app partition_at startswith]. rewrite tp_startswith_nil. unfold eqc.
    rewrite N.eqb_refl. reflexivity.
  - cbn [app partition_at startswith]. rewrite tp_startswith_nil. unfold eqc.
    destruct (N.eqb COMMA c) eqn:E.
    + apply N.eqb_eq in E. exfalso. apply Hn. left. symmetry. exact E.
    + cbn [andb]. rewrite IH; [reflexivity|]. intro Hc. apply Hn. right. exact Hc.
Qed.

Lemma partition_comma_absent : forall s, no_comma s -> partition [COMMA] s = (s, false, []).
Proof.
  unfold partition, no_comma. induction s as [|c s IH]; intro Hn.
  - reflexivity.
  - cbn [partition_at startswith]. rewrite tp_startswith_nil. unfold eqc.
    destruct (N.eqb COMMA c) eqn:E.
    + apply N.eqb_eq in E. exfalso. apply Hn. left. symmetry. exact E.
    + cbn [andb]. rewrite IH; [reflexivity|]. intro Hc. apply Hn. right. exact Hc.
Qed.

Lemma target_tok_ty_in : forall t, is_target_tok t <-> ty_in (tty t) [SYMBOL; STRING] = true.
Proof.
  intro t. unfold is_target_tok, ty_in. simpl. rewrite orb_false_r, orb_true_iff.
  rewrite !tokty_eqb_eq. reflexivity.
Qed.

Lemma caret_sym_b : forall t, caret_sym t <-> is_sym t && startswith (ttext t) [CARET] = true.
Proof.
  intro t. unfold caret_sym, is_sym. rewrite andb_true_iff, tokty_eqb_eq. reflexivity.
Qed.

Lemma is_sym_true : forall t, tty t = SYMBOL -> is_sym t = true.
Proof. intros t H. unfold is_sym. rewrite H. reflexivity. Qed.

(* ------------------------------------------------------------------------ *)
(** * Completeness: derivable conjunctions are accepted by the automaton *)

Lemma crun_cons : forall m acc l t r,
  crun m acc l (t :: r) =
    match cstep m acc t with
    | CNext m' acc' => crun m' acc' (Some t) r
    | CStop => CAccept (rev acc) (t :: r)
    | CDead => CFail t r
    end.
Proof. reflexivity. Qed.

Lemma rp_step : forall role src tgt acc l rp r, tty rp = RPAREN ->
  crun (CRp role src tgt) acc l (rp :: r) = crun CDone ((src, role, tgt) :: acc) (Some rp) r.
Proof. intros. rewrite crun_cons. cbn [cstep]. rewrite H. reflexivity. Qed.

Lemma opt_step_rp : forall role src acc l rp r, tty rp = RPAREN ->
  crun (COpt role src) acc l (rp :: r) = crun CDone ((src, role, None) :: acc) (Some rp) r.
Proof. intros. rewrite crun_cons. cbn [cstep]. rewrite H. reflexivity. Qed.

Lemma opt_step_tgt : forall role src acc l t r, is_target_tok t ->
  crun (COpt role src) acc l (t :: r) = crun (CRp role src (Some (ttext t))) acc (Some t) r.
Proof.
  intros role src acc l t r H. rewrite crun_cons. cbn [cstep].
  apply target_tok_ty_in in H. rewrite H. reflexivity.
Qed.

Lemma first_complete : forall role sym fst src tgt, tty sym = SYMBOL ->
  derives_first (ttext sym) fst src tgt ->
  forall acc l rp rest, tty rp = RPAREN ->
  crun (CSym role) acc l (sym :: fst ++ rp :: rest) = crun CDone ((src, role, tgt) :: acc) (Some rp) rest.
Proof.
  intros role sym fst src tgt Hs D acc l rp rest Hrp.
  rewrite crun_cons. cbn [cstep]. rewrite (is_sym_true _ Hs).
  destruct D as [src rest0 Ht Hn Hr | src Ht Hn | src t Ht Hn Htt | Hn | c Hn Hc Hct
                 | c t Hn Hc Hct Htt | t r Hn Htk Htx Hr].
  - rewrite Ht, (partition_comma_found _ _ Hn). destruct rest0; [congruence|].
    cbn [app]. apply rp_step; assumption.
  - rewrite Ht, (partition_comma_found _ _ Hn). cbn [app]. apply opt_step_rp; assumption.
  - rewrite Ht, (partition_comma_found _ _ Hn). cbn [app].
    rewrite opt_step_tgt by assumption. apply rp_step; assumption.
  - rewrite (partition_comma_absent _ Hn). cbn [app]. rewrite crun_cons. cbn [cstep].
    unfold is_sym. rewrite Hrp. reflexivity.
  - rewrite (partition_comma_absent _ Hn). cbn [app]. rewrite crun_cons. cbn [cstep].
    rewrite (is_sym_true _ Hc), Hct.
    replace (str_eqb [COMMA] [COMMA]) with true by reflexivity. cbn [andb].
    apply opt_step_rp; assumption.
  - rewrite (partition_comma_absent _ Hn). cbn [app]. rewrite crun_cons. cbn [cstep].
    rewrite (is_sym_true _ Hc), Hct.
    replace (str_eqb [COMMA] [COMMA]) with true by reflexivity. cbn [andb].
    rewrite opt_step_tgt by assumption. apply rp_step; assumption.
  - rewrite (partition_comma_absent _ Hn). cbn [app]. rewrite crun_cons. cbn [cstep].
    rewrite (is_sym_true _ Htk), Htx.
    replace (str_eqb (COMMA :: r) [COMMA]) with false
      by (destruct r; [congruence | reflexivity]).
    replace (startswith (COMMA :: r) [COMMA]) with true
      by (symmetry; cbn [startswith]; rewrite tp_startswith_nil; reflexivity).
    cbn [skipn]. apply rp_step; assumption.
Qed.

Lemma triple_complete : forall strip tt tr, derives_triple strip tt tr ->
  forall acc l rest, exists l', crun (CRole strip) acc l (tt ++ rest) = crun CDone (tr :: acc) l' rest.
Proof.
  intros strip tt tr D acc l rest.
  destruct D as [r lp sym fst rp src tgt Hr Hlp Hsym Hf Hrp].
  exists (Some rp). cbn [app]. rewrite crun_cons. cbn [cstep]. rewrite (is_sym_true _ Hr).
  rewrite crun_cons. cbn [cstep]. rewrite Hlp. cbn [tokty_eqb].
  rewrite <- app_assoc. cbn [app]. apply first_complete; assumption.
Qed.

Lemma done_stops : forall acc l rest, stops rest -> crun CDone acc l rest = CAccept (rev acc) rest.
Proof.
  intros acc l rest H. destruct rest as [|t r]; [reflexivity|].
  rewrite crun_cons. cbn [cstep]. simpl in H.
  destruct (is_sym t && startswith (ttext t) [CARET]) eqn:E; [|reflexivity].
  exfalso. apply H. apply caret_sym_b. exact E.
Qed.

Theorem conj_complete : forall strip pre trs, conj_from strip pre trs ->
  forall acc l rest, stops rest ->
  crun (CRole strip) acc l (pre ++ rest) = CAccept (rev acc ++ trs) rest.
Proof.
  intros strip pre trs D. induction D as [strip tt tr Dt | strip tt tr c rest0 trs Dt Hc Hct D IH
                                         | strip tt tr t rest0 trs Dt Hcs Hne D IH];
    intros acc l rest Hst.
  - destruct (triple_complete _ _ _ Dt acc l rest) as [l' E]. rewrite E.
    rewrite done_stops by assumption. reflexivity.
  - rewrite <- app_assoc. destruct (triple_complete _ _ _ Dt acc l ((c :: rest0) ++ rest)) as [l' E].
    rewrite E. cbn [app]. rewrite crun_cons. cbn [cstep].
    rewrite (is_sym_true _ Hc), Hct. cbn.
    rewrite IH by assumption. cbn [rev]. rewrite <- app_assoc. reflexivity.
  - rewrite <- app_assoc. destruct (triple_complete _ _ _ Dt acc l ((t :: rest0) ++ rest)) as [l' E].
    rewrite E. specialize (IH (tr :: acc) l' rest Hst).
    cbn [app] in *. rewrite crun_cons in *. cbn [cstep] in *.
    destruct Hcs as [Hs Hsw]. rewrite (is_sym_true _ Hs) in *. rewrite Hsw. cbn [andb].
    replace (str_eqb (ttext t) [CARET]) with false
      by (symmetry; apply not_true_is_false; intro X; apply tp_str_eqb_iff in X; contradiction).
    rewrite IH. cbn [rev]. rewrite <- app_assoc. reflexivity.
Qed.

(* ------------------------------------------------------------------------ *)
(** * Soundness: what the automaton accepts is derivable *)

Lemma startswith_1 : forall s c, startswith s [c] = true -> exists r, s = c :: r.
Proof.
  intros s c H. destruct s as [|d r]; [discriminate|]. cbn [startswith] in H.
  apply andb_true_iff in H. destruct H as [H _]. apply N.eqb_eq in H. subst. eauto.
Qed.

Lemma rp_sound : forall role src tgt acc l ts trs rest,
  crun (CRp role src tgt) acc l ts = CAccept trs rest ->
  exists rp r, ts = rp :: r /\ tty rp = RPAREN /\
    crun CDone ((src, role, tgt) :: acc) (Some rp) r = CAccept trs rest.
Proof.
  intros role src tgt acc l ts trs rest H. destruct ts as [|rp r]; [discriminate|].
  rewrite crun_cons in H. cbn [cstep] in H.
  destruct (tokty_eqb (tty rp) RPAREN) eqn:E; [|discriminate].
  apply tokty_eqb_eq in E. eauto.
Qed.

Lemma opt_sound : forall text role src acc l ts trs rest,
  text = src ++ [COMMA] -> no_comma src ->
  crun (COpt role src) acc l ts = CAccept trs rest ->
  exists fst rp r tgt, ts = fst ++ rp :: r /\ tty rp = RPAREN /\ derives_first text fst src tgt /\
    crun CDone ((src, role, tgt) :: acc) (Some rp) r = CAccept trs rest.
Proof.
  intros text role src acc l ts trs rest Ht Hn H. destruct ts as [|t ts]; [discriminate|].
  rewrite crun_cons in H. cbn [cstep] in H.
  destruct (ty_in (tty t) [SYMBOL; STRING]) eqn:E.
  - apply target_tok_ty_in in E. apply rp_sound in H. destruct H as (rp & r & H1 & H2 & H3).
    subst ts. exists [t], rp, r, (Some (ttext t)). repeat split; auto.
    apply DF_comma_tgt; assumption.
  - destruct (tokty_eqb (tty t) RPAREN) eqn:E2; [|discriminate].
    apply tokty_eqb_eq in E2. exists [], t, ts, None. repeat split; auto.
    apply DF_comma_none; assumption.
Qed.

(* the same state is reached after a comma-less source and a lone comma token *)
Lemma opt_sound_sep : forall text role c acc l ts trs rest,
  no_comma text -> tty c = SYMBOL -> ttext c = [COMMA] ->
  crun (COpt role text) acc l ts = CAccept trs rest ->
  exists fst rp r tgt, c :: ts = fst ++ rp :: r /\ tty rp = RPAREN /\ derives_first text fst text tgt /\
    crun CDone ((text, role, tgt) :: acc) (Some rp) r = CAccept trs rest.
Proof.
  intros text role c acc l ts trs rest Hn Hc Hct H. destruct ts as [|t ts]; [discriminate|].
  rewrite crun_cons in H. cbn [cstep] in H.
  destruct (ty_in (tty t) [SYMBOL; STRING]) eqn:E.
  - apply target_tok_ty_in in E. apply rp_sound in H. destruct H as (rp & r & H1 & H2 & H3).
    subst ts. exists [c; t], rp, r, (Some (ttext t)). repeat split; auto.
    apply DF_sep_tgt; assumption.
  - destruct (tokty_eqb (tty t) RPAREN) eqn:E2; [|discriminate].
    apply tokty_eqb_eq in E2. exists [c], t, ts, None. repeat split; auto.
    apply DF_sep_none; assumption.
Qed.

Lemma after_sound : forall text role acc l ts trs rest,
  no_comma text ->
  crun (CAfter role text) acc l ts = CAccept trs rest ->
  exists fst rp r tgt, ts = fst ++ rp :: r /\ tty rp = RPAREN /\ derives_first text fst text tgt /\
    crun CDone ((text, role, tgt) :: acc) (Some rp) r = CAccept trs rest.
Proof.
  intros text role acc l ts trs rest Hn H. destruct ts as [|t ts]; [discriminate|].
  rewrite crun_cons in H. cbn [cstep] in H. unfold is_sym in H.
  destruct (tokty_eqb (tty t) SYMBOL) eqn:E.
  - apply tokty_eqb_eq in E.
    destruct (str_eqb (ttext t) [COMMA]) eqn:E2.
    + apply tp_str_eqb_iff in E2. eapply opt_sound_sep; eassumption.
    + destruct (startswith (ttext t) [COMMA]) eqn:E3; [|discriminate].
      apply startswith_1 in E3. destruct E3 as [r0 E3].
      apply rp_sound in H. destruct H as (rp & r & H1 & H2 & H3).
      subst ts. rewrite E3 in H3. cbn [skipn] in H3.
      exists [t], rp, r, (Some r0). repeat split; auto.
      apply DF_lead; auto. intro X. subst r0. rewrite E3 in E2. discriminate.
  - destruct (tokty_eqb (tty t) RPAREN) eqn:E2; [|discriminate].
    apply tokty_eqb_eq in E2. exists [], t, ts, None. repeat split; auto.
    apply DF_none; assumption.
Qed.

Lemma first_sound : forall role acc l ts trs rest,
  crun (CSym role) acc l ts = CAccept trs rest ->
  exists sym fst rp r src tgt, ts = sym :: fst ++ rp :: r /\ tty sym = SYMBOL /\
    derives_first (ttext sym) fst src tgt /\ tty rp = RPAREN /\
    crun CDone ((src, role, tgt) :: acc) (Some rp) r = CAccept trs rest.
Proof.
  intros role acc l ts trs rest H. destruct ts as [|sym ts]; [discriminate|].
  rewrite crun_cons in H. cbn [cstep] in H. unfold is_sym in H.
  destruct (tokty_eqb (tty sym) SYMBOL) eqn:E; [|discriminate]. apply tokty_eqb_eq in E.
  destruct (partition [COMMA] (ttext sym)) as [[src comma] rest0] eqn:P.
  apply partition_comma_inv in P.
  destruct rest0 as [|c0 rest0].
  - destruct comma.
    + destruct P as [(_ & Ht & Hn) | (X & _)]; [|discriminate].
      destruct (opt_sound _ _ _ _ _ _ _ _ Ht Hn H) as (fst & rp & r & tgt & H1 & H2 & H3 & H4).
      exists sym, fst, rp, r, src, tgt. subst ts. repeat split; auto.
    + destruct P as [(X & _) | (_ & _ & Hs & Hn)]; [discriminate|]. subst src.
      destruct (after_sound _ _ _ _ _ _ _ Hn H) as (fst & rp & r & tgt & H1 & H2 & H3 & H4).
      exists sym, fst, rp, r, (ttext sym), tgt. subst ts. repeat split; auto.
  - destruct P as [(_ & Ht & Hn) | (_ & X & _)]; [|discriminate].
    apply rp_sound in H. destruct H as (rp & r & H1 & H2 & H3).
    exists sym, [], rp, r, src, (Some (c0 :: rest0)). subst ts. repeat split; auto.
    apply DF_glued; auto. discriminate.
Qed.

Lemma lp_sound : forall strip rt role acc l ts trs rest,
  tty rt = SYMBOL -> role = role_of strip (ttext rt) ->
  crun (CLp role) acc l ts = CAccept trs rest ->
  exists tt tr r l', rt :: ts = tt ++ r /\ derives_triple strip tt tr /\
    crun CDone (tr :: acc) l' r = CAccept trs rest.
Proof.
  intros strip rt role acc l ts trs rest Hrt Hrole H. destruct ts as [|lp ts]; [discriminate|].
  rewrite crun_cons in H. cbn [cstep] in H.
  destruct (tokty_eqb (tty lp) LPAREN) eqn:E; [|discriminate]. apply tokty_eqb_eq in E.
  apply first_sound in H.
  destruct H as (sym & fst & rp & r & src & tgt & H1 & H2 & H3 & H4 & H5).
  exists (rt :: lp :: sym :: fst ++ [rp]), (src, role, tgt), r, (Some rp). subst ts role.
  split; [|split].
  - cbn [app]. rewrite <- app_assoc. reflexivity.
  - apply DT; assumption.
  - exact H5.
Qed.

Lemma triple_sound : forall strip acc l ts trs rest,
  crun (CRole strip) acc l ts = CAccept trs rest ->
  exists tt tr r l', ts = tt ++ r /\ derives_triple strip tt tr /\
    crun CDone (tr :: acc) l' r = CAccept trs rest.
Proof.
  intros strip acc l ts trs rest H. destruct ts as [|rt ts]; [discriminate|].
  rewrite crun_cons in H. cbn [cstep] in H. unfold is_sym in H.
  destruct (tokty_eqb (tty rt) SYMBOL) eqn:E; [|discriminate]. apply tokty_eqb_eq in E.
  eapply lp_sound; eauto.
Qed.

Lemma derives_triple_length : forall strip tt tr, derives_triple strip tt tr -> 4 <= length tt.
Proof.
  intros strip tt tr D. destruct D. simpl. rewrite app_length. simpl. lia.
Qed.

Lemma conj_from_length : forall strip pre trs, conj_from strip pre trs -> 4 <= length pre.
Proof.
  intros strip pre trs D.
  destruct D as [? ? ? Dt | ? ? ? ? ? ? Dt | ? ? ? ? ? ? Dt]; apply derives_triple_length in Dt;
    try rewrite app_length; lia.
Qed.

Theorem conj_sound : forall n strip acc l ts trs rest, length ts <= n ->
  crun (CRole strip) acc l ts = CAccept trs rest ->
  exists pre trs', ts = pre ++ rest /\ trs = rev acc ++ trs' /\ conj_from strip pre trs' /\ stops rest.
Proof.
  induction n as [|n IH]; intros strip acc l ts trs rest Hn H.
  { destruct ts; [discriminate | simpl in Hn; lia]. }
  apply triple_sound in H. destruct H as (tt & tr & r & l' & Hts & Dt & H).
  pose proof (derives_triple_length _ _ _ Dt) as Hlen.
  assert (Hr : length r < length ts) by (subst ts; rewrite app_length; lia).
  destruct r as [|t r].
  - simpl in H. inversion H; subst. exists tt, [tr]. repeat split; auto.
    apply CJ_last; assumption.
  - rewrite crun_cons in H. cbn [cstep] in H.
    destruct (is_sym t && startswith (ttext t) [CARET]) eqn:E.
    + pose proof (proj2 (caret_sym_b t) E) as Hcs.
      destruct (str_eqb (ttext t) [CARET]) eqn:E2.
      * apply tp_str_eqb_iff in E2.
        apply IH in H; [|simpl in Hr; lia].
        destruct H as (pre & trs' & H1 & H2 & H3 & H4).
        exists (tt ++ t :: pre), (tr :: trs'). subst. repeat split; auto.
        -- rewrite <- app_assoc. reflexivity.
        -- cbn [rev]. rewrite <- app_assoc. reflexivity.
        -- apply CJ_caret; auto. exact (proj1 Hcs).
      * assert (H' : crun (CRole true) (tr :: acc) l' (t :: r) = CAccept trs rest).
        { rewrite crun_cons. cbn [cstep]. rewrite (is_sym_true _ (proj1 Hcs)). exact H. }
        apply IH in H'; [|lia].
        destruct H' as (pre & trs' & H1 & H2 & H3 & H4).
        destruct pre as [|t' pre].
        { apply conj_from_length in H3. simpl in H3. lia. }
        cbn [app] in H1. injection H1 as Ht' Hr'. subst t' r.
        exists (tt ++ t :: pre), (tr :: trs'). subst. repeat split; auto.
        -- rewrite <- app_assoc. reflexivity.
        -- cbn [rev]. rewrite <- app_assoc. reflexivity.
        -- apply CJ_glued; auto. intro X. apply tp_str_eqb_iff in X. congruence.
    + inversion H; subst. exists tt, [tr]. repeat split; auto.
      * apply CJ_last; assumption.
      * simpl. intro X. apply caret_sym_b in X. congruence.
Qed.

(* ------------------------------------------------------------------------ *)
(** * Viable prefixes and the error position *)

(* the state after reading ALL of ts, when the run neither died nor stopped *)
Fixpoint cafter (m : cmode) (acc : list triple3) (ts : list token) : option (cmode * list triple3) :=
  match ts with
  | [] => Some (m, acc)
  | t :: r => match cstep m acc t with CNext m' acc' => cafter m' acc' r | _ => None end
  end.

Lemma crun_after : forall pre m acc m' acc' l x, cafter m acc pre = Some (m', acc') ->
  crun m acc l (pre ++ x) = crun m' acc' (match pre with [] => l | _ => last_opt pre end) x.
Proof.
  induction pre as [|t pre IH]; intros m acc m' acc' l x H; simpl in H.
  - inversion H; subst. reflexivity.
  - destruct (cstep m acc t) as [m1 acc1| |] eqn:E; try discriminate.
    cbn [app]. rewrite crun_cons, E. rewrite (IH _ _ _ _ (Some t) x H).
    destruct pre; reflexivity.
Qed.

Lemma crun_fail_split : forall ts m acc l t post, crun m acc l ts = CFail t post ->
  exists pre m' acc', ts = pre ++ t :: post /\ cafter m acc pre = Some (m', acc') /\
    cstep m' acc' t = CDead.
Proof.
  induction ts as [|x ts IH]; intros m acc l t post H.
  - simpl in H. destruct m; discriminate.
  - rewrite crun_cons in H. destruct (cstep m acc x) as [m1 acc1| |] eqn:E.
    + apply IH in H. destruct H as (pre & m' & acc' & H1 & H2 & H3).
      exists (x :: pre), m', acc'. simpl. rewrite E. subst. auto.
    + discriminate.
    + inversion H; subst. exists [], m, acc. auto.
Qed.

Lemma crun_end_after : forall ts m acc l last, crun m acc l ts = CEnd last ->
  (exists m' acc', cafter m acc ts = Some (m', acc')) /\
  last = match ts with [] => l | _ => last_opt ts end.
Proof.
  induction ts as [|x ts IH]; intros m acc l last H.
  - simpl in H. destruct m; inversion H; subst; split; eauto; simpl; eauto.
  - rewrite crun_cons in H. destruct (cstep m acc x) as [m1 acc1| |] eqn:E; try discriminate.
    apply IH in H. destruct H as [(m' & acc' & H1) H2]. split.
    + exists m', acc'. simpl. rewrite E. exact H1.
    + rewrite H2. destruct ts; reflexivity.
Qed.

Definition R0 : token := mkToken SYMBOL [114%N] 0 0.
Definition A0 : token := mkToken SYMBOL [97%N] 0 0.

(* from every live state some continuation completes a conjunction *)
Definition closer (m : cmode) : list token :=
  match m with
  | CRole _ => [R0; LP0; A0; RP0]
  | CLp _ => [LP0; A0; RP0]
  | CSym _ => [A0; RP0]
  | COpt _ _ | CAfter _ _ | CRp _ _ _ => [RP0]
  | CDone => []
  end.

Lemma closer_accepts : forall m acc l, exists trs, crun m acc l (closer m) = CAccept trs [].
Proof. intros m acc l. destruct m as [[]| | | | | |]; eexists; reflexivity. Qed.

Lemma live_viable : forall pre m acc, cafter (CRole false) [] pre = Some (m, acc) -> conj_viable pre.
Proof.
  intros pre m acc H.
  destruct (closer_accepts m acc (match pre with [] => None | _ => last_opt pre end)) as [trs E].
  rewrite <- (crun_after pre _ _ _ _ None (closer m) H) in E.
  apply (conj_sound _ _ _ _ _ _ _ (le_n _)) in E.
  destruct E as (pre' & trs' & H1 & _ & H3 & _). rewrite app_nil_r in H1. subst pre'.
  exists (closer m), trs'. exact H3.
Qed.

Lemma dead_not_viable : forall pre t m acc, cafter (CRole false) [] pre = Some (m, acc) ->
  cstep m acc t = CDead -> ~ conj_viable (pre ++ [t]).
Proof.
  intros pre t m acc H Hd [suffix [trs D]].
  pose proof (conj_complete _ _ _ D [] None [] I) as E.
  rewrite app_nil_r, <- app_assoc in E.
  rewrite (crun_after pre _ _ _ _ None _ H) in E.
  cbn [app] in E. rewrite crun_cons, Hd in E. discriminate.
Qed.

Lemma conj_viable_prefix : forall a b, conj_viable (a ++ b) -> conj_viable a.
Proof. intros a b [s [trs H]]. exists (b ++ s), trs. rewrite app_assoc. exact H. Qed.

(* ------------------------------------------------------------------------ *)
(** * The theorems of C07b *)

Definition triples_fuel (ts : list token) : nat := S (length ts).

Theorem triples_recognise : forall ts,
  parse_triples_loop (triples_fuel ts) (iter_of ts) false [] = cres_outcome (recognise_triples ts).
Proof. intro ts. apply loop_run. unfold triples_fuel. lia. Qed.

Theorem triples_sound : forall ts trs,
  parse_triples_loop (triples_fuel ts) (iter_of ts) false [] = Ok trs ->
  exists pre rest, ts = pre ++ rest /\ conj_derives pre trs /\ stops rest.
Proof.
  intros ts trs H. rewrite triples_recognise in H. unfold recognise_triples in H.
  destruct (crun (CRole false) [] None ts) as [trs0 rest|t post|last] eqn:E; simpl in H.
  - inversion H; subst trs0.
    apply (conj_sound _ _ _ _ _ _ _ (le_n _)) in E.
    destruct E as (pre & trs' & H1 & H2 & H3 & H4). simpl in H2. subst trs'.
    exists pre, rest. auto.
  - discriminate.
  - unfold err_end in H. simpl in H. destruct last; discriminate.
Qed.

Theorem triples_complete : forall pre rest trs,
  conj_derives pre trs -> stops rest ->
  parse_triples_loop (triples_fuel (pre ++ rest)) (iter_of (pre ++ rest)) false [] = Ok trs.
Proof.
  intros pre rest trs D Hs. rewrite triples_recognise. unfold recognise_triples.
  rewrite (conj_complete _ _ _ D [] None rest Hs). reflexivity.
Qed.

Theorem triples_accept_iff : forall ts trs,
  parse_triples_loop (triples_fuel ts) (iter_of ts) false [] = Ok trs <->
  exists pre rest, ts = pre ++ rest /\ conj_derives pre trs /\ stops rest.
Proof.
  intros ts trs. split.
  - apply triples_sound.
  - intros (pre & rest & H1 & H2 & H3). subst ts. apply triples_complete; assumption.
Qed.

Theorem conj_deterministic : forall pre1 trs1 rest1 pre2 trs2 rest2,
  conj_derives pre1 trs1 -> stops rest1 -> conj_derives pre2 trs2 -> stops rest2 ->
  pre1 ++ rest1 = pre2 ++ rest2 ->
  pre1 = pre2 /\ trs1 = trs2 /\ rest1 = rest2.
Proof.
  intros pre1 trs1 rest1 pre2 trs2 rest2 D1 S1 D2 S2 E.
  pose proof (conj_complete _ _ _ D1 [] None rest1 S1) as E1.
  pose proof (conj_complete _ _ _ D2 [] None rest2 S2) as E2.
  rewrite E in E1. rewrite E1 in E2. simpl in E2. inversion E2; subst.
  apply app_inv_tail in E. auto.
Qed.

Theorem triples_error_position : forall ts lo off,
  parse_triples_loop (triples_fuel ts) (iter_of ts) false [] = DecodeErr lo off ->
  (exists pre t post, ts = pre ++ t :: post /\ conj_viable pre /\ ~ conj_viable (pre ++ [t]) /\
                      (lo, off) = (tline t, toff t))
  \/ (conj_viable ts /\ (forall trs, ~ conj_derives ts trs) /\ (lo, off) = end_pos ts).
Proof.
  intros ts lo off H.
  assert (Hnd : forall trs, ~ conj_derives ts trs).
  { intros trs D. pose proof (triples_complete ts [] trs D I) as E.
    rewrite app_nil_r in E. rewrite E in H. discriminate. }
  rewrite triples_recognise in H. unfold recognise_triples in H.
  destruct (crun (CRole false) [] None ts) as [trs0 rest|t post|last] eqn:E; simpl in H.
  - discriminate.
  - left. apply crun_fail_split in E. destruct E as (pre & m' & acc' & H1 & H2 & H3).
    exists pre, t, post. repeat split; auto.
    + eapply live_viable; eassumption.
    + eapply dead_not_viable; eassumption.
    + unfold err_at in H. inversion H; reflexivity.
  - right. apply crun_end_after in E. destruct E as [(m' & acc' & Ha) Hl]. repeat split; auto.
    + eapply live_viable; eassumption.
    + unfold end_pos. unfold err_end in H. simpl in H.
      assert (Hl' : last = last_opt ts) by (rewrite Hl; destruct ts; reflexivity).
      rewrite <- Hl'. destruct last; inversion H; reflexivity.
Qed.

(* ---- lifted to strings: parse_triples s ---- *)

Theorem parse_triples_accept_iff : forall s trs,
  parse_triples s = Ok trs <->
  exists pre rest, lex_str TRIPLE_ALTS s = pre ++ rest /\ conj_derives pre trs /\ stops rest.
Proof. intros s trs. unfold parse_triples. apply triples_accept_iff. Qed.

Theorem parse_triples_error_position : forall s lo off,
  parse_triples s = DecodeErr lo off ->
  let ts := lex_str TRIPLE_ALTS s in
  (exists pre t post, ts = pre ++ t :: post /\ conj_viable pre /\ ~ conj_viable (pre ++ [t]) /\
                      (lo, off) = (tline t, toff t))
  \/ (conj_viable ts /\ (forall trs, ~ conj_derives ts trs) /\ (lo, off) = end_pos ts).
Proof. intros s lo off H. unfold parse_triples in H. apply triples_error_position. exact H. Qed.

(* ------------------------------------------------------------------------ *)
(** * Non-vacuity *)

(* role(a b) : tokens role ( a b ) ; the error is AT b (line 1, offset 7) *)
Definition ex_missing_comma : str := [114;111;108;101;40;97;32;98;41]%N.
Definition ex_mc_pre : list token :=
  [mkToken SYMBOL [114;111;108;101] 1 0; mkToken LPAREN [40] 1 4; mkToken SYMBOL [97] 1 5]%N.
Definition ex_mc_b : token := mkToken SYMBOL [98%N] 1 7.
Definition ex_mc_post : list token := [mkToken RPAREN [41%N] 1 8].

Lemma example_missing_comma :
  lex_str TRIPLE_ALTS ex_missing_comma = ex_mc_pre ++ ex_mc_b :: ex_mc_post /\
  parse_triples ex_missing_comma = DecodeErr (tline ex_mc_b) (toff ex_mc_b) /\
  conj_viable ex_mc_pre /\ ~ conj_viable (ex_mc_pre ++ [ex_mc_b]).
Proof.
  split; [vm_compute; reflexivity|]. split; [vm_compute; reflexivity|]. split.
  - eapply live_viable. vm_compute. reflexivity.
  - eapply dead_not_viable; vm_compute; reflexivity.
Qed.

(* role(a,  : input runs out; the error is at the END of the last token (offset 5 + 2) *)
Definition ex_runs_out : str := [114;111;108;101;40;97;44]%N.
Definition ex_ro_toks : list token :=
  [mkToken SYMBOL [114;111;108;101] 1 0; mkToken LPAREN [40] 1 4; mkToken SYMBOL [97;44] 1 5]%N.

Lemma example_runs_out :
  lex_str TRIPLE_ALTS ex_runs_out = ex_ro_toks /\
  parse_triples ex_runs_out = DecodeErr 1 7 /\
  end_pos ex_ro_toks = (1%N, 7%N) /\ conj_viable ex_ro_toks.
Proof.
  split; [vm_compute; reflexivity|]. split; [vm_compute; reflexivity|].
  split; [vm_compute; reflexivity|].
  eapply live_viable. vm_compute. reflexivity.
Qed.

(* a derivable conjunction using every separator and comma form:
   r(a,b) ^ s(c , d) ^t(e ,f)  followed by a token that ends it *)
Definition ex_conj_toks : list token :=
  [mkToken SYMBOL [114] 1 0; mkToken LPAREN [40] 1 1; mkToken SYMBOL [97;44;98] 1 2; mkToken RPAREN [41] 1 5;
   mkToken SYMBOL [94] 1 7;
   mkToken SYMBOL [115] 1 9; mkToken LPAREN [40] 1 10; mkToken SYMBOL [99] 1 11; mkToken SYMBOL [44] 1 13;
   mkToken STRING [34;100;34] 1 15; mkToken RPAREN [41] 1 18;
   mkToken SYMBOL [94;116] 1 20; mkToken LPAREN [40] 1 22; mkToken SYMBOL [101] 1 23;
   mkToken SYMBOL [44;102] 1 25; mkToken RPAREN [41] 1 27]%N.
Definition ex_conj_triples : list triple3 :=
  [([97], [58;114], Some [98]); ([99], [58;115], Some [34;100;34]); ([101], [58;116], Some [102])]%N.

Lemma example_conj_derivable :
  conj_derives ex_conj_toks ex_conj_triples /\
  parse_triples_loop (triples_fuel (ex_conj_toks ++ [RP0])) (iter_of (ex_conj_toks ++ [RP0])) false []
    = Ok ex_conj_triples.
Proof.
  assert (E : parse_triples_loop (triples_fuel (ex_conj_toks ++ [RP0])) (iter_of (ex_conj_toks ++ [RP0])) false []
    = Ok ex_conj_triples) by (vm_compute; reflexivity).
  split; [|exact E]. clear E.
  assert (D0 : parse_triples_loop (triples_fuel ex_conj_toks) (iter_of ex_conj_toks) false []
    = Ok ex_conj_triples) by (vm_compute; reflexivity).
  apply triples_sound in D0. destruct D0 as (pre0 & rest0 & G1 & G2 & G3).
  (* the split of ex_conj_toks itself leaves nothing: its last token is an RPAREN and a
     derivable conjunction followed by tokens would have stopped earlier *)
  pose proof (triples_complete pre0 rest0 _ G2 G3) as C. rewrite <- G1 in C.
  destruct rest0 as [|x rest0]; [rewrite app_nil_r in G1; subst pre0; exact G2|].
  exfalso.
  pose proof (conj_complete _ _ _ G2 [] None (x :: rest0) G3) as R. rewrite <- G1 in R.
  vm_compute in R. inversion R.
Qed.
