(** T2 for ARBITRARY epidata (C03, C05, C06): content preservation of
    [configure] when the marker lists also hold alignment markers.

    Proofs/Configure_content.v proves T2 (each triple placed exactly once) for
    every epidata at the level of the STORE; only its last step, reading the
    tree off the store, assumes [layout_only].  Here:

    Part 1  the placement theorem with the markers carried along: the multiset
            of (edge, markers) pairs of the store is the multiset of
            (triple as placed, non-layout markers of the triple) -- no
            hypothesis on the epidata ([configure_store_items]);
    Part 2  cutting the alignment suffixes off the configured tree
            ([strip_aln_role], [strip_aln_atom], [strip_aln_tree]) gives the tree
            built from the same store with every marker list erased;
    Part 3  T2 and the content theorem for arbitrary epidata, read through
            [strip_aln_tree]. *)
From PM Require Import Spec.GraphEq Spec.RoleAlgebra Impl.Configure Impl.Interpret
  Proofs.Interpret_lemmas Proofs.Configure_fast
  Proofs.Configure_term Proofs.Model_lemmas Proofs.Configure_content Proofs.Configure_complete.
From Coq Require Import Lia.

(* ------------------------------------------------------------------ *)
(** * Part 1: the store, read with its marker lists *)

Definition aitem := (triple * list epi)%type.

Definition cedge_aitem (st : store) (v : atom) (e : cedge) : aitem := (cedge_triple st v e, snd e).
Definition node_aitems (rd : store) (ve : atom * list cedge) : list aitem :=
  map (cedge_aitem rd (fst ve)) (snd ve).
Definition flat_aitems (rd st : store) : list aitem := flat_map (node_aitems rd) st.
Definition store_items (st : store) : list aitem := flat_aitems st st.

Lemma map_fst_node_items : forall rd ve, map fst (node_aitems rd ve) = node_triples rd ve.
Proof. intros rd ve. unfold node_aitems, node_triples. rewrite map_map. reflexivity. Qed.

Lemma map_fst_flat_items : forall rd st, map fst (flat_aitems rd st) = flat_triples rd st.
Proof.
  intros rd st. unfold flat_aitems, flat_triples. induction st as [|ve st IH]; [reflexivity|].
  cbn [flat_map]. rewrite map_app. f_equal; [apply map_fst_node_items|exact IH].
Qed.

Lemma map_fst_store_items : forall st, map fst (store_items st) = store_triples st.
Proof. intros st. apply map_fst_flat_items. Qed.

Lemma flat_items_ext : forall rd rd' st, ext rd rd' -> ids_lt (length rd) st ->
  flat_aitems rd' st = flat_aitems rd st.
Proof.
  intros rd rd' st X H. unfold flat_aitems.
  induction st as [|ve st IH]; simpl; [reflexivity|].
  rewrite IH.
  2:{ intros ve' e i I1 I2 E. eapply H; [right; exact I1|exact I2|exact E]. }
  f_equal. unfold node_aitems.
  apply map_ext_in. intros e Ie. unfold cedge_aitem, cedge_triple. f_equal. f_equal. f_equal.
  destruct (snd (fst e)) as [a|i] eqn:T; simpl; [reflexivity|].
  apply ext_var_at; [exact X|]. eapply H; [left; reflexivity|exact Ie|exact T].
Qed.

Lemma flat_items_app : forall rd a b, flat_aitems rd (a ++ b) = flat_aitems rd a ++ flat_aitems rd b.
Proof. intros. unfold flat_aitems. apply flat_map_app. Qed.

Lemma flat_items_split : forall rd l1 x l2,
  flat_aitems rd (l1 ++ x :: l2) = flat_aitems rd l1 ++ node_aitems rd x ++ flat_aitems rd l2.
Proof. intros. rewrite flat_items_app. reflexivity. Qed.

Lemma flat_items_rd_eq : forall rd rd' st, map fst rd = map fst rd' ->
  flat_aitems rd st = flat_aitems rd' st.
Proof.
  intros rd rd' st E.
  unfold flat_aitems, node_aitems, cedge_aitem, cedge_triple, ctgt_atom, node_var_at.
  rewrite E. reflexivity.
Qed.

Lemma ins_at_items : forall rd id ins st w es e, nth_error st id = Some (w, es) ->
  inserts e ins ->
  Permutation (flat_aitems rd (ins_at id ins st)) (cedge_aitem rd w e :: flat_aitems rd st).
Proof.
  intros rd id ins st w es e G I. unfold ins_at.
  destruct (upd_split _ _ (fun ve : atom * list cedge => (fst ve, ins (snd ve))) _ G)
    as (l1 & l2 & E1 & E2 & _).
  rewrite E2, E1. rewrite !flat_items_app. unfold flat_aitems at 2 4. simpl.
  apply Permutation_sym. eapply perm_trans; [apply Permutation_middle|].
  apply Permutation_app_head.
  change (cedge_aitem rd w e :: node_aitems rd (w, es) ++ flat_map (node_aitems rd) l2)
    with ((cedge_aitem rd w e :: node_aitems rd (w, es)) ++ flat_map (node_aitems rd) l2).
  apply Permutation_app_tail.
  unfold node_aitems. simpl.
  change (cedge_aitem rd w e :: map (cedge_aitem rd w) es) with (map (cedge_aitem rd w) (e :: es)).
  apply Permutation_map. apply Permutation_sym. apply I.
Qed.

Lemma store_items_ins : forall id ins st w es e, ids_lt (length st) st ->
  nth_error st id = Some (w, es) -> inserts e ins ->
  Permutation (store_items (ins_at id ins st)) (cedge_aitem st w e :: store_items st).
Proof.
  intros id ins st w es e IL G I. unfold store_items.
  rewrite (flat_items_rd_eq (ins_at id ins st) st) by apply ins_at_map_fst.
  eapply ins_at_items; eassumption.
Qed.

Lemma store_items_push : forall P st nm v, WF P st nm ->
  store_items (st ++ [(v, [])]) = store_items st.
Proof.
  intros P st nm v W. unfold store_items.
  rewrite flat_items_app. unfold flat_aitems at 2. simpl. rewrite app_nil_r.
  apply flat_items_ext; [exists [v]; rewrite map_app; reflexivity|].
  eapply WF_ids_lt; eassumption.
Qed.

(* ---- the data stack, with its marker lists ---- *)
Definition data_items (d : list datum) : list aitem :=
  flat_map (fun x => match x with DT t _ es => [(t, es)] | DPop => [] end) d.

Lemma data_items_app : forall a b, data_items (a ++ b) = data_items a ++ data_items b.
Proof. intros. apply flat_map_app. Qed.

Lemma data_items_drop_pops : forall d, data_items (drop_pops d) = data_items d.
Proof. induction d as [|[t p e|] d IH]; simpl; auto. Qed.

Lemma data_items_rev : forall d, Permutation (data_items (rev d)) (data_items d).
Proof. intros d. apply Permutation_flat_map. apply Permutation_sym, Permutation_rev. Qed.

Lemma map_fst_data_items : forall d, map fst (data_items d) = data_triples d.
Proof.
  induction d as [|[t p e|] d IH]; simpl; [reflexivity| |exact IH]. rewrite IH. reflexivity.
Qed.

(* the branch written for [t] together with the markers that travel with it *)
Definition written_i (o : triple) (es : list epi) : list aitem :=
  map (fun k => (k, es)) (written o).
Definition placed_as_i (m : model) (x : aitem) (ios : list aitem) : Prop :=
  exists o, (o = fst x \/ (o = invert m (fst x) /\ is_instance (fst x) = false)) /\
            ios = written_i o (snd x).

Definition Adds_i (m : model) (xs : list aitem) (st st' : store) : Prop :=
  exists ios, Forall2 (placed_as_i m) xs ios /\
              Permutation (store_items st') (concat ios ++ store_items st).

Lemma Adds_i_nil : forall m st st', Permutation (store_items st') (store_items st) -> Adds_i m [] st st'.
Proof. intros m st st' H. exists []. split; [constructor|exact H]. Qed.

Lemma Adds_i_app : forall m xs1 xs2 a b c,
  Adds_i m xs1 a b -> Adds_i m xs2 b c -> Adds_i m (xs1 ++ xs2) a c.
Proof.
  intros m xs1 xs2 a b c (os1 & F1 & P1) (os2 & F2 & P2).
  exists (os1 ++ os2). split; [apply Forall2_app; assumption|].
  rewrite concat_app.
  eapply perm_trans; [exact P2|].
  eapply perm_trans; [apply Permutation_app_head, P1|].
  rewrite !app_assoc. apply Permutation_app_tail. apply Permutation_app_comm.
Qed.

Lemma Adds_i_one : forall m x ios st st', placed_as_i m x ios ->
  Permutation (store_items st') (ios ++ store_items st) -> Adds_i m [x] st st'.
Proof.
  intros m x ios st st' H P. exists [ios]. split; [repeat constructor; exact H|].
  simpl. rewrite app_nil_r. exact P.
Qed.

Lemma Adds_i_perm : forall m xs xs' a b, Permutation xs xs' -> Adds_i m xs a b -> Adds_i m xs' a b.
Proof.
  intros m xs xs' a b P (os & F & Q).
  destruct (Forall2_perm_l _ _ _ _ F P) as (os' & Pos & F').
  exists os'. split; [exact F'|].
  eapply perm_trans; [exact Q|]. apply Permutation_app_tail. apply Permutation_concat. exact Pos.
Qed.

Lemma Adds_i_store_eq : forall m xs a a' b, store_items a' = store_items a ->
  Adds_i m xs a' b -> Adds_i m xs a b.
Proof. intros m xs a a' b E (os & F & Q). exists os. rewrite <- E. auto. Qed.

(* ---- one placement ---- *)
Lemma step_front_items : forall P st nm id w es0 var o ep,
  WF P st nm -> nth_error st id = Some (w, es0) -> atom_eqb var w = true ->
  atom_eqb (tsrc o) var = true -> is_instance o = true ->
  Permutation (store_items (add_edge_front id (SLASHS, CA (ttgt o), ep) st))
              ((edge_of o, ep) :: store_items st).
Proof.
  intros P st nm id w es0 var o ep W G Evw Esv Hi.
  rewrite add_edge_front_ins.
  pose proof (inserts_front (SLASHS, CA (ttgt o), ep)) as I.
  eapply perm_trans; [eapply store_items_ins; try eassumption; eapply WF_ids_lt; eassumption|].
  unfold cedge_aitem, cedge_triple, edge_of. simpl. rewrite Hi.
  rewrite <- (akey_eqb _ _ Evw), (akey_eqb _ _ Esv). apply Permutation_refl.
Qed.

Lemma step_end_ca_items : forall P st nm id w es0 var o ep,
  WF P st nm -> nth_error st id = Some (w, es0) -> atom_eqb var w = true ->
  atom_eqb (tsrc o) var = true -> is_instance o = false ->
  Permutation (store_items (add_edge_end id (trole o, CA (ttgt o), ep) st))
              ((edge_of o, ep) :: store_items st).
Proof.
  intros P st nm id w es0 var o ep W G Evw Esv Hi.
  rewrite add_edge_end_ins.
  pose proof (inserts_end (trole o, CA (ttgt o), ep)) as I.
  eapply perm_trans; [eapply store_items_ins; try eassumption; eapply WF_ids_lt; eassumption|].
  unfold cedge_aitem, cedge_triple, edge_of. simpl. rewrite Hi.
  rewrite <- (akey_eqb _ _ Evw), (akey_eqb _ _ Esv). apply Permutation_refl.
Qed.

Lemma step_attach_items : forall P st nm id w es0 var o ep cid st0,
  WF (cid :: P) st nm -> nth_error st id = Some (w, es0) -> atom_eqb var w = true ->
  atom_eqb (tsrc o) var = true -> is_instance o = false ->
  cid < length st0 -> ext st0 st -> node_var_at st0 cid = ttgt o ->
  Permutation (store_items (add_edge_end id (trole o, CN cid, ep) st))
              ((edge_of o, ep) :: store_items st).
Proof.
  intros P st nm id w es0 var o ep cid st0 W G Evw Esv Hi L2 X Hv.
  rewrite add_edge_end_ins.
  pose proof (inserts_end (trole o, CN cid, ep)) as I.
  eapply perm_trans; [eapply store_items_ins; try eassumption; eapply WF_ids_lt; eassumption|].
  unfold cedge_aitem, cedge_triple, edge_of. simpl. rewrite Hi.
  rewrite (ext_var_at _ _ _ X L2), Hv.
  rewrite <- (akey_eqb _ _ Evw), (akey_eqb _ _ Esv). apply Permutation_refl.
Qed.

(* ---- [site] re-targets one edge; its marker list stays on it ---- *)
Lemma site_items : forall P v st nm st1 nm1,
  WF P st nm -> site v st nm = (true, st1, nm1) -> store_items st1 = store_items st.
Proof.
  intros P v st nm st1 nm1 W. unfold site.
  destruct (dget atom_eqb v nm) as [[id|]|] eqn:D; try discriminate.
  destruct (nth_error st id) as [[v' es]|] eqn:G; try discriminate.
  destruct (atom_eqb v v') eqn:N; intro E; inversion E; subst; clear E; [reflexivity|].
  pose proof (wf_valid _ _ _ W _ _ D) as Lid.
  destruct (replace_first_spec v (length st) es (wf_ref _ _ _ W _ _ _ _ D G N))
    as (es1 & r & a & ep & es2 & Ees & Ea & Er & Erf).
  set (f := fun ve : atom * list cedge => (fst ve, replace_first v (length st) (snd ve))).
  destruct (upd_split _ _ f _ G) as (l1 & l2 & E1 & E2 & Ll1).
  assert (Mf : map fst (upd id f st) = map fst st) by (apply map_fst_upd; reflexivity).
  assert (X : ext st (upd id f st ++ [(v, [])])).
  { exists [v]. rewrite map_app, Mf. reflexivity. }
  unfold store_items.
  rewrite flat_items_app. unfold flat_aitems at 2. simpl. rewrite app_nil_r.
  pose proof (WF_ids_lt _ _ _ W) as IL.
  assert (IL1 : ids_lt (length st) l1).
  { intros ve e i I1 I2 T. eapply IL; [rewrite E1; apply in_or_app; left; exact I1|exact I2|exact T]. }
  assert (IL2 : ids_lt (length st) l2).
  { intros ve e i I1 I2 T. eapply IL; [rewrite E1; apply in_or_app; right; right; exact I1|exact I2|exact T]. }
  set (R := upd id f st ++ [(v, [])]) in *.
  replace (flat_aitems R (upd id f st)) with (flat_aitems R (l1 ++ f (v', es) :: l2))
    by (rewrite <- E2; reflexivity).
  replace (flat_aitems st st) with (flat_aitems st (l1 ++ (v', es) :: l2))
    by (rewrite <- E1; reflexivity).
  rewrite !flat_items_split.
  rewrite (flat_items_ext st R l1 X IL1), (flat_items_ext st R l2 X IL2).
  f_equal. f_equal.
  unfold f. unfold node_aitems. cbn [fst snd]. rewrite Erf, Ees. rewrite !map_app. cbn [map].
  assert (ILes : forall e i, In e es -> snd (fst e) = CN i -> i < length st).
  { intros e i Ie T. eapply IL; [rewrite E1; apply in_or_app; right; left; reflexivity|exact Ie|exact T]. }
  assert (RD : forall e, In e es -> cedge_aitem R v' e = cedge_aitem st v' e).
  { intros e Ie. unfold cedge_aitem, cedge_triple. f_equal. f_equal. f_equal.
    destruct (snd (fst e)) as [a0|i0] eqn:T; simpl; [reflexivity|].
    apply ext_var_at; [exact X|]. eapply ILes; eassumption. }
  fold R.
  f_equal; [apply map_ext_in; intros e Ie; apply RD; rewrite Ees; apply in_or_app; left; exact Ie|].
  f_equal; [|apply map_ext_in; intros e Ie; apply RD; rewrite Ees; apply in_or_app; right; right; exact Ie].
  unfold cedge_aitem, cedge_triple. simpl. f_equal. f_equal.
  unfold node_var_at, R. rewrite map_app, Mf. rewrite app_nth2 by (rewrite map_length; lia).
  rewrite map_length, Nat.sub_diag. simpl. symmetry. apply akey_eqb. exact Ea.
Qed.

Lemma guarded_site_items : forall P v st nm ok st1 nm1,
  WF P st nm ->
  (if dmem atom_eqb v nm then site v st nm else (false, st, nm)) = (ok, st1, nm1) ->
  store_items st1 = store_items st.
Proof.
  intros P v st nm ok st1 nm1 W E.
  destruct (dmem atom_eqb v nm).
  - destruct ok.
    + eapply site_items; eassumption.
    + apply site_false_same in E. destruct E as [-> _]. reflexivity.
  - inversion E; subst. reflexivity.
Qed.

Lemma find_next_items : forall data acc st nm sk var data1 st1 nm1 P,
  find_next data acc st nm = (sk, var, data1, st1, nm1) -> WF P st nm ->
  store_items st1 = store_items st.
Proof.
  induction data as [|d data IH]; intros acc st nm sk var data1 st1 nm1 P E W.
  - simpl in E. inversion E; subst. reflexivity.
  - destruct d as [t push es|].
    + cbn [find_next] in E.
      destruct (if dmem atom_eqb (tsrc t) nm then site (tsrc t) st nm else (false, st, nm))
        as [[ok1 sa] na] eqn:S1.
      pose proof (guarded_site_items _ _ _ _ _ _ _ W S1) as Ia.
      destruct ok1; [inversion E; subst; exact Ia|].
      destruct (if dmem atom_eqb (ttgt t) nm then site (ttgt t) st nm else (false, st, nm))
        as [[ok2 sb] nb] eqn:S2.
      pose proof (guarded_site_items _ _ _ _ _ _ _ W S2) as Ib.
      destruct ok2; [inversion E; subst; exact Ib|].
      destruct data as [|d' data']; [inversion E; subst; reflexivity|].
      eapply IH; eassumption.
    + cbn [find_next] in E.
      destruct data as [|d' data']; [inversion E; subst; reflexivity|].
      eapply IH; eassumption.
Qed.

(* ---- [cnode] = _configure_node, with the markers ---- *)
Lemma written_i_nil : forall o es, is_instance o && missing_concept (ttgt o) = true -> written_i o es = [].
Proof. intros o es H. unfold written_i, written. rewrite H. reflexivity. Qed.
Lemma written_i_one : forall o es, is_instance o && missing_concept (ttgt o) = false ->
  written_i o es = [(edge_of o, es)].
Proof. intros o es H. unfold written_i, written. rewrite H. reflexivity. Qed.

Lemma cnode_spec_i : forall f m var id surp data st nm P s' data' st' nm',
  cnode f m var id surp data st nm = Ok (s', data', st', nm') ->
  WF P st nm -> colon_ok (data_triples data) ->
  (exists w es, nth_error st id = Some (w, es) /\ atom_eqb var w = true) ->
  WF P st' nm' /\ ext st st' /\
  exists used, data = used ++ data' /\ Adds_i m (data_items used) st st'.
Proof.
  induction f as [|f IH]; intros m var id surp data st nm P s' data' st' nm' E W C N; [discriminate|].
  destruct data as [|d data0].
  { simpl in E. inversion E; subst. split; [exact W|]. split; [apply ext_refl|].
    exists []. split; [reflexivity|apply Adds_i_nil, Permutation_refl]. }
  destruct d as [t push es|].
  2:{ simpl in E. inversion E; subst. split; [exact W|]. split; [apply ext_refl|].
      exists [DPop]. split; [reflexivity|apply Adds_i_nil, Permutation_refl]. }
  simpl in C. apply colon_ok_cons in C. destruct C as [Ct C].
  destruct N as (w & es0 & G & Evw).
  assert (K : forall o surp1 st_a nm_a,
    (o = t \/ (o = invert m t /\ is_instance t = false)) ->
    cnode f m var id surp1 data0 st_a nm_a = Ok (s', data', st', nm') ->
    WF P st_a nm_a -> ext st st_a ->
    Permutation (store_items st_a) (written_i o es ++ store_items st) ->
    (exists es1, nth_error st_a id = Some (w, es1)) ->
    WF P st' nm' /\ ext st st' /\
    exists used, DT t push es :: data0 = used ++ data' /\ Adds_i m (data_items used) st st').
  { intros o surp1 st_a nm_a Ho E1 Wa Xa Pa [es1 Ga].
    destruct (IH _ _ _ _ _ _ _ _ _ _ _ _ E1 Wa C) as (W' & X' & used & Eu & Au); [eauto|].
    split; [exact W'|]. split; [eapply ext_trans; eassumption|].
    exists (DT t push es :: used). split; [rewrite Eu; reflexivity|].
    change (data_items (DT t push es :: used)) with ([(t, es)] ++ data_items used).
    eapply Adds_i_app; [|exact Au].
    eapply Adds_i_one; [exists o; split; [exact Ho|reflexivity]|exact Pa]. }
  cbn [cnode] in E.
  destruct (atom_eqb (tsrc t) var) eqn:Esv.
  - destruct (str_eqb (trole t) INSTANCE) eqn:Hi.
    + destruct (missing_concept (ttgt t)) eqn:Hm.
      * eapply (K t); [left; reflexivity|exact E|exact W|apply ext_refl| |eauto].
        rewrite written_i_nil by (unfold is_instance; rewrite Hi, Hm; reflexivity).
        apply Permutation_refl.
      * destruct (step_front P st nm id w es0 var t es W G Evw Esv Hi) as (Wa & Xa & _ & Ga).
        eapply (K t); [left; reflexivity|exact E|exact Wa|exact Xa| |exact Ga].
        rewrite written_i_one by (unfold is_instance; rewrite Hi, Hm; reflexivity).
        eapply step_front_items; eassumption.
    + destruct (push && negb (has_node (ttgt t) st nm)) eqn:Hp.
      * apply andb_true_iff in Hp. destruct Hp as [_ Hn]. apply negb_true_iff in Hn.
        destruct (cnode f m (ttgt t) (length st) false data0 (st ++ [(ttgt t, [])])
                    (dset atom_eqb (ttgt t) (Some (length st)) nm))
          as [[[[s2 data2] st2] nm2]| | | | | | | |] eqn:E1; try discriminate.
        pose proof (WF_push _ _ _ _ W Hn) as W1.
        assert (C1 : colon_ok (data_triples data0)) by exact C.
        assert (Lid : id < length st) by (apply nth_error_Some; congruence).
        destruct (IH _ _ _ _ _ _ _ _ _ _ _ _ E1 W1 C1) as (W2 & X2 & used1 & Eu1 & Au1).
        { exists (ttgt t), []. split; [|apply atom_eqb_refl].
          rewrite nth_error_app2 by lia. rewrite Nat.sub_diag. reflexivity. }
        assert (X1 : ext st (st ++ [(ttgt t, [])])) by (exists [ttgt t]; rewrite map_app; reflexivity).
        destruct (ext_nth _ _ _ _ _ (ext_trans _ _ _ X1 X2) G) as [es2 G2].
        assert (Hv : node_var_at (st ++ [(ttgt t, [])]) (length st) = ttgt t).
        { unfold node_var_at. rewrite map_app, app_nth2 by (rewrite map_length; lia).
          rewrite map_length, Nat.sub_diag. reflexivity. }
        assert (Lc : length st < length (st ++ [(ttgt t, @nil cedge)])) by (rewrite app_length; simpl; lia).
        destruct (step_attach P st2 nm2 id w es2 var t es (length st) (st ++ [(ttgt t, [])])
                    W2 G2 Evw Esv Hi Lid Lc X2 Hv) as (Wa & Xa & _ & [es3 Ga]).
        pose proof (step_attach_items P st2 nm2 id w es2 var t es (length st) (st ++ [(ttgt t, [])])
                    W2 G2 Evw Esv Hi Lc X2 Hv) as Pa.
        rewrite Eu1 in C1. rewrite data_triples_app in C1. apply colon_ok_app in C1. destruct C1 as [_ C2].
        destruct (IH _ _ _ _ _ _ _ _ _ _ _ _ E Wa C2) as (W' & X' & used2 & Eu2 & Au2); [eauto|].
        split; [exact W'|].
        split; [eapply ext_trans; [exact X1|]; eapply ext_trans; [exact X2|];
                eapply ext_trans; [exact Xa|exact X']|].
        exists (DT t push es :: used1 ++ used2).
        split; [rewrite Eu1, Eu2; simpl; rewrite <- app_assoc; reflexivity|].
        apply (Adds_i_perm m (data_items used1 ++ [(t, es)] ++ data_items used2)).
        { simpl. rewrite data_items_app. apply Permutation_sym, Permutation_middle. }
        eapply Adds_i_app; [eapply Adds_i_store_eq; [eapply store_items_push; exact W|exact Au1]|].
        eapply Adds_i_app; [|exact Au2].
        eapply Adds_i_one; [exists t; split; [left; reflexivity|reflexivity]|].
        cbn [fst snd]. rewrite written_i_one by (unfold is_instance; rewrite Hi; reflexivity).
        exact Pa.
      * destruct (step_end_ca P st nm id w es0 var t es W G Evw Esv Hi Ct) as (Wa & Xa & _ & Ga).
        eapply (K t); [left; reflexivity|exact E|exact Wa|exact Xa| |exact Ga].
        rewrite written_i_one by (unfold is_instance; rewrite Hi; reflexivity).
        eapply step_end_ca_items; eassumption.
  - destruct (atom_eqb (ttgt t) var && negb (str_eqb (trole t) INSTANCE)) eqn:Hinv.
    + apply andb_true_iff in Hinv. destruct Hinv as [Etv Hni]. apply negb_true_iff in Hni.
      assert (Hor : invert m t = t \/ (invert m t = invert m t /\ is_instance t = false))
        by (right; split; [reflexivity|exact Hni]).
      assert (Eso : atom_eqb (tsrc (invert m t)) var = true) by exact Etv.
      assert (Co : startswith (trole (invert m t)) [COLON] = true)
        by (apply colon_invert_role; exact Ct).
      destruct (str_eqb (trole (invert m t)) INSTANCE) eqn:Hi.
      * destruct (missing_concept (ttgt (invert m t))) eqn:Hm.
        -- eapply (K (invert m t)); [exact Hor|exact E|exact W|apply ext_refl| |eauto].
           rewrite written_i_nil by (unfold is_instance; rewrite Hi, Hm; reflexivity).
           apply Permutation_refl.
        -- destruct (step_front P st nm id w es0 var (invert m t) es W G Evw Eso Hi) as (Wa & Xa & _ & Ga).
           eapply (K (invert m t)); [exact Hor|exact E|exact Wa|exact Xa| |exact Ga].
           rewrite written_i_one by (unfold is_instance; rewrite Hi, Hm; reflexivity).
           eapply step_front_items; eassumption.
      * cbn [andb] in E.
        destruct (step_end_ca P st nm id w es0 var (invert m t) es W G Evw Eso Hi Co) as (Wa & Xa & _ & Ga).
        eapply (K (invert m t)); [exact Hor|exact E|exact Wa|exact Xa| |exact Ga].
        rewrite written_i_one by (unfold is_instance; rewrite Hi; reflexivity).
        eapply step_end_ca_items; eassumption.
    + inversion E; subst. split; [exact W|]. split; [apply ext_refl|].
      exists []. split; [reflexivity|apply Adds_i_nil, Permutation_refl].
Qed.

(* ---- [cloop] = the while loop of configure, with the markers ---- *)
Lemma cloop_spec_i : forall f m data skipped st nm st',
  cloop f m data skipped st nm = Ok st' ->
  WF [] st nm -> colon_ok (data_triples data) -> colon_ok (data_triples skipped) ->
  (exists nm', WF [] st' nm') /\ ext st st' /\
  Adds_i m (data_items data ++ data_items skipped) st st'.
Proof.
  induction f as [|f IH]; intros m data skipped st nm st' E W Cd Cs; [discriminate|].
  rewrite cloop_S in E.
  destruct data as [|d0 data0].
  { destruct skipped; [|discriminate]. inversion E; subst.
    split; [eauto|]. split; [apply ext_refl|]. apply Adds_i_nil, Permutation_refl. }
  remember (d0 :: data0) as data eqn:Hdata.
  destruct (find_next data [] st nm) as [[[[sk var] data1] st1] nm1] eqn:FN.
  destruct (find_next_content _ _ _ _ _ _ _ _ _ [] FN W) as (Esplit & W1 & X1 & _ & Hv).
  pose proof (find_next_items _ _ _ _ _ _ _ _ _ [] FN W) as T1.
  simpl in Esplit.
  cbv zeta in E.
  destruct var as [v|]; [|discriminate].
  destruct (Hv v eq_refl) as (id & w & es & D & G & Evw).
  assert (E' :
    (if Nat.eqb (length data1) 0 then LayoutErr 1
     else match dget atom_eqb v nm1 with
          | Some (Some id) =>
              r <- cnode (S (length data1)) m v id false data1 st1 nm1 ;;
              let '(surp, data2, st2, nm2) := r in
              if Nat.eqb (length data2) (length data1) && surp then
                match data2 with
                | d :: data3 => cloop f m (drop_pops data3) (d :: skipped ++ sk) st2 nm2
                | [] => Other 3
                end
              else if Nat.leb (length data1) (length data2) then LayoutErr 2
              else cloop f m (drop_pops (data2 ++ rev (skipped ++ sk))) [] st2 nm2
          | _ => Other 2
          end) = Ok st').
  { destruct v; [discriminate|exact E|exact E]. }
  clear E.
  destruct (Nat.eqb (length data1) 0); [discriminate|].
  rewrite D in E'.
  destruct (cnode (S (length data1)) m v id false data1 st1 nm1)
    as [[[[surp data2] st2] nm2]| | | | | | | |] eqn:EC; try discriminate.
  cbn [bind] in E'.
  assert (Pdata : Permutation (data_triples data) (data_triples sk ++ data_triples data1)).
  { rewrite <- Esplit, data_triples_app. apply Permutation_app_tail, data_triples_rev. }
  assert (Pitems : Permutation (data_items data) (data_items sk ++ data_items data1)).
  { rewrite <- Esplit, data_items_app. apply Permutation_app_tail, data_items_rev. }
  assert (Call : colon_ok (data_triples sk ++ data_triples data1)).
  { unfold colon_ok. eapply Permutation_Forall; [exact Pdata|exact Cd]. }
  apply colon_ok_app in Call. destruct Call as [Csk Cd1].
  destruct (cnode_spec_i _ _ _ _ _ _ _ _ [] _ _ _ _ EC W1 Cd1) as (W2 & X2 & used & Eu & Au); [eauto|].
  assert (Cd1' := Cd1). rewrite Eu, data_triples_app in Cd1'. apply colon_ok_app in Cd1'.
  destruct Cd1' as [_ Cd2].
  apply (Adds_i_store_eq _ _ _ _ _ T1) in Au.
  destruct (Nat.eqb (length data2) (length data1) && surp).
  - destruct data2 as [|d data3]; [discriminate|].
    assert (Cd3 : colon_ok (data_triples (drop_pops data3))).
    { rewrite data_triples_drop_pops.
      change (d :: data3) with ([d] ++ data3) in Cd2. rewrite data_triples_app in Cd2.
      apply colon_ok_app in Cd2. tauto. }
    assert (Cs' : colon_ok (data_triples (d :: skipped ++ sk))).
    { change (d :: skipped ++ sk) with ([d] ++ skipped ++ sk). rewrite !data_triples_app.
      change (d :: data3) with ([d] ++ data3) in Cd2. rewrite data_triples_app in Cd2.
      apply colon_ok_app in Cd2. destruct Cd2 as [Cdd _].
      apply colon_ok_app; split; [exact Cdd|]. apply colon_ok_app; split; assumption. }
    destruct (IH _ _ _ _ _ _ E' W2 Cd3 Cs') as (W' & X' & A').
    split; [exact W'|]. split; [eapply ext_trans; [exact X1|]; eapply ext_trans; eassumption|].
    eapply Adds_i_perm; [|eapply Adds_i_app; [exact Au|exact A']].
    rewrite data_items_drop_pops.
    change (d :: skipped ++ sk) with ([d] ++ skipped ++ sk). rewrite !data_items_app.
    apply Permutation_sym.
    eapply perm_trans; [apply Permutation_app_tail, Pitems|].
    rewrite Eu. change (d :: data3) with ([d] ++ data3). rewrite !data_items_app.
    psolve.
  - destruct (Nat.leb (length data1) (length data2)); [discriminate|].
    assert (Cd3 : colon_ok (data_triples (drop_pops (data2 ++ rev (skipped ++ sk))))).
    { rewrite data_triples_drop_pops, data_triples_app.
      apply colon_ok_app; split; [exact Cd2|].
      unfold colon_ok. eapply Permutation_Forall; [apply Permutation_sym, data_triples_rev|].
      rewrite data_triples_app. apply colon_ok_app; split; assumption. }
    destruct (IH _ _ _ _ _ _ E' W2 Cd3 (Forall_nil _)) as (W' & X' & A').
    split; [exact W'|]. split; [eapply ext_trans; [exact X1|]; eapply ext_trans; eassumption|].
    eapply Adds_i_perm; [|eapply Adds_i_app; [exact Au|exact A']].
    rewrite data_items_drop_pops, data_items_app. simpl. rewrite app_nil_r.
    apply Permutation_sym.
    eapply perm_trans; [apply Permutation_app_tail, Pitems|].
    eapply perm_trans; [|apply Permutation_app_head, Permutation_app_head, Permutation_sym, data_items_rev].
    rewrite Eu. rewrite !data_items_app.
    psolve.
Qed.

(* ---- [preconf] keeps exactly the non-layout markers, in order ---- *)
Definition keep_epis (es : list epi) : list epi := filter (fun e => negb (is_layout e)) es.

Lemma pstep_keep_all : forall m t es t0 push0 keep0 pops0 pushed0 t' push keep pops pushed,
  fold_left (pstep m t) es (t0, push0, keep0, pops0, pushed0) = (t', push, keep, pops, pushed) ->
  keep = keep0 ++ keep_epis es.
Proof.
  intros m t. induction es as [|e es IH]; intros t0 push0 keep0 pops0 pushed0 t' push keep pops pushed E.
  - simpl in E. inversion E; subst. unfold keep_epis. simpl. rewrite app_nil_r. reflexivity.
  - simpl in E. destruct e as [pv| |i p|i p].
    + unfold keep_epis. cbn [filter is_layout is_push is_pop orb negb]. fold (keep_epis es).
      destruct (mem atom_eqb pv pushed0); [eapply IH; eassumption|].
      destruct (negb (atom_eqb pv (tsrc t) || atom_eqb pv (ttgt t)) || str_eqb (trole t) INSTANCE);
        eapply IH; eassumption.
    + unfold keep_epis. cbn [filter is_layout is_push is_pop orb negb]. fold (keep_epis es).
      eapply IH; eassumption.
    + unfold keep_epis. cbn [filter is_layout is_push is_pop orb negb]. fold (keep_epis es).
      rewrite (IH _ _ _ _ _ _ _ _ _ _ E), <- app_assoc. reflexivity.
    + unfold keep_epis. cbn [filter is_layout is_push is_pop orb negb]. fold (keep_epis es).
      rewrite (IH _ _ _ _ _ _ _ _ _ _ E), <- app_assoc. reflexivity.
Qed.

Definition lookup_epis (ed : dict triple (list epi)) (t : triple) : list epi :=
  match dget triple_eqb t ed with Some l => l | None => [] end.

Definition pre_as_i (m : model) (ed : dict triple (list epi)) (x : triple) (it : aitem) : Prop :=
  pre_as m x (fst it) /\ snd it = keep_epis (lookup_epis ed x).

Lemma data_items_pops : forall n, data_items (repeat DPop n) = [].
Proof. induction n; simpl; auto. Qed.

Lemma preconf_items : forall m ts ed pushed,
  Forall2 (pre_as_i m ed) ts (data_items (preconf m ts ed pushed)).
Proof.
  intros m. induction ts as [|t ts IH]; intros ed pushed; [constructor|].
  simpl. fold (lookup_epis ed t).
  destruct (preconf_one m t (lookup_epis ed t) pushed) as [[[[t' push] keep] pops] pushed'] eqn:E.
  simpl. rewrite data_items_app, data_items_pops. simpl.
  constructor; [|apply IH].
  rewrite preconf_one_fold in E. split.
  - eapply pstep_orient; [exact E|left; reflexivity].
  - simpl. apply (pstep_keep_all _ _ _ _ _ _ _ _ _ _ _ _ _ E).
Qed.

(* ---- [configure]: every triple is placed once, with its non-layout markers ---- *)
Definition expressed_i (m : model) (g : graph) (x : triple) (ios : list aitem) : Prop :=
  exists t', pre_as m x t' /\ placed_as_i m (t', keep_epis (epis_of g x)) ios.

Lemma items_forget : forall m g x ios, expressed_i m g x ios -> expressed m x (map fst ios).
Proof.
  intros m g x ios (t' & Hpre & o & Ho & ->). exists t'. split; [exact Hpre|].
  exists o. split; [exact Ho|]. unfold written_i. rewrite map_map. simpl. rewrite map_id. reflexivity.
Qed.

Theorem configure_store_items : forall m g top t,
  configure m g top = Ok t -> triples g <> [] -> colon_ok (triples g) ->
  exists tp st nm,
    requested_top g top = Some tp /\
    t = mkTree (build (S (length st)) st 0) (gmeta g) /\
    WF [] st nm /\ node_var_at st 0 = tp /\
    exists ios, Forall2 (expressed_i m g) (triples g) ios /\
                Permutation (store_items st) (concat ios).
Proof.
  intros m g top t E NE C. unfold configure in E.
  destruct (triples g) as [|t0 ts] eqn:TS; [contradiction|]. rewrite <- TS in *. clear NE.
  fold (requested_top g top) in E.
  destruct (requested_top g top) as [tp|]; [|discriminate].
  destruct (negb (mem atom_eqb tp (variables g))); [discriminate|].
  cbv zeta in E.
  remember (dset atom_eqb tp (Some O) (map (fun v => (v, @None nat)) (variables g))) as nm0 eqn:Hnm0.
  remember (preconf m (triples g) (epidata g) []) as data0 eqn:Hd0.
  destruct (cnode (S (length data0)) m tp O false data0 [(tp, [])] nm0)
    as [[[[s1 data1] st1] nm1]| | | | | | | |] eqn:E1; try discriminate.
  cbn [bind] in E.
  destruct (cloop (configure_fuel (length data1)) m (drop_pops data1) [] st1 nm1)
    as [st2| | | | | | | |] eqn:E2; try discriminate.
  cbn [bind] in E. inversion E; subst t. clear E.
  pose proof (preconf_triples m (triples g) (epidata g) []) as Fpre. rewrite <- Hd0 in Fpre.
  pose proof (preconf_items m (triples g) (epidata g) []) as Fpi. rewrite <- Hd0 in Fpi.
  pose proof (pre_as_colon _ _ _ Fpre C) as C0.
  assert (W0 : WF [] [(tp, [])] nm0) by (rewrite Hnm0; apply WF_init).
  destruct (cnode_spec_i _ _ _ _ _ _ _ _ [] _ _ _ _ E1 W0 C0) as (W1 & X1 & used & Eu & A1).
  { exists tp, []. split; [reflexivity|apply atom_eqb_refl]. }
  assert (C1 : colon_ok (data_triples data1)).
  { rewrite Eu, data_triples_app in C0. apply colon_ok_app in C0. tauto. }
  destruct (cloop_spec_i _ _ _ _ _ _ _ E2 W1) as ([nm2 W2] & X2 & A2).
  { rewrite data_triples_drop_pops. exact C1. }
  { constructor. }
  exists tp, st2, nm2.
  split; [reflexivity|]. split; [reflexivity|]. split; [exact W2|].
  split.
  { rewrite (ext_var_at [(tp, [])] st2 0 (ext_trans _ _ _ X1 X2)) by (simpl; lia). reflexivity. }
  pose proof (Adds_i_app _ _ _ _ _ _ A1 A2) as A.
  rewrite data_items_drop_pops in A. simpl in A. rewrite app_nil_r, <- data_items_app, <- Eu in A.
  destruct A as (ios & Fos & Pos).
  exists ios. split.
  - pose proof (Forall2_compose _ _ _ _ _ Fpi Fos) as F.
    clear - F. induction F as [|x io xs ios (it & (Hp & Hk) & Hpl) F IH]; constructor; [|exact IH].
    exists (fst it). split; [exact Hp|].
    unfold epis_of. fold (lookup_epis (epidata g) x). rewrite <- Hk.
    destruct it as [t' k]. exact Hpl.
  - unfold store_items at 2 in Pos. unfold flat_aitems in Pos. simpl in Pos.
    rewrite app_nil_r in Pos. exact Pos.
Qed.

(* ------------------------------------------------------------------ *)
(** * Part 2: cutting the alignment suffixes off the configured tree *)

(* what [apply_epis] = _process_epigraph appends *)
Definition raln_text (ep : list epi) : str := concat (map epi_str (filter is_raln ep)).
Definition aln_text (ep : list epi) : str := concat (map epi_str (filter is_aln ep)).

Lemma aln_text_none : forall ep, existsb is_aln ep = false -> aln_text ep = [].
Proof.
  induction ep as [|e ep IH]; intros H; [reflexivity|].
  simpl in H. apply orb_false_iff in H. destruct H as [H1 H2].
  unfold aln_text. simpl. rewrite H1. apply IH. exact H2.
Qed.

Lemma apply_epis_node : forall ep r n, apply_epis r (TNode n) ep = (r ++ raln_text ep, TNode n).
Proof.
  unfold apply_epis. induction ep as [|e ep IH]; intros r n.
  - simpl. unfold raln_text. simpl. rewrite app_nil_r. reflexivity.
  - destruct e as [v| |i p|i p]; cbn [fold_left]; rewrite IH; unfold raln_text; cbn [filter is_raln map concat];
      try reflexivity.
    rewrite <- app_assoc. reflexivity.
Qed.

Lemma apply_epis_atom : forall ep r a,
  apply_epis r (TAtom a) ep =
  (r ++ raln_text ep,
   TAtom (if existsb is_aln ep then AStr (atom_str a ++ aln_text ep) else a)).
Proof.
  unfold apply_epis. induction ep as [|e ep IH]; intros r a.
  - simpl. unfold raln_text. simpl. rewrite app_nil_r. reflexivity.
  - destruct e as [v| |i p|i p]; cbn [fold_left]; rewrite IH; unfold raln_text, aln_text;
      cbn [filter is_raln is_aln map concat existsb orb]; try reflexivity.
    + fold (aln_text ep). destruct (existsb is_aln ep) eqn:X.
      * cbn [atom_str]. rewrite <- app_assoc. reflexivity.
      * rewrite (aln_text_none ep X), app_nil_r. reflexivity.
    + rewrite <- app_assoc. reflexivity.
Qed.

Lemma epigraph_text : forall ep r,
  (forall a, apply_epis r (TAtom a) ep =
     (r ++ raln_text ep, TAtom (if existsb is_aln ep then AStr (atom_str a ++ aln_text ep) else a))) /\
  (forall n, apply_epis r (TNode n) ep = (r ++ raln_text ep, TNode n)).
Proof. intros ep r. split; [intros a; apply apply_epis_atom|intros n; apply apply_epis_node]. Qed.

(* the cutting functions: a role and a Symbol are cut at the first tilde, a
   String lexeme after its closing dquote (exactly the cuts of [process_role]
   and [process_atomic], without parsing the suffix) *)
Definition strip_aln_role (r : str) : str := fst (fst (partition [TILDE] r)).
Definition strip_aln_atom (a : atom) : atom :=
  match a with
  | AStr s =>
      if negb (contains_char TILDE s) then a
      else if startswith s [QUOTE] then
        match rindex QUOTE s with Some i => AStr (firstn (S i) s) | None => a end
      else AStr (fst (fst (partition [TILDE] s)))
  | _ => a
  end.
Definition strip_aln_target (rec : node -> node) (t : target) : target :=
  match t with TAtom a => TAtom (strip_aln_atom a) | TNode n' => TNode (rec n') end.
Definition strip_aln_branch (rec : node -> node) (b : branch) : branch :=
  (strip_aln_role (fst b), strip_aln_target rec (snd b)).
Fixpoint strip_aln_node (n : node) : node :=
  match n with Node v bs => Node v (map (strip_aln_branch strip_aln_node) bs) end.
Definition strip_aln_tree (t : tree) : tree := mkTree (strip_aln_node (troot t)) (tmeta t).

(* they ARE the cuts of the reader: whenever [process_role] / [process_atomic]
   succeed, the text they return is the stripped text *)
Lemma process_role_strips : forall r r' ep, process_role r = Ok (r', ep) ->
  r' = if str_eqb r SLASHS then INSTANCE else strip_aln_role r.
Proof.
  intros r r' ep H. unfold process_role in H. destruct (str_eqb r SLASHS); [inversion H; reflexivity|].
  unfold strip_aln_role, partition in *.
  destruct (partition_at [TILDE] r) as [[a f] b] eqn:P.
  destruct (contains_char TILDE r) eqn:C.
  - destruct (aln_from_string b) as [[i p]| | | | | | | |]; try discriminate. inversion H. reflexivity.
  - inversion H; subst. destruct (partition_tilde_spec _ _ _ _ P) as [(_ & E & _)|(_ & E & _)].
    + subst r'. rewrite contains_app, contains_cons in C.
      replace (eqc TILDE TILDE) with true in C by reflexivity. rewrite orb_true_r in C. discriminate.
    + simpl. exact E.
Qed.

Lemma process_atomic_strips : forall a a' ep, process_atomic a = Ok (a', ep) -> a' = strip_aln_atom a.
Proof.
  intros [|s|t z] a' ep H; unfold process_atomic in H.
  - inversion H; reflexivity.
  - unfold strip_aln_atom. destruct (negb (contains_char TILDE s)); [inversion H; reflexivity|].
    destruct (startswith s [QUOTE]).
    + destruct (rindex QUOTE s) as [i|]; [|inversion H; reflexivity].
      destruct (Nat.ltb (S i) (length s)) eqn:L.
      * destruct (aln_from_string (skipn (S i) s)) as [[ix p]| | | | | | | |]; try discriminate.
        inversion H; reflexivity.
      * inversion H; subst. apply Nat.ltb_ge in L. rewrite firstn_all2 by exact L. reflexivity.
    + unfold partition in *. destruct (partition_at [TILDE] s) as [[b f] c].
      destruct (aln_from_string c) as [[ix p]| | | | | | | |]; try discriminate.
      inversion H; reflexivity.
  - destruct z; [inversion H; reflexivity|discriminate].
Qed.

Lemma strip_is_the_reader_cut :
  (forall r r' ep, process_role r = Ok (r', ep) ->
     r' = if str_eqb r SLASHS then INSTANCE else strip_aln_role r) /\
  (forall a a' ep, process_atomic a = Ok (a', ep) -> a' = strip_aln_atom a).
Proof. split; [exact process_role_strips|exact process_atomic_strips]. Qed.

(* ---- text lemmas ---- *)
Definition tilde_free (s : str) : Prop := contains_char TILDE s = false.

Lemma partition_tilde_free : forall s, tilde_free s -> partition_at [TILDE] s = (s, false, []).
Proof.
  induction s as [|c s IH]; intros H; [reflexivity|].
  unfold tilde_free in H. rewrite contains_cons in H. apply orb_false_iff in H. destruct H as [H1 H2].
  rewrite Configure_fast.partition_at_cons, H1, (IH H2). reflexivity.
Qed.

Lemma partition_tilde_cut : forall s rest, tilde_free s ->
  partition_at [TILDE] (s ++ TILDE :: rest) = (s, true, rest).
Proof.
  induction s as [|c s IH]; intros rest H.
  - simpl app. rewrite Configure_fast.partition_at_cons. replace (eqc TILDE TILDE) with true by reflexivity. reflexivity.
  - unfold tilde_free in H. rewrite contains_cons in H. apply orb_false_iff in H. destruct H as [H1 H2].
    simpl app. rewrite Configure_fast.partition_at_cons, H1, (IH rest H2). reflexivity.
Qed.

Lemma epi_texts_tilde : forall (p : epi -> bool) ep,
  concat (map epi_str (filter p ep)) = [] \/
  exists rest, concat (map epi_str (filter p ep)) = TILDE :: rest.
Proof.
  intros p. induction ep as [|e ep IH]; [left; reflexivity|].
  simpl. destruct (p e); [|exact IH].
  destruct e as [v| |i q|i q]; simpl; try exact IH; right; eexists; reflexivity.
Qed.

Lemma strip_role_decorated : forall r ep, tilde_free r -> strip_aln_role (r ++ raln_text ep) = r.
Proof.
  intros r ep H. unfold strip_aln_role, partition.
  destruct (epi_texts_tilde is_raln ep) as [E|[rest E]]; unfold raln_text; rewrite E.
  - rewrite app_nil_r, (partition_tilde_free r H). reflexivity.
  - rewrite (partition_tilde_cut r rest H). reflexivity.
Qed.

(* an atom that can carry an alignment: a text without tilde that does not
   start with a dquote (a Symbol), or a text that starts and ends with a dquote
   (a String lexeme; tildes inside are content) *)
Definition aln_host (a : atom) : Prop :=
  match a with
  | AStr s => (tilde_free s /\ startswith s [QUOTE] = false) \/
              (startswith s [QUOTE] = true /\ endswith s [QUOTE] = true)
  | _ => False
  end.

Lemma endswith_quote : forall s, endswith s [QUOTE] = true -> exists b, s = b ++ [QUOTE].
Proof.
  intros s H. unfold endswith in H. simpl rev in H.
  destruct (rev s) as [|c r] eqn:R; [discriminate|].
  cbn [startswith] in H. rewrite startswith_nil, andb_true_r in H. apply N.eqb_eq in H. subst c.
  exists (rev r). rewrite <- (rev_involutive s), R. reflexivity.
Qed.

Lemma startswith_app_l : forall s t c, startswith s [c] = true -> startswith (s ++ t) [c] = true.
Proof.
  intros [|d s] t c H; [discriminate|]. cbn [app startswith] in *.
  rewrite startswith_nil in *. exact H.
Qed.

Lemma strip_atom_quoted : forall s sfx, startswith s [QUOTE] = true -> endswith s [QUOTE] = true ->
  contains_char QUOTE sfx = false -> (sfx = [] \/ exists rest, sfx = TILDE :: rest) ->
  strip_aln_atom (AStr (s ++ sfx)) = AStr s.
Proof.
  intros s sfx Q1 Q2 NQ Hs. destruct (endswith_quote s Q2) as [b Eb].
  unfold strip_aln_atom. destruct (negb (contains_char TILDE (s ++ sfx))) eqn:C.
  - (* no tilde at all: then nothing was appended *)
    f_equal. destruct Hs as [->|[rest ->]]; [apply app_nil_r|].
    rewrite contains_app, contains_cons in C.
    replace (eqc TILDE TILDE) with true in C by reflexivity. rewrite orb_true_r in C. discriminate.
  - rewrite (startswith_app_l s sfx QUOTE Q1).
    unfold rindex. subst s. rewrite <- app_assoc. simpl app.
    rewrite rindex_aux_last by exact NQ. rewrite Nat.add_0_l.
    replace (S (length b)) with (length (b ++ [QUOTE])) by (rewrite app_length; simpl; lia).
    change (b ++ QUOTE :: sfx) with (b ++ [QUOTE] ++ sfx). rewrite app_assoc.
    rewrite firstn_exact. reflexivity.
Qed.

Lemma strip_atom_symbol : forall s sfx, tilde_free s -> startswith s [QUOTE] = false ->
  (sfx = [] \/ exists rest, sfx = TILDE :: rest) ->
  strip_aln_atom (AStr (s ++ sfx)) = AStr s.
Proof.
  intros s sfx H Q Hs. unfold strip_aln_atom. destruct Hs as [->|[rest ->]].
  - rewrite app_nil_r. unfold tilde_free in H. rewrite H. reflexivity.
  - rewrite contains_app, contains_cons.
    replace (eqc TILDE TILDE) with true by reflexivity. rewrite orb_true_r. cbn [negb].
    assert (Q' : startswith (s ++ TILDE :: rest) [QUOTE] = false).
    { destruct s as [|c s]; [reflexivity|]. cbn [app startswith] in *. rewrite startswith_nil in *. exact Q. }
    rewrite Q'. unfold partition. rewrite (partition_tilde_cut s rest H). reflexivity.
Qed.

Lemma strip_atom_host : forall a sfx, aln_host a -> contains_char QUOTE sfx = false ->
  (sfx = [] \/ exists rest, sfx = TILDE :: rest) ->
  strip_aln_atom (AStr (atom_str a ++ sfx)) = a.
Proof.
  intros [|s|t z] sfx H NQ Hs; try contradiction. simpl in H. cbn [atom_str].
  destruct H as [[H1 H2]|[H1 H2]].
  - apply strip_atom_symbol; assumption.
  - apply strip_atom_quoted; assumption.
Qed.

(* ---- erasing every marker list of the store ---- *)
Definition erase_edge (e : cedge) : cedge := (fst e, []).
Definition erase_node (ve : atom * list cedge) : atom * list cedge :=
  (fst ve, map erase_edge (snd ve)).
Definition erase (st : store) : store := map erase_node st.

Lemma erase_length : forall st, length (erase st) = length st.
Proof. intros. apply map_length. Qed.

Lemma erase_map_fst : forall st, map fst (erase st) = map fst st.
Proof. intros st. unfold erase. rewrite map_map. reflexivity. Qed.

Lemma nth_error_erase : forall st i,
  nth_error (erase st) i = option_map erase_node (nth_error st i).
Proof. intros st i. unfold erase. apply nth_error_map. Qed.

Lemma nth_error_erase_some : forall st i v es', nth_error (erase st) i = Some (v, es') ->
  exists es, nth_error st i = Some (v, es) /\ es' = map erase_edge es.
Proof.
  intros st i v es' H. rewrite nth_error_erase in H.
  destruct (nth_error st i) as [[w es]|]; [|discriminate]. simpl in H. inversion H; subst. eauto.
Qed.

Lemma cn_ids_erase : forall st, cn_ids (erase st) = cn_ids st.
Proof.
  intros st. unfold cn_ids, erase. induction st as [|[v es] st IH]; [reflexivity|].
  cbn [map flat_map]. rewrite IH. f_equal.
  unfold node_cns, erase_node. cbn [fst snd].
  induction es as [|e es IHe]; [reflexivity|]. cbn [map flat_map]. rewrite IHe. reflexivity.
Qed.

Lemma WF_erase : forall P st nm, WF P st nm -> WF P (erase st) nm.
Proof.
  intros P st nm W. constructor.
  - intros i v es E. apply nth_error_erase_some in E. destruct E as (es0 & E & _).
    eapply wf_own; eassumption.
  - intros v i D. rewrite erase_length. eapply wf_valid; eassumption.
  - intros v i w es D E N. apply nth_error_erase_some in E. destruct E as (es0 & E & ->).
    destruct (wf_ref _ _ _ W _ _ _ _ D E N) as (r & a & ep & I & A & R).
    exists r, a, []. split; [|auto].
    apply in_map_iff. exists (r, CA a, ep). split; [reflexivity|exact I].
  - intros j w es e i E Ie T. rewrite erase_length.
    apply nth_error_erase_some in E. destruct E as (es0 & E & ->).
    apply in_map_iff in Ie. destruct Ie as (e0 & <- & Ie0).
    eapply (wf_up _ _ _ W); [exact E|exact Ie0|exact T].
  - rewrite cn_ids_erase, erase_length. apply (wf_tree _ _ _ W).
  - rewrite erase_length. eapply wf_pos; eassumption.
Qed.

Lemma flat_triples_erase : forall rd st, flat_triples rd (erase st) = flat_triples rd st.
Proof.
  intros rd st. unfold flat_triples, erase.
  induction st as [|[v es] st IH]; [reflexivity|].
  cbn [map flat_map]. rewrite IH. f_equal.
  unfold node_triples, erase_node. cbn [fst snd]. rewrite map_map. reflexivity.
Qed.

Lemma store_triples_erase : forall st, store_triples (erase st) = store_triples st.
Proof.
  intros st. unfold store_triples.
  rewrite (flat_triples_rd_eq (erase st) st) by apply erase_map_fst.
  apply flat_triples_erase.
Qed.

Lemma eps_store_erase : forall st, eps_store (erase st).
Proof.
  intros st ve e Ive Ie. unfold erase in Ive. apply in_map_iff in Ive.
  destruct Ive as (ve0 & <- & _). unfold erase_node in Ie. cbn [snd] in Ie.
  apply in_map_iff in Ie. destruct Ie as (e0 & <- & _). reflexivity.
Qed.

(* ---- an edge whose decoration can be cut off again ---- *)
Definition edge_strippable (e : cedge) : Prop :=
  strip_aln_role (fst (fst e) ++ raln_text (snd e)) = fst (fst e) /\
  match snd (fst e) with
  | CA a => strip_aln_atom (if existsb is_aln (snd e) then AStr (atom_str a ++ aln_text (snd e)) else a) = a
  | CN _ => True
  end.
Definition strippable_store (st : store) : Prop :=
  forall ve e, In ve st -> In e (snd ve) -> edge_strippable e.

Lemma build_strip : forall st, strippable_store st ->
  forall f i, strip_aln_node (build f st i) = build f (erase st) i.
Proof.
  intros st HS. induction f as [|f' IH]; intros i; [reflexivity|].
  cbn [build]. rewrite nth_error_erase.
  destruct (nth_error st i) as [[v es]|] eqn:G; [|reflexivity].
  cbn [option_map erase_node fst snd strip_aln_node]. f_equal.
  rewrite !map_map. apply map_ext_in. intros [[r t] ep] Ie.
  destruct (HS (v, es) (r, t, ep) (nth_error_In _ _ G) Ie) as [Hr Ht]. cbn [fst snd] in Hr, Ht.
  cbn [erase_edge fst snd].
  destruct t as [a|j].
  - rewrite apply_epis_atom. unfold strip_aln_branch. cbn [fst snd strip_aln_target].
    rewrite Hr, Ht. reflexivity.
  - rewrite apply_epis_node. unfold strip_aln_branch. cbn [fst snd strip_aln_target].
    rewrite Hr, IH. reflexivity.
Qed.

Lemma strip_all_vars : forall n, node_all_vars (strip_aln_node n) = node_all_vars n.
Proof.
  induction n as [v bs IHbs] using node_ind'. cbn [strip_aln_node node_all_vars]. f_equal.
  induction IHbs as [|[r [a|n']] bs Hb F IH]; [reflexivity| |].
  - exact IH.
  - cbn [map flat_map]. rewrite IH. unfold branch_ok in Hb. simpl in Hb.
    unfold strip_aln_branch. cbn [snd strip_aln_target]. rewrite Hb. reflexivity.
Qed.

Lemma strip_node_var : forall n, node_var (strip_aln_node n) = node_var n.
Proof. intros [v bs]. reflexivity. Qed.

(* ------------------------------------------------------------------ *)
(** * Part 3: T2 for arbitrary epidata *)

(* The graphs on which an appended alignment can be cut off again:
   roles hold no tilde; sources and targets are unchanged by the cut; and a
   triple that carries an alignment of its target has [aln_host] ends (the
   source counts as well: the triple may be written inverted), the printed
   alignment holding no dquote. *)
Record aln_strippable (g : graph) : Prop := {
  as_roles : forall x, In x (triples g) -> tilde_free (trole x);
  as_atoms : forall x, In x (triples g) ->
     strip_aln_atom (tsrc x) = tsrc x /\ strip_aln_atom (ttgt x) = ttgt x;
  as_hosts : forall x e, In x (triples g) -> In e (epis_of g x) -> is_aln e = true ->
     aln_host (tsrc x) /\ aln_host (ttgt x) /\ contains_char QUOTE (epi_str e) = false
}.

Lemma contains_firstn : forall c n s, contains_char c s = false -> contains_char c (firstn n s) = false.
Proof.
  intros c n s H. rewrite <- (firstn_skipn n s), contains_app in H.
  apply orb_false_iff in H. tauto.
Qed.

Lemma tilde_free_invert : forall m r, tilde_free r -> tilde_free (invert_role m r).
Proof.
  intros m r H. unfold tilde_free, invert_role in *. destruct (is_role_inverted m r).
  - unfold drop_last. apply contains_firstn. exact H.
  - rewrite contains_app, H. reflexivity.
Qed.

Lemma akey_astr : forall a s, akey a = akey (AStr s) -> a = AStr s.
Proof. intros [|s'|t z] s H; simpl in H; try discriminate. exact H. Qed.

Lemma strip_akey : forall a b, akey a = akey b -> strip_aln_atom b = b -> strip_aln_atom a = a.
Proof.
  intros a [|s|t z] K H.
  - destruct a; try discriminate. reflexivity.
  - rewrite (akey_astr _ _ K). exact H.
  - destruct a; try discriminate. reflexivity.
Qed.

Lemma aln_text_keep : forall es, aln_text (keep_epis es) = aln_text es.
Proof.
  induction es as [|e es IH]; [reflexivity|].
  destruct e as [v| |i p|i p]; unfold aln_text, keep_epis in *; cbn [filter is_layout is_push is_pop orb negb is_aln map concat];
    try exact IH.
  - f_equal. exact IH.
Qed.

Lemma existsb_aln_keep : forall es, existsb is_aln (keep_epis es) = existsb is_aln es.
Proof.
  induction es as [|e es IH]; [reflexivity|].
  destruct e as [v| |i p|i p]; unfold keep_epis in *; cbn [filter is_layout is_push is_pop orb negb is_aln existsb];
    try exact IH. reflexivity.
Qed.

Lemma aln_text_noquote : forall es,
  (forall e, In e es -> is_aln e = true -> contains_char QUOTE (epi_str e) = false) ->
  contains_char QUOTE (aln_text es) = false.
Proof.
  induction es as [|e es IH]; intros H; [reflexivity|].
  unfold aln_text. cbn [filter]. destruct (is_aln e) eqn:A.
  - cbn [map concat]. rewrite contains_app, (H e (or_introl eq_refl) A). cbn [orb].
    apply IH. intros e' I'. apply H. right. exact I'.
  - apply IH. intros e' I'. apply H. right. exact I'.
Qed.

Lemma placed_orientation : forall m x t' o,
  pre_as m x t' -> (o = t' \/ (o = invert m t' /\ is_instance t' = false)) ->
  (trole o = trole x \/ trole o = invert_role m (trole x) \/
   trole o = invert_role m (invert_role m (trole x))) /\
  (ttgt o = ttgt x \/ ttgt o = tsrc x).
Proof.
  intros m x t' o Hpre Ho.
  destruct Hpre as [->|[-> _]]; destruct Ho as [->|[-> _]]; unfold invert, trole, ttgt, tsrc; simpl; auto.
Qed.

Lemma items_strippable : forall m g st ios, aln_strippable g ->
  Forall2 (expressed_i m g) (triples g) ios ->
  Permutation (store_items st) (concat ios) -> strippable_store st.
Proof.
  intros m g st ios AS F P ve e Ive Ie.
  assert (I : In (cedge_aitem st (fst ve) e) (store_items st)).
  { unfold store_items, flat_aitems. apply in_flat_map. exists ve. split; [exact Ive|].
    unfold node_aitems. apply in_map. exact Ie. }
  apply (Permutation_in _ P) in I. apply in_concat in I. destruct I as (iox & Iio & Iit).
  destruct (Forall2_in_r _ _ _ _ F Iio) as (x & Ix & t' & Hpre & o & Ho & Eio).
  cbn [fst snd] in Ho, Eio. subst iox.
  unfold written_i, written in Iit.
  destruct (is_instance o && missing_concept (ttgt o)); [contradiction|].
  destruct Iit as [Eit|[]].
  unfold cedge_aitem, cedge_triple, edge_of in Eit. inversion Eit as [[E1 E2 E3 E4]]. clear Eit.
  destruct (placed_orientation m x t' o Hpre Ho) as [Hrole Htgt].
  destruct e as [[r t] ep]. cbn [fst snd] in *.
  pose proof (as_roles g AS x Ix) as TF.
  split.
  - cbn [fst snd]. apply strip_role_decorated. rewrite <- E2.
    destruct (is_instance o); [reflexivity|].
    destruct Hrole as [-> | [-> | ->]]; [exact TF|apply tilde_free_invert; exact TF|].
    apply tilde_free_invert, tilde_free_invert. exact TF.
  - cbn [fst snd]. destruct t as [a|j]; [|exact Logic.I]. cbn [ctgt_atom] in E3.
    destruct (as_atoms g AS x Ix) as [Ss St].
    rewrite <- E4, existsb_aln_keep, aln_text_keep.
    destruct (existsb is_aln (epis_of g x)) eqn:X.
    + apply existsb_exists in X. destruct X as (e0 & Ie0 & Ae0).
      destruct (as_hosts g AS x e0 Ix Ie0 Ae0) as (Hs & Ht & _).
      assert (Hh : aln_host (ttgt o)) by (destruct Htgt as [Et|Et]; rewrite Et; assumption).
      assert (Ea : a = ttgt o).
      { destruct (ttgt o) as [|s|? ?]; try contradiction. apply akey_astr. symmetry. exact E3. }
      subst a.
      apply strip_atom_host; [exact Hh| |apply epi_texts_tilde].
      apply aln_text_noquote. intros e1 I1 A1. apply (as_hosts g AS x e1 Ix I1 A1).
    + apply (strip_akey a (ttgt o) (eq_sym E3)). destruct Htgt as [Et|Et]; rewrite Et; assumption.
Qed.

(** T2 for arbitrary epidata, at the level of the configured tree *)
Theorem configure_places_each_triple_once_aln : forall m g top t,
  configure m g top = Ok t -> triples g <> [] -> roles_have_colon g -> aln_strippable g ->
  exists tp,
    requested_top g top = Some tp /\ node_var (troot t) = tp /\
    NoDup (map akey (tree_node_vars t)) /\
    exists bss, Forall2 (expressed_as m) (triples g) bss /\
                Permutation (tree_triples (strip_aln_tree t)) (concat bss).
Proof.
  intros m g top t E NE C AS.
  destruct (configure_store_items m g top t E NE C)
    as (tp & st & nm & Htop & Ht & W & Hroot & ios & Fos & Pos).
  pose proof (items_strippable m g st ios AS Fos Pos) as HS.
  destruct (tree_of_store (erase st) nm (WF_erase _ _ _ W) (eps_store_erase st)) as (PT & PV & HV).
  rewrite erase_length in PT, PV, HV.
  rewrite <- (build_strip st HS) in PT, PV, HV.
  rewrite store_triples_erase in PT. rewrite erase_map_fst in PV.
  rewrite strip_all_vars in PV. rewrite strip_node_var in HV.
  exists tp. split; [exact Htop|]. subst t. unfold tree_triples, tree_node_vars, strip_aln_tree. cbn [troot].
  split.
  { rewrite HV. unfold node_var_at in *. rewrite erase_map_fst. exact Hroot. }
  split.
  - eapply Permutation_NoDup; [apply Permutation_sym, Permutation_map, PV|].
    eapply store_vars_nodup. exact W.
  - exists (map (map fst) ios). split.
    + clear - Fos. induction Fos; constructor; [|assumption].
      apply expressed_spec. eapply items_forget. eassumption.
    + eapply perm_trans; [exact PT|]. rewrite <- map_fst_store_items.
      eapply perm_trans; [apply Permutation_map, Pos|]. rewrite concat_map. apply Permutation_refl.
Qed.

(** ... read back: deinverting each stripped branch once gives exactly the
    written triples of the graph, each once *)
Theorem configure_content_deinverted_aln : forall m g top t,
  configure m g top = Ok t -> triples g <> [] -> roles_have_colon g -> aln_strippable g ->
  deinverts m = true -> roles_invertible m g ->
  Permutation (tree_content m (tree_triples (strip_aln_tree t))) (graph_content m g).
Proof.
  intros m g top t E NE C AS Hd Hr.
  destruct (configure_store_items m g top t E NE C)
    as (tp & st & nm & Htop & Ht & W & Hroot & ios & Fos & Pos).
  pose proof (items_strippable m g st ios AS Fos Pos) as HS.
  destruct (tree_of_store (erase st) nm (WF_erase _ _ _ W) (eps_store_erase st)) as (PT & _ & _).
  rewrite erase_length in PT. rewrite <- (build_strip st HS) in PT. rewrite store_triples_erase in PT.
  assert (F' : Forall2 (expressed m) (triples g) (map (map fst) ios)).
  { clear - Fos. induction Fos; constructor; [|assumption]. eapply items_forget. eassumption. }
  unfold graph_content.
  rewrite <- (expressed_all_content m (triples g) (map (map fst) ios) Hd).
  - unfold tree_content. apply Permutation_map.
    subst t. unfold tree_triples, strip_aln_tree. cbn [troot].
    eapply perm_trans; [exact PT|]. rewrite <- map_fst_store_items.
    eapply perm_trans; [apply Permutation_map, Pos|]. rewrite concat_map. apply Permutation_refl.
  - intros x Ix. unfold roles_have_colon in C. rewrite Forall_forall in C. apply C. exact Ix.
  - exact Hr.
  - exact F'.
Qed.

(** T2 + T3: for a well-formed connected graph carrying ANY markers -- Push / POP
    naming variables, alignments anywhere -- configure succeeds, roots the tree at
    the requested top, gives every variable at most one node, and the stripped
    branches deinvert to exactly the written triples of the graph *)
Theorem configure_total_and_faithful_aln : forall m g top tp,
  wf_graph m g -> requested_top g top = Some tp -> connected g tp ->
  aln_strippable g -> pushes_name_variables g -> deinverts m = true ->
  exists t, configure m g top = Ok t /\
    node_var (troot t) = tp /\
    NoDup (map akey (tree_node_vars t)) /\
    Permutation (tree_content m (tree_triples (strip_aln_tree t))) (graph_content m g).
Proof.
  intros m g top tp WFg Htop Hconn AS Hpush Hd.
  destruct (configure_complete m g top tp Htop Hconn (wf_named _ _ WFg) (wf_invertible _ _ WFg)
              (wf_roles _ _ WFg) Hpush) as [t E].
  exists t. split; [exact E|].
  destruct (configure_places_each_triple_once_aln m g top t E (wf_nonempty _ _ WFg) (wf_roles _ _ WFg) AS)
    as (tp' & Htop' & Hroot & Hnd & _).
  rewrite Htop in Htop'. injection Htop' as Heq. subst tp'.
  split; [exact Hroot|]. split; [exact Hnd|].
  apply (configure_content_deinverted_aln m g top t E (wf_nonempty _ _ WFg) (wf_roles _ _ WFg) AS Hd
           (wf_invertible _ _ WFg)).
Qed.

(* a graph without alignment markers on which the cut changes nothing satisfies
   [aln_strippable]: the old theorems are instances *)
Lemma layout_only_strippable : forall g, layout_only g ->
  (forall x, In x (triples g) -> tilde_free (trole x)) ->
  (forall x, In x (triples g) -> strip_aln_atom (tsrc x) = tsrc x /\ strip_aln_atom (ttgt x) = ttgt x) ->
  aln_strippable g.
Proof.
  intros g LO H1 H2. constructor; [exact H1|exact H2|].
  intros x e Ix Ie Ae. exfalso. unfold epis_of in Ie.
  destruct (dget triple_eqb x (epidata g)) as [l|] eqn:D; [|contradiction].
  destruct (dget_In _ _ _ _ D) as [k' Ik]. pose proof (LO _ _ Ik) as L.
  rewrite forallb_forall in L. specialize (L e Ie). destruct e; discriminate.
Qed.

(* ------------------------------------------------------------------ *)
(** * Worked example: the graph of
      (a / x~1 :ARG0~e.2 (b / y) :mod [s]~3 :ARG1-of b~e4,5)   with [s] a String *)

Require Import Coq.Strings.String.

Definition aln_graph : graph :=
  mkGraph [tr "a" ":instance" "x"; tr "a" ":ARG0" "b"; tr "b" ":instance" "y";
           tr "a" ":mod" """s"""; tr "b" ":ARG1" "a"]
    None
    [(tr "a" ":instance" "x", [Aln [1%N] None]);
     (tr "a" ":ARG0" "b", [RAln [2%N] (Some (s2l "e.")); Push (sym "b")]);
     (tr "b" ":instance" "y", [Pop]);
     (tr "a" ":mod" """s""", [Aln [3%N] None]);
     (tr "b" ":ARG1" "a", [Aln [4%N; 5%N] (Some (s2l "e"))])] [].

Example aln_graph_strippable : aln_strippable aln_graph.
Proof.
  constructor.
  - intros x H. simpl in H. repeat (destruct H as [H|H]; [subst x; reflexivity|]). contradiction.
  - intros x H. simpl in H. repeat (destruct H as [H|H]; [subst x; split; reflexivity|]). contradiction.
  - intros x e H Ie Ae. simpl in H.
    repeat (destruct H as [H|H];
      [subst x; vm_compute in Ie;
       repeat (destruct Ie as [Ie|Ie]; [subst e; try discriminate Ae;
         (split; [|split]; [vm_compute; auto|vm_compute; auto|reflexivity])|]);
       try contradiction|]).
    contradiction.
Qed.

Example aln_graph_hypotheses :
  triples aln_graph <> [] /\ roles_have_colon aln_graph /\ aln_strippable aln_graph /\
  ~ layout_only aln_graph /\
  deinverts default_model = true /\ roles_invertible default_model aln_graph.
Proof.
  split; [discriminate|]. split; [repeat constructor|]. split; [exact aln_graph_strippable|].
  split.
  - intros LO. specialize (LO (tr "a" ":instance" "x") [Aln [1%N] None]). simpl in LO.
    assert (F : false = true) by (apply LO; left; reflexivity). discriminate.
  - split; [reflexivity|]. intros t H Hi. simpl in H.
    repeat (destruct H as [H|H]; [subst t; try discriminate Hi; vm_compute; auto|]). contradiction.
Qed.

Example aln_graph_configured :
  exists t, configure default_model aln_graph (Some (sym "b")) = Ok t /\
    format (Some 2%Z) false t =
    s2l "(b / y
  :ARG0-of~e.2 (a / x~1
    :mod ""s""~3
    :ARG1-of b~e4,5))" /\
    tree_triples (strip_aln_tree t) =
      [(sym "b", SLASHS, sym "y"); (sym "b", s2l ":ARG0-of", sym "a"); (sym "a", SLASHS, sym "x");
       (sym "a", s2l ":mod", sym """s"""); (sym "a", s2l ":ARG1-of", sym "b")].
Proof. eexists. split; [vm_compute; reflexivity|]. split; vm_compute; reflexivity. Qed.
