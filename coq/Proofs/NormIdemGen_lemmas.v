(** The general idempotence certificate: reify / dereify options together with
    --rearrange and --make-variables (no --canonicalize-roles).  Composition of
    [pipeline_strip] (Proofs/NormIdem_lemmas.v) with the per-tree fixed points of
    Properties/C20b.v: what the first pass writes, t1, is what the command WITHOUT
    the reify options makes of the layout output t0, so the C20b theorems say the
    stripped command maps t1 to its own text; and since t1 leaves the reify options
    nothing to do, the full command behaves as the stripped one on t1. *)
From PM Require Import Spec.Pipeline Spec.WellFormed Spec.WfLayout Spec.Idle.
From PM Require Import Proofs.Cli_lemmas Proofs.CliIdem_lemmas Proofs.Configure_fast
  Proofs.Model_lemmas Proofs.NormIdem_lemmas Proofs.IdleGen.

(* ------------------------------------------------------------------ *)
(** * A tree without empty concept slots is left alone by drop_empty_concepts *)

Lemma concepts_written_eq : forall v bs,
  concepts_written (Node v bs) =
  match bs with
  | (r, TAtom a) :: _ => negb (str_eqb r SLASHS && missing_concept a)
  | _ => true
  end &&
  forallb (fun b : branch => match snd b with TNode n => concepts_written n | TAtom _ => true end) bs.
Proof.
  intros v bs. simpl. f_equal.
  induction bs as [|[r [a|n]] bs IH]; [reflexivity| |]; simpl; rewrite <- IH; reflexivity.
Qed.

Lemma concepts_written_fixed : forall n, concepts_written n = true -> dec_node n = n.
Proof.
  induction n as [v bs IHbs] using node_ind'. intros H.
  rewrite concepts_written_eq in H. apply andb_true_iff in H. destruct H as [H1 H2].
  assert (M : forall l, Forall (branch_ok (fun n => concepts_written n = true -> dec_node n = n)) l ->
                        forallb (fun b : branch => match snd b with TNode n => concepts_written n | TAtom _ => true end) l = true ->
                        map dec_branch l = l).
  { induction l as [|[r tgt] l IH]; intros Fl Hl; [reflexivity|].
    inversion Fl as [|? ? Hb Hl']. subst. simpl in Hl. apply andb_true_iff in Hl. destruct Hl as [Ht Hr].
    simpl. rewrite (IH Hl' Hr). unfold dec_branch. simpl.
    destruct tgt as [a|n0]; [reflexivity|]. unfold branch_ok in Hb. simpl in Hb. rewrite (Hb Ht). reflexivity. }
  rewrite dec_node_eq. destruct bs as [|[r [a|n']] bs'].
  - reflexivity.
  - apply negb_true_iff in H1. rewrite H1. rewrite (M _ IHbs H2). reflexivity.
  - rewrite (M _ IHbs H2). reflexivity.
Qed.

Lemma concepts_written_tree : forall t, concepts_written (troot t) = true -> drop_empty_concepts t = t.
Proof.
  intros [root meta] H. unfold drop_empty_concepts. simpl in *. rewrite (concepts_written_fixed root H). reflexivity.
Qed.

(* ------------------------------------------------------------------ *)
(** * What is written is the rearranged, relabelled layout output *)

Lemma rearrange_stage_RA : forall o t, rearrange_stage o t = Ok (RA o t).
Proof. intros o t. unfold rearrange_stage, RA, pure_stage. destruct (given (o_rearrange o)); reflexivity. Qed.

Lemma pre_format_after_layout : forall o t t0, layout_tree_of o t = Ok t0 ->
  pre_format o t = relabel o (RA o t0).
Proof.
  intros o t t0 H. unfold layout_tree_of, pre_format, Pipeline.seq in *.
  destruct (normalise o t) as [g| | | | | | | |]; simpl in *; try discriminate.
  destruct (annotate o g) as [g'| | | | | | | |]; simpl in *; try discriminate.
  rewrite H. simpl. rewrite rearrange_stage_RA. reflexivity.
Qed.

(* ------------------------------------------------------------------ *)
(** * The per-tree fixed point *)

Theorem general_tree_fixed : forall o t, tree_opts_only (strip_reify o) = true ->
  general_idle o t = true ->
  exists t1, pre_format o t = Ok t1 /\ wf_tree t1 = true /\
             pipeline o t1 = Ok (format (o_indent o) (o_compact o) t1).
Proof.
  intros o t P H. unfold general_idle in H.
  destruct (layout_tree_of o t) as [t0| | | | | | | |] eqn:L; try discriminate.
  apply andb_true_iff in H. destruct H as [H H5].
  apply andb_true_iff in H. destruct H as [H RC].
  apply andb_true_iff in H. destruct H as [H CW].
  apply andb_true_iff in H. destruct H as [Wt0 Wl0].
  pose proof (concepts_written_tree t0 CW) as D0.
  pose proof (pre_format_after_layout o t t0 L) as PF.
  set (o' := strip_reify o) in *.
  destruct (tree_opts_fields o' P) as [Fc [_ [_ [_ [_ [_ [Tr Ck]]]]]]].
  assert (Fc0 : o_canonicalize_roles o = false) by exact Fc.
  (* the stripped command on the layout output *)
  assert (X : exists t1, relabel o (RA o t0) = Ok t1 /\ wf_tree t1 = true /\
                         pipeline o' t1 = Ok (format (o_indent o) (o_compact o) t1)).
  { unfold relabel_certified in RC.
    destruct (o_make_variables o) as [[|p ps]|] eqn:MV.
    - (* empty format: no relabelling *)
      assert (NR : no_relabel o' = true) by (unfold no_relabel; change (o_make_variables o') with (o_make_variables o); rewrite MV; reflexivity).
      assert (RO : rearrange_only o' = true) by (unfold rearrange_only; rewrite P, NR; reflexivity).
      destruct (rearrange_tree_fixed o' t0 RO Wt0 Wl0) as (Q1 & Q2 & _ & Q3).
      rewrite D0 in Q1, Q2, Q3. exists (RA o' t0). split; [|split; [exact Q2 | exact Q3]].
      unfold relabel. rewrite MV. reflexivity.
    - apply andb_true_iff in RC. destruct RC as [U RO].
      assert (MV' : o_make_variables o' = Some (p :: ps)) by exact MV.
      assert (RO' : cli_relabel_ok o' (p :: ps) (RA o' (drop_empty_concepts t0)) = true) by (rewrite D0; exact RO).
      destruct (rearrange_relabel_tree_fixed o' (p :: ps) t0 P MV' U Wt0 Wl0 RO') as (Q1 & Q2 & _ & Q3).
      rewrite D0 in Q1, Q2, Q3.
      exists (cli_relabelled o' (p :: ps) (RA o' t0)). split; [|split; [exact Q2 | exact Q3]].
      rewrite (tree_opts_pre_format o' t0 P Wl0), D0 in Q1. exact Q1.
    - assert (NR : no_relabel o' = true) by (unfold no_relabel; change (o_make_variables o') with (o_make_variables o); rewrite MV; reflexivity).
      assert (RO : rearrange_only o' = true) by (unfold rearrange_only; rewrite P, NR; reflexivity).
      destruct (rearrange_tree_fixed o' t0 RO Wt0 Wl0) as (Q1 & Q2 & _ & Q3).
      rewrite D0 in Q1, Q2, Q3. exists (RA o' t0). split; [|split; [exact Q2 | exact Q3]].
      unfold relabel. rewrite MV. reflexivity. }
  destruct X as (t1 & R1 & Wt1 & Q).
  rewrite R1 in PF. rewrite PF in H5.
  apply andb_true_iff in H5. destruct H5 as [RV I].
  destruct (interpret (o_model o) t1) as [g1| | | | | | | |] eqn:E; try discriminate.
  exists t1. split; [exact PF|]. split; [exact Wt1|].
  assert (NV : node_var (troot t1) <> ANone).
  { unfold root_has_var in RV. intro Y. rewrite Y in RV. discriminate. }
  assert (EG : entering_graph o t1 = Ok g1).
  { unfold entering_graph, Pipeline.seq, canonicalise, Pipeline.when, interpret_stage. rewrite Fc0. simpl. exact E. }
  rewrite (pipeline_strip o t1 g1 EG (interpret_closed _ _ _ E NV) I). exact Q.
Qed.

(* the stream, status included *)
Theorem general_idempotent : forall o s out code, general_certificate o s = true ->
  run o [] s = Ok (out, code) -> run o [] out = Ok (out, code).
Proof.
  intros o s out code H R. unfold general_certificate in H.
  apply andb_true_iff in H. destruct H as [P F].
  destruct (tree_opts_fields _ P) as [_ [_ [_ [_ [_ [_ [Tr Ck]]]]]]].
  apply (stream_idempotent_from_trees o s out code Tr Ck); [|exact R].
  rewrite forallb_forall in F. apply Forall_forall. intros t I.
  exact (general_tree_fixed o t P (F t I)).
Qed.

Theorem any_certificate_sound : forall o s out code, any_certificate o s = true ->
  run o [] s = Ok (out, code) -> run o [] out = Ok (out, code).
Proof.
  intros o s out code H R. unfold any_certificate in H. apply orb_true_iff in H.
  destruct H as [H|H]; [exact (certificate_sound o s out code H R) | exact (general_idempotent o s out code H R)].
Qed.
