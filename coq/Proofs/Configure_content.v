(** T2 -- content preservation of [configure] (C03, C05, C06).

    Whenever [configure m g top = Ok t]:
    the multiset of branches of [t] is the multiset of [triples g], each
    triple expressed exactly once, as written or inverted (instance triples
    with a falsy concept are not written); the root is the requested top; no
    variable owns two nodes.  No hypothesis on the markers: the epidata of [g]
    is arbitrary.  The only hypothesis on [g] is that roles carry their colon
    (which the Graph constructor guarantees, [mk_graph_roles_colon]). *)
From PM Require Import Spec.GraphEq Spec.RoleAlgebra Impl.Configure Proofs.Configure_term Proofs.Model_lemmas.
From Coq Require Import Lia.

(* ------------------------------------------------------------------ *)
(** * Generic list facts *)

Lemma Forall2_perm_l : forall {A B} (R : A -> B -> Prop) l l' l2,
  Forall2 R l l' -> Permutation l l2 ->
  exists l2', Permutation l' l2' /\ Forall2 R l2 l2'.
Proof.
  intros A B R l l' l2 F P. revert l' F.
  induction P as [|x l l2 P IH|x y l|l l1 l2 P1 IH1 P2 IH2]; intros l' F.
  - inversion F; subst. exists []. split; constructor.
  - inversion F as [|? y ? l'' Rxy F']; subst.
    destruct (IH _ F') as (l2' & P' & F2). exists (y :: l2'). split; constructor; assumption.
  - inversion F as [|? a ? l'' Ra F']; subst. inversion F' as [|? b ? l3 Rb F'']; subst.
    exists (b :: a :: l3). split; [apply perm_swap|repeat constructor; assumption].
  - destruct (IH1 _ F) as (la & Pa & Fa). destruct (IH2 _ Fa) as (lb & Pb & Fb).
    exists lb. split; [eapply perm_trans; eassumption|assumption].
Qed.

Lemma Forall2_perm_r : forall {A B} (R : A -> B -> Prop) l l' l2',
  Forall2 R l l' -> Permutation l' l2' ->
  exists l2, Permutation l l2 /\ Forall2 R l2 l2'.
Proof.
  intros A B R l l' l2' F P.
  assert (F' : Forall2 (fun b a => R a b) l' l).
  { clear P. induction F; constructor; assumption. }
  destruct (Forall2_perm_l _ _ _ _ F' P) as (l2 & P2 & F2).
  exists l2. split; [assumption|]. clear - F2. induction F2; constructor; assumption.
Qed.

Lemma Permutation_concat : forall {A} (l l' : list (list A)),
  Permutation l l' -> Permutation (concat l) (concat l').
Proof.
  intros A l l' P. induction P; simpl.
  - constructor.
  - apply Permutation_app_head. assumption.
  - rewrite !app_assoc. apply Permutation_app_tail. apply Permutation_app_comm.
  - eapply perm_trans; eassumption.
Qed.

Lemma Forall2_app_inv_both : forall {A B} (R : A -> B -> Prop) l1 l2 l1' l2',
  Forall2 R l1 l1' -> Forall2 R l2 l2' -> Forall2 R (l1 ++ l2) (l1' ++ l2').
Proof. intros. apply Forall2_app; assumption. Qed.

(* ------------------------------------------------------------------ *)
(** * Keys *)

Lemma akey_eq_iff : forall a b, akey a = akey b <-> atom_eqb a b = true.
Proof.
  intros a b. split.
  - destruct a, b; simpl; intro E; try discriminate; try reflexivity;
      inversion E; subst; apply cfg_str_eqb_refl.
  - destruct a, b; simpl; intro E; try discriminate; try reflexivity;
      apply cfg_str_eqb_eq in E; subst; reflexivity.
Qed.

Lemma akey_eqb : forall a b, atom_eqb a b = true -> akey a = akey b.
Proof. intros a b. apply akey_eq_iff. Qed.

Lemma akey_idem : forall a, akey (akey a) = akey a.
Proof. destruct a; reflexivity. Qed.

Lemma atom_eqb_akey_l : forall a b, atom_eqb (akey a) b = atom_eqb a b.
Proof. destruct a, b; reflexivity. Qed.

(* ------------------------------------------------------------------ *)
(** * Reading the store *)

Definition node_var_at (st : store) (i : nat) : atom := nth i (map fst st) ANone.
Definition ctgt_atom (st : store) (t : ctgt) : atom :=
  match t with CA a => a | CN i => node_var_at st i end.
Definition cedge_triple (st : store) (v : atom) (e : cedge) : triple :=
  (akey v, fst (fst e), akey (ctgt_atom st (snd (fst e)))).
Definition node_triples (rd : store) (ve : atom * list cedge) : list triple :=
  map (cedge_triple rd (fst ve)) (snd ve).
(* the edges of [st], node variables of [CN] targets looked up in [rd] *)
Definition flat_triples (rd st : store) : list triple := flat_map (node_triples rd) st.
Definition store_triples (st : store) : list triple := flat_triples st st.

Definition edge_cn (e : cedge) : list nat :=
  match snd (fst e) with CN i => [i] | CA _ => [] end.
Definition node_cns (ve : atom * list cedge) : list nat := flat_map edge_cn (snd ve).
Definition cn_ids (st : store) : list nat := flat_map node_cns st.

(* [st'] extends [st]: same node variables, possibly more nodes *)
Definition ext (st st' : store) : Prop := exists more, map fst st' = map fst st ++ more.

Lemma ext_refl : forall st, ext st st.
Proof. intros st. exists []. rewrite app_nil_r. reflexivity. Qed.

Lemma ext_trans : forall a b c, ext a b -> ext b c -> ext a c.
Proof.
  intros a b c [m1 E1] [m2 E2]. exists (m1 ++ m2). rewrite E2, E1, app_assoc. reflexivity.
Qed.

Lemma ext_length : forall st st', ext st st' -> length st <= length st'.
Proof.
  intros st st' [more E]. apply (f_equal (@length _)) in E.
  rewrite app_length, !map_length in E. lia.
Qed.

Lemma ext_var_at : forall st st' i, ext st st' -> i < length st ->
  node_var_at st' i = node_var_at st i.
Proof.
  intros st st' i [more E] L. unfold node_var_at. rewrite E.
  apply app_nth1. rewrite map_length. exact L.
Qed.

Lemma map_fst_upd : forall (st : store) id f,
  (forall ve, fst (f ve) = fst ve) -> map fst (upd id f st) = map fst st.
Proof.
  induction st as [|x st IH]; intros [|id] f Hf; simpl; try reflexivity.
  - rewrite Hf. reflexivity.
  - rewrite IH by assumption. reflexivity.
Qed.

Lemma upd_length : forall {A} (l : list A) n f, length (upd n f l) = length l.
Proof. induction l as [|x l IH]; intros [|n] f; simpl; auto. Qed.

Lemma nth_error_upd_same : forall {A} (l : list A) n f x,
  nth_error l n = Some x -> nth_error (upd n f l) n = Some (f x).
Proof.
  induction l as [|y l IH]; intros [|n] f x E; simpl in *; try discriminate.
  - inversion E; reflexivity.
  - apply IH. exact E.
Qed.

Lemma nth_error_upd_other : forall {A} (l : list A) n k f, n <> k ->
  nth_error (upd n f l) k = nth_error l k.
Proof.
  induction l as [|y l IH]; intros [|n] [|k] f N; simpl; try reflexivity; try lia.
  apply IH. lia.
Qed.

Lemma upd_split : forall {A} (l : list A) n f x, nth_error l n = Some x ->
  exists l1 l2, l = l1 ++ x :: l2 /\ upd n f l = l1 ++ f x :: l2 /\ length l1 = n.
Proof.
  induction l as [|y l IH]; intros [|n] f x E; simpl in *; try discriminate.
  - inversion E; subst. exists [], l. repeat split.
  - destruct (IH _ f _ E) as (l1 & l2 & E1 & E2 & L). exists (y :: l1), l2.
    simpl. rewrite <- E1, E2, L. repeat split.
Qed.

(* readers that agree on the valid ids read the same triples *)
Definition ids_lt (n : nat) (st : store) : Prop :=
  forall ve e i, In ve st -> In e (snd ve) -> snd (fst e) = CN i -> i < n.

Lemma flat_triples_ext : forall rd rd' st, ext rd rd' -> ids_lt (length rd) st ->
  flat_triples rd' st = flat_triples rd st.
Proof.
  intros rd rd' st X H. unfold flat_triples.
  induction st as [|ve st IH]; simpl; [reflexivity|].
  rewrite IH.
  2:{ intros ve' e i I1 I2 E. eapply H; [right; exact I1|exact I2|exact E]. }
  f_equal. unfold node_triples.
  apply map_ext_in. intros e Ie. unfold cedge_triple. f_equal. f_equal.
  destruct (snd (fst e)) as [a|i] eqn:T; simpl; [reflexivity|].
  apply ext_var_at; [exact X|]. eapply H; [left; reflexivity|exact Ie|exact T].
Qed.

Lemma flat_triples_app : forall rd a b, flat_triples rd (a ++ b) = flat_triples rd a ++ flat_triples rd b.
Proof. intros. unfold flat_triples. apply flat_map_app. Qed.

Lemma flat_triples_split : forall rd l1 x l2,
  flat_triples rd (l1 ++ x :: l2) = flat_triples rd l1 ++ node_triples rd x ++ flat_triples rd l2.
Proof. intros. rewrite flat_triples_app. reflexivity. Qed.

Lemma cn_ids_app : forall a b, cn_ids (a ++ b) = cn_ids a ++ cn_ids b.
Proof. intros. unfold cn_ids. apply flat_map_app. Qed.

Lemma flat_triples_rd_eq : forall rd rd' st, map fst rd = map fst rd' ->
  flat_triples rd st = flat_triples rd' st.
Proof.
  intros rd rd' st E. unfold flat_triples, node_triples, cedge_triple, ctgt_atom, node_var_at.
  rewrite E. reflexivity.
Qed.

Lemma dget_cong : forall {V} (a b : atom) (d : dict atom V), atom_eqb a b = true ->
  dget atom_eqb a d = dget atom_eqb b d.
Proof.
  intros V a b d E. induction d as [|[k v] d IH]; simpl; [reflexivity|].
  rewrite (atom_eqb_cong_l _ _ k E). destruct (atom_eqb b k); [reflexivity|exact IH].
Qed.

(* ------------------------------------------------------------------ *)
(** * Inserting an edge into a node *)

Definition ins_at (id : nat) (ins : list cedge -> list cedge) (st : store) : store :=
  upd id (fun ve => (fst ve, ins (snd ve))) st.

Lemma add_edge_end_ins : forall id e st, add_edge_end id e st = ins_at id (fun es => es ++ [e]) st.
Proof. reflexivity. Qed.
Lemma add_edge_front_ins : forall id e st, add_edge_front id e st = ins_at id (fun es => e :: es) st.
Proof. reflexivity. Qed.

Definition inserts (e : cedge) (ins : list cedge -> list cedge) : Prop :=
  forall es, Permutation (ins es) (e :: es).

Lemma inserts_end : forall e, inserts e (fun es => es ++ [e]).
Proof. intros e es. apply Permutation_sym, Permutation_cons_append. Qed.
Lemma inserts_front : forall e, inserts e (fun es => e :: es).
Proof. intros e es. apply Permutation_refl. Qed.

Lemma ins_at_map_fst : forall id ins st, map fst (ins_at id ins st) = map fst st.
Proof. intros. apply map_fst_upd. reflexivity. Qed.

Lemma ins_at_ext : forall id ins st, ext st (ins_at id ins st).
Proof. intros. exists []. rewrite ins_at_map_fst, app_nil_r. reflexivity. Qed.

Lemma ins_at_length : forall id ins st, length (ins_at id ins st) = length st.
Proof. intros. apply upd_length. Qed.

Lemma ins_at_nth : forall id ins st i v es',
  nth_error (ins_at id ins st) i = Some (v, es') ->
  exists es, nth_error st i = Some (v, es) /\ (es' = es /\ i <> id \/ es' = ins es /\ i = id).
Proof.
  intros id ins st i v es' E. unfold ins_at in E.
  destruct (Nat.eq_dec id i) as [->|N].
  - destruct (nth_error st i) as [[w es]|] eqn:G.
    + rewrite (nth_error_upd_same _ _ _ _ G) in E. inversion E; subst. simpl. eauto.
    + assert (L : length st <= i) by (apply nth_error_None; exact G).
      assert (X : nth_error (upd i (fun ve : atom * list cedge => (fst ve, ins (snd ve))) st) i = None).
      { apply nth_error_None. rewrite upd_length. exact L. }
      rewrite X in E. discriminate.
  - rewrite nth_error_upd_other in E by exact N. eauto.
Qed.

Lemma ins_at_triples : forall rd id ins st w es e, nth_error st id = Some (w, es) ->
  inserts e ins ->
  Permutation (flat_triples rd (ins_at id ins st)) (cedge_triple rd w e :: flat_triples rd st).
Proof.
  intros rd id ins st w es e G I. unfold ins_at.
  destruct (upd_split _ _ (fun ve : atom * list cedge => (fst ve, ins (snd ve))) _ G)
    as (l1 & l2 & E1 & E2 & _).
  rewrite E2, E1. rewrite !flat_triples_app. unfold flat_triples at 2 4. simpl.
  apply Permutation_sym. eapply perm_trans; [apply Permutation_middle|].
  apply Permutation_app_head.
  change (cedge_triple rd w e :: node_triples rd (w, es) ++ flat_map (node_triples rd) l2)
    with ((cedge_triple rd w e :: node_triples rd (w, es)) ++ flat_map (node_triples rd) l2).
  apply Permutation_app_tail.
  unfold node_triples. simpl.
  change (cedge_triple rd w e :: map (cedge_triple rd w) es) with (map (cedge_triple rd w) (e :: es)).
  apply Permutation_map. apply Permutation_sym. apply I.
Qed.

Lemma ins_at_cns : forall id ins st w es e, nth_error st id = Some (w, es) ->
  inserts e ins -> Permutation (cn_ids (ins_at id ins st)) (edge_cn e ++ cn_ids st).
Proof.
  intros id ins st w es e G I. unfold ins_at.
  destruct (upd_split _ _ (fun ve : atom * list cedge => (fst ve, ins (snd ve))) _ G)
    as (l1 & l2 & E1 & E2 & _).
  rewrite E2, E1. rewrite !cn_ids_app. unfold cn_ids at 2 4. simpl.
  apply Permutation_sym. rewrite app_assoc.
  eapply perm_trans; [apply Permutation_app_tail, Permutation_app_comm|].
  rewrite <- app_assoc. apply Permutation_app_head.
  rewrite app_assoc. apply Permutation_app_tail.
  unfold node_cns. simpl.
  change (edge_cn e ++ flat_map edge_cn es) with (flat_map edge_cn (e :: es)).
  apply Permutation_flat_map. apply Permutation_sym. apply I.
Qed.

(* ------------------------------------------------------------------ *)
(** * The store invariant *)

Record WF (P : list nat) (st : store) (nm : nmap) : Prop := {
  (* J: the nodemap sends the variable of every node to that node *)
  wf_own : forall i v es, nth_error st i = Some (v, es) -> dget atom_eqb v nm = Some (Some i);
  wf_valid : forall v i, dget atom_eqb v nm = Some (Some i) -> i < length st;
  (* L: a bare reference site holds an edge that mentions the variable *)
  wf_ref : forall v i w es, dget atom_eqb v nm = Some (Some i) -> nth_error st i = Some (w, es) ->
    atom_eqb v w = false ->
    exists r a ep, In (r, CA a, ep) es /\ atom_eqb a v = true /\ str_eqb r SLASHS = false;
  (* K1: children have larger ids *)
  wf_up : forall j w es e i, nth_error st j = Some (w, es) -> In e es -> snd (fst e) = CN i ->
    j < i < length st;
  (* K2: every node but the root is the child of exactly one edge, or pending *)
  wf_tree : Permutation (cn_ids st ++ P) (seq 1 (length st - 1));
  wf_pos : 0 < length st
}.

Lemma WF_ids_lt : forall P st nm, WF P st nm -> ids_lt (length st) st.
Proof.
  intros P st nm W ve e i I1 I2 E.
  apply In_nth_error in I1. destruct I1 as [j Hj]. destruct ve as [w es].
  eapply (wf_up _ _ _ W); eassumption.
Qed.

Lemma inserts_in : forall e ins es e', inserts e ins -> In e' (ins es) -> e' = e \/ In e' es.
Proof.
  intros e ins es e' I H. apply (Permutation_in _ (I es)) in H. destruct H; auto.
Qed.
Lemma inserts_keep : forall e ins es e', inserts e ins -> In e' es -> In e' (ins es).
Proof.
  intros e ins es e' I H. apply (Permutation_in _ (Permutation_sym (I es))). right. exact H.
Qed.
Lemma inserts_new : forall e ins es, inserts e ins -> In e (ins es).
Proof.
  intros e ins es I. apply (Permutation_in _ (Permutation_sym (I es))). left. reflexivity.
Qed.

(* Op1: a bare edge (constant, or reference to a variable) *)
Lemma WF_add_ca : forall P st nm id w es ins r a ep nm',
  WF P st nm -> nth_error st id = Some (w, es) -> inserts (r, CA a, ep) ins ->
  (nm' = nm \/ (nm' = dset atom_eqb a (Some id) nm /\ dget atom_eqb a nm = Some None /\
                str_eqb r SLASHS = false)) ->
  WF P (ins_at id ins st) nm'.
Proof.
  intros P st nm id w es ins r a ep nm' W G I Hnm.
  assert (Lid : id < length st) by (apply nth_error_Some; rewrite G; discriminate).
  constructor.
  - intros i v es' E. apply ins_at_nth in E. destruct E as (es0 & E & _).
    pose proof (wf_own _ _ _ W _ _ _ E) as O.
    destruct Hnm as [->|(-> & Hn & _)]; [exact O|].
    destruct (atom_eqb v a) eqn:Eva.
    + rewrite (dget_cong _ _ _ Eva) in O. rewrite O in Hn. discriminate.
    + rewrite dget_dset_other by exact Eva. exact O.
  - intros v i D. rewrite ins_at_length.
    destruct Hnm as [->|(-> & Hn & _)]; [eapply wf_valid; eassumption|].
    destruct (atom_eqb v a) eqn:Eva.
    + rewrite dget_dset_eq in D by exact Eva. inversion D; subst. exact Lid.
    + rewrite dget_dset_other in D by exact Eva. eapply wf_valid; eassumption.
  - intros v i w' es' D E N. apply ins_at_nth in E. destruct E as (es0 & E & C).
    assert (Old : dget atom_eqb v nm = Some (Some i) ->
                  exists r0 a0 ep0, In (r0, CA a0, ep0) es' /\ atom_eqb a0 v = true /\ str_eqb r0 SLASHS = false).
    { intros D0. destruct (wf_ref _ _ _ W _ _ _ _ D0 E N) as (r0 & a0 & ep0 & I0 & A0 & R0).
      exists r0, a0, ep0. split; [|auto].
      destruct C as [[-> _]|[-> _]]; [exact I0|eapply inserts_keep; eassumption]. }
    destruct Hnm as [->|(-> & Hn & Hr)]; [auto|].
    destruct (atom_eqb v a) eqn:Eva.
    + rewrite dget_dset_eq in D by exact Eva. inversion D; subst i.
      destruct C as [[_ C]|[-> _]]; [congruence|].
      exists r, a, ep. split; [eapply inserts_new; eassumption|].
      rewrite atom_eqb_sym. auto.
    + rewrite dget_dset_other in D by exact Eva. auto.
  - intros j w' es' e i E Ie T. rewrite ins_at_length.
    apply ins_at_nth in E. destruct E as (es0 & E & C).
    destruct C as [[-> _]|[-> _]]; [eapply wf_up; eassumption|].
    apply (inserts_in _ _ _ _ I) in Ie. destruct Ie as [->|Ie]; [simpl in T; discriminate|].
    eapply wf_up; eassumption.
  - rewrite ins_at_length.
    eapply perm_trans; [|apply (wf_tree _ _ _ W)].
    apply Permutation_app_tail.
    apply (ins_at_cns _ _ _ _ _ _ G I).
  - rewrite ins_at_length. eapply wf_pos; eassumption.
Qed.

Lemma seq_grow : forall n, 0 < n -> seq 1 (S n - 1) = seq 1 (n - 1) ++ [n].
Proof.
  intros n L. replace (S n - 1) with (S (n - 1)) by lia.
  rewrite seq_S. f_equal. f_equal. lia.
Qed.

(* Op2: allocate a node for [target] *)
Lemma WF_push : forall P st nm target,
  WF P st nm -> has_node target st nm = false ->
  WF (length st :: P) (st ++ [(target, [])]) (dset atom_eqb target (Some (length st)) nm).
Proof.
  intros P st nm target W H.
  assert (NE : forall i v es, nth_error st i = Some (v, es) -> atom_eqb v target = false).
  { intros i v es E. destruct (atom_eqb v target) eqn:Evt; [|reflexivity].
    pose proof (wf_own _ _ _ W _ _ _ E) as O. rewrite (dget_cong _ _ _ Evt) in O.
    unfold has_node in H. rewrite O, E, Evt in H. discriminate. }
  constructor.
  - intros i v es E.
    destruct (Nat.lt_ge_cases i (length st)) as [L|L].
    + rewrite nth_error_app1 in E by exact L.
      rewrite dget_dset_other by (eapply NE; eassumption). eapply wf_own; eassumption.
    + rewrite nth_error_app2 in E by exact L.
      destruct (i - length st) as [|k] eqn:K; simpl in E; [|destruct k; discriminate].
      inversion E; subst. replace i with (length st) by lia. apply dget_dset_same.
  - intros v i D. rewrite app_length. simpl.
    destruct (atom_eqb v target) eqn:Evt.
    + rewrite dget_dset_eq in D by exact Evt. inversion D. lia.
    + rewrite dget_dset_other in D by exact Evt. apply (wf_valid _ _ _ W) in D. lia.
  - intros v i w es D E N.
    destruct (atom_eqb v target) eqn:Evt.
    + rewrite dget_dset_eq in D by exact Evt. inversion D; subst i.
      rewrite nth_error_app2 in E by lia. rewrite Nat.sub_diag in E. simpl in E.
      inversion E; subst. congruence.
    + rewrite dget_dset_other in D by exact Evt.
      pose proof (wf_valid _ _ _ W _ _ D) as L.
      rewrite nth_error_app1 in E by exact L. eapply wf_ref; eassumption.
  - intros j w es e i E Ie T. rewrite app_length. simpl.
    destruct (Nat.lt_ge_cases j (length st)) as [L|L].
    + rewrite nth_error_app1 in E by exact L.
      pose proof (wf_up _ _ _ W _ _ _ _ _ E Ie T). lia.
    + rewrite nth_error_app2 in E by exact L.
      destruct (j - length st) as [|k] eqn:K; simpl in E; [|destruct k; discriminate].
      inversion E; subst. contradiction.
  - rewrite app_length. simpl. rewrite Nat.add_1_r.
    rewrite seq_grow by (eapply wf_pos; eassumption).
    rewrite cn_ids_app. unfold cn_ids at 2. simpl. rewrite app_nil_r.
    eapply perm_trans; [apply Permutation_sym, Permutation_middle|].
    eapply perm_trans; [|apply Permutation_cons_append].
    constructor. apply (wf_tree _ _ _ W).
  - rewrite app_length. simpl. lia.
Qed.

(* Op3: attach the pending child *)
Lemma WF_attach : forall P st nm id w es cid r ep,
  WF (cid :: P) st nm -> nth_error st id = Some (w, es) -> id < cid < length st ->
  WF P (add_edge_end id (r, CN cid, ep) st) nm.
Proof.
  intros P st nm id w es cid r ep W G L.
  rewrite add_edge_end_ins.
  pose proof (inserts_end (r, CN cid, ep)) as I.
  constructor.
  - intros i v es' E. apply ins_at_nth in E. destruct E as (es0 & E & _).
    eapply wf_own; eassumption.
  - intros v i D. rewrite ins_at_length. eapply wf_valid; eassumption.
  - intros v i w' es' D E N. apply ins_at_nth in E. destruct E as (es0 & E & C).
    destruct (wf_ref _ _ _ W _ _ _ _ D E N) as (r0 & a0 & ep0 & I0 & A0 & R0).
    exists r0, a0, ep0. split; [|auto].
    destruct C as [[-> _]|[-> _]]; [exact I0|apply (inserts_keep _ _ _ _ I); exact I0].
  - intros j w' es' e i E Ie T. rewrite ins_at_length.
    apply ins_at_nth in E. destruct E as (es0 & E & C).
    destruct C as [[-> _]|[-> Hj]]; [eapply wf_up; eassumption|].
    apply (inserts_in _ _ _ _ I) in Ie. destruct Ie as [->|Ie].
    + simpl in T. inversion T; subst. lia.
    + eapply wf_up; eassumption.
  - rewrite ins_at_length.
    eapply perm_trans; [|apply (wf_tree _ _ _ W)].
    eapply perm_trans; [apply Permutation_app_tail, (ins_at_cns _ _ _ _ _ _ G I)|].
    simpl. apply Permutation_middle.
  - rewrite ins_at_length. eapply wf_pos; eassumption.
Qed.

(* ------------------------------------------------------------------ *)
(** * Op4: [site] = _get_or_establish_site *)

Lemma replace_first_spec : forall var nid es,
  (exists r a ep, In (r, CA a, ep) es /\ atom_eqb a var = true /\ str_eqb r SLASHS = false) ->
  exists es1 r a ep es2,
    es = es1 ++ (r, CA a, ep) :: es2 /\ atom_eqb a var = true /\ str_eqb r SLASHS = false /\
    replace_first var nid es = es1 ++ (r, CN nid, ep) :: es2.
Proof.
  intros var nid. induction es as [|e es IH]; intros (r & a & ep & I & A & R); [contradiction|].
  destruct e as [[r0 t0] ep0]. destruct t0 as [a0|i0].
  - simpl. destruct (atom_eqb a0 var && negb (str_eqb r0 SLASHS)) eqn:C.
    + apply andb_true_iff in C. destruct C as [C1 C2]. apply negb_true_iff in C2.
      exists [], r0, a0, ep0, es. repeat split; assumption.
    + destruct I as [I|I].
      { inversion I; subst. rewrite A, R in C. discriminate. }
      destruct IH as (es1 & r1 & a1 & ep1 & es2 & E & A1 & R1 & F); [eauto 8|].
      exists ((r0, CA a0, ep0) :: es1), r1, a1, ep1, es2. rewrite F. simpl.
      repeat split; auto. rewrite E at 1. reflexivity.
  - simpl. destruct I as [I|I]; [discriminate|].
    destruct IH as (es1 & r1 & a1 & ep1 & es2 & E & A1 & R1 & F); [eauto 8|].
    exists ((r0, CN i0, ep0) :: es1), r1, a1, ep1, es2. rewrite F. simpl.
    repeat split; auto. rewrite E at 1. reflexivity.
Qed.

Lemma site_false_same : forall v st nm st1 nm1,
  site v st nm = (false, st1, nm1) -> st1 = st /\ nm1 = nm.
Proof.
  intros v st nm st1 nm1. unfold site.
  destruct (dget atom_eqb v nm) as [[id|]|]; try (intro E; inversion E; auto; fail).
  destruct (nth_error st id) as [[v' es]|]; try (intro E; inversion E; auto; fail).
  destruct (atom_eqb v v'); intro E; inversion E.
Qed.

Lemma site_spec : forall P v st nm st1 nm1,
  WF P st nm -> site v st nm = (true, st1, nm1) ->
  WF P st1 nm1 /\ ext st st1 /\ store_triples st1 = store_triples st /\
  exists id w es, dget atom_eqb v nm1 = Some (Some id) /\ nth_error st1 id = Some (w, es) /\
                  atom_eqb v w = true.
Proof.
  intros P v st nm st1 nm1 W. unfold site.
  destruct (dget atom_eqb v nm) as [[id|]|] eqn:D; try discriminate.
  destruct (nth_error st id) as [[v' es]|] eqn:G; try discriminate.
  destruct (atom_eqb v v') eqn:N; intro E; inversion E; subst; clear E.
  { split; [exact W|]. split; [apply ext_refl|]. split; [reflexivity|]. eauto 8. }
  pose proof (wf_valid _ _ _ W _ _ D) as Lid.
  destruct (replace_first_spec v (length st) es (wf_ref _ _ _ W _ _ _ _ D G N))
    as (es1 & r & a & ep & es2 & Ees & Ea & Er & Erf).
  set (f := fun ve : atom * list cedge => (fst ve, replace_first v (length st) (snd ve))).
  destruct (upd_split _ _ f _ G) as (l1 & l2 & E1 & E2 & Ll1).
  assert (Mf : map fst (upd id f st) = map fst st) by (apply map_fst_upd; reflexivity).
  assert (X : ext st (upd id f st ++ [(v, [])])).
  { exists [v]. rewrite map_app, Mf. reflexivity. }
  assert (NE : forall i w es0, nth_error st i = Some (w, es0) -> atom_eqb w v = false).
  { intros i w es0 E0. destruct (atom_eqb w v) eqn:Ewv; [|reflexivity].
    pose proof (wf_own _ _ _ W _ _ _ E0) as O. rewrite (dget_cong _ _ _ Ewv), D in O.
    inversion O; subst i. rewrite G in E0. injection E0 as <- <-.
    rewrite atom_eqb_sym in Ewv. congruence. }
  assert (NTH : forall i w es', nth_error (upd id f st) i = Some (w, es') ->
            exists es0, nth_error st i = Some (w, es0) /\
              (es' = es0 /\ i <> id \/ es' = replace_first v (length st) es0 /\ i = id)).
  { intros i w es' E0. destruct (Nat.eq_dec id i) as [<-|Nid].
    - rewrite (nth_error_upd_same _ _ _ _ G) in E0. injection E0 as <- <-. simpl. eauto.
    - rewrite nth_error_upd_other in E0 by exact Nid. eauto. }
  split; [|split; [exact X|split]].
  - (* WF *)
    constructor.
    + intros i w es' E0.
      destruct (Nat.lt_ge_cases i (length st)) as [L|L].
      * rewrite nth_error_app1 in E0 by (rewrite upd_length; exact L).
        apply NTH in E0. destruct E0 as (es0 & E0 & _).
        rewrite dget_dset_other by (eapply NE; eassumption). eapply wf_own; eassumption.
      * rewrite nth_error_app2 in E0 by (rewrite upd_length; exact L). rewrite upd_length in E0.
        destruct (i - length st) as [|k] eqn:K; simpl in E0; [|destruct k; discriminate].
        injection E0 as <- <-. replace i with (length st) by lia. apply dget_dset_same.
    + intros w i D0. rewrite app_length, upd_length. simpl.
      destruct (atom_eqb w v) eqn:Ewv.
      * rewrite dget_dset_eq in D0 by exact Ewv. inversion D0. lia.
      * rewrite dget_dset_other in D0 by exact Ewv. apply (wf_valid _ _ _ W) in D0. lia.
    + intros w i w' es' D0 E0 N0.
      destruct (atom_eqb w v) eqn:Ewv.
      * rewrite dget_dset_eq in D0 by exact Ewv. inversion D0; subst i.
        rewrite nth_error_app2 in E0 by (rewrite upd_length; lia).
        rewrite upd_length, Nat.sub_diag in E0. simpl in E0. injection E0 as <- <-. congruence.
      * rewrite dget_dset_other in D0 by exact Ewv.
        pose proof (wf_valid _ _ _ W _ _ D0) as L.
        rewrite nth_error_app1 in E0 by (rewrite upd_length; exact L).
        apply NTH in E0. destruct E0 as (es0 & E0 & C).
        destruct (wf_ref _ _ _ W _ _ _ _ D0 E0 N0) as (r0 & a0 & ep0 & I0 & A0 & R0).
        exists r0, a0, ep0. split; [|auto].
        destruct C as [[-> _]|[-> ->]]; [exact I0|].
        rewrite G in E0. inversion E0; subst es0. rewrite Erf.
        rewrite Ees in I0. apply in_app_or in I0. apply in_or_app.
        destruct I0 as [I0|[I0|I0]]; [left; exact I0| |right; right; exact I0].
        inversion I0; subst.
        (* the witness is the replaced edge: then w and v are the same key *)
        exfalso. rewrite atom_eqb_sym in A0.
        rewrite (atom_eqb_trans _ _ _ A0 Ea) in Ewv. discriminate.
    + intros j w es' e i E0 Ie T. rewrite app_length, upd_length. simpl.
      destruct (Nat.lt_ge_cases j (length st)) as [L|L].
      * rewrite nth_error_app1 in E0 by (rewrite upd_length; exact L).
        apply NTH in E0. destruct E0 as (es0 & E0 & C).
        destruct C as [[-> _]|[-> ->]].
        { pose proof (wf_up _ _ _ W _ _ _ _ _ E0 Ie T). lia. }
        rewrite G in E0. inversion E0; subst es0. rewrite Erf in Ie.
        apply in_app_or in Ie. destruct Ie as [Ie|[Ie|Ie]].
        -- assert (I' : In e es) by (rewrite Ees; apply in_or_app; left; exact Ie).
           pose proof (wf_up _ _ _ W _ _ _ _ _ G I' T). lia.
        -- subst e. simpl in T. inversion T; subst. lia.
        -- assert (I' : In e es) by (rewrite Ees; apply in_or_app; right; right; exact Ie).
           pose proof (wf_up _ _ _ W _ _ _ _ _ G I' T). lia.
      * rewrite nth_error_app2 in E0 by (rewrite upd_length; exact L). rewrite upd_length in E0.
        destruct (j - length st) as [|k] eqn:K; simpl in E0; [|destruct k; discriminate].
        injection E0 as <- <-. contradiction.
    + rewrite app_length, upd_length. simpl. rewrite Nat.add_1_r.
      rewrite seq_grow by (eapply wf_pos; eassumption).
      rewrite cn_ids_app. unfold cn_ids at 2. simpl. rewrite app_nil_r.
      assert (C : Permutation (cn_ids (upd id f st)) (length st :: cn_ids st)).
      { unfold f in E2 |- *. remember (length st) as n eqn:Hn. clear Hn.
        rewrite E2, E1. rewrite !cn_ids_app. unfold cn_ids at 2 4. cbn [flat_map].
        unfold node_cns at 1 3. cbn [snd fst]. rewrite Erf, Ees, !flat_map_app.
        cbn [flat_map edge_cn snd fst app].
        rewrite <- !app_assoc. cbn [app].
        apply Permutation_sym.
        eapply perm_trans; [apply Permutation_middle|]. apply Permutation_app_head.
        eapply perm_trans; [apply Permutation_middle|]. apply Permutation_refl. }
      eapply perm_trans; [apply Permutation_app_tail, C|]. simpl.
      eapply perm_trans; [|apply Permutation_cons_append].
      constructor. apply (wf_tree _ _ _ W).
    + rewrite app_length. simpl. lia.
  - (* the reading of the store is unchanged *)
    unfold store_triples.
    rewrite flat_triples_app. unfold flat_triples at 2. simpl. rewrite app_nil_r.
    pose proof (WF_ids_lt _ _ _ W) as IL.
    assert (IL1 : ids_lt (length st) l1).
    { intros ve e i I1 I2 T. eapply IL; [rewrite E1; apply in_or_app; left; exact I1|exact I2|exact T]. }
    assert (IL2 : ids_lt (length st) l2).
    { intros ve e i I1 I2 T. eapply IL; [rewrite E1; apply in_or_app; right; right; exact I1|exact I2|exact T]. }
    set (R := upd id f st ++ [(v, [])]) in *.
    replace (flat_triples R (upd id f st)) with (flat_triples R (l1 ++ f (v', es) :: l2))
      by (rewrite <- E2; reflexivity).
    replace (flat_triples st st) with (flat_triples st (l1 ++ (v', es) :: l2))
      by (rewrite <- E1; reflexivity).
    rewrite !flat_triples_split.
    rewrite (flat_triples_ext st R l1 X IL1), (flat_triples_ext st R l2 X IL2).
    f_equal. f_equal.
    unfold f. unfold node_triples. cbn [fst snd]. rewrite Erf, Ees. rewrite !map_app. cbn [map].
    assert (ILes : forall e i, In e es -> snd (fst e) = CN i -> i < length st).
    { intros e i Ie T. eapply IL; [rewrite E1; apply in_or_app; right; left; reflexivity|exact Ie|exact T]. }
    assert (RD : forall e, In e es ->
              cedge_triple R v' e = cedge_triple st v' e).
    { intros e Ie. unfold cedge_triple. f_equal. f_equal.
      destruct (snd (fst e)) as [a0|i0] eqn:T; simpl; [reflexivity|].
      apply ext_var_at; [exact X|]. eapply ILes; eassumption. }
    fold R.
    f_equal; [apply map_ext_in; intros e Ie; apply RD; rewrite Ees; apply in_or_app; left; exact Ie|].
    f_equal; [|apply map_ext_in; intros e Ie; apply RD; rewrite Ees; apply in_or_app; right; right; exact Ie].
    unfold cedge_triple. simpl. f_equal.
    unfold node_var_at, R. rewrite map_app, Mf. rewrite app_nth2 by (rewrite map_length; lia).
    rewrite map_length, Nat.sub_diag. simpl. symmetry. apply akey_eqb. exact Ea.
  - exists (length st), v, []. split; [apply dget_dset_same|]. split; [|apply atom_eqb_refl].
    rewrite nth_error_app2 by (rewrite upd_length; lia). rewrite upd_length, Nat.sub_diag. reflexivity.
Qed.

(* ------------------------------------------------------------------ *)
(** * Roles with a colon are never the concept marker [/] *)

Lemma colon_not_slash : forall r, startswith r [COLON] = true -> str_eqb r SLASHS = false.
Proof.
  intros r H. apply colon_iff in H. destruct H as [t ->]. reflexivity.
Qed.

Lemma colon_invert_role : forall m r, startswith r [COLON] = true ->
  startswith (invert_role m r) [COLON] = true.
Proof.
  intros m r H. apply colon_iff in H. destruct H as [t ->]. unfold invert_role.
  destruct (is_role_inverted m (COLON :: t)) eqn:I.
  - apply inverted_iff in I. destruct I as [_ [b E]]. rewrite E, drop_last_OF.
    destruct b as [|c b]; [discriminate|]. simpl in E. inversion E; subst.
    apply colon_iff. eexists. reflexivity.
  - apply colon_iff. eexists. reflexivity.
Qed.

(* ------------------------------------------------------------------ *)
(** * What one datum becomes *)

Definition data_triples (d : list datum) : list triple :=
  flat_map (fun x => match x with DT t _ _ => [t] | DPop => [] end) d.

Lemma data_triples_app : forall a b, data_triples (a ++ b) = data_triples a ++ data_triples b.
Proof. intros. apply flat_map_app. Qed.

Lemma data_triples_drop_pops : forall d, data_triples (drop_pops d) = data_triples d.
Proof. induction d as [|[t p e|] d IH]; simpl; auto. Qed.

Definition colon_ok (ts : list triple) : Prop :=
  Forall (fun t => startswith (trole t) [COLON] = true) ts.

(* the branch written for [t]: as is or inverted; a missing concept is not written *)
Definition written (o : triple) : list triple :=
  if is_instance o && missing_concept (ttgt o) then [] else [edge_of o].
Definition placed_as (m : model) (t : triple) (os : list triple) : Prop :=
  exists o, (o = t \/ (o = invert m t /\ is_instance t = false)) /\ os = written o.

Definition Adds (m : model) (ts : list triple) (st st' : store) : Prop :=
  exists os, Forall2 (placed_as m) ts os /\
             Permutation (store_triples st') (concat os ++ store_triples st).

Lemma Adds_nil : forall m st st', Permutation (store_triples st') (store_triples st) -> Adds m [] st st'.
Proof. intros m st st' H. exists []. split; [constructor|exact H]. Qed.

Lemma Adds_app : forall m ts1 ts2 a b c, Adds m ts1 a b -> Adds m ts2 b c -> Adds m (ts1 ++ ts2) a c.
Proof.
  intros m ts1 ts2 a b c (os1 & F1 & P1) (os2 & F2 & P2).
  exists (os1 ++ os2). split; [apply Forall2_app; assumption|].
  rewrite concat_app.
  eapply perm_trans; [exact P2|].
  eapply perm_trans; [apply Permutation_app_head, P1|].
  rewrite !app_assoc. apply Permutation_app_tail. apply Permutation_app_comm.
Qed.

Lemma Adds_one : forall m t os st st', placed_as m t os ->
  Permutation (store_triples st') (os ++ store_triples st) -> Adds m [t] st st'.
Proof.
  intros m t os st st' H P. exists [os]. split; [repeat constructor; exact H|].
  simpl. rewrite app_nil_r. exact P.
Qed.

Lemma Adds_perm : forall m ts ts' a b, Permutation ts ts' -> Adds m ts a b -> Adds m ts' a b.
Proof.
  intros m ts ts' a b P (os & F & Q).
  destruct (Forall2_perm_l _ _ _ _ F P) as (os' & Pos & F').
  exists os'. split; [exact F'|].
  eapply perm_trans; [exact Q|]. apply Permutation_app_tail. apply Permutation_concat. exact Pos.
Qed.

Lemma Adds_store_eq : forall m ts a a' b, store_triples a' = store_triples a ->
  Adds m ts a' b -> Adds m ts a b.
Proof. intros m ts a a' b E (os & F & Q). exists os. rewrite <- E. auto. Qed.

(* ------------------------------------------------------------------ *)
(** * One placement *)

Lemma ext_nth : forall st st' id w es, ext st st' -> nth_error st id = Some (w, es) ->
  exists es', nth_error st' id = Some (w, es').
Proof.
  intros st st' id w es [more E] G.
  assert (M : nth_error (map fst st') id = Some w).
  { rewrite E. rewrite nth_error_app1 by (rewrite map_length; apply nth_error_Some; congruence).
    rewrite nth_error_map, G. reflexivity. }
  rewrite nth_error_map in M. destruct (nth_error st' id) as [[w' es']|]; [|discriminate].
  simpl in M. inversion M; subst. eauto.
Qed.

Lemma store_triples_ins : forall id ins st w es e, ids_lt (length st) st ->
  nth_error st id = Some (w, es) -> inserts e ins ->
  Permutation (store_triples (ins_at id ins st)) (cedge_triple st w e :: store_triples st).
Proof.
  intros id ins st w es e IL G I. unfold store_triples.
  rewrite (flat_triples_rd_eq (ins_at id ins st) st) by apply ins_at_map_fst.
  eapply ins_at_triples; eassumption.
Qed.

Lemma store_triples_push : forall P st nm v, WF P st nm ->
  store_triples (st ++ [(v, [])]) = store_triples st.
Proof.
  intros P st nm v W. unfold store_triples.
  rewrite flat_triples_app. unfold flat_triples at 2. simpl. rewrite app_nil_r.
  apply flat_triples_ext; [exists [v]; rewrite map_app; reflexivity|].
  eapply WF_ids_lt; eassumption.
Qed.

(* concept branch at the front *)
Lemma step_front : forall P st nm id w es0 var o ep,
  WF P st nm -> nth_error st id = Some (w, es0) -> atom_eqb var w = true ->
  atom_eqb (tsrc o) var = true -> is_instance o = true ->
  let st_a := add_edge_front id (SLASHS, CA (ttgt o), ep) st in
  WF P st_a nm /\ ext st st_a /\
  Permutation (store_triples st_a) (edge_of o :: store_triples st) /\
  exists es1, nth_error st_a id = Some (w, es1).
Proof.
  intros P st nm id w es0 var o ep W G Evw Esv Hi st_a. subst st_a.
  rewrite add_edge_front_ins.
  pose proof (inserts_front (SLASHS, CA (ttgt o), ep)) as I.
  split; [eapply WF_add_ca; try eassumption; left; reflexivity|].
  split; [apply ins_at_ext|]. split.
  - eapply perm_trans; [eapply store_triples_ins; try eassumption; eapply WF_ids_lt; eassumption|].
    unfold cedge_triple, edge_of. simpl. rewrite Hi.
    rewrite <- (akey_eqb _ _ Evw), (akey_eqb _ _ Esv). apply Permutation_refl.
  - unfold ins_at. rewrite (nth_error_upd_same _ _ _ _ G). simpl. eauto.
Qed.

(* bare edge at the end *)
Lemma step_end_ca : forall P st nm id w es0 var o ep,
  WF P st nm -> nth_error st id = Some (w, es0) -> atom_eqb var w = true ->
  atom_eqb (tsrc o) var = true -> is_instance o = false ->
  startswith (trole o) [COLON] = true ->
  let nm1 := match dget atom_eqb (ttgt o) nm with
             | Some None => dset atom_eqb (ttgt o) (Some id) nm
             | _ => nm
             end in
  let st_a := add_edge_end id (trole o, CA (ttgt o), ep) st in
  WF P st_a nm1 /\ ext st st_a /\
  Permutation (store_triples st_a) (edge_of o :: store_triples st) /\
  exists es1, nth_error st_a id = Some (w, es1).
Proof.
  intros P st nm id w es0 var o ep W G Evw Esv Hi Hc nm1 st_a. subst st_a nm1.
  rewrite add_edge_end_ins.
  pose proof (inserts_end (trole o, CA (ttgt o), ep)) as I.
  split.
  { eapply WF_add_ca; try eassumption.
    destruct (dget atom_eqb (ttgt o) nm) as [[i|]|] eqn:D; auto.
    right. repeat split; auto. apply colon_not_slash. exact Hc. }
  split; [apply ins_at_ext|]. split.
  - eapply perm_trans; [eapply store_triples_ins; try eassumption; eapply WF_ids_lt; eassumption|].
    unfold cedge_triple, edge_of. simpl. rewrite Hi.
    rewrite <- (akey_eqb _ _ Evw), (akey_eqb _ _ Esv). apply Permutation_refl.
  - unfold ins_at. rewrite (nth_error_upd_same _ _ _ _ G). simpl. eauto.
Qed.

(* edge to a freshly configured child *)
Lemma step_attach : forall P st nm id w es0 var o ep cid st0,
  WF (cid :: P) st nm -> nth_error st id = Some (w, es0) -> atom_eqb var w = true ->
  atom_eqb (tsrc o) var = true -> is_instance o = false ->
  id < cid -> cid < length st0 -> ext (st0) st -> node_var_at st0 cid = ttgt o ->
  let st_a := add_edge_end id (trole o, CN cid, ep) st in
  WF P st_a nm /\ ext st st_a /\
  Permutation (store_triples st_a) (edge_of o :: store_triples st) /\
  exists es1, nth_error st_a id = Some (w, es1).
Proof.
  intros P st nm id w es0 var o ep cid st0 W G Evw Esv Hi L1 L2 X Hv st_a. subst st_a.
  pose proof (ext_length _ _ X) as L3.
  split; [eapply WF_attach; try eassumption; lia|].
  rewrite add_edge_end_ins.
  pose proof (inserts_end (trole o, CN cid, ep)) as I.
  split; [apply ins_at_ext|]. split.
  - eapply perm_trans; [eapply store_triples_ins; try eassumption; eapply WF_ids_lt; eassumption|].
    unfold cedge_triple, edge_of. simpl. rewrite Hi.
    rewrite (ext_var_at _ _ _ X L2), Hv.
    rewrite <- (akey_eqb _ _ Evw), (akey_eqb _ _ Esv). apply Permutation_refl.
  - unfold ins_at. rewrite (nth_error_upd_same _ _ _ _ G). simpl. eauto.
Qed.

(* ------------------------------------------------------------------ *)
(** * [cnode] = _configure_node *)

Lemma is_instance_invert : forall m t, is_instance (invert m t) = str_eqb (invert_role m (trole t)) INSTANCE.
Proof. reflexivity. Qed.

Lemma colon_ok_cons : forall t ts, colon_ok (t :: ts) ->
  startswith (trole t) [COLON] = true /\ colon_ok ts.
Proof. intros t ts H. inversion H; subst. auto. Qed.

Lemma colon_ok_app : forall a b, colon_ok (a ++ b) <-> colon_ok a /\ colon_ok b.
Proof. intros. apply Forall_app. Qed.

Lemma cnode_spec : forall f m var id surp data st nm P s' data' st' nm',
  cnode f m var id surp data st nm = Ok (s', data', st', nm') ->
  WF P st nm -> colon_ok (data_triples data) ->
  (exists w es, nth_error st id = Some (w, es) /\ atom_eqb var w = true) ->
  WF P st' nm' /\ ext st st' /\
  exists used, data = used ++ data' /\ Adds m (data_triples used) st st'.
Proof.
  induction f as [|f IH]; intros m var id surp data st nm P s' data' st' nm' E W C N; [discriminate|].
  destruct data as [|d data0].
  { simpl in E. inversion E; subst. split; [exact W|]. split; [apply ext_refl|].
    exists []. split; [reflexivity|apply Adds_nil, Permutation_refl]. }
  destruct d as [t push es|].
  2:{ simpl in E. inversion E; subst. split; [exact W|]. split; [apply ext_refl|].
      exists [DPop]. split; [reflexivity|apply Adds_nil, Permutation_refl]. }
  simpl in C. apply colon_ok_cons in C. destruct C as [Ct C].
  destruct N as (w & es0 & G & Evw).
  (* common continuation: one oriented triple [o] was placed, then recursion *)
  assert (K : forall o surp1 st_a nm_a,
    (o = t \/ (o = invert m t /\ is_instance t = false)) ->
    cnode f m var id surp1 data0 st_a nm_a = Ok (s', data', st', nm') ->
    WF P st_a nm_a -> ext st st_a ->
    Permutation (store_triples st_a) (written o ++ store_triples st) ->
    (exists es1, nth_error st_a id = Some (w, es1)) ->
    WF P st' nm' /\ ext st st' /\
    exists used, DT t push es :: data0 = used ++ data' /\ Adds m (data_triples used) st st').
  { intros o surp1 st_a nm_a Ho E1 Wa Xa Pa [es1 Ga].
    destruct (IH _ _ _ _ _ _ _ _ _ _ _ _ E1 Wa C) as (W' & X' & used & Eu & Au); [eauto|].
    split; [exact W'|]. split; [eapply ext_trans; eassumption|].
    exists (DT t push es :: used). split; [rewrite Eu; reflexivity|].
    change (data_triples (DT t push es :: used)) with ([t] ++ data_triples used).
    eapply Adds_app; [|exact Au].
    eapply Adds_one; [exists o; split; [exact Ho|reflexivity]|exact Pa]. }
  cbn [cnode] in E.
  destruct (atom_eqb (tsrc t) var) eqn:Esv.
  - (* expected orientation: o = t *)
    destruct (str_eqb (trole t) INSTANCE) eqn:Hi.
    + destruct (missing_concept (ttgt t)) eqn:Hm.
      * eapply (K t); [left; reflexivity|exact E|exact W|apply ext_refl| |eauto].
        unfold written, is_instance. rewrite Hi, Hm. apply Permutation_refl.
      * destruct (step_front P st nm id w es0 var t es W G Evw Esv Hi) as (Wa & Xa & Pa & Ga).
        eapply (K t); [left; reflexivity|exact E|exact Wa|exact Xa| |exact Ga].
        unfold written, is_instance. rewrite Hi, Hm. exact Pa.
    + destruct (push && negb (has_node (ttgt t) st nm)) eqn:Hp.
      * (* push: configure the child first *)
        apply andb_true_iff in Hp. destruct Hp as [_ Hn]. apply negb_true_iff in Hn.
        destruct (cnode f m (ttgt t) (length st) false data0 (st ++ [(ttgt t, [])])
                    (dset atom_eqb (ttgt t) (Some (length st)) nm))
          as [[[[s2 data2] st2] nm2]| | | | | | | |] eqn:E1; try discriminate.
        pose proof (WF_push _ _ _ _ W Hn) as W1.
        assert (C1 : colon_ok (data_triples data0)) by exact C.
        assert (Lid : id < length st) by (apply nth_error_Some; congruence).
        destruct (IH _ _ _ _ _ _ _ _ _ _ _ _ E1 W1 C1) as (W2 & X2 & used1 & Eu1 & Au1).
        { exists (ttgt t), []. split; [|apply atom_eqb_refl].
          rewrite nth_error_app2 by lia. rewrite Nat.sub_diag. reflexivity. }
        assert (X1 : ext st (st ++ [(ttgt t, [])])) by (exists [ttgt t]; rewrite map_app; reflexivity).
        destruct (ext_nth _ _ _ _ _ (ext_trans _ _ _ X1 X2) G) as [es2 G2].
        assert (Hv : node_var_at (st ++ [(ttgt t, [])]) (length st) = ttgt t).
        { unfold node_var_at. rewrite map_app, app_nth2 by (rewrite map_length; lia).
          rewrite map_length, Nat.sub_diag. reflexivity. }
        destruct (step_attach P st2 nm2 id w es2 var t es (length st) (st ++ [(ttgt t, [])])
                    W2 G2 Evw Esv Hi Lid) as (Wa & Xa & Pa & [es3 Ga]);
          [rewrite app_length; simpl; lia|exact X2|exact Hv|].
        rewrite Eu1 in C1. rewrite data_triples_app in C1. apply colon_ok_app in C1. destruct C1 as [_ C2].
        destruct (IH _ _ _ _ _ _ _ _ _ _ _ _ E Wa C2) as (W' & X' & used2 & Eu2 & Au2); [eauto|].
        split; [exact W'|].
        split; [eapply ext_trans; [exact X1|]; eapply ext_trans; [exact X2|];
                eapply ext_trans; [exact Xa|exact X']|].
        exists (DT t push es :: used1 ++ used2).
        split; [rewrite Eu1, Eu2; simpl; rewrite <- app_assoc; reflexivity|].
        apply (Adds_perm m (data_triples used1 ++ [t] ++ data_triples used2)).
        { simpl. rewrite data_triples_app. apply Permutation_sym, Permutation_middle. }
        eapply Adds_app; [eapply Adds_store_eq; [eapply store_triples_push; exact W|exact Au1]|].
        eapply Adds_app; [|exact Au2].
        eapply Adds_one; [exists t; split; [left; reflexivity|reflexivity]|].
        unfold written, is_instance. rewrite Hi. exact Pa.
      * destruct (step_end_ca P st nm id w es0 var t es W G Evw Esv Hi Ct) as (Wa & Xa & Pa & Ga).
        eapply (K t); [left; reflexivity|exact E|exact Wa|exact Xa| |exact Ga].
        unfold written, is_instance. rewrite Hi. exact Pa.
  - destruct (atom_eqb (ttgt t) var && negb (str_eqb (trole t) INSTANCE)) eqn:Hinv.
    + (* unexpected inversion: o = invert m t, push dropped *)
      apply andb_true_iff in Hinv. destruct Hinv as [Etv Hni]. apply negb_true_iff in Hni.
      assert (Hor : invert m t = t \/ (invert m t = invert m t /\ is_instance t = false))
        by (right; split; [reflexivity|exact Hni]).
      assert (Eso : atom_eqb (tsrc (invert m t)) var = true) by exact Etv.
      assert (Co : startswith (trole (invert m t)) [COLON] = true)
        by (apply colon_invert_role; exact Ct).
      destruct (str_eqb (trole (invert m t)) INSTANCE) eqn:Hi.
      * destruct (missing_concept (ttgt (invert m t))) eqn:Hm.
        -- eapply (K (invert m t)); [exact Hor|exact E|exact W|apply ext_refl| |eauto].
           unfold written, is_instance. rewrite Hi, Hm. apply Permutation_refl.
        -- destruct (step_front P st nm id w es0 var (invert m t) es W G Evw Eso Hi) as (Wa & Xa & Pa & Ga).
           eapply (K (invert m t)); [exact Hor|exact E|exact Wa|exact Xa| |exact Ga].
           unfold written, is_instance. rewrite Hi, Hm. exact Pa.
      * cbn [andb] in E.
        destruct (step_end_ca P st nm id w es0 var (invert m t) es W G Evw Eso Hi Co) as (Wa & Xa & Pa & Ga).
        eapply (K (invert m t)); [exact Hor|exact E|exact Wa|exact Xa| |exact Ga].
        unfold written, is_instance. rewrite Hi. exact Pa.
    + (* cannot place *)
      inversion E; subst. split; [exact W|]. split; [apply ext_refl|].
      exists []. split; [reflexivity|apply Adds_nil, Permutation_refl].
Qed.

(* ------------------------------------------------------------------ *)
(** * A small solver for permutations of concatenations *)

Lemma pf_here : forall {A} (a r : list A), Permutation (a ++ r) (a ++ r).
Proof. intros. apply Permutation_refl. Qed.
Lemma pf_there : forall {A} (a b r r' : list A),
  Permutation r (a ++ r') -> Permutation (b ++ r) (a ++ b ++ r').
Proof.
  intros A a b r r' H. eapply perm_trans; [apply Permutation_app_head, H|].
  rewrite !app_assoc. apply Permutation_app_tail, Permutation_app_comm.
Qed.
Lemma pstep_lemma : forall {A} (a l r r' : list A),
  Permutation r (a ++ r') -> Permutation l r' -> Permutation (a ++ l) r.
Proof.
  intros A a l r r' H1 H2. apply Permutation_sym. eapply perm_trans; [exact H1|].
  apply Permutation_app_head, Permutation_sym, H2.
Qed.
Lemma perm_pad : forall {A} (l r : list A), Permutation (l ++ []) (r ++ []) -> Permutation l r.
Proof. intros A l r. rewrite !app_nil_r. auto. Qed.

Ltac pfind := first [ apply pf_here | (apply pf_there; pfind) ].
Ltac pstep := eapply pstep_lemma; [pfind|].
Ltac psolve := apply perm_pad; rewrite <- ?app_assoc; repeat pstep; apply perm_nil.

Lemma data_triples_rev : forall d, Permutation (data_triples (rev d)) (data_triples d).
Proof. intros d. apply Permutation_flat_map. apply Permutation_sym, Permutation_rev. Qed.

(* ------------------------------------------------------------------ *)
(** * [find_next] *)

Lemma guarded_site_spec : forall P v st nm ok st1 nm1,
  WF P st nm ->
  (if dmem atom_eqb v nm then site v st nm else (false, st, nm)) = (ok, st1, nm1) ->
  (ok = false /\ st1 = st /\ nm1 = nm) \/
  (ok = true /\ WF P st1 nm1 /\ ext st st1 /\ store_triples st1 = store_triples st /\
   exists id w es, dget atom_eqb v nm1 = Some (Some id) /\ nth_error st1 id = Some (w, es) /\
                   atom_eqb v w = true).
Proof.
  intros P v st nm ok st1 nm1 W E.
  destruct (dmem atom_eqb v nm).
  - destruct ok.
    + right. split; [reflexivity|]. eapply site_spec; eassumption.
    + left. apply site_false_same in E. tauto.
  - inversion E; subst. left. auto.
Qed.

Lemma find_next_content : forall data acc st nm sk var data1 st1 nm1 P,
  find_next data acc st nm = (sk, var, data1, st1, nm1) -> WF P st nm ->
  rev sk ++ data1 = rev acc ++ data /\
  WF P st1 nm1 /\ ext st st1 /\ store_triples st1 = store_triples st /\
  (forall v, var = Some v ->
     exists id w es, dget atom_eqb v nm1 = Some (Some id) /\ nth_error st1 id = Some (w, es) /\
                     atom_eqb v w = true).
Proof.
  induction data as [|d data IH]; intros acc st nm sk var data1 st1 nm1 P E W.
  - simpl in E. inversion E; subst. rewrite !app_nil_r.
    split; [reflexivity|]. split; [exact W|]. split; [apply ext_refl|]. split; [reflexivity|].
    intros; discriminate.
  - destruct d as [t push es|].
    + cbn [find_next] in E.
      destruct (if dmem atom_eqb (tsrc t) nm then site (tsrc t) st nm else (false, st, nm))
        as [[ok1 sa] na] eqn:S1.
      destruct (guarded_site_spec _ _ _ _ _ _ _ W S1) as [(-> & -> & ->)|(-> & Wa & Xa & Ta & Ha)].
      2:{ inversion E; subst. split; [reflexivity|]. split; [exact Wa|]. split; [exact Xa|]. split; [exact Ta|].
          intros v Hv. inversion Hv; subst. exact Ha. }
      destruct (if dmem atom_eqb (ttgt t) nm then site (ttgt t) st nm else (false, st, nm))
        as [[ok2 sb] nb] eqn:S2.
      destruct (guarded_site_spec _ _ _ _ _ _ _ W S2) as [(-> & -> & ->)|(-> & Wa & Xa & Ta & Ha)].
      2:{ inversion E; subst. split; [reflexivity|]. split; [exact Wa|]. split; [exact Xa|]. split; [exact Ta|].
          intros v Hv. inversion Hv; subst. exact Ha. }
      destruct data as [|d' data'].
      { inversion E; subst. split; [reflexivity|]. split; [exact W|]. split; [apply ext_refl|].
        split; [reflexivity|]. intros; discriminate. }
      apply IH with (P := P) in E; [|exact W].
      destruct E as (E & R). split; [|exact R].
      rewrite E. simpl. rewrite <- app_assoc. reflexivity.
    + cbn [find_next] in E.
      destruct data as [|d' data'].
      { inversion E; subst. split; [reflexivity|]. split; [exact W|]. split; [apply ext_refl|].
        split; [reflexivity|]. intros; discriminate. }
      apply IH with (P := P) in E; [|exact W].
      destruct E as (E & R). split; [|exact R].
      rewrite E. simpl. rewrite <- app_assoc. reflexivity.
Qed.

(* ------------------------------------------------------------------ *)
(** * [cloop] = the while loop of configure *)

Lemma cloop_spec : forall f m data skipped st nm st',
  cloop f m data skipped st nm = Ok st' ->
  WF [] st nm -> colon_ok (data_triples data) -> colon_ok (data_triples skipped) ->
  (exists nm', WF [] st' nm') /\ ext st st' /\
  Adds m (data_triples data ++ data_triples skipped) st st'.
Proof.
  induction f as [|f IH]; intros m data skipped st nm st' E W Cd Cs; [discriminate|].
  rewrite cloop_S in E.
  destruct data as [|d0 data0].
  { destruct skipped; [|discriminate]. inversion E; subst.
    split; [eauto|]. split; [apply ext_refl|]. apply Adds_nil, Permutation_refl. }
  remember (d0 :: data0) as data eqn:Hdata.
  destruct (find_next data [] st nm) as [[[[sk var] data1] st1] nm1] eqn:FN.
  destruct (find_next_content _ _ _ _ _ _ _ _ _ [] FN W) as (Esplit & W1 & X1 & T1 & Hv).
  simpl in Esplit.
  cbv zeta in E.
  destruct var as [v|]; [|discriminate].
  destruct (Hv v eq_refl) as (id & w & es & D & G & Evw).
  assert (E' :
    (if Nat.eqb (length data1) 0 then LayoutErr 1
     else match dget atom_eqb v nm1 with
          | Some (Some id) =>
              r <- cnode (S (length data1)) m v id false data1 st1 nm1 ;;
              let '(surp, data2, st2, nm2) := r in
              if Nat.eqb (length data2) (length data1) && surp then
                match data2 with
                | d :: data3 => cloop f m (drop_pops data3) (d :: skipped ++ sk) st2 nm2
                | [] => Other 3
                end
              else if Nat.leb (length data1) (length data2) then LayoutErr 2
              else cloop f m (drop_pops (data2 ++ rev (skipped ++ sk))) [] st2 nm2
          | _ => Other 2
          end) = Ok st').
  { destruct v; [discriminate|exact E|exact E]. }
  clear E.
  destruct (Nat.eqb (length data1) 0); [discriminate|].
  rewrite D in E'.
  destruct (cnode (S (length data1)) m v id false data1 st1 nm1)
    as [[[[surp data2] st2] nm2]| | | | | | | |] eqn:EC; try discriminate.
  cbn [bind] in E'.
  (* multiset bookkeeping *)
  assert (Pdata : Permutation (data_triples data) (data_triples sk ++ data_triples data1)).
  { rewrite <- Esplit, data_triples_app. apply Permutation_app_tail, data_triples_rev. }
  assert (Call : colon_ok (data_triples sk ++ data_triples data1)).
  { unfold colon_ok. eapply Permutation_Forall; [exact Pdata|exact Cd]. }
  apply colon_ok_app in Call. destruct Call as [Csk Cd1].
  destruct (cnode_spec _ _ _ _ _ _ _ _ [] _ _ _ _ EC W1 Cd1) as (W2 & X2 & used & Eu & Au); [eauto|].
  assert (Cd1' := Cd1). rewrite Eu, data_triples_app in Cd1'. apply colon_ok_app in Cd1'.
  destruct Cd1' as [_ Cd2].
  apply (Adds_store_eq _ _ _ _ _ T1) in Au.
  destruct (Nat.eqb (length data2) (length data1) && surp).
  - (* no progress: the unplaceable datum moves to [skipped] *)
    destruct data2 as [|d data3]; [discriminate|].
    assert (Cd3 : colon_ok (data_triples (drop_pops data3))).
    { rewrite data_triples_drop_pops.
      change (d :: data3) with ([d] ++ data3) in Cd2. rewrite data_triples_app in Cd2.
      apply colon_ok_app in Cd2. tauto. }
    assert (Cs' : colon_ok (data_triples (d :: skipped ++ sk))).
    { change (d :: skipped ++ sk) with ([d] ++ skipped ++ sk). rewrite !data_triples_app.
      change (d :: data3) with ([d] ++ data3) in Cd2. rewrite data_triples_app in Cd2.
      apply colon_ok_app in Cd2. destruct Cd2 as [Cdd _].
      apply colon_ok_app; split; [exact Cdd|]. apply colon_ok_app; split; assumption. }
    destruct (IH _ _ _ _ _ _ E' W2 Cd3 Cs') as (W' & X' & A').
    split; [exact W'|]. split; [eapply ext_trans; [exact X1|]; eapply ext_trans; eassumption|].
    eapply Adds_perm; [|eapply Adds_app; [exact Au|exact A']].
    rewrite data_triples_drop_pops.
    change (d :: skipped ++ sk) with ([d] ++ skipped ++ sk). rewrite !data_triples_app.
    apply Permutation_sym.
    eapply perm_trans; [apply Permutation_app_tail, Pdata|].
    rewrite Eu. change (d :: data3) with ([d] ++ data3). rewrite !data_triples_app.
    psolve.
  - destruct (Nat.leb (length data1) (length data2)); [discriminate|].
    assert (Cd3 : colon_ok (data_triples (drop_pops (data2 ++ rev (skipped ++ sk))))).
    { rewrite data_triples_drop_pops, data_triples_app.
      apply colon_ok_app; split; [exact Cd2|].
      unfold colon_ok. eapply Permutation_Forall; [apply Permutation_sym, data_triples_rev|].
      rewrite data_triples_app. apply colon_ok_app; split; assumption. }
    destruct (IH _ _ _ _ _ _ E' W2 Cd3 (Forall_nil _)) as (W' & X' & A').
    split; [exact W'|]. split; [eapply ext_trans; [exact X1|]; eapply ext_trans; eassumption|].
    eapply Adds_perm; [|eapply Adds_app; [exact Au|exact A']].
    rewrite data_triples_drop_pops, data_triples_app. simpl. rewrite app_nil_r.
    apply Permutation_sym.
    eapply perm_trans; [apply Permutation_app_tail, Pdata|].
    eapply perm_trans; [|apply Permutation_app_head, Permutation_app_head, Permutation_sym, data_triples_rev].
    rewrite Eu. rewrite !data_triples_app.
    psolve.
Qed.

(* ------------------------------------------------------------------ *)
(** * Forests given by a child function with increasing ids

    If every child id is larger than its parent, and every id 1..n-1 is the
    child of exactly one edge, the depth-first visit from 0 meets every id
    exactly once. *)

Lemma flat_map_ext_in : forall {A B} (f g : A -> list B) l,
  (forall a, In a l -> f a = g a) -> flat_map f l = flat_map g l.
Proof.
  intros A B f g l H. induction l as [|x l IH]; simpl; [reflexivity|].
  rewrite H by (left; reflexivity). rewrite IH; [reflexivity|].
  intros a Ia. apply H. right. exact Ia.
Qed.

Lemma filter_none : forall {A} (f : A -> bool) l, (forall x, In x l -> f x = false) -> filter f l = [].
Proof.
  intros A f l H. induction l as [|x l IH]; simpl; [reflexivity|].
  rewrite H by (left; reflexivity). apply IH. intros y Iy. apply H. right. exact Iy.
Qed.

Lemma filter_all : forall {A} (f : A -> bool) l, (forall x, In x l -> f x = true) -> filter f l = l.
Proof.
  intros A f l H. induction l as [|x l IH]; simpl; [reflexivity|].
  rewrite H by (left; reflexivity). f_equal. apply IH. intros y Iy. apply H. right. exact Iy.
Qed.

Lemma Permutation_filter' : forall {A} (f : A -> bool) l l',
  Permutation l l' -> Permutation (filter f l) (filter f l').
Proof.
  intros A f l l' P. induction P; simpl.
  - constructor.
  - destruct (f x); [constructor|]; assumption.
  - destruct (f x), (f y); try apply Permutation_refl. apply perm_swap.
  - eapply perm_trans; eassumption.
Qed.

Lemma filter_eq_seq : forall k len a, a <= k < a + len ->
  filter (fun x => Nat.eqb x k) (seq a len) = [k].
Proof.
  induction len as [|len IH]; intros a H; [lia|]. simpl.
  destruct (Nat.eqb a k) eqn:E.
  - apply Nat.eqb_eq in E. subst. f_equal.
    apply filter_none. intros x Ix. apply in_seq in Ix. apply Nat.eqb_neq. lia.
  - apply Nat.eqb_neq in E. apply IH. lia.
Qed.

Lemma filter_le_split : forall k l,
  Permutation (filter (fun c => Nat.leb k c) l)
              (filter (fun c => Nat.eqb c k) l ++ filter (fun c => Nat.leb (S k) c) l).
Proof.
  intros k. induction l as [|x l IH]; cbn [filter]; [constructor|].
  destruct (Nat.leb_spec k x), (Nat.eqb_spec x k), (Nat.leb_spec (S k) x); try lia; cbn [app].
  - constructor. exact IH.
  - eapply perm_trans; [constructor; exact IH|]. apply Permutation_middle.
  - exact IH.
Qed.

Section Forest.
  Variable n : nat.
  Variable ch : nat -> list nat.
  Hypothesis up : forall i c, In c (ch i) -> i < c < n.
  Hypothesis tree : Permutation (flat_map ch (seq 0 n)) (seq 1 (n - 1)).
  Hypothesis pos : 0 < n.

  Fixpoint vis (f : nat) (i : nat) : list nat :=
    match f with O => [] | S f' => i :: flat_map (vis f') (ch i) end.

  Lemma vis_fuel : forall f f' i, n - i <= f -> n - i <= f' -> i < n -> vis f i = vis f' i.
  Proof.
    induction f as [|f IH]; intros f' i H1 H2 L; [lia|].
    destruct f' as [|f']; [lia|]. simpl. f_equal.
    apply flat_map_ext_in. intros c Ic. apply up in Ic. apply IH; lia.
  Qed.

  Definition full (i : nat) : list nat := vis (n - i) i.

  Lemma full_unfold : forall i, i < n -> full i = i :: flat_map full (ch i).
  Proof.
    intros i L. unfold full. destruct (n - i) as [|f] eqn:E; [lia|]. simpl. f_equal.
    apply flat_map_ext_in. intros c Ic. apply up in Ic. apply vis_fuel; lia.
  Qed.

  Definition kids (k : nat) : list nat := flat_map ch (seq 0 k).
  Definition roots (k : nat) : list nat := filter (fun c => Nat.leb k c) (kids k).

  Lemma kids_S : forall k, kids (S k) = kids k ++ ch k.
  Proof. intros k. unfold kids. rewrite seq_S, flat_map_app. simpl. rewrite app_nil_r. reflexivity. Qed.

  Lemma kids_lt : forall k c, In c (kids k) -> c < n.
  Proof.
    intros k c H. unfold kids in H. apply in_flat_map in H. destruct H as (j & _ & Ic).
    apply up in Ic. lia.
  Qed.

  Lemma once_below : forall k, 1 <= k < n -> filter (fun c => Nat.eqb c k) (kids k) = [k].
  Proof.
    intros k H.
    assert (S1 : seq 0 n = seq 0 k ++ seq k (n - k)).
    { replace n with (k + (n - k)) at 1 by lia. apply seq_app. }
    pose proof (Permutation_filter' (fun c => Nat.eqb c k) _ _ tree) as P.
    rewrite (filter_eq_seq k (n - 1) 1) in P by lia.
    rewrite S1, flat_map_app, filter_app in P. fold (kids k) in P.
    rewrite (filter_none _ (flat_map ch (seq k (n - k)))) in P.
    2:{ intros x Ix. apply in_flat_map in Ix. destruct Ix as (j & Ij & Ic).
        apply in_seq in Ij. apply up in Ic. apply Nat.eqb_neq. lia. }
    rewrite app_nil_r in P. apply Permutation_sym, Permutation_length_1_inv in P. exact P.
  Qed.

  Lemma forest_level : forall d k, k + d = n -> 1 <= k ->
    Permutation (flat_map full (roots k)) (seq k d).
  Proof.
    induction d as [|d IH]; intros k E L.
    - unfold roots. rewrite filter_none; [constructor|].
      intros c Ic. apply kids_lt in Ic. apply Nat.leb_gt. lia.
    - assert (R1 : roots (S k) = filter (fun c => Nat.leb (S k) c) (kids k) ++ ch k).
      { unfold roots. rewrite kids_S, filter_app. f_equal.
        apply filter_all. intros c Ic. apply up in Ic. apply Nat.leb_le. lia. }
      assert (R0 : Permutation (roots k) (k :: filter (fun c => Nat.leb (S k) c) (kids k))).
      { unfold roots. eapply perm_trans; [apply filter_le_split|].
        rewrite once_below by lia. apply Permutation_refl. }
      eapply perm_trans; [apply Permutation_flat_map, R0|].
      simpl. rewrite full_unfold by lia. simpl. constructor.
      eapply perm_trans; [|apply (IH (S k)); lia].
      rewrite R1, flat_map_app. apply Permutation_app_comm.
  Qed.

  Theorem forest_visit : Permutation (vis (S n) 0) (seq 0 n).
  Proof.
    rewrite (vis_fuel (S n) (n - 0) 0) by lia. fold (full 0).
    rewrite full_unfold by exact pos.
    assert (Sq : seq 0 n = 0 :: seq 1 (n - 1)).
    { clear - pos. destruct n; [lia|]. simpl. rewrite Nat.sub_0_r. reflexivity. }
    rewrite Sq. constructor.
    assert (R : roots 1 = ch 0).
    { unfold roots. rewrite kids_S. unfold kids. cbn [seq flat_map app].
      apply filter_all. intros c Ic. apply up in Ic. apply Nat.leb_le. lia. }
    rewrite <- R. apply forest_level; lia.
  Qed.
End Forest.

Lemma find_next_content_lists : forall data acc st nm sk var data1 st1 nm1,
  find_next data acc st nm = (sk, var, data1, st1, nm1) -> rev sk ++ data1 = rev acc ++ data.
Proof.
  induction data as [|d data IH]; intros acc st nm sk var data1 st1 nm1 E.
  - simpl in E. inversion E; subst. rewrite !app_nil_r. reflexivity.
  - destruct d as [t push es|]; cbn [find_next] in E.
    + destruct (if dmem atom_eqb (tsrc t) nm then site (tsrc t) st nm else (false, st, nm))
        as [[ok1 sa] na].
      destruct ok1; [inversion E; subst; reflexivity|].
      destruct (if dmem atom_eqb (ttgt t) nm then site (ttgt t) st nm else (false, st, nm))
        as [[ok2 sb] nb].
      destruct ok2; [inversion E; subst; reflexivity|].
      destruct data as [|d' data']; [inversion E; subst; reflexivity|].
      apply IH in E. rewrite E. simpl. rewrite <- app_assoc. reflexivity.
    + destruct data as [|d' data']; [inversion E; subst; reflexivity|].
      apply IH in E. rewrite E. simpl. rewrite <- app_assoc. reflexivity.
Qed.

(* ------------------------------------------------------------------ *)
(** * Surface markers: when the epidata holds layout markers only, no edge of
      the store carries an alignment *)

Definition eps_store (st : store) : Prop :=
  forall ve e, In ve st -> In e (snd ve) -> snd e = [].
Definition eps_datum (d : datum) : Prop := match d with DT _ _ es => es = [] | DPop => True end.
Definition eps_data (data : list datum) : Prop := Forall eps_datum data.

Lemma eps_store_upd : forall st id f,
  eps_store st -> (forall ve, (forall e, In e (snd ve) -> snd e = []) ->
                               forall e, In e (snd (f ve)) -> snd e = []) ->
  eps_store (upd id f st).
Proof.
  induction st as [|x st IH]; intros id f H Hf ve e Ive Ie; [destruct id; contradiction|].
  destruct id as [|id]; simpl in Ive.
  - destruct Ive as [<-|Ive].
    + eapply Hf; [|exact Ie]. intros e' Ie'. eapply H; [left; reflexivity|exact Ie'].
    + eapply H; [right; exact Ive|exact Ie].
  - destruct Ive as [<-|Ive].
    + eapply H; [left; reflexivity|exact Ie].
    + eapply (IH id f); [|exact Hf|exact Ive|exact Ie].
      intros ve' e' I1 I2. eapply H; [right; exact I1|exact I2].
Qed.

Lemma eps_store_add_end : forall st id r t, eps_store st -> eps_store (add_edge_end id (r, t, []) st).
Proof.
  intros st id r t H. apply eps_store_upd; [exact H|].
  intros ve Hve e Ie. simpl in Ie. apply in_app_or in Ie. destruct Ie as [Ie|[<-|[]]]; auto.
Qed.
Lemma eps_store_add_front : forall st id r t, eps_store st -> eps_store (add_edge_front id (r, t, []) st).
Proof.
  intros st id r t H. apply eps_store_upd; [exact H|].
  intros ve Hve e Ie. simpl in Ie. destruct Ie as [<-|Ie]; auto.
Qed.
Lemma eps_store_snoc : forall st v, eps_store st -> eps_store (st ++ [(v, [])]).
Proof.
  intros st v H ve e Ive Ie. apply in_app_or in Ive. destruct Ive as [Ive|[<-|[]]].
  - eapply H; eassumption.
  - contradiction.
Qed.

Lemma cnode_eps : forall f m var id surp data st nm s' data' st' nm',
  cnode f m var id surp data st nm = Ok (s', data', st', nm') ->
  eps_store st -> eps_data data -> eps_store st' /\ eps_data data'.
Proof.
  induction f as [|f IH]; intros m var id surp data st nm s' data' st' nm' E S D; [discriminate|].
  destruct data as [|d data0]; [simpl in E; inversion E; subst; auto|].
  destruct d as [t push es|]; [|simpl in E; inversion E; subst; inversion D; auto].
  inversion D as [|? ? Hd D0]; subst. simpl in Hd. subst es.
  cbn [cnode] in E.
  destruct (atom_eqb (tsrc t) var).
  - destruct (str_eqb (trole t) INSTANCE).
    + destruct (missing_concept (ttgt t)); eapply IH; eauto using eps_store_add_front.
    + destruct (push && negb (has_node (ttgt t) st nm)).
      * destruct (cnode f m (ttgt t) (length st) false data0 (st ++ [(ttgt t, [])])
                    (dset atom_eqb (ttgt t) (Some (length st)) nm))
          as [[[[s2 data2] st2] nm2]| | | | | | | |] eqn:E1; try discriminate.
        destruct (IH _ _ _ _ _ _ _ _ _ _ _ E1 (eps_store_snoc _ _ S) D0) as [S2 D2].
        eapply IH; eauto using eps_store_add_end.
      * eapply IH; eauto using eps_store_add_end.
  - destruct (atom_eqb (ttgt t) var && negb (str_eqb (trole t) INSTANCE)).
    + destruct (str_eqb (trole (invert m t)) INSTANCE).
      * destruct (missing_concept (ttgt (invert m t))); eapply IH; eauto using eps_store_add_front.
      * cbn [andb] in E. eapply IH; eauto using eps_store_add_end.
    + inversion E; subst. split; [exact S|]. constructor; [reflexivity|exact D0].
Qed.

Lemma replace_first_eps : forall v nid es, (forall e, In e es -> snd e = []) ->
  forall e, In e (replace_first v nid es) -> snd e = [].
Proof.
  intros v nid. induction es as [|x es IH]; intros H e Ie; [contradiction|].
  destruct x as [[r t] ep]. destruct t as [a|i]; simpl in Ie.
  - destruct (atom_eqb a v && negb (str_eqb r SLASHS)).
    + destruct Ie as [<-|Ie]; [apply (H (r, CA a, ep)); left; reflexivity|apply H; right; exact Ie].
    + destruct Ie as [<-|Ie]; [apply H; left; reflexivity|].
      apply IH; [|exact Ie]. intros e' Ie'. apply H. right. exact Ie'.
  - destruct Ie as [<-|Ie]; [apply H; left; reflexivity|].
    apply IH; [|exact Ie]. intros e' Ie'. apply H. right. exact Ie'.
Qed.

Lemma site_eps : forall v st nm ok st1 nm1,
  site v st nm = (ok, st1, nm1) -> eps_store st -> eps_store st1.
Proof.
  intros v st nm ok st1 nm1. unfold site.
  destruct (dget atom_eqb v nm) as [[id|]|]; try (intros E S; inversion E; subst; exact S).
  destruct (nth_error st id) as [[v' es]|]; try (intros E S; inversion E; subst; exact S).
  destruct (atom_eqb v v'); intros E S; inversion E; subst; [exact S|].
  apply eps_store_snoc. apply eps_store_upd; [exact S|].
  intros ve Hve e Ie. simpl in Ie. eapply replace_first_eps; eassumption.
Qed.

Lemma find_next_eps : forall data acc st nm sk var data1 st1 nm1,
  find_next data acc st nm = (sk, var, data1, st1, nm1) -> eps_store st -> eps_store st1.
Proof.
  induction data as [|d data IH]; intros acc st nm sk var data1 st1 nm1 E S.
  - simpl in E. inversion E; subst. exact S.
  - destruct d as [t push es|]; cbn [find_next] in E.
    + destruct (if dmem atom_eqb (tsrc t) nm then site (tsrc t) st nm else (false, st, nm))
        as [[ok1 sa] na] eqn:S1.
      assert (Sa : eps_store sa).
      { destruct (dmem atom_eqb (tsrc t) nm); [eapply site_eps; eassumption|inversion S1; subst; exact S]. }
      destruct ok1; [inversion E; subst; exact Sa|].
      destruct (if dmem atom_eqb (ttgt t) nm then site (ttgt t) st nm else (false, st, nm))
        as [[ok2 sb] nb] eqn:S2.
      assert (Sb : eps_store sb).
      { destruct (dmem atom_eqb (ttgt t) nm); [eapply site_eps; eassumption|inversion S2; subst; exact S]. }
      destruct ok2; [inversion E; subst; exact Sb|].
      destruct data as [|d' data']; [inversion E; subst; exact S|].
      eapply IH; eassumption.
    + destruct data as [|d' data']; [inversion E; subst; exact S|].
      eapply IH; eassumption.
Qed.

Lemma eps_data_drop_pops : forall d, eps_data d -> eps_data (drop_pops d).
Proof.
  induction d as [|[t p e|] d IH]; intros H; simpl; auto. inversion H; subst. auto.
Qed.

Lemma cloop_eps : forall f m data skipped st nm st',
  cloop f m data skipped st nm = Ok st' ->
  eps_store st -> eps_data data -> eps_data skipped -> eps_store st'.
Proof.
  induction f as [|f IH]; intros m data skipped st nm st' E Hs Dd Ds; [discriminate|].
  rewrite cloop_S in E.
  destruct data as [|d0 data0].
  { destruct skipped; [|discriminate]. inversion E; subst. exact Hs. }
  remember (d0 :: data0) as data eqn:Hdata.
  destruct (find_next data [] st nm) as [[[[sk var] data1] st1] nm1] eqn:FN.
  pose proof (find_next_eps _ _ _ _ _ _ _ _ _ FN Hs) as S1.
  pose proof (find_next_content_lists _ _ _ _ _ _ _ _ _ FN) as Esplit. simpl in Esplit.
  assert (Dall : eps_data (rev sk ++ data1)) by (rewrite Esplit; exact Dd).
  apply Forall_app in Dall. destruct Dall as [Drsk Dd1].
  assert (Dsk : eps_data sk).
  { unfold eps_data. rewrite <- (rev_involutive sk). apply Forall_rev. exact Drsk. }
  cbv zeta in E.
  destruct var as [v|]; [|discriminate].
  assert (E' :
    (if Nat.eqb (length data1) 0 then LayoutErr 1
     else match dget atom_eqb v nm1 with
          | Some (Some id) =>
              r <- cnode (S (length data1)) m v id false data1 st1 nm1 ;;
              let '(surp, data2, st2, nm2) := r in
              if Nat.eqb (length data2) (length data1) && surp then
                match data2 with
                | d :: data3 => cloop f m (drop_pops data3) (d :: skipped ++ sk) st2 nm2
                | [] => Other 3
                end
              else if Nat.leb (length data1) (length data2) then LayoutErr 2
              else cloop f m (drop_pops (data2 ++ rev (skipped ++ sk))) [] st2 nm2
          | _ => Other 2
          end) = Ok st').
  { destruct v; [discriminate|exact E|exact E]. }
  clear E.
  destruct (Nat.eqb (length data1) 0); [discriminate|].
  destruct (dget atom_eqb v nm1) as [[id|]|]; try discriminate.
  destruct (cnode (S (length data1)) m v id false data1 st1 nm1)
    as [[[[surp data2] st2] nm2]| | | | | | | |] eqn:EC; try discriminate.
  cbn [bind] in E'.
  destruct (cnode_eps _ _ _ _ _ _ _ _ _ _ _ _ EC S1 Dd1) as [S2 Dd2].
  destruct (Nat.eqb (length data2) (length data1) && surp).
  - destruct data2 as [|d data3]; [discriminate|]. inversion Dd2; subst.
    eapply IH; [exact E'|exact S2|apply eps_data_drop_pops; assumption|].
    constructor; [assumption|]. apply Forall_app. split; assumption.
  - destruct (Nat.leb (length data1) (length data2)); [discriminate|].
    eapply IH; [exact E'|exact S2| |constructor].
    apply eps_data_drop_pops. apply Forall_app. split; [exact Dd2|].
    apply Forall_rev. apply Forall_app. split; assumption.
Qed.

(* ------------------------------------------------------------------ *)
(** * Reading the tree off the store: [build] visits every node once *)

Definition children (st : store) (i : nat) : list nat :=
  match nth_error st i with Some ve => node_cns ve | None => [] end.
Definition nt (st : store) (i : nat) : list triple :=
  match nth_error st i with Some ve => node_triples st ve | None => [] end.

Lemma flat_map_seq_nth_gen : forall {B} (g : atom * list cedge -> list B) (st pre : store),
  flat_map (fun i => match nth_error (pre ++ st) i with Some ve => g ve | None => [] end)
           (seq (length pre) (length st)) = flat_map g st.
Proof.
  intros B g. induction st as [|x st IH]; intros pre; simpl; [reflexivity|].
  rewrite nth_error_app2 by lia. rewrite Nat.sub_diag. simpl. f_equal.
  specialize (IH (pre ++ [x])). rewrite app_length in IH. simpl in IH.
  rewrite Nat.add_1_r, <- app_assoc in IH. exact IH.
Qed.

Lemma flat_map_seq_nth : forall {B} (g : atom * list cedge -> list B) (st : store),
  flat_map (fun i => match nth_error st i with Some ve => g ve | None => [] end)
           (seq 0 (length st)) = flat_map g st.
Proof. intros B g st. apply (flat_map_seq_nth_gen g st []). Qed.

Lemma node_var_at_nth : forall st i v es, nth_error st i = Some (v, es) -> node_var_at st i = v.
Proof.
  intros st i v es E. unfold node_var_at.
  apply (nth_error_nth (map fst st) i ANone). rewrite nth_error_map, E. reflexivity.
Qed.

Lemma flat_map_flat_map : forall {A B C} (f : B -> list C) (g : A -> list B) l,
  flat_map f (flat_map g l) = flat_map (fun x => flat_map f (g x)) l.
Proof.
  intros A B C f g. induction l as [|x l IH]; simpl; [reflexivity|].
  rewrite flat_map_app, IH. reflexivity.
Qed.

Definition branch_reads (v : atom) (b : branch) : list triple :=
  (akey v, fst b, akey (target_atom (snd b)))
  :: match snd b with TNode n' => node_branch_triples n' | TAtom _ => [] end.
Definition branch_vars (b : branch) : list atom :=
  match snd b with TNode n' => node_all_vars n' | TAtom _ => [] end.
Definition build_branch (f' : nat) (st : store) (e : cedge) : branch :=
  let '(r, t, ep) := e in
  apply_epis r (match t with CA a => TAtom a | CN i => TNode (build f' st i) end) ep.

Lemma build_S : forall f' st i v es, nth_error st i = Some (v, es) ->
  build (S f') st i = Node v (map (build_branch f' st) es).
Proof. intros f' st i v es E. cbn [build]. rewrite E. reflexivity. Qed.

Lemma build_reads : forall st, eps_store st ->
  (forall j w es e i, nth_error st j = Some (w, es) -> In e es -> snd (fst e) = CN i ->
                      j < i < length st) ->
  forall f i, i < length st -> length st - i <= f ->
    node_var (build f st i) = node_var_at st i /\
    Permutation (node_branch_triples (build f st i)) (flat_map (nt st) (vis (children st) f i)) /\
    Permutation (node_all_vars (build f st i)) (map (node_var_at st) (vis (children st) f i)).
Proof.
  intros st Heps Hup. induction f as [|f' IH]; intros i Li Lf; [lia|].
  destruct (nth_error st i) as [[v es]|] eqn:G; [|apply nth_error_None in G; lia].
  rewrite (build_S _ _ _ _ _ G).
  split; [simpl; symmetry; eapply node_var_at_nth; exact G|].
  assert (Hes : forall e, In e es -> snd e = []).
  { intros e Ie. eapply (Heps (v, es)); [eapply nth_error_In; exact G|exact Ie]. }
  assert (Inner : forall es', incl es' es ->
    Permutation (flat_map (branch_reads v) (map (build_branch f' st) es'))
                (map (cedge_triple st v) es' ++
                 flat_map (nt st) (flat_map (vis (children st) f') (flat_map edge_cn es'))) /\
    Permutation (flat_map branch_vars (map (build_branch f' st) es'))
                (map (node_var_at st) (flat_map (vis (children st) f') (flat_map edge_cn es')))).
  { induction es' as [|e es' IHe]; intros Hin; [simpl; split; constructor|].
    assert (Ie : In e es) by (apply Hin; left; reflexivity).
    destruct IHe as [IHt IHv]; [intros x Ix; apply Hin; right; exact Ix|].
    pose proof (Hes e Ie) as Eep.
    destruct e as [[r t] ep]. simpl in Eep. subst ep.
    destruct t as [a|j].
    - simpl. split; [constructor; exact IHt|exact IHv].
    - assert (Lj : i < j < length st) by (eapply Hup; [exact G|exact Ie|reflexivity]).
      destruct (IH j) as (Vj & Tj & Nj); [lia|lia|].
      cbn [map flat_map edge_cn snd fst app build_branch apply_epis fold_left].
      unfold branch_reads at 1. unfold branch_vars at 1. cbn [fst snd target_atom].
      rewrite Vj. rewrite !flat_map_app, map_app.
      split.
      + cbn [app]. unfold cedge_triple at 1. cbn [fst snd ctgt_atom]. constructor.
        eapply perm_trans; [apply Permutation_app; [exact Tj|exact IHt]|].
        psolve.
      + apply Permutation_app; [exact Nj|exact IHv]. }
  destruct (Inner es (incl_refl _)) as [It Iv].
  assert (Ent : nt st i = map (cedge_triple st v) es) by (unfold nt; rewrite G; reflexivity).
  assert (Ech : children st i = flat_map edge_cn es) by (unfold children; rewrite G; reflexivity).
  split.
  - cbn [vis]. rewrite Ech. cbn [flat_map]. rewrite Ent.
    cbn [node_branch_triples].
    change (flat_map (fun b : branch => (akey v, fst b, akey (target_atom (snd b)))
              :: match snd b with TNode n' => node_branch_triples n' | TAtom _ => [] end))
      with (flat_map (branch_reads v)).
    exact It.
  - cbn [vis]. rewrite Ech. cbn [map node_all_vars].
    rewrite (node_var_at_nth _ _ _ _ G). constructor.
    change (flat_map (fun b : branch => match snd b with TNode n' => node_all_vars n' | TAtom _ => [] end))
      with (flat_map branch_vars).
    exact Iv.
Qed.

Lemma In_children : forall P st nm i c, WF P st nm -> In c (children st i) -> i < c < length st.
Proof.
  intros P st nm i c W H. unfold children in H.
  destruct (nth_error st i) as [[v es]|] eqn:G; [|contradiction].
  unfold node_cns in H. simpl in H. apply in_flat_map in H. destruct H as (e & Ie & Ic).
  unfold edge_cn in Ic. destruct (snd (fst e)) as [a|j] eqn:T; [contradiction|].
  destruct Ic as [<-|[]]. eapply (wf_up _ _ _ W); eassumption.
Qed.

Lemma map_var_at_seq : forall st, map (node_var_at st) (seq 0 (length st)) = map fst st.
Proof.
  intros st. apply (nth_ext _ _ ANone ANone).
  - rewrite !map_length, seq_length. reflexivity.
  - intros k Lk. rewrite map_length, seq_length in Lk.
    rewrite (nth_indep _ ANone (node_var_at st 0)) by (rewrite map_length, seq_length; exact Lk).
    rewrite map_nth, seq_nth by exact Lk. reflexivity.
Qed.

Theorem tree_of_store : forall st nm, WF [] st nm -> eps_store st ->
  Permutation (node_branch_triples (build (S (length st)) st 0)) (store_triples st) /\
  Permutation (node_all_vars (build (S (length st)) st 0)) (map fst st) /\
  node_var (build (S (length st)) st 0) = node_var_at st 0.
Proof.
  intros st nm W Heps.
  pose proof (wf_pos _ _ _ W) as Lpos.
  destruct (build_reads st Heps (wf_up _ _ _ W) (S (length st)) 0 Lpos ltac:(lia)) as (Vr & Tr & Nr).
  assert (FV : Permutation (vis (children st) (S (length st)) 0) (seq 0 (length st))).
  { apply forest_visit.
    - intros i c Ic. eapply In_children; eassumption.
    - pose proof (wf_tree _ _ _ W) as T. rewrite app_nil_r in T.
      unfold children. rewrite (flat_map_seq_nth node_cns st). exact T.
    - exact Lpos. }
  split; [|split; [|exact Vr]].
  - eapply perm_trans; [exact Tr|].
    eapply perm_trans; [apply Permutation_flat_map, FV|].
    unfold nt. rewrite (flat_map_seq_nth (node_triples st) st). apply Permutation_refl.
  - eapply perm_trans; [exact Nr|].
    eapply perm_trans; [apply Permutation_map, FV|].
    rewrite map_var_at_seq. apply Permutation_refl.
Qed.

Lemma store_vars_nodup : forall P st nm, WF P st nm -> NoDup (map akey (map fst st)).
Proof.
  intros P st nm W. apply NoDup_nth_error. intros i j Li E.
  rewrite !map_length in Li.
  rewrite !nth_error_map in E.
  destruct (nth_error st i) as [[vi ei]|] eqn:Gi; [|apply nth_error_None in Gi; lia].
  destruct (nth_error st j) as [[vj ej]|] eqn:Gj; [|discriminate].
  simpl in E. inversion E as [K]. apply akey_eq_iff in K.
  pose proof (wf_own _ _ _ W _ _ _ Gi) as Oi. pose proof (wf_own _ _ _ W _ _ _ Gj) as Oj.
  rewrite (dget_cong _ _ _ K) in Oi. congruence.
Qed.

(* ------------------------------------------------------------------ *)
(** * [preconf] = _preconfigure *)

Definition pstep (m : model) (t : triple)
  (st : triple * bool * list epi * nat * list atom) (e : epi) :=
  let '(t', push, keep, pops, pushed) := st in
  match e with
  | Push pv =>
      if mem atom_eqb pv pushed then st
      else if negb (atom_eqb pv (tsrc t) || atom_eqb pv (ttgt t)) || str_eqb (trole t) INSTANCE then st
      else ((if atom_eqb pv (tsrc t) then invert m t' else t'), true, keep, pops, pv :: pushed)
  | Pop => (t', push, keep, S pops, pushed)
  | _ => (t', push, keep ++ [e], pops, pushed)
  end.

Lemma preconf_one_fold : forall m t es pushed,
  preconf_one m t es pushed = fold_left (pstep m t) es (t, false, [], O, pushed).
Proof. reflexivity. Qed.

Lemma mem_cong : forall a b l, atom_eqb a b = true -> mem atom_eqb a l = mem atom_eqb b l.
Proof.
  intros a b l E. unfold mem. induction l as [|x l IH]; simpl; [reflexivity|].
  rewrite (atom_eqb_cong_l _ _ x E), IH. reflexivity.
Qed.

Lemma pstep_orient : forall m t es t0 push0 keep0 pops0 pushed0 t' push keep pops pushed,
  fold_left (pstep m t) es (t0, push0, keep0, pops0, pushed0) = (t', push, keep, pops, pushed) ->
  (t0 = t \/ (t0 = invert m t /\ mem atom_eqb (tsrc t) pushed0 = true /\ is_instance t = false)) ->
  (t' = t \/ (t' = invert m t /\ is_instance t = false)).
Proof.
  intros m t. induction es as [|e es IH]; intros t0 push0 keep0 pops0 pushed0 t' push keep pops pushed E H.
  - simpl in E. inversion E; subst. tauto.
  - simpl in E. destruct e as [pv| |i p|i p]; try (eapply IH; eassumption).
    destruct (mem atom_eqb pv pushed0) eqn:M; [eapply IH; eassumption|].
    destruct (negb (atom_eqb pv (tsrc t) || atom_eqb pv (ttgt t)) || str_eqb (trole t) INSTANCE) eqn:Cnd;
      [eapply IH; eassumption|].
    apply orb_false_iff in Cnd. destruct Cnd as [_ Hni].
    eapply IH; [exact E|].
    destruct (atom_eqb pv (tsrc t)) eqn:Ev.
    + destruct H as [->|[_ [Hm _]]].
      * right. split; [reflexivity|]. split; [|exact Hni].
        unfold mem. simpl. rewrite atom_eqb_sym, Ev. reflexivity.
      * rewrite (mem_cong _ _ _ Ev), Hm in M. discriminate.
    + destruct H as [->|[-> [Hm Hn]]]; [left; reflexivity|].
      right. split; [reflexivity|]. split; [|exact Hn].
      unfold mem in *. simpl. rewrite Hm. apply orb_true_r.
Qed.

Lemma pstep_keep : forall m t es t0 push0 keep0 pops0 pushed0 t' push keep pops pushed,
  fold_left (pstep m t) es (t0, push0, keep0, pops0, pushed0) = (t', push, keep, pops, pushed) ->
  forallb is_layout es = true -> keep = keep0.
Proof.
  intros m t. induction es as [|e es IH]; intros t0 push0 keep0 pops0 pushed0 t' push keep pops pushed E H.
  - simpl in E. inversion E; subst. reflexivity.
  - simpl in H. apply andb_true_iff in H. destruct H as [He H].
    simpl in E. destruct e as [pv| |i p|i p]; try discriminate; try (eapply IH; eassumption).
    destruct (mem atom_eqb pv pushed0); [eapply IH; eassumption|].
    destruct (negb (atom_eqb pv (tsrc t) || atom_eqb pv (ttgt t)) || str_eqb (trole t) INSTANCE);
      eapply IH; eassumption.
Qed.

Definition pre_as (m : model) (x t' : triple) : Prop :=
  t' = x \/ (t' = invert m x /\ is_instance x = false).

Lemma data_triples_pops : forall n, data_triples (repeat DPop n) = [].
Proof. induction n; simpl; auto. Qed.

Lemma preconf_triples : forall m ts ed pushed,
  Forall2 (pre_as m) ts (data_triples (preconf m ts ed pushed)).
Proof.
  intros m. induction ts as [|t ts IH]; intros ed pushed; [constructor|].
  simpl.
  destruct (preconf_one m t (match dget triple_eqb t ed with Some l => l | None => [] end) pushed)
    as [[[[t' push] keep] pops] pushed'] eqn:E.
  simpl. rewrite data_triples_app, data_triples_pops. simpl.
  constructor; [|apply IH].
  rewrite preconf_one_fold in E. eapply pstep_orient; [exact E|left; reflexivity].
Qed.

Lemma dget_In : forall {K V} (eqb : K -> K -> bool) k (d : dict K V) v,
  dget eqb k d = Some v -> exists k', In (k', v) d.
Proof.
  intros K V eqb k. induction d as [|[k' v'] d IH]; intros v E; [discriminate|].
  simpl in E. destruct (eqb k k').
  - inversion E; subst. exists k'. left. reflexivity.
  - destruct (IH _ E) as [k2 I2]. exists k2. right. exact I2.
Qed.

Lemma preconf_eps : forall m ts ed pushed,
  (forall t es, In (t, es) ed -> forallb is_layout es = true) ->
  eps_data (preconf m ts ed pushed).
Proof.
  intros m. induction ts as [|t ts IH]; intros ed pushed H; [constructor|].
  simpl.
  destruct (preconf_one m t (match dget triple_eqb t ed with Some l => l | None => [] end) pushed)
    as [[[[t' push] keep] pops] pushed'] eqn:E.
  constructor.
  - simpl. rewrite preconf_one_fold in E. eapply pstep_keep; [exact E|].
    destruct (dget triple_eqb t ed) as [l|] eqn:D; [|reflexivity].
    destruct (dget_In _ _ _ _ D) as [k' Ik]. eapply H. exact Ik.
  - apply Forall_app. split; [|apply IH; exact H].
    clear. induction pops; simpl; constructor; simpl; auto.
Qed.

(* ------------------------------------------------------------------ *)
(** * [configure] *)

Definition expressed (m : model) (x : triple) (os : list triple) : Prop :=
  exists t', pre_as m x t' /\ placed_as m t' os.

Lemma dget_map_none : forall (v : atom) (l : list atom) i,
  dget atom_eqb v (map (fun x => (x, @None nat)) l) <> Some (Some i).
Proof.
  intros v l i. induction l as [|x l IH]; simpl; [discriminate|].
  destruct (atom_eqb v x); [discriminate|exact IH].
Qed.

Lemma WF_init : forall tp vars,
  WF [] [(tp, [])] (dset atom_eqb tp (Some O) (map (fun v => (v, @None nat)) vars)).
Proof.
  intros tp vars. constructor.
  - intros i v es E. destruct i as [|i]; simpl in E; [|destruct i; discriminate].
    inversion E; subst. apply dget_dset_same.
  - intros v i D. destruct (atom_eqb v tp) eqn:Ev.
    + rewrite dget_dset_eq in D by exact Ev. inversion D; subst. simpl. lia.
    + rewrite dget_dset_other in D by exact Ev. apply dget_map_none in D. contradiction.
  - intros v i w es D E N. destruct (atom_eqb v tp) eqn:Ev.
    + rewrite dget_dset_eq in D by exact Ev. inversion D; subst i. simpl in E.
      inversion E; subst. congruence.
    + rewrite dget_dset_other in D by exact Ev. apply dget_map_none in D. contradiction.
  - intros j w es e i E Ie T. destruct j as [|j]; simpl in E; [|destruct j; discriminate].
    inversion E; subst. contradiction.
  - simpl. constructor.
  - simpl. lia.
Qed.

Lemma pre_as_colon : forall m ts ts', Forall2 (pre_as m) ts ts' -> colon_ok ts -> colon_ok ts'.
Proof.
  intros m ts ts' F. induction F as [|x y l l' Hxy F IH]; intros C; [constructor|].
  inversion C; subst. constructor; [|apply IH; assumption].
  destruct Hxy as [->|[-> _]]; [assumption|]. apply colon_invert_role. assumption.
Qed.

Lemma Forall2_compose : forall {A B C} (R1 : A -> B -> Prop) (R2 : B -> C -> Prop) a b c,
  Forall2 R1 a b -> Forall2 R2 b c -> Forall2 (fun x z => exists y, R1 x y /\ R2 y z) a c.
Proof.
  intros A B C R1 R2 a b c F1. revert c. induction F1; intros c F2; inversion F2; subst; constructor; eauto.
Qed.

Theorem configure_store_content : forall m g top t,
  configure m g top = Ok t -> triples g <> [] -> colon_ok (triples g) ->
  exists tp st nm,
    requested_top g top = Some tp /\
    t = mkTree (build (S (length st)) st 0) (gmeta g) /\
    WF [] st nm /\ node_var_at st 0 = tp /\
    (layout_only g -> eps_store st) /\
    exists os, Forall2 (expressed m) (triples g) os /\
               Permutation (store_triples st) (concat os).
Proof.
  intros m g top t E NE C. unfold configure in E.
  destruct (triples g) as [|t0 ts] eqn:TS; [contradiction|]. rewrite <- TS in *. clear NE.
  fold (requested_top g top) in E.
  destruct (requested_top g top) as [tp|]; [|discriminate].
  destruct (negb (mem atom_eqb tp (variables g))); [discriminate|].
  cbv zeta in E.
  remember (dset atom_eqb tp (Some O) (map (fun v => (v, @None nat)) (variables g))) as nm0 eqn:Hnm0.
  remember (preconf m (triples g) (epidata g) []) as data0 eqn:Hd0.
  destruct (cnode (S (length data0)) m tp O false data0 [(tp, [])] nm0)
    as [[[[s1 data1] st1] nm1]| | | | | | | |] eqn:E1; try discriminate.
  cbn [bind] in E.
  destruct (cloop (configure_fuel (length data1)) m (drop_pops data1) [] st1 nm1)
    as [st2| | | | | | | |] eqn:E2; try discriminate.
  cbn [bind] in E. inversion E; subst t. clear E.
  pose proof (preconf_triples m (triples g) (epidata g) []) as Fpre. rewrite <- Hd0 in Fpre.
  pose proof (pre_as_colon _ _ _ Fpre C) as C0.
  assert (W0 : WF [] [(tp, [])] nm0) by (rewrite Hnm0; apply WF_init).
  destruct (cnode_spec _ _ _ _ _ _ _ _ [] _ _ _ _ E1 W0 C0) as (W1 & X1 & used & Eu & A1).
  { exists tp, []. split; [reflexivity|apply atom_eqb_refl]. }
  assert (C1 : colon_ok (data_triples data1)).
  { rewrite Eu, data_triples_app in C0. apply colon_ok_app in C0. tauto. }
  destruct (cloop_spec _ _ _ _ _ _ _ E2 W1) as ([nm2 W2] & X2 & A2).
  { rewrite data_triples_drop_pops. exact C1. }
  { constructor. }
  exists tp, st2, nm2.
  split; [reflexivity|]. split; [reflexivity|]. split; [exact W2|].
  split.
  { rewrite (ext_var_at [(tp, [])] st2 0 (ext_trans _ _ _ X1 X2)) by (simpl; lia). reflexivity. }
  split.
  { intros LO.
    assert (D0 : eps_data data0) by (rewrite Hd0; apply preconf_eps; exact LO).
    assert (S0 : eps_store [(tp, [])]).
    { intros ve e [<-|[]] Ie. contradiction. }
    destruct (cnode_eps _ _ _ _ _ _ _ _ _ _ _ _ E1 S0 D0) as [S1 D1].
    eapply cloop_eps; [exact E2|exact S1|apply eps_data_drop_pops; exact D1|constructor]. }
  pose proof (Adds_app _ _ _ _ _ _ A1 A2) as A.
  rewrite data_triples_drop_pops in A. simpl in A. rewrite app_nil_r, <- data_triples_app, <- Eu in A.
  destruct A as (os & Fos & Pos).
  exists os. split.
  - pose proof (Forall2_compose _ _ _ _ _ Fpre Fos) as F. exact F.
  - unfold store_triples at 2 in Pos. unfold flat_triples in Pos. simpl in Pos.
    rewrite app_nil_r in Pos. exact Pos.
Qed.

(** T2 at the level of the configured tree *)
Theorem configure_places_each_triple_once : forall m g top t,
  configure m g top = Ok t -> triples g <> [] -> colon_ok (triples g) -> layout_only g ->
  exists tp,
    requested_top g top = Some tp /\ node_var (troot t) = tp /\
    NoDup (map akey (tree_node_vars t)) /\
    exists os, Forall2 (expressed m) (triples g) os /\
               Permutation (tree_triples t) (concat os).
Proof.
  intros m g top t E NE C LO.
  destruct (configure_store_content m g top t E NE C)
    as (tp & st & nm & Htop & Ht & W & Hroot & Heps & os & Fos & Pos).
  destruct (tree_of_store st nm W (Heps LO)) as (PT & PV & HV).
  exists tp. split; [exact Htop|]. subst t. unfold tree_triples, tree_node_vars. cbn [troot].
  split; [rewrite HV; exact Hroot|]. split.
  - eapply Permutation_NoDup; [apply Permutation_sym, Permutation_map, PV|].
    eapply store_vars_nodup. exact W.
  - exists os. split; [exact Fos|]. eapply perm_trans; eassumption.
Qed.

(* ------------------------------------------------------------------ *)
(** * Content up to the model's single deinversion *)

Lemma no_concept_missing : forall a, no_concept a = missing_concept a.
Proof. reflexivity. Qed.

Lemma tkey_deinvert_keys : forall m s r t,
  tkey (deinvert m (akey s, r, akey t)) = tkey (deinvert m (s, r, t)).
Proof.
  intros m s r t. unfold deinvert, invert, tkey, tsrc, trole, ttgt. simpl.
  destruct (deinverts m); [|simpl; rewrite !akey_idem; reflexivity].
  destruct (is_role_inverted m r); simpl; rewrite !akey_idem; reflexivity.
Qed.

Lemma triple_eta : forall x : triple, (tsrc x, trole x, ttgt x) = x.
Proof. intros [[s r] t]. reflexivity. Qed.

Lemma invert_invert : forall m x, invert_role m (invert_role m (trole x)) = trole x ->
  invert m (invert m x) = x.
Proof.
  intros m x H. unfold invert at 1. unfold invert at 1 2 3. unfold tsrc, trole, ttgt in *. simpl.
  destruct x as [[s r] t]. simpl in *. rewrite H. reflexivity.
Qed.

Lemma deinvert_invert : forall m x, deinverts m = true -> role_invertible m (trole x) ->
  deinvert m (invert m x) = deinvert m x.
Proof.
  intros m x Hd (R1 & R3 & _). unfold deinvert. rewrite Hd.
  change (trole (invert m x)) with (invert_role m (trole x)). rewrite R3.
  destruct (is_role_inverted m (trole x)); simpl; [reflexivity|].
  apply invert_invert. exact R1.
Qed.

Lemma instance_not_inverted : forall m, is_role_inverted m INSTANCE = false.
Proof. intros m. unfold is_role_inverted. rewrite andb_false_r. reflexivity. Qed.

Lemma expressed_content : forall m x os, deinverts m = true ->
  startswith (trole x) [COLON] = true ->
  (is_instance x = false -> role_invertible m (trole x)) ->
  expressed m x os ->
  tree_content m os = if is_written x then [tkey (deinvert m x)] else [].
Proof.
  intros m x os Hd Hc Hr (t' & Hpre & o & Ho & ->).
  destruct (is_instance x) eqn:Hi.
  - (* instance triples are never inverted *)
    destruct Hpre as [->|[_ F]]; [|congruence].
    destruct Ho as [->|[_ F]]; [|congruence].
    unfold written, is_written. rewrite Hi. change no_concept with missing_concept.
    destruct (missing_concept (ttgt x)); [reflexivity|].
    unfold tree_content, edge_of. rewrite Hi. simpl.
    unfold unslash. simpl. f_equal.
    unfold is_instance in Hi. apply str_eqb_eq in Hi.
    unfold deinvert. destruct x as [[s r] t]. unfold trole, tsrc, ttgt in *. simpl in *. subst r.
    rewrite !instance_not_inverted. destruct (deinverts m); unfold tkey, tsrc, trole, ttgt; simpl; rewrite !akey_idem; reflexivity.
  - specialize (Hr eq_refl). pose proof Hr as (R1 & R3 & R2).
    assert (Io : is_instance o = false /\ deinvert m o = deinvert m x /\ startswith (trole o) [COLON] = true).
    { assert (Iinv : is_instance (invert m x) = false) by (rewrite is_instance_invert; exact R2).
      destruct Hpre as [->|[-> _]].
      - destruct Ho as [->|[-> _]].
        + auto.
        + split; [exact Iinv|]. split; [apply deinvert_invert; assumption|].
          apply colon_invert_role. exact Hc.
      - destruct Ho as [->|[-> _]].
        + split; [exact Iinv|]. split; [apply deinvert_invert; assumption|].
          apply colon_invert_role. exact Hc.
        + rewrite (invert_invert m x R1). auto. }
    destruct Io as (Io & Do & Co).
    unfold written, is_written. rewrite Io, Hi. simpl.
    unfold tree_content, edge_of. rewrite Io. simpl. f_equal.
    unfold unslash.
    change (trole (akey (tsrc o), trole o, akey (ttgt o))) with (trole o).
    rewrite (colon_not_slash _ Co).
    rewrite tkey_deinvert_keys, triple_eta, Do. reflexivity.
Qed.

Lemma expressed_all_content : forall m xs oss, deinverts m = true ->
  (forall x, In x xs -> startswith (trole x) [COLON] = true) ->
  (forall x, In x xs -> is_instance x = false -> role_invertible m (trole x)) ->
  Forall2 (expressed m) xs oss ->
  tree_content m (concat oss) = map (fun t => tkey (deinvert m t)) (filter is_written xs).
Proof.
  intros m xs oss Hd Hc Hr F. induction F as [|x os xs oss Hx F IH]; [reflexivity|].
  specialize (IH (fun y Iy => Hc y (or_intror Iy)) (fun y Iy => Hr y (or_intror Iy))).
  simpl. unfold tree_content in *. rewrite map_app. rewrite IH.
  fold (tree_content m os).
  rewrite (expressed_content m x os Hd (Hc x (or_introl eq_refl)) (Hr x (or_introl eq_refl)) Hx).
  destruct (is_written x); reflexivity.
Qed.

(** C03 at the level of the configured tree: reading the branches back
    ([/ c] as the instance triple) and deinverting once gives exactly the
    written triples of the graph, each once. *)
Theorem configure_content_deinverted : forall m g top t,
  configure m g top = Ok t -> triples g <> [] -> colon_ok (triples g) -> layout_only g ->
  deinverts m = true -> roles_invertible m g ->
  Permutation (tree_content m (tree_triples t)) (graph_content m g).
Proof.
  intros m g top t E NE C LO Hd Hr.
  destruct (configure_places_each_triple_once m g top t E NE C LO)
    as (tp & _ & _ & _ & os & Fos & Pos).
  unfold graph_content.
  rewrite <- (expressed_all_content m (triples g) os Hd).
  - unfold tree_content. apply Permutation_map. exact Pos.
  - intros x Ix. unfold colon_ok in C. rewrite Forall_forall in C. apply C. exact Ix.
  - exact Hr.
  - exact Fos.
Qed.

(* ------------------------------------------------------------------ *)
(** * The statements in the vocabulary of Spec/GraphEq.v *)

Lemma expressed_spec : forall m x os, expressed m x os -> expressed_as m x os.
Proof.
  intros m x os (t' & Hpre & o & Ho & ->). exists t', o. split; [exact Hpre|]. split; [exact Ho|].
  reflexivity.
Qed.

Theorem configure_places_each_triple_once_spec : forall m g top t,
  configure m g top = Ok t -> triples g <> [] -> roles_have_colon g -> layout_only g ->
  exists tp,
    requested_top g top = Some tp /\ node_var (troot t) = tp /\
    NoDup (map akey (tree_node_vars t)) /\
    exists bss, Forall2 (expressed_as m) (triples g) bss /\
                Permutation (tree_triples t) (concat bss).
Proof.
  intros m g top t E NE C LO.
  destruct (configure_places_each_triple_once m g top t E NE C LO)
    as (tp & H1 & H2 & H3 & os & Fos & Pos).
  exists tp. repeat split; try assumption.
  exists os. split; [|exact Pos].
  clear - Fos. induction Fos; constructor; [apply expressed_spec; assumption|assumption].
Qed.

Theorem configure_content_deinverted_spec : forall m g top t,
  configure m g top = Ok t -> triples g <> [] -> roles_have_colon g -> layout_only g ->
  deinverts m = true -> roles_invertible m g ->
  Permutation (tree_content m (tree_triples t)) (graph_content m g).
Proof. exact configure_content_deinverted. Qed.

(* roles_invertible follows from the C13 laws for canonical roles *)
Lemma canonical_roles_invertible : forall m g, of_free m ->
  (forall t, In t (triples g) -> is_instance t = false ->
     canonical m (trole t) /\ str_eqb (invert_role m (trole t)) INSTANCE = false) ->
  roles_invertible m g.
Proof.
  intros m g OFF H t It Hi. destruct (H t It Hi) as [C N].
  split; [apply invert_involutive; assumption|]. split; [apply invert_flips; assumption|exact N].
Qed.

(* the Graph constructor establishes [roles_have_colon] *)
Lemma mk_graph_roles_colon : forall ts top ed meta, roles_have_colon (mk_graph ts top ed meta).
Proof.
  intros ts top ed meta. unfold roles_have_colon, mk_graph. simpl.
  apply Forall_forall. intros t It. apply in_map_iff in It. destruct It as (x & <- & _).
  unfold trole. simpl. unfold ensure_colon.
  destruct (startswith (snd (fst x)) [COLON]) eqn:E; [exact E|].
  apply colon_iff. eexists. reflexivity.
Qed.

(* ------------------------------------------------------------------ *)
(** * The formatter writes every atomic target it is given (F5 repaired) *)

Lemma format_node_shape : forall indent column var e es, falsy var = false ->
  format_node indent column [] (Node var (e :: es)) =
  [40%N] ++ atom_str var ++ SPACE ++
  join (node_joiner indent (node_column indent column var))
       (map (edge_text indent (node_column indent column var)) (e :: es)) ++ [41%N].
Proof.
  intros indent column var e es Hv.
  cbn [format_node]. rewrite Hv.
  fold (node_column indent column var). fold (node_joiner indent (node_column indent column var)).
  set (col' := node_column indent column var).
  set (joiner := node_joiner indent col').
  assert (He : forall x : branch,
    match snd x with
    | TAtom (AStr (_ :: _) as a) | TAtom (ANum _ _ as a) => role_text (fst x) ++ SPACE ++ atom_str a
    | TNode n' => role_text (fst x) ++ SPACE ++
        format_node indent (if is_adaptive indent then (col' + zlen (role_text (fst x)) + 1)%Z else col') [] n'
    | _ => role_text (fst x)
    end = edge_text indent col' x).
  { intros x. unfold edge_text, atom_text.
    destruct (snd x) as [[|[|ch s]|t z]|n']; try reflexivity; symmetry; apply app_nil_r. }
  match goal with |- context [?F es ?c ?p] => set (go := F); set (c0 := c); set (p0 := p) end.
  assert (G : forall es c parts, c = false -> go es c parts = (false, parts ++ map (edge_text indent col') es)).
  { clear - He. induction es as [|x es IH]; intros c parts ->.
    - simpl. rewrite app_nil_r. reflexivity.
    - cbn [go]. fold go. cbn [andb]. rewrite IH by reflexivity.
      rewrite <- app_assoc. f_equal. f_equal. cbn [map app]. f_equal. apply He. }
  rewrite G by reflexivity.
  subst p0. cbn [andb app map]. rewrite He. reflexivity.
Qed.

Lemma number_is_written : forall indent c r t z,
  edge_text indent c (r, TAtom (ANum t z)) = role_text r ++ SPACE ++ t.
Proof. reflexivity. Qed.

Lemma atom_written_iff : forall a, atom_text a = [] <-> no_concept a = true.
Proof.
  intros a. destruct a as [|[|c s]|t z]; simpl; split; intro H; try reflexivity; discriminate.
Qed.

(* ------------------------------------------------------------------ *)
(** * Worked examples (vm_compute): the F14 and F5 witnesses now behave, and
      the hypotheses of the theorems are satisfiable *)

Require Import Coq.Strings.String Coq.Strings.Ascii.
Fixpoint s2l (s : string) : str :=
  match s with EmptyString => [] | String c s' => N_of_ascii c :: s2l s' end.
Definition sym (s : string) : atom := AStr (s2l s).
Definition tr (a r b : string) : triple := (sym a, s2l r, sym b).

(* decode of  (a / y : b :op10 k :op2 (b / a))  -- DESIGN.md F14 *)
Definition f14_graph : graph :=
  mkGraph [tr "a" ":instance" "y"; tr "a" ":" "b"; tr "a" ":op10" "k"; tr "a" ":op2" "b";
           tr "b" ":instance" "a"]
          (Some (sym "a"))
          [(tr "a" ":instance" "y", []); (tr "a" ":" "b", []); (tr "a" ":op10" "k", []);
           (tr "a" ":op2" "b", [Push (sym "b")]); (tr "b" ":instance" "a", [Pop])]
          [].

Example f14_now_one_node_per_variable :
  exists t, configure default_model f14_graph (Some (sym "b")) = Ok t /\
            tree_node_vars t = [sym "b"; sym "a"] /\
            format (Some (-1)%Z) false t =
            s2l "(b / a
   :-of (a / y
           :op10 k
           :op2 b))".
Proof. eexists. split; [vm_compute; reflexivity|]. split; vm_compute; reflexivity. Qed.

Example f14_graph_hypotheses :
  triples f14_graph <> [] /\ roles_have_colon f14_graph /\ layout_only f14_graph /\
  deinverts default_model = true /\ roles_invertible default_model f14_graph.
Proof.
  split; [discriminate|]. split; [repeat constructor|]. split.
  - intros t es H. simpl in H.
    repeat (destruct H as [H|H]; [inversion H; reflexivity|]). contradiction.
  - split; [reflexivity|]. intros t H Hi. simpl in H.
    repeat (destruct H as [H|H]; [subst t; try discriminate Hi; vm_compute; auto|]). contradiction.
Qed.

(* Graph([('a',':instance','x'),('a',':quant',0)])  -- DESIGN.md F5 *)
Definition f5_graph : graph :=
  mkGraph [tr "a" ":instance" "x"; (sym "a", s2l ":quant", ANum (s2l "0") true)] None [] [].

Example f5_zero_is_written :
  exists t, configure default_model f5_graph None = Ok t /\
            format (Some (-1)%Z) false t = s2l "(a / x
   :quant 0)".
Proof. eexists. split; vm_compute; reflexivity. Qed.

(* a numeric concept 0 is written too (F27) *)
Example zero_concept_is_written :
  exists t, configure default_model
              (mkGraph [(sym "a", INSTANCE, ANum (s2l "0") true)] None [] []) None = Ok t /\
            format (Some (-1)%Z) false t = s2l "(a / 0)".
Proof. eexists. split; vm_compute; reflexivity. Qed.

(* a disconnected graph and a top that is not a variable are layout errors *)
Example disconnected_is_layout_error :
  configure default_model
    (mkGraph [tr "a" ":instance" "x"; tr "b" ":instance" "y"] None [] []) None = LayoutErr 1 /\
  configure default_model f5_graph (Some (sym "zz")) = LayoutErr 4.
Proof. split; vm_compute; reflexivity. Qed.
