(** T2 -- content preservation of [configure] (C03, C05, C06).

    Whenever [configure m g top = Ok t]:
    the multiset of branches of [t] is the multiset of [triples g], each
    triple expressed exactly once, as written or inverted (instance triples
    with a falsy concept are not written); the root is the requested top; no
    variable owns two nodes.  No hypothesis on the markers: the epidata of [g]
    is arbitrary.  The only hypothesis on [g] is that roles carry their colon
    (which the Graph constructor guarantees, [mk_graph_roles_colon]). *)
From PM Require Import Spec.GraphEq Impl.Configure Proofs.Configure_term Proofs.Model_lemmas.
From Coq Require Import Lia.

(* ------------------------------------------------------------------ *)
(** * Generic list facts *)

Lemma Forall2_perm_l : forall {A B} (R : A -> B -> Prop) l l' l2,
  Forall2 R l l' -> Permutation l l2 ->
  exists l2', Permutation l' l2' /\ Forall2 R l2 l2'.
Proof.
  intros A B R l l' l2 F P. revert l' F.
  induction P as [|x l l2 P IH|x y l|l l1 l2 P1 IH1 P2 IH2]; intros l' F.
  - inversion F; subst. exists []. split; constructor.
  - inversion F as [|? y ? l'' Rxy F']; subst.
    destruct (IH _ F') as (l2' & P' & F2). exists (y :: l2'). split; constructor; assumption.
  - inversion F as [|? a ? l'' Ra F']; subst. inversion F' as [|? b ? l3 Rb F'']; subst.
    exists (b :: a :: l3). split; [apply perm_swap|repeat constructor; assumption].
  - destruct (IH1 _ F) as (la & Pa & Fa). destruct (IH2 _ Fa) as (lb & Pb & Fb).
    exists lb. split; [eapply perm_trans; eassumption|assumption].
Qed.

Lemma Forall2_perm_r : forall {A B} (R : A -> B -> Prop) l l' l2',
  Forall2 R l l' -> Permutation l' l2' ->
  exists l2, Permutation l l2 /\ Forall2 R l2 l2'.
Proof.
  intros A B R l l' l2' F P.
  assert (F' : Forall2 (fun b a => R a b) l' l).
  { clear P. induction F; constructor; assumption. }
  destruct (Forall2_perm_l _ _ _ _ F' P) as (l2 & P2 & F2).
  exists l2. split; [assumption|]. clear - F2. induction F2; constructor; assumption.
Qed.

Lemma Permutation_concat : forall {A} (l l' : list (list A)),
  Permutation l l' -> Permutation (concat l) (concat l').
Proof.
  intros A l l' P. induction P; simpl.
  - constructor.
  - apply Permutation_app_head. assumption.
  - rewrite !app_assoc. apply Permutation_app_tail. apply Permutation_app_comm.
  - eapply perm_trans; eassumption.
Qed.

Lemma Forall2_app_inv_both : forall {A B} (R : A -> B -> Prop) l1 l2 l1' l2',
  Forall2 R l1 l1' -> Forall2 R l2 l2' -> Forall2 R (l1 ++ l2) (l1' ++ l2').
Proof. intros. apply Forall2_app; assumption. Qed.

(* ------------------------------------------------------------------ *)
(** * Keys *)

Lemma akey_eq_iff : forall a b, akey a = akey b <-> atom_eqb a b = true.
Proof.
  intros a b. split.
  - destruct a, b; simpl; intro E; try discriminate; try reflexivity;
      inversion E; subst; apply cfg_str_eqb_refl.
  - destruct a, b; simpl; intro E; try discriminate; try reflexivity;
      apply cfg_str_eqb_eq in E; subst; reflexivity.
Qed.

Lemma akey_eqb : forall a b, atom_eqb a b = true -> akey a = akey b.
Proof. intros a b. apply akey_eq_iff. Qed.

Lemma akey_idem : forall a, akey (akey a) = akey a.
Proof. destruct a; reflexivity. Qed.

Lemma atom_eqb_akey_l : forall a b, atom_eqb (akey a) b = atom_eqb a b.
Proof. destruct a, b; reflexivity. Qed.

(* ------------------------------------------------------------------ *)
(** * Reading the store *)

Definition node_var_at (st : store) (i : nat) : atom := nth i (map fst st) ANone.
Definition ctgt_atom (st : store) (t : ctgt) : atom :=
  match t with CA a => a | CN i => node_var_at st i end.
Definition cedge_triple (st : store) (v : atom) (e : cedge) : triple :=
  (akey v, fst (fst e), akey (ctgt_atom st (snd (fst e)))).
Definition node_triples (rd : store) (ve : atom * list cedge) : list triple :=
  map (cedge_triple rd (fst ve)) (snd ve).
(* the edges of [st], node variables of [CN] targets looked up in [rd] *)
Definition flat_triples (rd st : store) : list triple := flat_map (node_triples rd) st.
Definition store_triples (st : store) : list triple := flat_triples st st.

Definition edge_cn (e : cedge) : list nat :=
  match snd (fst e) with CN i => [i] | CA _ => [] end.
Definition node_cns (ve : atom * list cedge) : list nat := flat_map edge_cn (snd ve).
Definition cn_ids (st : store) : list nat := flat_map node_cns st.

(* [st'] extends [st]: same node variables, possibly more nodes *)
Definition ext (st st' : store) : Prop := exists more, map fst st' = map fst st ++ more.

Lemma ext_refl : forall st, ext st st.
Proof. intros st. exists []. rewrite app_nil_r. reflexivity. Qed.

Lemma ext_trans : forall a b c, ext a b -> ext b c -> ext a c.
Proof.
  intros a b c [m1 E1] [m2 E2]. exists (m1 ++ m2). rewrite E2, E1, app_assoc. reflexivity.
Qed.

Lemma ext_length : forall st st', ext st st' -> length st <= length st'.
Proof.
  intros st st' [more E]. apply (f_equal (@length _)) in E.
  rewrite app_length, !map_length in E. lia.
Qed.

Lemma ext_var_at : forall st st' i, ext st st' -> i < length st ->
  node_var_at st' i = node_var_at st i.
Proof.
  intros st st' i [more E] L. unfold node_var_at. rewrite E.
  apply app_nth1. rewrite map_length. exact L.
Qed.

Lemma map_fst_upd : forall (st : store) id f,
  (forall ve, fst (f ve) = fst ve) -> map fst (upd id f st) = map fst st.
Proof.
  induction st as [|x st IH]; intros [|id] f Hf; simpl; try reflexivity.
  - rewrite Hf. reflexivity.
  - rewrite IH by assumption. reflexivity.
Qed.

Lemma upd_length : forall {A} (l : list A) n f, length (upd n f l) = length l.
Proof. induction l as [|x l IH]; intros [|n] f; simpl; auto. Qed.

Lemma nth_error_upd_same : forall {A} (l : list A) n f x,
  nth_error l n = Some x -> nth_error (upd n f l) n = Some (f x).
Proof.
  induction l as [|y l IH]; intros [|n] f x E; simpl in *; try discriminate.
  - inversion E; reflexivity.
  - apply IH. exact E.
Qed.

Lemma nth_error_upd_other : forall {A} (l : list A) n k f, n <> k ->
  nth_error (upd n f l) k = nth_error l k.
Proof.
  induction l as [|y l IH]; intros [|n] [|k] f N; simpl; try reflexivity; try lia.
  apply IH. lia.
Qed.

Lemma upd_split : forall {A} (l : list A) n f x, nth_error l n = Some x ->
  exists l1 l2, l = l1 ++ x :: l2 /\ upd n f l = l1 ++ f x :: l2 /\ length l1 = n.
Proof.
  induction l as [|y l IH]; intros [|n] f x E; simpl in *; try discriminate.
  - inversion E; subst. exists [], l. repeat split.
  - destruct (IH _ f _ E) as (l1 & l2 & E1 & E2 & L). exists (y :: l1), l2.
    simpl. rewrite <- E1, E2, L. repeat split.
Qed.

(* readers that agree on the valid ids read the same triples *)
Definition ids_lt (n : nat) (st : store) : Prop :=
  forall ve e i, In ve st -> In e (snd ve) -> snd (fst e) = CN i -> i < n.

Lemma flat_triples_ext : forall rd rd' st, ext rd rd' -> ids_lt (length rd) st ->
  flat_triples rd' st = flat_triples rd st.
Proof.
  intros rd rd' st X H. unfold flat_triples.
  induction st as [|ve st IH]; simpl; [reflexivity|].
  rewrite IH.
  2:{ intros ve' e i I1 I2 E. eapply H; [right; exact I1|exact I2|exact E]. }
  f_equal. unfold node_triples.
  apply map_ext_in. intros e Ie. unfold cedge_triple. f_equal. f_equal.
  destruct (snd (fst e)) as [a|i] eqn:T; simpl; [reflexivity|].
  apply ext_var_at; [exact X|]. eapply H; [left; reflexivity|exact Ie|exact T].
Qed.

Lemma flat_triples_app : forall rd a b, flat_triples rd (a ++ b) = flat_triples rd a ++ flat_triples rd b.
Proof. intros. unfold flat_triples. apply flat_map_app. Qed.

Lemma flat_triples_split : forall rd l1 x l2,
  flat_triples rd (l1 ++ x :: l2) = flat_triples rd l1 ++ node_triples rd x ++ flat_triples rd l2.
Proof. intros. rewrite flat_triples_app. reflexivity. Qed.

Lemma cn_ids_app : forall a b, cn_ids (a ++ b) = cn_ids a ++ cn_ids b.
Proof. intros. unfold cn_ids. apply flat_map_app. Qed.

Lemma flat_triples_rd_eq : forall rd rd' st, map fst rd = map fst rd' ->
  flat_triples rd st = flat_triples rd' st.
Proof.
  intros rd rd' st E. unfold flat_triples, node_triples, cedge_triple, ctgt_atom, node_var_at.
  rewrite E. reflexivity.
Qed.

Lemma dget_cong : forall {V} (a b : atom) (d : dict atom V), atom_eqb a b = true ->
  dget atom_eqb a d = dget atom_eqb b d.
Proof.
  intros V a b d E. induction d as [|[k v] d IH]; simpl; [reflexivity|].
  rewrite (atom_eqb_cong_l _ _ k E). destruct (atom_eqb b k); [reflexivity|exact IH].
Qed.

(* ------------------------------------------------------------------ *)
(** * Inserting an edge into a node *)

Definition ins_at (id : nat) (ins : list cedge -> list cedge) (st : store) : store :=
  upd id (fun ve => (fst ve, ins (snd ve))) st.

Lemma add_edge_end_ins : forall id e st, add_edge_end id e st = ins_at id (fun es => es ++ [e]) st.
Proof. reflexivity. Qed.
Lemma add_edge_front_ins : forall id e st, add_edge_front id e st = ins_at id (fun es => e :: es) st.
Proof. reflexivity. Qed.

Definition inserts (e : cedge) (ins : list cedge -> list cedge) : Prop :=
  forall es, Permutation (ins es) (e :: es).

Lemma inserts_end : forall e, inserts e (fun es => es ++ [e]).
Proof. intros e es. apply Permutation_sym, Permutation_cons_append. Qed.
Lemma inserts_front : forall e, inserts e (fun es => e :: es).
Proof. intros e es. apply Permutation_refl. Qed.

Lemma ins_at_map_fst : forall id ins st, map fst (ins_at id ins st) = map fst st.
Proof. intros. apply map_fst_upd. reflexivity. Qed.

Lemma ins_at_ext : forall id ins st, ext st (ins_at id ins st).
Proof. intros. exists []. rewrite ins_at_map_fst, app_nil_r. reflexivity. Qed.

Lemma ins_at_length : forall id ins st, length (ins_at id ins st) = length st.
Proof. intros. apply upd_length. Qed.

Lemma ins_at_nth : forall id ins st i v es',
  nth_error (ins_at id ins st) i = Some (v, es') ->
  exists es, nth_error st i = Some (v, es) /\ (es' = es /\ i <> id \/ es' = ins es /\ i = id).
Proof.
  intros id ins st i v es' E. unfold ins_at in E.
  destruct (Nat.eq_dec id i) as [->|N].
  - destruct (nth_error st i) as [[w es]|] eqn:G.
    + rewrite (nth_error_upd_same _ _ _ _ G) in E. inversion E; subst. simpl. eauto.
    + assert (L : length st <= i) by (apply nth_error_None; exact G).
      assert (X : nth_error (upd i (fun ve : atom * list cedge => (fst ve, ins (snd ve))) st) i = None).
      { apply nth_error_None. rewrite upd_length. exact L. }
      rewrite X in E. discriminate.
  - rewrite nth_error_upd_other in E by exact N. eauto.
Qed.

Lemma ins_at_triples : forall rd id ins st w es e, nth_error st id = Some (w, es) ->
  inserts e ins ->
  Permutation (flat_triples rd (ins_at id ins st)) (cedge_triple rd w e :: flat_triples rd st).
Proof.
  intros rd id ins st w es e G I. unfold ins_at.
  destruct (upd_split _ _ (fun ve : atom * list cedge => (fst ve, ins (snd ve))) _ G)
    as (l1 & l2 & E1 & E2 & _).
  rewrite E2, E1. rewrite !flat_triples_app. unfold flat_triples at 2 4. simpl.
  apply Permutation_sym. eapply perm_trans; [apply Permutation_middle|].
  apply Permutation_app_head.
  change (cedge_triple rd w e :: node_triples rd (w, es) ++ flat_map (node_triples rd) l2)
    with ((cedge_triple rd w e :: node_triples rd (w, es)) ++ flat_map (node_triples rd) l2).
  apply Permutation_app_tail.
  unfold node_triples. simpl.
  change (cedge_triple rd w e :: map (cedge_triple rd w) es) with (map (cedge_triple rd w) (e :: es)).
  apply Permutation_map. apply Permutation_sym. apply I.
Qed.

Lemma ins_at_cns : forall id ins st w es e, nth_error st id = Some (w, es) ->
  inserts e ins -> Permutation (cn_ids (ins_at id ins st)) (edge_cn e ++ cn_ids st).
Proof.
  intros id ins st w es e G I. unfold ins_at.
  destruct (upd_split _ _ (fun ve : atom * list cedge => (fst ve, ins (snd ve))) _ G)
    as (l1 & l2 & E1 & E2 & _).
  rewrite E2, E1. rewrite !cn_ids_app. unfold cn_ids at 2 4. simpl.
  apply Permutation_sym. rewrite app_assoc.
  eapply perm_trans; [apply Permutation_app_tail, Permutation_app_comm|].
  rewrite <- app_assoc. apply Permutation_app_head.
  rewrite app_assoc. apply Permutation_app_tail.
  unfold node_cns. simpl.
  change (edge_cn e ++ flat_map edge_cn es) with (flat_map edge_cn (e :: es)).
  apply Permutation_flat_map. apply Permutation_sym. apply I.
Qed.

(* ------------------------------------------------------------------ *)
(** * The store invariant *)

Record WF (P : list nat) (st : store) (nm : nmap) : Prop := {
  (* J: the nodemap sends the variable of every node to that node *)
  wf_own : forall i v es, nth_error st i = Some (v, es) -> dget atom_eqb v nm = Some (Some i);
  wf_valid : forall v i, dget atom_eqb v nm = Some (Some i) -> i < length st;
  (* L: a bare reference site holds an edge that mentions the variable *)
  wf_ref : forall v i w es, dget atom_eqb v nm = Some (Some i) -> nth_error st i = Some (w, es) ->
    atom_eqb v w = false ->
    exists r a ep, In (r, CA a, ep) es /\ atom_eqb a v = true /\ str_eqb r SLASHS = false;
  (* K1: children have larger ids *)
  wf_up : forall j w es e i, nth_error st j = Some (w, es) -> In e es -> snd (fst e) = CN i ->
    j < i < length st;
  (* K2: every node but the root is the child of exactly one edge, or pending *)
  wf_tree : Permutation (cn_ids st ++ P) (seq 1 (length st - 1));
  wf_pos : 0 < length st
}.

Lemma WF_ids_lt : forall P st nm, WF P st nm -> ids_lt (length st) st.
Proof.
  intros P st nm W ve e i I1 I2 E.
  apply In_nth_error in I1. destruct I1 as [j Hj]. destruct ve as [w es].
  eapply (wf_up _ _ _ W); eassumption.
Qed.

Lemma inserts_in : forall e ins es e', inserts e ins -> In e' (ins es) -> e' = e \/ In e' es.
Proof.
  intros e ins es e' I H. apply (Permutation_in _ (I es)) in H. destruct H; auto.
Qed.
Lemma inserts_keep : forall e ins es e', inserts e ins -> In e' es -> In e' (ins es).
Proof.
  intros e ins es e' I H. apply (Permutation_in _ (Permutation_sym (I es))). right. exact H.
Qed.
Lemma inserts_new : forall e ins es, inserts e ins -> In e (ins es).
Proof.
  intros e ins es I. apply (Permutation_in _ (Permutation_sym (I es))). left. reflexivity.
Qed.

(* Op1: a bare edge (constant, or reference to a variable) *)
Lemma WF_add_ca : forall P st nm id w es ins r a ep nm',
  WF P st nm -> nth_error st id = Some (w, es) -> inserts (r, CA a, ep) ins ->
  (nm' = nm \/ (nm' = dset atom_eqb a (Some id) nm /\ dget atom_eqb a nm = Some None /\
                str_eqb r SLASHS = false)) ->
  WF P (ins_at id ins st) nm'.
Proof.
  intros P st nm id w es ins r a ep nm' W G I Hnm.
  assert (Lid : id < length st) by (apply nth_error_Some; rewrite G; discriminate).
  constructor.
  - intros i v es' E. apply ins_at_nth in E. destruct E as (es0 & E & _).
    pose proof (wf_own _ _ _ W _ _ _ E) as O.
    destruct Hnm as [->|(-> & Hn & _)]; [exact O|].
    destruct (atom_eqb v a) eqn:Eva.
    + rewrite (dget_cong _ _ _ Eva) in O. rewrite O in Hn. discriminate.
    + rewrite dget_dset_other by exact Eva. exact O.
  - intros v i D. rewrite ins_at_length.
    destruct Hnm as [->|(-> & Hn & _)]; [eapply wf_valid; eassumption|].
    destruct (atom_eqb v a) eqn:Eva.
    + rewrite dget_dset_eq in D by exact Eva. inversion D; subst. exact Lid.
    + rewrite dget_dset_other in D by exact Eva. eapply wf_valid; eassumption.
  - intros v i w' es' D E N. apply ins_at_nth in E. destruct E as (es0 & E & C).
    assert (Old : dget atom_eqb v nm = Some (Some i) ->
                  exists r0 a0 ep0, In (r0, CA a0, ep0) es' /\ atom_eqb a0 v = true /\ str_eqb r0 SLASHS = false).
    { intros D0. destruct (wf_ref _ _ _ W _ _ _ _ D0 E N) as (r0 & a0 & ep0 & I0 & A0 & R0).
      exists r0, a0, ep0. split; [|auto].
      destruct C as [[-> _]|[-> _]]; [exact I0|eapply inserts_keep; eassumption]. }
    destruct Hnm as [->|(-> & Hn & Hr)]; [auto|].
    destruct (atom_eqb v a) eqn:Eva.
    + rewrite dget_dset_eq in D by exact Eva. inversion D; subst i.
      destruct C as [[_ C]|[-> _]]; [congruence|].
      exists r, a, ep. split; [eapply inserts_new; eassumption|].
      rewrite atom_eqb_sym. auto.
    + rewrite dget_dset_other in D by exact Eva. auto.
  - intros j w' es' e i E Ie T. rewrite ins_at_length.
    apply ins_at_nth in E. destruct E as (es0 & E & C).
    destruct C as [[-> _]|[-> _]]; [eapply wf_up; eassumption|].
    apply (inserts_in _ _ _ _ I) in Ie. destruct Ie as [->|Ie]; [simpl in T; discriminate|].
    eapply wf_up; eassumption.
  - rewrite ins_at_length.
    eapply perm_trans; [|apply (wf_tree _ _ _ W)].
    apply Permutation_app_tail.
    apply (ins_at_cns _ _ _ _ _ _ G I).
  - rewrite ins_at_length. eapply wf_pos; eassumption.
Qed.

Lemma seq_grow : forall n, 0 < n -> seq 1 (S n - 1) = seq 1 (n - 1) ++ [n].
Proof.
  intros n L. replace (S n - 1) with (S (n - 1)) by lia.
  rewrite seq_S. f_equal. f_equal. lia.
Qed.

(* Op2: allocate a node for [target] *)
Lemma WF_push : forall P st nm target,
  WF P st nm -> has_node target st nm = false ->
  WF (length st :: P) (st ++ [(target, [])]) (dset atom_eqb target (Some (length st)) nm).
Proof.
  intros P st nm target W H.
  assert (NE : forall i v es, nth_error st i = Some (v, es) -> atom_eqb v target = false).
  { intros i v es E. destruct (atom_eqb v target) eqn:Evt; [|reflexivity].
    pose proof (wf_own _ _ _ W _ _ _ E) as O. rewrite (dget_cong _ _ _ Evt) in O.
    unfold has_node in H. rewrite O, E, Evt in H. discriminate. }
  constructor.
  - intros i v es E.
    destruct (Nat.lt_ge_cases i (length st)) as [L|L].
    + rewrite nth_error_app1 in E by exact L.
      rewrite dget_dset_other by (eapply NE; eassumption). eapply wf_own; eassumption.
    + rewrite nth_error_app2 in E by exact L.
      destruct (i - length st) as [|k] eqn:K; simpl in E; [|destruct k; discriminate].
      inversion E; subst. replace i with (length st) by lia. apply dget_dset_same.
  - intros v i D. rewrite app_length. simpl.
    destruct (atom_eqb v target) eqn:Evt.
    + rewrite dget_dset_eq in D by exact Evt. inversion D. lia.
    + rewrite dget_dset_other in D by exact Evt. apply (wf_valid _ _ _ W) in D. lia.
  - intros v i w es D E N.
    destruct (atom_eqb v target) eqn:Evt.
    + rewrite dget_dset_eq in D by exact Evt. inversion D; subst i.
      rewrite nth_error_app2 in E by lia. rewrite Nat.sub_diag in E. simpl in E.
      inversion E; subst. congruence.
    + rewrite dget_dset_other in D by exact Evt.
      pose proof (wf_valid _ _ _ W _ _ D) as L.
      rewrite nth_error_app1 in E by exact L. eapply wf_ref; eassumption.
  - intros j w es e i E Ie T. rewrite app_length. simpl.
    destruct (Nat.lt_ge_cases j (length st)) as [L|L].
    + rewrite nth_error_app1 in E by exact L.
      pose proof (wf_up _ _ _ W _ _ _ _ _ E Ie T). lia.
    + rewrite nth_error_app2 in E by exact L.
      destruct (j - length st) as [|k] eqn:K; simpl in E; [|destruct k; discriminate].
      inversion E; subst. contradiction.
  - rewrite app_length. simpl. rewrite Nat.add_1_r.
    rewrite seq_grow by (eapply wf_pos; eassumption).
    rewrite cn_ids_app. unfold cn_ids at 2. simpl. rewrite app_nil_r.
    eapply perm_trans; [apply Permutation_sym, Permutation_middle|].
    eapply perm_trans; [|apply Permutation_cons_append].
    constructor. apply (wf_tree _ _ _ W).
  - rewrite app_length. simpl. lia.
Qed.

(* Op3: attach the pending child *)
Lemma WF_attach : forall P st nm id w es cid r ep,
  WF (cid :: P) st nm -> nth_error st id = Some (w, es) -> id < cid < length st ->
  WF P (add_edge_end id (r, CN cid, ep) st) nm.
Proof.
  intros P st nm id w es cid r ep W G L.
  rewrite add_edge_end_ins.
  pose proof (inserts_end (r, CN cid, ep)) as I.
  constructor.
  - intros i v es' E. apply ins_at_nth in E. destruct E as (es0 & E & _).
    eapply wf_own; eassumption.
  - intros v i D. rewrite ins_at_length. eapply wf_valid; eassumption.
  - intros v i w' es' D E N. apply ins_at_nth in E. destruct E as (es0 & E & C).
    destruct (wf_ref _ _ _ W _ _ _ _ D E N) as (r0 & a0 & ep0 & I0 & A0 & R0).
    exists r0, a0, ep0. split; [|auto].
    destruct C as [[-> _]|[-> _]]; [exact I0|apply (inserts_keep _ _ _ _ I); exact I0].
  - intros j w' es' e i E Ie T. rewrite ins_at_length.
    apply ins_at_nth in E. destruct E as (es0 & E & C).
    destruct C as [[-> _]|[-> Hj]]; [eapply wf_up; eassumption|].
    apply (inserts_in _ _ _ _ I) in Ie. destruct Ie as [->|Ie].
    + simpl in T. inversion T; subst. lia.
    + eapply wf_up; eassumption.
  - rewrite ins_at_length.
    eapply perm_trans; [|apply (wf_tree _ _ _ W)].
    eapply perm_trans; [apply Permutation_app_tail, (ins_at_cns _ _ _ _ _ _ G I)|].
    simpl. apply Permutation_middle.
  - rewrite ins_at_length. eapply wf_pos; eassumption.
Qed.

(* ------------------------------------------------------------------ *)
(** * Op4: [site] = _get_or_establish_site *)

Lemma replace_first_spec : forall var nid es,
  (exists r a ep, In (r, CA a, ep) es /\ atom_eqb a var = true /\ str_eqb r SLASHS = false) ->
  exists es1 r a ep es2,
    es = es1 ++ (r, CA a, ep) :: es2 /\ atom_eqb a var = true /\ str_eqb r SLASHS = false /\
    replace_first var nid es = es1 ++ (r, CN nid, ep) :: es2.
Proof.
  intros var nid. induction es as [|e es IH]; intros (r & a & ep & I & A & R); [contradiction|].
  destruct e as [[r0 t0] ep0]. destruct t0 as [a0|i0].
  - simpl. destruct (atom_eqb a0 var && negb (str_eqb r0 SLASHS)) eqn:C.
    + apply andb_true_iff in C. destruct C as [C1 C2]. apply negb_true_iff in C2.
      exists [], r0, a0, ep0, es. repeat split; assumption.
    + destruct I as [I|I].
      { inversion I; subst. rewrite A, R in C. discriminate. }
      destruct IH as (es1 & r1 & a1 & ep1 & es2 & E & A1 & R1 & F); [eauto 8|].
      exists ((r0, CA a0, ep0) :: es1), r1, a1, ep1, es2. rewrite F. simpl.
      repeat split; auto. rewrite E at 1. reflexivity.
  - simpl. destruct I as [I|I]; [discriminate|].
    destruct IH as (es1 & r1 & a1 & ep1 & es2 & E & A1 & R1 & F); [eauto 8|].
    exists ((r0, CN i0, ep0) :: es1), r1, a1, ep1, es2. rewrite F. simpl.
    repeat split; auto. rewrite E at 1. reflexivity.
Qed.

Lemma site_false_same : forall v st nm st1 nm1,
  site v st nm = (false, st1, nm1) -> st1 = st /\ nm1 = nm.
Proof.
  intros v st nm st1 nm1. unfold site.
  destruct (dget atom_eqb v nm) as [[id|]|]; try (intro E; inversion E; auto; fail).
  destruct (nth_error st id) as [[v' es]|]; try (intro E; inversion E; auto; fail).
  destruct (atom_eqb v v'); intro E; inversion E.
Qed.

Lemma site_spec : forall P v st nm st1 nm1,
  WF P st nm -> site v st nm = (true, st1, nm1) ->
  WF P st1 nm1 /\ ext st st1 /\ store_triples st1 = store_triples st /\
  exists id w es, dget atom_eqb v nm1 = Some (Some id) /\ nth_error st1 id = Some (w, es) /\
                  atom_eqb v w = true.
Proof.
  intros P v st nm st1 nm1 W. unfold site.
  destruct (dget atom_eqb v nm) as [[id|]|] eqn:D; try discriminate.
  destruct (nth_error st id) as [[v' es]|] eqn:G; try discriminate.
  destruct (atom_eqb v v') eqn:N; intro E; inversion E; subst; clear E.
  { split; [exact W|]. split; [apply ext_refl|]. split; [reflexivity|]. eauto 8. }
  pose proof (wf_valid _ _ _ W _ _ D) as Lid.
  destruct (replace_first_spec v (length st) es (wf_ref _ _ _ W _ _ _ _ D G N))
    as (es1 & r & a & ep & es2 & Ees & Ea & Er & Erf).
  set (f := fun ve : atom * list cedge => (fst ve, replace_first v (length st) (snd ve))).
  destruct (upd_split _ _ f _ G) as (l1 & l2 & E1 & E2 & Ll1).
  assert (Mf : map fst (upd id f st) = map fst st) by (apply map_fst_upd; reflexivity).
  assert (X : ext st (upd id f st ++ [(v, [])])).
  { exists [v]. rewrite map_app, Mf. reflexivity. }
  assert (NE : forall i w es0, nth_error st i = Some (w, es0) -> atom_eqb w v = false).
  { intros i w es0 E0. destruct (atom_eqb w v) eqn:Ewv; [|reflexivity].
    pose proof (wf_own _ _ _ W _ _ _ E0) as O. rewrite (dget_cong _ _ _ Ewv), D in O.
    inversion O; subst i. rewrite G in E0. injection E0 as <- <-.
    rewrite atom_eqb_sym in Ewv. congruence. }
  assert (NTH : forall i w es', nth_error (upd id f st) i = Some (w, es') ->
            exists es0, nth_error st i = Some (w, es0) /\
              (es' = es0 /\ i <> id \/ es' = replace_first v (length st) es0 /\ i = id)).
  { intros i w es' E0. destruct (Nat.eq_dec id i) as [<-|Nid].
    - rewrite (nth_error_upd_same _ _ _ _ G) in E0. injection E0 as <- <-. simpl. eauto.
    - rewrite nth_error_upd_other in E0 by exact Nid. eauto. }
  split; [|split; [exact X|split]].
  - (* WF *)
    constructor.
    + intros i w es' E0.
      destruct (Nat.lt_ge_cases i (length st)) as [L|L].
      * rewrite nth_error_app1 in E0 by (rewrite upd_length; exact L).
        apply NTH in E0. destruct E0 as (es0 & E0 & _).
        rewrite dget_dset_other by (eapply NE; eassumption). eapply wf_own; eassumption.
      * rewrite nth_error_app2 in E0 by (rewrite upd_length; exact L). rewrite upd_length in E0.
        destruct (i - length st) as [|k] eqn:K; simpl in E0; [|destruct k; discriminate].
        injection E0 as <- <-. replace i with (length st) by lia. apply dget_dset_same.
    + intros w i D0. rewrite app_length, upd_length. simpl.
      destruct (atom_eqb w v) eqn:Ewv.
      * rewrite dget_dset_eq in D0 by exact Ewv. inversion D0. lia.
      * rewrite dget_dset_other in D0 by exact Ewv. apply (wf_valid _ _ _ W) in D0. lia.
    + intros w i w' es' D0 E0 N0.
      destruct (atom_eqb w v) eqn:Ewv.
      * rewrite dget_dset_eq in D0 by exact Ewv. inversion D0; subst i.
        rewrite nth_error_app2 in E0 by (rewrite upd_length; lia).
        rewrite upd_length, Nat.sub_diag in E0. simpl in E0. injection E0 as <- <-. congruence.
      * rewrite dget_dset_other in D0 by exact Ewv.
        pose proof (wf_valid _ _ _ W _ _ D0) as L.
        rewrite nth_error_app1 in E0 by (rewrite upd_length; exact L).
        apply NTH in E0. destruct E0 as (es0 & E0 & C).
        destruct (wf_ref _ _ _ W _ _ _ _ D0 E0 N0) as (r0 & a0 & ep0 & I0 & A0 & R0).
        exists r0, a0, ep0. split; [|auto].
        destruct C as [[-> _]|[-> ->]]; [exact I0|].
        rewrite G in E0. inversion E0; subst es0. rewrite Erf.
        rewrite Ees in I0. apply in_app_or in I0. apply in_or_app.
        destruct I0 as [I0|[I0|I0]]; [left; exact I0| |right; right; exact I0].
        inversion I0; subst.
        (* the witness is the replaced edge: then w and v are the same key *)
        exfalso. rewrite atom_eqb_sym in A0.
        rewrite (atom_eqb_trans _ _ _ A0 Ea) in Ewv. discriminate.
    + intros j w es' e i E0 Ie T. rewrite app_length, upd_length. simpl.
      destruct (Nat.lt_ge_cases j (length st)) as [L|L].
      * rewrite nth_error_app1 in E0 by (rewrite upd_length; exact L).
        apply NTH in E0. destruct E0 as (es0 & E0 & C).
        destruct C as [[-> _]|[-> ->]].
        { pose proof (wf_up _ _ _ W _ _ _ _ _ E0 Ie T). lia. }
        rewrite G in E0. inversion E0; subst es0. rewrite Erf in Ie.
        apply in_app_or in Ie. destruct Ie as [Ie|[Ie|Ie]].
        -- assert (I' : In e es) by (rewrite Ees; apply in_or_app; left; exact Ie).
           pose proof (wf_up _ _ _ W _ _ _ _ _ G I' T). lia.
        -- subst e. simpl in T. inversion T; subst. lia.
        -- assert (I' : In e es) by (rewrite Ees; apply in_or_app; right; right; exact Ie).
           pose proof (wf_up _ _ _ W _ _ _ _ _ G I' T). lia.
      * rewrite nth_error_app2 in E0 by (rewrite upd_length; exact L). rewrite upd_length in E0.
        destruct (j - length st) as [|k] eqn:K; simpl in E0; [|destruct k; discriminate].
        injection E0 as <- <-. contradiction.
    + rewrite app_length, upd_length. simpl. rewrite Nat.add_1_r.
      rewrite seq_grow by (eapply wf_pos; eassumption).
      rewrite cn_ids_app. unfold cn_ids at 2. simpl. rewrite app_nil_r.
      assert (C : Permutation (cn_ids (upd id f st)) (length st :: cn_ids st)).
      { unfold f in E2 |- *. remember (length st) as n eqn:Hn. clear Hn.
        rewrite E2, E1. rewrite !cn_ids_app. unfold cn_ids at 2 4. cbn [flat_map].
        unfold node_cns at 1 3. cbn [snd fst]. rewrite Erf, Ees, !flat_map_app.
        cbn [flat_map edge_cn snd fst app].
        rewrite <- !app_assoc. cbn [app].
        apply Permutation_sym.
        eapply perm_trans; [apply Permutation_middle|]. apply Permutation_app_head.
        eapply perm_trans; [apply Permutation_middle|]. apply Permutation_refl. }
      eapply perm_trans; [apply Permutation_app_tail, C|]. simpl.
      eapply perm_trans; [|apply Permutation_cons_append].
      constructor. apply (wf_tree _ _ _ W).
    + rewrite app_length. simpl. lia.
  - (* the reading of the store is unchanged *)
    unfold store_triples.
    rewrite flat_triples_app. unfold flat_triples at 2. simpl. rewrite app_nil_r.
    pose proof (WF_ids_lt _ _ _ W) as IL.
    assert (IL1 : ids_lt (length st) l1).
    { intros ve e i I1 I2 T. eapply IL; [rewrite E1; apply in_or_app; left; exact I1|exact I2|exact T]. }
    assert (IL2 : ids_lt (length st) l2).
    { intros ve e i I1 I2 T. eapply IL; [rewrite E1; apply in_or_app; right; right; exact I1|exact I2|exact T]. }
    set (R := upd id f st ++ [(v, [])]) in *.
    replace (flat_triples R (upd id f st)) with (flat_triples R (l1 ++ f (v', es) :: l2))
      by (rewrite <- E2; reflexivity).
    replace (flat_triples st st) with (flat_triples st (l1 ++ (v', es) :: l2))
      by (rewrite <- E1; reflexivity).
    rewrite !flat_triples_split.
    rewrite (flat_triples_ext st R l1 X IL1), (flat_triples_ext st R l2 X IL2).
    f_equal. f_equal.
    unfold f. unfold node_triples. cbn [fst snd]. rewrite Erf, Ees. rewrite !map_app. cbn [map].
    assert (ILes : forall e i, In e es -> snd (fst e) = CN i -> i < length st).
    { intros e i Ie T. eapply IL; [rewrite E1; apply in_or_app; right; left; reflexivity|exact Ie|exact T]. }
    assert (RD : forall e, In e es ->
              cedge_triple R v' e = cedge_triple st v' e).
    { intros e Ie. unfold cedge_triple. f_equal. f_equal.
      destruct (snd (fst e)) as [a0|i0] eqn:T; simpl; [reflexivity|].
      apply ext_var_at; [exact X|]. eapply ILes; eassumption. }
    fold R.
    f_equal; [apply map_ext_in; intros e Ie; apply RD; rewrite Ees; apply in_or_app; left; exact Ie|].
    f_equal; [|apply map_ext_in; intros e Ie; apply RD; rewrite Ees; apply in_or_app; right; right; exact Ie].
    unfold cedge_triple. simpl. f_equal.
    unfold node_var_at, R. rewrite map_app, Mf. rewrite app_nth2 by (rewrite map_length; lia).
    rewrite map_length, Nat.sub_diag. simpl. symmetry. apply akey_eqb. exact Ea.
  - exists (length st), v, []. split; [apply dget_dset_same|]. split; [|apply atom_eqb_refl].
    rewrite nth_error_app2 by (rewrite upd_length; lia). rewrite upd_length, Nat.sub_diag. reflexivity.
Qed.

(* ------------------------------------------------------------------ *)
(** * Roles with a colon are never the concept marker "/" *)

Lemma colon_not_slash : forall r, startswith r [COLON] = true -> str_eqb r SLASHS = false.
Proof.
  intros r H. apply colon_iff in H. destruct H as [t ->]. reflexivity.
Qed.

Lemma colon_invert_role : forall m r, startswith r [COLON] = true ->
  startswith (invert_role m r) [COLON] = true.
Proof.
  intros m r H. apply colon_iff in H. destruct H as [t ->]. unfold invert_role.
  destruct (is_role_inverted m (COLON :: t)) eqn:I.
  - apply inverted_iff in I. destruct I as [_ [b E]]. rewrite E, drop_last_OF.
    destruct b as [|c b]; [discriminate|]. simpl in E. inversion E; subst.
    apply colon_iff. eexists. reflexivity.
  - apply colon_iff. eexists. reflexivity.
Qed.

(* ------------------------------------------------------------------ *)
(** * What one datum becomes *)

Definition data_triples (d : list datum) : list triple :=
  flat_map (fun x => match x with DT t _ _ => [t] | DPop => [] end) d.

Lemma data_triples_app : forall a b, data_triples (a ++ b) = data_triples a ++ data_triples b.
Proof. intros. apply flat_map_app. Qed.

Lemma data_triples_drop_pops : forall d, data_triples (drop_pops d) = data_triples d.
Proof. induction d as [|[t p e|] d IH]; simpl; auto. Qed.

Definition colon_ok (ts : list triple) : Prop :=
  Forall (fun t => startswith (trole t) [COLON] = true) ts.

(* the branch written for [t]: as is or inverted; a missing concept is not written *)
Definition written (o : triple) : list triple :=
  if is_instance o && missing_concept (ttgt o) then [] else [edge_of o].
Definition placed_as (m : model) (t : triple) (os : list triple) : Prop :=
  exists o, (o = t \/ o = invert m t) /\ os = written o.

Definition Adds (m : model) (ts : list triple) (st st' : store) : Prop :=
  exists os, Forall2 (placed_as m) ts os /\
             Permutation (store_triples st') (concat os ++ store_triples st).

Lemma Adds_nil : forall m st st', Permutation (store_triples st') (store_triples st) -> Adds m [] st st'.
Proof. intros m st st' H. exists []. split; [constructor|exact H]. Qed.

Lemma Adds_app : forall m ts1 ts2 a b c, Adds m ts1 a b -> Adds m ts2 b c -> Adds m (ts1 ++ ts2) a c.
Proof.
  intros m ts1 ts2 a b c (os1 & F1 & P1) (os2 & F2 & P2).
  exists (os1 ++ os2). split; [apply Forall2_app; assumption|].
  rewrite concat_app.
  eapply perm_trans; [exact P2|].
  eapply perm_trans; [apply Permutation_app_head, P1|].
  rewrite !app_assoc. apply Permutation_app_tail. apply Permutation_app_comm.
Qed.

Lemma Adds_one : forall m t os st st', placed_as m t os ->
  Permutation (store_triples st') (os ++ store_triples st) -> Adds m [t] st st'.
Proof.
  intros m t os st st' H P. exists [os]. split; [repeat constructor; exact H|].
  simpl. rewrite app_nil_r. exact P.
Qed.

Lemma Adds_perm : forall m ts ts' a b, Permutation ts ts' -> Adds m ts a b -> Adds m ts' a b.
Proof.
  intros m ts ts' a b P (os & F & Q).
  destruct (Forall2_perm_l _ _ _ _ F P) as (os' & Pos & F').
  exists os'. split; [exact F'|].
  eapply perm_trans; [exact Q|]. apply Permutation_app_tail. apply Permutation_concat. exact Pos.
Qed.

Lemma Adds_store_eq : forall m ts a a' b, store_triples a' = store_triples a ->
  Adds m ts a' b -> Adds m ts a b.
Proof. intros m ts a a' b E (os & F & Q). exists os. rewrite <- E. auto. Qed.

(* ------------------------------------------------------------------ *)
(** * One placement *)

Lemma ext_nth : forall st st' id w es, ext st st' -> nth_error st id = Some (w, es) ->
  exists es', nth_error st' id = Some (w, es').
Proof.
  intros st st' id w es [more E] G.
  assert (M : nth_error (map fst st') id = Some w).
  { rewrite E. rewrite nth_error_app1 by (rewrite map_length; apply nth_error_Some; congruence).
    rewrite nth_error_map, G. reflexivity. }
  rewrite nth_error_map in M. destruct (nth_error st' id) as [[w' es']|]; [|discriminate].
  simpl in M. inversion M; subst. eauto.
Qed.

Lemma store_triples_ins : forall id ins st w es e, ids_lt (length st) st ->
  nth_error st id = Some (w, es) -> inserts e ins ->
  Permutation (store_triples (ins_at id ins st)) (cedge_triple st w e :: store_triples st).
Proof.
  intros id ins st w es e IL G I. unfold store_triples.
  rewrite (flat_triples_rd_eq (ins_at id ins st) st) by apply ins_at_map_fst.
  eapply ins_at_triples; eassumption.
Qed.

Lemma store_triples_push : forall P st nm v, WF P st nm ->
  store_triples (st ++ [(v, [])]) = store_triples st.
Proof.
  intros P st nm v W. unfold store_triples.
  rewrite flat_triples_app. unfold flat_triples at 2. simpl. rewrite app_nil_r.
  apply flat_triples_ext; [exists [v]; rewrite map_app; reflexivity|].
  eapply WF_ids_lt; eassumption.
Qed.

(* concept branch at the front *)
Lemma step_front : forall P st nm id w es0 var o ep,
  WF P st nm -> nth_error st id = Some (w, es0) -> atom_eqb var w = true ->
  atom_eqb (tsrc o) var = true -> is_instance o = true ->
  let st_a := add_edge_front id (SLASHS, CA (ttgt o), ep) st in
  WF P st_a nm /\ ext st st_a /\
  Permutation (store_triples st_a) (edge_of o :: store_triples st) /\
  exists es1, nth_error st_a id = Some (w, es1).
Proof.
  intros P st nm id w es0 var o ep W G Evw Esv Hi st_a. subst st_a.
  rewrite add_edge_front_ins.
  pose proof (inserts_front (SLASHS, CA (ttgt o), ep)) as I.
  split; [eapply WF_add_ca; try eassumption; left; reflexivity|].
  split; [apply ins_at_ext|]. split.
  - eapply perm_trans; [eapply store_triples_ins; try eassumption; eapply WF_ids_lt; eassumption|].
    unfold cedge_triple, edge_of. simpl. rewrite Hi.
    rewrite <- (akey_eqb _ _ Evw), (akey_eqb _ _ Esv). apply Permutation_refl.
  - unfold ins_at. rewrite (nth_error_upd_same _ _ _ _ G). simpl. eauto.
Qed.

(* bare edge at the end *)
Lemma step_end_ca : forall P st nm id w es0 var o ep,
  WF P st nm -> nth_error st id = Some (w, es0) -> atom_eqb var w = true ->
  atom_eqb (tsrc o) var = true -> is_instance o = false ->
  startswith (trole o) [COLON] = true ->
  let nm1 := match dget atom_eqb (ttgt o) nm with
             | Some None => dset atom_eqb (ttgt o) (Some id) nm
             | _ => nm
             end in
  let st_a := add_edge_end id (trole o, CA (ttgt o), ep) st in
  WF P st_a nm1 /\ ext st st_a /\
  Permutation (store_triples st_a) (edge_of o :: store_triples st) /\
  exists es1, nth_error st_a id = Some (w, es1).
Proof.
  intros P st nm id w es0 var o ep W G Evw Esv Hi Hc nm1 st_a. subst st_a nm1.
  rewrite add_edge_end_ins.
  pose proof (inserts_end (trole o, CA (ttgt o), ep)) as I.
  split.
  { eapply WF_add_ca; try eassumption.
    destruct (dget atom_eqb (ttgt o) nm) as [[i|]|] eqn:D; auto.
    right. repeat split; auto. apply colon_not_slash. exact Hc. }
  split; [apply ins_at_ext|]. split.
  - eapply perm_trans; [eapply store_triples_ins; try eassumption; eapply WF_ids_lt; eassumption|].
    unfold cedge_triple, edge_of. simpl. rewrite Hi.
    rewrite <- (akey_eqb _ _ Evw), (akey_eqb _ _ Esv). apply Permutation_refl.
  - unfold ins_at. rewrite (nth_error_upd_same _ _ _ _ G). simpl. eauto.
Qed.

(* edge to a freshly configured child *)
Lemma step_attach : forall P st nm id w es0 var o ep cid st0,
  WF (cid :: P) st nm -> nth_error st id = Some (w, es0) -> atom_eqb var w = true ->
  atom_eqb (tsrc o) var = true -> is_instance o = false ->
  id < cid -> cid < length st0 -> ext (st0) st -> node_var_at st0 cid = ttgt o ->
  let st_a := add_edge_end id (trole o, CN cid, ep) st in
  WF P st_a nm /\ ext st st_a /\
  Permutation (store_triples st_a) (edge_of o :: store_triples st) /\
  exists es1, nth_error st_a id = Some (w, es1).
Proof.
  intros P st nm id w es0 var o ep cid st0 W G Evw Esv Hi L1 L2 X Hv st_a. subst st_a.
  pose proof (ext_length _ _ X) as L3.
  split; [eapply WF_attach; try eassumption; lia|].
  rewrite add_edge_end_ins.
  pose proof (inserts_end (trole o, CN cid, ep)) as I.
  split; [apply ins_at_ext|]. split.
  - eapply perm_trans; [eapply store_triples_ins; try eassumption; eapply WF_ids_lt; eassumption|].
    unfold cedge_triple, edge_of. simpl. rewrite Hi.
    rewrite (ext_var_at _ _ _ X L2), Hv.
    rewrite <- (akey_eqb _ _ Evw), (akey_eqb _ _ Esv). apply Permutation_refl.
  - unfold ins_at. rewrite (nth_error_upd_same _ _ _ _ G). simpl. eauto.
Qed.
