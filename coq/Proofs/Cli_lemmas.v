(** Lemmas of C20: the plumbing of the penman command (Impl/Cli.v) computes the
    documented pipeline (Spec/Pipeline.v). *)
From PM Require Import Spec.Pipeline.
From Coq Require Import Lia.

(* ------------------------------------------------------------------ *)
(** * The option monad view of outcomes *)

Lemma ok_of_bind : forall (A B : Type) (x : outcome A) (f : A -> outcome B),
  ok_of (bind x f) = match ok_of x with Some a => ok_of (f a) | None => None end.
Proof. intros A B x f. destruct x; reflexivity. Qed.

Lemma ok_of_some : forall (A : Type) (x : outcome A) a, ok_of x = Some a -> x = Ok a.
Proof. intros A x a H. destruct x; simpl in H; try discriminate. inversion H. reflexivity. Qed.

Lemma mapM_opt_app : forall (A B : Type) (f : A -> option B) l1 l2,
  mapM_opt f (l1 ++ l2) =
  match mapM_opt f l1, mapM_opt f l2 with
  | Some x, Some y => Some (x ++ y)
  | _, _ => None
  end.
Proof.
  intros A B f. induction l1 as [|a l1 IH]; intros l2; simpl.
  - destruct (mapM_opt f l2); reflexivity.
  - destruct (f a) as [b|]; [|reflexivity]. rewrite IH.
    destruct (mapM_opt f l1); [|reflexivity]. destruct (mapM_opt f l2); reflexivity.
Qed.

Lemma mapM_opt_length : forall (A B : Type) (f : A -> option B) l r,
  mapM_opt f l = Some r -> length r = length l.
Proof.
  intros A B f. induction l as [|a l IH]; intros r H; simpl in H.
  - inversion H. reflexivity.
  - destruct (f a); [|discriminate]. destruct (mapM_opt f l) eqn:E; [|discriminate].
    inversion H. simpl. rewrite (IH _ eq_refl). reflexivity.
Qed.

Lemma mapM_opt_Forall2 : forall (A B : Type) (f : A -> option B) l r,
  mapM_opt f l = Some r <-> Forall2 (fun a b => f a = Some b) l r.
Proof.
  intros A B f. induction l as [|a l IH]; intros r; simpl; split; intros H.
  - inversion H. constructor.
  - inversion H. reflexivity.
  - destruct (f a) eqn:Fa; [|discriminate]. destruct (mapM_opt f l) eqn:E; [|discriminate].
    inversion H. constructor; [exact Fa | apply IH; reflexivity].
  - inversion H as [|? b ? r' Fa F2]. subst. rewrite Fa.
    apply IH in F2. rewrite F2. reflexivity.
Qed.

Lemma Forall2_weaken : forall (A B : Type) (P Q : A -> B -> Prop) l r,
  (forall a b, P a b -> Q a b) -> Forall2 P l r -> Forall2 Q l r.
Proof. intros A B P Q l r H F. induction F; constructor; auto. Qed.

Lemma mapM_opt_none : forall (A B : Type) (f : A -> option B) l,
  mapM_opt f l = None <-> exists a, In a l /\ f a = None.
Proof.
  intros A B f. induction l as [|a l IH]; simpl; split; intros H.
  - discriminate.
  - destruct H as [a [[] _]].
  - destruct (f a) eqn:Fa.
    + destruct (mapM_opt f l) eqn:E; [discriminate|].
      destruct (proj1 IH eq_refl) as [x [I N]]. exists x. split; [right; exact I | exact N].
    + exists a. split; [left; reflexivity | exact Fa].
  - destruct H as [x [[E|I] N]].
    + subst x. rewrite N. reflexivity.
    + destruct (f a); [|reflexivity].
      rewrite (proj2 IH (ex_intro _ x (conj I N))). reflexivity.
Qed.

(* ------------------------------------------------------------------ *)
(** * _make_sort_key through the tables = the documented meaning of the keys *)

(* the keyword arguments _make_sort_key can produce from REARRANGE_KEYS *)
Definition kw (b : bool) : dict str bool := if b then [(A_ATTRIBUTES_FIRST, true)] else [].

Lemma loop_step : forall k ks T kws funcs,
  make_sort_key_loop (k :: ks) T kws funcs =
  match dget str_eqb (ukey_text k) T with
  | None => Other 2
  | Some name =>
      match getattr_model name with
      | ANoAttr => make_sort_key_loop ks T (dset str_eqb name true kws) funcs
      | AMethod me => make_sort_key_loop ks T kws (funcs ++ [me])
      | ARandom => Other 0
      end
  end.
Proof. reflexivity. Qed.

Lemma rearr_loop : forall keys b funcs, forallb rearrange_key_ok keys = true ->
  make_sort_key_loop keys REARRANGE_KEYS (kw b) funcs
  = Ok (funcs ++ key_methods keys, kw (b || attributes_first keys)).
Proof.
  induction keys as [|k ks IH]; intros b funcs H.
  - simpl. rewrite app_nil_r, orb_false_r. reflexivity.
  - simpl in H. apply andb_true_iff in H. destruct H as [Hk Hks]. rewrite loop_step.
    destruct k; try discriminate Hk.
    + change (dget str_eqb (ukey_text UCanonical) REARRANGE_KEYS) with (Some A_CANONICAL_ORDER). cbv beta iota.
      change (getattr_model A_CANONICAL_ORDER) with (AMethod MCanonical). cbv beta iota.
      rewrite (IH b _ Hks). simpl. rewrite <- app_assoc. reflexivity.
    + change (dget str_eqb (ukey_text UAlphanumeric) REARRANGE_KEYS) with (Some A_ALPHANUMERIC_ORDER). cbv beta iota.
      change (getattr_model A_ALPHANUMERIC_ORDER) with (AMethod MAlnum). cbv beta iota.
      rewrite (IH b _ Hks). simpl. rewrite <- app_assoc. reflexivity.
    + change (dget str_eqb (ukey_text UInvertedLast) REARRANGE_KEYS) with (Some A_IS_ROLE_INVERTED). cbv beta iota.
      change (getattr_model A_IS_ROLE_INVERTED) with (AMethod MInverted). cbv beta iota.
      rewrite (IH b _ Hks). simpl. rewrite <- app_assoc. reflexivity.
    + change (dget str_eqb (ukey_text UAttributesFirst) REARRANGE_KEYS) with (Some A_ATTRIBUTES_FIRST). cbv beta iota.
      change (getattr_model A_ATTRIBUTES_FIRST) with ANoAttr. cbv beta iota.
      replace (dset str_eqb A_ATTRIBUTES_FIRST true (kw b)) with (kw true) by (destruct b; reflexivity).
      rewrite (IH true _ Hks). simpl. rewrite orb_true_r. reflexivity.
Qed.

Lemma reconf_loop : forall keys funcs, forallb reconfigure_key_ok keys = true ->
  make_sort_key_loop keys RECONFIGURE_KEYS [] funcs = Ok (funcs ++ key_methods keys, []).
Proof.
  induction keys as [|k ks IH]; intros funcs H.
  - simpl. rewrite app_nil_r. reflexivity.
  - simpl in H. apply andb_true_iff in H. destruct H as [Hk Hks]. rewrite loop_step.
    destruct k; try discriminate Hk.
    + change (dget str_eqb (ukey_text UCanonical) RECONFIGURE_KEYS) with (Some A_CANONICAL_ORDER). cbv beta iota.
      change (getattr_model A_CANONICAL_ORDER) with (AMethod MCanonical). cbv beta iota.
      rewrite (IH _ Hks). simpl. rewrite <- app_assoc. reflexivity.
    + change (dget str_eqb (ukey_text UOriginal) RECONFIGURE_KEYS) with (Some A_ORIGINAL_ORDER). cbv beta iota.
      change (getattr_model A_ORIGINAL_ORDER) with (AMethod MOriginal). cbv beta iota.
      rewrite (IH _ Hks). simpl. rewrite <- app_assoc. reflexivity.
Qed.

(* a key the table does not list: key_funcs[key] raises *)
Lemma rearr_loop_bad : forall keys kws funcs, forallb rearrange_key_ok keys = false ->
  ok_of (make_sort_key_loop keys REARRANGE_KEYS kws funcs) = None.
Proof.
  induction keys as [|k ks IH]; intros kws funcs H; [discriminate|].
  simpl in H. rewrite loop_step. destruct k; simpl in H.
  - change (dget str_eqb (ukey_text UCanonical) REARRANGE_KEYS) with (Some A_CANONICAL_ORDER). cbv beta iota.
    change (getattr_model A_CANONICAL_ORDER) with (AMethod MCanonical). cbv beta iota. apply IH. exact H.
  - change (dget str_eqb (ukey_text UAlphanumeric) REARRANGE_KEYS) with (Some A_ALPHANUMERIC_ORDER). cbv beta iota.
    change (getattr_model A_ALPHANUMERIC_ORDER) with (AMethod MAlnum). cbv beta iota. apply IH. exact H.
  - change (dget str_eqb (ukey_text UInvertedLast) REARRANGE_KEYS) with (Some A_IS_ROLE_INVERTED). cbv beta iota.
    change (getattr_model A_IS_ROLE_INVERTED) with (AMethod MInverted). cbv beta iota. apply IH. exact H.
  - change (dget str_eqb (ukey_text UAttributesFirst) REARRANGE_KEYS) with (Some A_ATTRIBUTES_FIRST). cbv beta iota.
    change (getattr_model A_ATTRIBUTES_FIRST) with ANoAttr. cbv beta iota. apply IH. exact H.
  - reflexivity.
Qed.

Lemma reconf_loop_bad : forall keys kws funcs, forallb reconfigure_key_ok keys = false ->
  ok_of (make_sort_key_loop keys RECONFIGURE_KEYS kws funcs) = None.
Proof.
  induction keys as [|k ks IH]; intros kws funcs H; [discriminate|].
  simpl in H. rewrite loop_step. destruct k; simpl in H; try reflexivity.
  - change (dget str_eqb (ukey_text UCanonical) RECONFIGURE_KEYS) with (Some A_CANONICAL_ORDER). cbv beta iota.
    change (getattr_model A_CANONICAL_ORDER) with (AMethod MCanonical). cbv beta iota. apply IH. exact H.
  - change (dget str_eqb (ukey_text UOriginal) RECONFIGURE_KEYS) with (Some A_ORIGINAL_ORDER). cbv beta iota.
    change (getattr_model A_ORIGINAL_ORDER) with (AMethod MOriginal). cbv beta iota. apply IH. exact H.
Qed.

(* no list of keys reaches random_order: the model is never left *)
Lemma make_sort_key_in_model : forall keys T kws funcs,
  T = REARRANGE_KEYS \/ T = RECONFIGURE_KEYS ->
  make_sort_key_loop keys T kws funcs <> Other 0.
Proof.
  induction keys as [|k ks IH]; intros T kws funcs HT; [discriminate|].
  rewrite loop_step. destruct HT as [HT|HT]; subst T; destruct k;
    (vm_compute (dget _ _ _); cbv iota beta;
     first [ discriminate
           | match goal with
             | |- context [getattr_model ?n] =>
                 let v := eval vm_compute in (getattr_model n) in
                 change (getattr_model n) with v; cbv iota beta
             end; apply IH; auto ]).
Qed.

(* what main() stores in normalize_options for well-formed option values *)
Definition rearr_plumb (o : cli_opts) : option (list method * dict str bool) :=
  match given (o_rearrange o) with
  | Some ks => Some (key_methods ks, kw (attributes_first ks))
  | None => None
  end.
Definition reconf_plumb (o : cli_opts) : option (list method * dict str bool) :=
  match given (o_reconfigure o) with
  | Some ks => Some (key_methods ks, [])
  | None => None
  end.

Lemma sort_option_given : forall keys T,
  sort_option keys T = match given keys with
                       | Some ks => r <- make_sort_key ks T ;; Ok (Some r)
                       | None => Ok None
                       end.
Proof. intros [[|k ks]|] T; reflexivity. Qed.

Lemma sort_option_ok : forall o, opts_ok o = true ->
  sort_option (o_rearrange o) REARRANGE_KEYS = Ok (rearr_plumb o) /\
  sort_option (o_reconfigure o) RECONFIGURE_KEYS = Ok (reconf_plumb o).
Proof.
  intros o H. unfold opts_ok in H. apply andb_true_iff in H. destruct H as [H1 H2].
  unfold rearr_plumb, reconf_plumb. rewrite !sort_option_given. split.
  - destruct (given (o_rearrange o)) as [ks|]; [|reflexivity].
    unfold make_sort_key. change (@nil (str * bool)) with (kw false).
    rewrite (rearr_loop ks false [] H1). reflexivity.
  - destruct (given (o_reconfigure o)) as [ks|]; [|reflexivity].
    unfold make_sort_key. rewrite (reconf_loop ks [] H2). reflexivity.
Qed.

Lemma sort_option_bad : forall o (A : Type)
  (k : option (list method * dict str bool) -> option (list method * dict str bool) -> outcome A),
  opts_ok o = false ->
  ok_of (rearr <- sort_option (o_rearrange o) REARRANGE_KEYS ;;
         reconf <- sort_option (o_reconfigure o) RECONFIGURE_KEYS ;; k rearr reconf) = None.
Proof.
  intros o A k H. unfold opts_ok in H. rewrite ok_of_bind, !sort_option_given.
  destruct (given (o_rearrange o)) as [ks|].
  - destruct (forallb rearrange_key_ok ks) eqn:F1.
    + simpl in H. unfold make_sort_key at 1. change (@nil (str * bool)) with (kw false).
      rewrite (rearr_loop ks false [] F1). simpl. rewrite ok_of_bind.
      destruct (given (o_reconfigure o)) as [ks2|]; [|discriminate H].
      rewrite ok_of_bind. unfold make_sort_key. rewrite (reconf_loop_bad ks2 [] [] H). reflexivity.
    + rewrite ok_of_bind. unfold make_sort_key. rewrite (rearr_loop_bad ks [] [] F1). reflexivity.
  - simpl in H. simpl. rewrite ok_of_bind.
    destruct (given (o_reconfigure o)) as [ks2|]; [|discriminate H].
    rewrite ok_of_bind. unfold make_sort_key. rewrite (reconf_loop_bad ks2 [] [] H). reflexivity.
Qed.

(* ------------------------------------------------------------------ *)
(** * One tree: process_tree = the pipeline *)

Lemma normalise_eq : forall o t, normalise o t = process_in o t.
Proof. reflexivity. Qed.

Lemma call_rearrange_kw : forall m t funcs b,
  call_rearrange m t funcs (kw b) = Ok (rearrange sort_key_leb (Some (sort_key m funcs)) b t).
Proof. intros m t funcs [|]; reflexivity. Qed.

Lemma process_out_stages : forall o g,
  process_out o (reconf_plumb o) (rearr_plumb o) g = (layout o >=> rearrange_stage o >=> relabel o) g.
Proof.
  intros o g. unfold process_out, layout, layout_doc, revalidate, rearrange_stage, relabel, seq,
    reconf_plumb, rearr_plumb, pure_stage.
  destruct (given (o_reconfigure o)) as [ks|].
  - unfold call_reconfigure.
    destruct (reconfigure sort_key_leb (o_model o) g None (Some (sort_key (o_model o) (key_methods ks))))
      as [t| | | | | | | |]; simpl; try reflexivity.
    destruct (interpret (o_model o) t) as [g'| | | | | | | |]; simpl; try reflexivity.
    destruct (given (o_rearrange o)) as [ks'|]; [rewrite call_rearrange_kw|]; simpl;
      destruct (o_make_variables o) as [[|? ?]|]; reflexivity.
  - destruct (configure (o_model o) g None) as [t| | | | | | | |]; simpl; try reflexivity.
    destruct (given (o_rearrange o)) as [ks'|]; [rewrite call_rearrange_kw|]; simpl;
      destruct (o_make_variables o) as [[|? ?]|]; reflexivity.
Qed.

Lemma check_graph_flag : forall m g,
  fst (check_graph m g) = match errors m g with [] => false | _ => true end.
Proof. intros m g. unfold check_graph. destruct (errors m g); reflexivity. Qed.

Lemma process_tree_pipeline : forall o t,
  process_tree o (reconf_plumb o) (rearr_plumb o) t
  = (s <- pipeline o t ;; Ok (s, graph_has_errors o t)).
Proof.
  intros o t. unfold process_tree, pipeline, graph_has_errors, pre_format.
  destruct (o_triples o) eqn:Tr.
  - change ((normalise o >=> annotate o >=> write_triples o) t)
      with (bind (process_in o t) (annotate o >=> write_triples o)).
    change (normalise o t) with (process_in o t).
    destruct (process_in o t) as [g| | | | | | | |]; try reflexivity. simpl.
    unfold seq, annotate, when, write_triples, pure_stage, check.
    destruct (o_check o); simpl; [|reflexivity].
    rewrite <- check_graph_flag. destruct (check_graph (o_model o) g) as [b md]. reflexivity.
  - change (((normalise o >=> annotate o >=> layout o >=> rearrange_stage o >=> relabel o) >=> write o) t)
      with (bind (bind (process_in o t) (annotate o >=> layout o >=> rearrange_stage o >=> relabel o)) (write o)).
    change (normalise o t) with (process_in o t).
    destruct (process_in o t) as [g| | | | | | | |]; try reflexivity. simpl.
    unfold annotate, when, pure_stage, check. unfold seq at 1.
    destruct (o_check o); simpl.
    + rewrite <- check_graph_flag. destruct (check_graph (o_model o) g) as [b md]. simpl.
      rewrite process_out_stages.
      destruct ((layout o >=> rearrange_stage o >=> relabel o) (set_gmeta g md)); reflexivity.
    + rewrite process_out_stages.
      destruct ((layout o >=> rearrange_stage o >=> relabel o) g); reflexivity.
Qed.

(* ------------------------------------------------------------------ *)
(** * The loops: the [first] flag and the shared state frame the texts *)

(* what a sequence of texts adds to stdout; [st] = nothing has been written yet *)
Fixpoint frame (st : bool) (texts : list str) : str :=
  match texts with
  | [] => []
  | s :: r => (if st then [] else [LF]) ++ s ++ [LF] ++ frame false r
  end.
Definition is_nil {A} (l : list A) : bool := match l with [] => true | _ => false end.

Lemma frame_app : forall a b st, frame st (a ++ b) = frame st a ++ frame (st && is_nil a) b.
Proof.
  induction a as [|s a IH]; intros b st; simpl.
  - rewrite andb_true_r. reflexivity.
  - rewrite IH. simpl. rewrite andb_false_r. rewrite <- !app_assoc. reflexivity.
Qed.

Lemma frame_false : forall texts, frame false texts = flat_map (fun s => LF :: s ++ [LF]) texts.
Proof. induction texts as [|s r IH]; simpl; [reflexivity|]. rewrite IH, <- app_assoc. reflexivity. Qed.

Lemma join_cons_cons : forall sep (x y : str) l, join sep (x :: y :: l) = x ++ sep ++ join sep (y :: l).
Proof. reflexivity. Qed.

Lemma frame_true_render : forall texts, frame true texts = render_stream texts.
Proof.
  intros [|s r]; [reflexivity|]. unfold render_stream. simpl frame.
  revert s. induction r as [|s' r IH]; intros s.
  - simpl. reflexivity.
  - rewrite join_cons_cons. simpl frame. simpl app at 1.
    specialize (IH s'). simpl in IH. simpl. rewrite <- !app_assoc. simpl.
    f_equal. rewrite <- IH. reflexivity.
Qed.

Lemma render_stream_app : forall a b, a <> [] -> b <> [] ->
  render_stream (a ++ b) = render_stream a ++ [LF] ++ render_stream b.
Proof.
  intros a b Ha Hb. rewrite <- !frame_true_render, frame_app.
  destruct a as [|x a]; [contradiction|]. simpl is_nil. simpl andb.
  destruct b as [|y b]; [contradiction|]. reflexivity.
Qed.

Definition pipe_opt (o : cli_opts) (t : tree) : option str := ok_of (pipeline o t).
Section Loops.
  Variable o : cli_opts.
  Notation rc := (reconf_plumb o).
  Notation ra := (rearr_plumb o).
  Notation f := (pipe_opt o).
  Notation ghe := (graph_has_errors o).

  Lemma process_loop_spec : forall ts st out code,
    ok_of (process_loop o rc ra ts st out code) =
    match mapM_opt f ts with
    | Some texts => Some (st && is_nil texts, out ++ frame st texts, code || existsb ghe ts)
    | None => None
    end.
  Proof.
    induction ts as [|t ts IH]; intros st out code.
    - simpl. rewrite andb_true_r, app_nil_r, orb_false_r. reflexivity.
    - simpl process_loop. rewrite ok_of_bind. rewrite process_tree_pipeline.
      rewrite ok_of_bind. simpl mapM_opt. unfold pipe_opt at 1.
      destruct (ok_of (pipeline o t)) as [s|]; [|reflexivity]. change (ok_of (Ok (s, graph_has_errors o t))) with (Some (s, graph_has_errors o t)). cbv beta iota.
      rewrite IH. destruct (mapM_opt f ts) as [texts|]; [|reflexivity].
      simpl. rewrite andb_false_r. f_equal. f_equal; [f_equal|].
      + destruct st; simpl; rewrite <- ?app_assoc; reflexivity.
      + rewrite orb_assoc. reflexivity.
  Qed.

  Lemma process_parsed_spec : forall p st out,
    ok_of (process_parsed o rc ra p st out) =
    if parsed_ok p then
      match mapM_opt f (fst p) with
      | Some texts => Some (st && is_nil texts, out ++ frame st texts, existsb ghe (fst p))
      | None => None
      end
    else None.
  Proof.
    intros [ts fin] st out. unfold process_parsed, parsed_ok. simpl fst. simpl snd.
    rewrite ok_of_bind, process_loop_spec.
    destruct (mapM_opt f ts) as [texts|]; [|destruct fin; reflexivity].
    destruct fin; reflexivity.
  Qed.

  Lemma main_files_spec : forall files st out code,
    ok_of (main_files o rc ra files st out code) =
    if forallb parsed_ok files then
      match mapM_opt f (flat_map fst files) with
      | Some texts => Some (out ++ frame st texts, code || existsb ghe (flat_map fst files))
      | None => None
      end
    else None.
  Proof.
    induction files as [|p files IH]; intros st out code.
    - simpl. rewrite app_nil_r, orb_false_r. reflexivity.
    - simpl main_files. rewrite ok_of_bind, process_parsed_spec. simpl forallb. simpl flat_map.
      destruct (parsed_ok p); [|reflexivity]. simpl andb.
      rewrite mapM_opt_app. destruct (mapM_opt f (fst p)) as [texts1|]; [|destruct (forallb parsed_ok files); reflexivity].
      rewrite IH. destruct (forallb parsed_ok files); [|reflexivity].
      destruct (mapM_opt f (flat_map fst files)) as [texts2|]; [|reflexivity].
      rewrite frame_app, existsb_app, <- app_assoc, orb_assoc. reflexivity.
  Qed.
End Loops.

(* ------------------------------------------------------------------ *)
(** * Theorem 1: the run is the documented pipeline *)

Theorem run_parsed_is_pipeline : forall o files stdin,
  ok_of (run_parsed o files stdin) = run_spec o (inputs_of files stdin).
Proof.
  intros o files stdin. unfold run_parsed, run_spec.
  change (fun t : tree => ok_of (pipeline o t)) with (pipe_opt o).
  destruct (opts_ok o) eqn:OK.
  - destruct (sort_option_ok o OK) as [E1 E2]. rewrite E1, E2. simpl bind. simpl andb.
    destruct files as [|p files].
    + rewrite ok_of_bind, process_parsed_spec. simpl inputs_of. simpl forallb. rewrite andb_true_r.
      simpl flat_map. rewrite app_nil_r. destruct (parsed_ok stdin); [|reflexivity].
      destruct (mapM_opt (pipe_opt o) (fst stdin)) as [texts|]; [|reflexivity].
      simpl. rewrite frame_true_render. reflexivity.
    + rewrite main_files_spec. unfold inputs_of.
      destruct (forallb parsed_ok (p :: files)); [|reflexivity].
      destruct (mapM_opt (pipe_opt o) (flat_map fst (p :: files))) as [texts|]; [|reflexivity].
      simpl. rewrite frame_true_render. reflexivity.
  - simpl andb. cbv iota. apply sort_option_bad. exact OK.
Qed.

Theorem run_is_pipeline : forall o files stdin,
  ok_of (run o files stdin) = run_spec o (map iterparse_str (inputs_of files stdin)).
Proof.
  intros o files stdin. unfold run. rewrite run_parsed_is_pipeline. f_equal.
  destruct files; reflexivity.
Qed.

(* the same read as: success with exactly these texts / failure *)
Theorem run_parsed_ok_iff : forall o files stdin out code,
  run_parsed o files stdin = Ok (out, code) <->
  opts_ok o = true /\ forallb parsed_ok (inputs_of files stdin) = true /\
  exists texts,
    Forall2 (fun t s => pipeline o t = Ok s) (flat_map fst (inputs_of files stdin)) texts /\
    out = render_stream texts /\
    code = existsb (graph_has_errors o) (flat_map fst (inputs_of files stdin)).
Proof.
  intros o files stdin out code. split.
  - intros H. pose proof (run_parsed_is_pipeline o files stdin) as S. rewrite H in S. simpl in S.
    unfold run_spec in S. change (fun t : tree => ok_of (pipeline o t)) with (pipe_opt o) in S. destruct (opts_ok o); [|discriminate]. simpl in S.
    destruct (forallb parsed_ok (inputs_of files stdin)); [|discriminate].
    destruct (mapM_opt (pipe_opt o) (flat_map fst (inputs_of files stdin))) as [texts|] eqn:M;
      [|discriminate].
    inversion S. split; [reflexivity|]. split; [reflexivity|]. exists texts. split; [|split; reflexivity].
    apply mapM_opt_Forall2 in M. revert M. apply Forall2_weaken. intros t s E. apply ok_of_some. exact E.
  - intros [OK [P [texts [F2 [Eo Ec]]]]]. apply ok_of_some. rewrite run_parsed_is_pipeline.
    unfold run_spec. change (fun t : tree => ok_of (pipeline o t)) with (pipe_opt o). rewrite OK, P. simpl.
    assert (M : mapM_opt (pipe_opt o) (flat_map fst (inputs_of files stdin)) = Some texts).
    { apply mapM_opt_Forall2. revert F2. apply Forall2_weaken. intros t s E. unfold pipe_opt. rewrite E. reflexivity. }
    rewrite M, Eo, Ec. reflexivity.
Qed.

(* if some application of the pipeline fails, or an input does not parse to the
   end, or an option value is not accepted, the run fails *)
Theorem run_parsed_fails : forall o files stdin,
  (opts_ok o = false \/
   (exists p, In p (inputs_of files stdin) /\ parsed_ok p = false) \/
   (exists t, In t (flat_map fst (inputs_of files stdin)) /\ ok_of (pipeline o t) = None)) ->
  ok_of (run_parsed o files stdin) = None.
Proof.
  intros o files stdin H. rewrite run_parsed_is_pipeline. unfold run_spec.
  change (fun t : tree => ok_of (pipeline o t)) with (pipe_opt o).
  destruct H as [H|[[p [I H]]|H]].
  - rewrite H. reflexivity.
  - assert (F : forallb parsed_ok (inputs_of files stdin) = false).
    { destruct (forallb parsed_ok (inputs_of files stdin)) eqn:F; [|reflexivity].
      rewrite forallb_forall in F. rewrite (F p I) in H. discriminate. }
    rewrite F, andb_false_r. reflexivity.
  - assert (M : mapM_opt (pipe_opt o) (flat_map fst (inputs_of files stdin)) = None)
      by (apply mapM_opt_none; exact H).
    rewrite M.
    destruct (opts_ok o && forallb parsed_ok (inputs_of files stdin)); reflexivity.
Qed.

(* the pipeline as documented differs only by the re-interpretation of a
   reconfigured tree, whose result is discarded *)
Lemma pipeline_doc_of_pipeline : forall o t s, pipeline o t = Ok s -> pipeline_doc o t = Ok s.
Proof.
  intros o t s. unfold pipeline, pipeline_doc, pre_format, layout.
  destruct (o_triples o); [exact (fun H => H)|].
  unfold seq. destruct (normalise o t) as [g| | | | | | | |]; simpl; try discriminate.
  destruct (annotate o g) as [g'| | | | | | | |]; simpl; try discriminate.
  destruct (layout_doc o g') as [t1| | | | | | | |]; simpl; try discriminate.
  unfold revalidate. destruct (given (o_reconfigure o)).
  - destruct (interpret (o_model o) t1); simpl; try discriminate.
    destruct (rearrange_stage o t1) as [t2| | | | | | | |]; simpl; try discriminate.
    destruct (relabel o t2); simpl; try discriminate. exact (fun H => H).
  - simpl. destruct (rearrange_stage o t1) as [t2| | | | | | | |]; simpl; try discriminate.
    destruct (relabel o t2); simpl; try discriminate. exact (fun H => H).
Qed.

Lemma pipeline_doc_eq : forall o t, given (o_reconfigure o) = None -> pipeline o t = pipeline_doc o t.
Proof.
  intros o t H. unfold pipeline, pipeline_doc, pre_format, layout.
  destruct (o_triples o); [reflexivity|].
  unfold seq. destruct (normalise o t) as [g| | | | | | | |]; simpl; try reflexivity.
  destruct (annotate o g) as [g'| | | | | | | |]; simpl; try reflexivity.
  destruct (layout_doc o g') as [t1| | | | | | | |]; simpl; try reflexivity.
  unfold revalidate. rewrite H. simpl.
  destruct (rearrange_stage o t1) as [t2| | | | | | | |]; simpl; reflexivity.
Qed.

(* ------------------------------------------------------------------ *)
(** * Theorem 2: several files = their concatenation *)

Theorem files_equal_concatenation : forall o files stdin,
  files <> [] -> forallb parsed_ok files = true ->
  ok_of (run_parsed o files stdin) = ok_of (run_parsed o [(flat_map fst files, Ok tt)] stdin).
Proof.
  intros o files stdin Hne P. rewrite !run_parsed_is_pipeline.
  destruct files as [|p files]; [contradiction|]. unfold inputs_of, run_spec.
  rewrite P. simpl forallb. change (flat_map fst [(flat_map fst (p :: files), @Ok unit tt)]) with (flat_map fst (p :: files) ++ []).
  rewrite app_nil_r. reflexivity.
Qed.

(* ------------------------------------------------------------------ *)
(** * Theorem 3: the exit status *)

Lemma graph_has_errors_iff : forall o t,
  graph_has_errors o t = true <->
  o_check o = true /\ exists g, process_in o t = Ok g /\ errors (o_model o) g <> [].
Proof.
  intros o t. unfold graph_has_errors. rewrite normalise_eq. split.
  - intros H. apply andb_true_iff in H. destruct H as [C H]. split; [exact C|].
    destruct (process_in o t) as [g| | | | | | | |]; try discriminate.
    exists g. split; [reflexivity|]. destruct (errors (o_model o) g); [discriminate | discriminate].
  - intros [C [g [E N]]]. rewrite C, E. destruct (errors (o_model o) g); [contradiction | reflexivity].
Qed.

Theorem exit_status : forall o files stdin out code,
  run_parsed o files stdin = Ok (out, code) ->
  (code = true <->
   o_check o = true /\
   exists t g, In t (flat_map fst (inputs_of files stdin)) /\
               process_in o t = Ok g /\ errors (o_model o) g <> []).
Proof.
  intros o files stdin out code H. apply run_parsed_ok_iff in H.
  destruct H as [_ [_ [texts [_ [_ Ec]]]]]. rewrite Ec. rewrite existsb_exists. split.
  - intros [t [I G]]. apply graph_has_errors_iff in G. destruct G as [C [g [E N]]].
    split; [exact C|]. exists t, g. auto.
  - intros [C [t [g [I [E N]]]]]. exists t. split; [exact I|].
    apply graph_has_errors_iff. split; [exact C|]. exists g. auto.
Qed.

(* ------------------------------------------------------------------ *)
(** * Theorem 4: formatting options never change the tokens *)
From PM Require Import Spec.WellFormed Proofs.Roundtrip_lemmas.

Lemma pre_format_with_format : forall o i c t, pre_format (with_format o i c) t = pre_format o t.
Proof. reflexivity. Qed.

Lemma pipeline_tree : forall o t, o_triples o = false ->
  pipeline o t = (t' <- pre_format o t ;; Ok (format (o_indent o) (o_compact o) t')).
Proof. intros o t Tr. unfold pipeline. rewrite Tr. reflexivity. Qed.

Theorem formatting_preserves_tokens : forall o i c t t',
  o_triples o = false -> pre_format o t = Ok t' -> wf_tree t' = true ->
  pipeline o t = Ok (format (o_indent o) (o_compact o) t') /\
  pipeline (with_format o i c) t = Ok (format i c t') /\
  map tok_tt (lex_str PENMAN_ALTS (format (o_indent o) (o_compact o) t')) = tokens_of t' /\
  map tok_tt (lex_str PENMAN_ALTS (format i c t')) = tokens_of t'.
Proof.
  intros o i c t t' Tr P W. split; [|split; [|split]].
  - rewrite (pipeline_tree o t Tr), P. reflexivity.
  - rewrite (pipeline_tree (with_format o i c) t Tr), pre_format_with_format, P. reflexivity.
  - apply format_lexes. exact W.
  - apply format_lexes. exact W.
Qed.

(* the graph stages, hence the error report and the exit status, do not depend
   on the formatting options either *)
Lemma graph_has_errors_with_format : forall o i c t,
  graph_has_errors (with_format o i c) t = graph_has_errors o t.
Proof. reflexivity. Qed.

(* ------------------------------------------------------------------ *)
(** * Theorem 5: with no normalisation option the layout is reproduced *)
From PM Require Import Spec.WfLayout Proofs.Configure_fast.

Lemma plain_rest_fields : forall o, plain_rest o = true ->
  o_reify_edges o = false /\ o_dereify_edges o = false /\
  o_reify_attributes o = false /\ o_indicate_branches o = false /\
  given (o_reconfigure o) = None /\ given (o_rearrange o) = None /\
  relabel o = (fun t => Ok t) /\ o_triples o = false /\ o_check o = false.
Proof.
  intros o H. unfold plain_rest in H. repeat (apply andb_true_iff in H; destruct H as [H ?]).
  repeat match goal with X : negb _ = true |- _ => apply negb_true_iff in X end.
  repeat split; try assumption.
  - destruct (given (o_reconfigure o)); [discriminate | reflexivity].
  - destruct (given (o_rearrange o)); [discriminate | reflexivity].
  - unfold relabel. destruct (o_make_variables o) as [[|p ps]|]; try reflexivity. discriminate.
Qed.

Lemma plain_fields : forall o, plain o = true ->
  o_canonicalize_roles o = false /\ o_reify_edges o = false /\ o_dereify_edges o = false /\
  o_reify_attributes o = false /\ o_indicate_branches o = false /\
  given (o_reconfigure o) = None /\ given (o_rearrange o) = None /\
  relabel o = (fun t => Ok t) /\ o_triples o = false /\ o_check o = false.
Proof.
  intros o H. unfold plain in H. apply andb_true_iff in H. destruct H as [H1 H2].
  apply negb_true_iff in H1. split; [exact H1 | exact (plain_rest_fields o H2)].
Qed.

Lemma plain_pre_format : forall o t, plain o = true ->
  wf_layout_tree (o_model o) t = true -> pre_format o t = Ok (drop_empty_concepts t).
Proof.
  intros o t P W. destruct (plain_fields o P) as [F1 [F2 [F3 [F4 [F5 [F6 [F7 [F8 [F9 F10]]]]]]]]].
  destruct (wf_interpret_ok (o_model o) t W) as [g I].
  pose proof (configure_interpret_wf (o_model o) t g W I) as C.
  unfold pre_format, normalise, canonicalise, interpret_stage, Pipeline.reify, Pipeline.dereify, reify_attrs,
    indicate, annotate, Pipeline.layout, layout_doc, revalidate, rearrange_stage, Pipeline.when, Pipeline.seq.
  rewrite F1, F2, F3, F4, F5, F6, F7, F8, F10. simpl. rewrite I. simpl. rewrite C. reflexivity.
Qed.

Theorem plain_is_identity_on_layout : forall o t, plain o = true ->
  wf_layout_tree (o_model o) t = true ->
  pipeline o t = Ok (format (o_indent o) (o_compact o) (drop_empty_concepts t)).
Proof.
  intros o t P W. destruct (plain_fields o P) as [_ [_ [_ [_ [_ [_ [_ [_ [Tr _]]]]]]]]].
  rewrite (pipeline_tree o t Tr), (plain_pre_format o t P W). reflexivity.
Qed.

Lemma plain_no_errors : forall o t, plain o = true -> graph_has_errors o t = false.
Proof.
  intros o t P. destruct (plain_fields o P) as [_ [_ [_ [_ [_ [_ [_ [_ [_ Ck]]]]]]]]].
  unfold graph_has_errors. rewrite Ck. reflexivity.
Qed.

(* ------------------------------------------------------------------ *)
(** * The second pass reads back exactly the trees that were written *)
From PM Require Import Proofs.LexBoundary_lemmas Proofs.Framing_lemmas Proofs.EndToEnd_lemmas.

Lemma join_render_tlayout_tail : forall sep indent compact ts tail, blank_sep sep ->
  Forall (fun t => wf_tree t = true) ts -> ts <> [] ->
  tlayout tail [] -> head_ok tail ->
  tlayout (join sep (map (format indent compact) ts) ++ tail) (flat_map tokens_of ts).
Proof.
  intros sep indent compact ts tail [j [J [Es [Bj BJ]]]] F Hne T Hd.
  induction F as [|t ts W F IH]; [contradiction|].
  destruct ts as [|t' ts'].
  - simpl. apply format_then_tlayout; assumption.
  - change (map (format indent compact) (t :: t' :: ts'))
      with (format indent compact t :: map (format indent compact) (t' :: ts')).
    rewrite join_cons2 by discriminate. rewrite <- !app_assoc.
    change (flat_map tokens_of (t :: t' :: ts')) with (tokens_of t ++ flat_map tokens_of (t' :: ts')).
    apply format_then_tlayout; [exact W | |].
    + apply blanks_tlayout; [rewrite Es; constructor; assumption | apply IH; discriminate].
    + rewrite Es. simpl. destruct Bj as [B|B]; [left | right; left]; exact B.
Qed.

Lemma blank_line_sep : blank_sep BLANK_LINE.
Proof.
  exists LF, [LF]. split; [reflexivity|]. split; [right; reflexivity|].
  constructor; [right; reflexivity | constructor].
Qed.

Theorem iterparse_render_stream : forall indent compact ts,
  Forall (fun t => wf_tree t = true) ts ->
  iterparse_str (render_stream (map (format indent compact) ts)) = (ts, Ok tt).
Proof.
  intros indent compact ts F. destruct ts as [|t0 ts0]; [vm_compute; reflexivity|].
  set (ts := t0 :: ts0) in *.
  assert (E : render_stream (map (format indent compact) ts)
              = join BLANK_LINE (map (format indent compact) ts) ++ [LF]) by reflexivity.
  rewrite E. unfold iterparse_str, iterparse_lines.
  assert (TL : tlayout (join BLANK_LINE (map (format indent compact) ts) ++ [LF]) (flat_map tokens_of ts)).
  { apply join_render_tlayout_tail; [exact blank_line_sep | exact F | discriminate | |].
    - apply tl_blank; [right; reflexivity | constructor].
    - simpl. right. left. reflexivity. }
  pose proof (lex_tlayout _ _ TL) as L. unfold lex_str in L.
  set (toks := lex_lines PENMAN_ALTS (split_lines (join BLANK_LINE (map (format indent compact) ts) ++ [LF]))) in *.
  rewrite (iterparse_toks_trees ts (S (length toks)) (iter_of toks) [] F).
  - reflexivity.
  - unfold view, iter_of. simpl. exact L.
  - assert (length toks = length (flat_map tokens_of ts)) by (rewrite <- L, map_length; reflexivity).
    pose proof (flat_tokens_len ts). lia.
Qed.

(* Idempotence of the command on a stream reduces to a fixed point per tree,
   for EVERY option set without --triples: if the trees that were formatted
   are well formed (C01) and the pipeline maps each of them to its own text,
   then feeding the output back reproduces it. *)
Theorem idempotence_reduces_to_trees : forall o s out code ts',
  o_triples o = false ->
  run o [] s = Ok (out, code) ->
  Forall2 (fun t t' => pre_format o t = Ok t') (fst (iterparse_str s)) ts' ->
  Forall (fun t' => wf_tree t' = true) ts' ->
  (forall t', In t' ts' -> pipeline o t' = Ok (format (o_indent o) (o_compact o) t')) ->
  exists code', run o [] out = Ok (out, code').
Proof.
  intros o s out code ts' Tr R P W Fix. unfold run in *. simpl map in *.
  apply run_parsed_ok_iff in R. simpl inputs_of in R.
  destruct R as [OK [_ [texts [F2 [Eo _]]]]]. simpl flat_map in F2. rewrite app_nil_r in F2.
  assert (Et : texts = map (format (o_indent o) (o_compact o)) ts').
  { clear Eo W Fix. revert texts F2. induction P as [|t t' l l' Pt P IH]; intros texts F2.
    - inversion F2. reflexivity.
    - inversion F2 as [|? s0 ? r0 Ps F2']. subst.
      rewrite (pipeline_tree o t Tr), Pt in Ps. simpl in Ps. inversion Ps.
      rewrite (IH _ F2'). reflexivity. }
  subst texts. subst out.
  rewrite (iterparse_render_stream (o_indent o) (o_compact o) ts' W).
  eexists. apply run_parsed_ok_iff. simpl inputs_of. simpl flat_map. rewrite app_nil_r.
  split; [exact OK|]. split; [reflexivity|].
  exists (map (format (o_indent o) (o_compact o)) ts'). split; [|split; reflexivity].
  clear - Fix. induction ts' as [|t' l IH]; [constructor|].
  constructor; [apply Fix; left; reflexivity | apply IH; intros x I; apply Fix; right; exact I].
Qed.

(* no normalisation option: the second pass reproduces the first byte for byte *)
Theorem plain_idempotent : forall o s out code, plain o = true ->
  Forall (fun t => wf_tree t = true /\ wf_layout_tree (o_model o) t = true) (fst (iterparse_str s)) ->
  run o [] s = Ok (out, code) -> run o [] out = Ok (out, code).
Proof.
  intros o s out code P F R.
  destruct (plain_fields o P) as [_ [_ [_ [_ [_ [_ [_ [_ [Tr Ck]]]]]]]]].
  assert (NoErr : forall l, existsb (graph_has_errors o) l = false).
  { induction l as [|t l IH]; [reflexivity|]. simpl. rewrite IH, (plain_no_errors o t P). reflexivity. }
  assert (Ec : code = false).
  { unfold run in R. apply run_parsed_ok_iff in R. destruct R as [_ [_ [texts [_ [_ Ec]]]]].
    rewrite Ec. apply NoErr. }
  destruct (idempotence_reduces_to_trees o s out code (map drop_empty_concepts (fst (iterparse_str s))) Tr R)
    as [code' R'].
  - induction F as [|t l [Wt Wl] F IH]; [constructor|]. simpl. constructor; [|exact IH].
    apply plain_pre_format; assumption.
  - induction F as [|t l [Wt Wl] F IH]; [constructor|]. simpl. constructor; [|exact IH].
    apply dec_wf_tree. exact Wt.
  - intros t' I. apply in_map_iff in I. destruct I as [t [E I]]. subst t'.
    rewrite Forall_forall in F. destruct (F t I) as [Wt Wl].
    rewrite (plain_is_identity_on_layout o _ P (dec_wf_layout _ _ Wl)), (dec_idem_tree t Wt). reflexivity.
  - assert (Ec' : code' = false).
    { unfold run in R'. apply run_parsed_ok_iff in R'. destruct R' as [_ [_ [texts [_ [_ Ec']]]]].
      rewrite Ec'. apply NoErr. }
    rewrite Ec. rewrite <- Ec'. exact R'.
Qed.

(* ------------------------------------------------------------------ *)
(** * --canonicalize-roles alone (plus formatting) is idempotent *)
From PM Require Import Spec.RoleAlgebra Proofs.Model_lemmas.

Lemma canon_bs_fixed_cons : forall m role tgt bs,
  canon_bs m ((role, tgt) :: bs) = Some ((role, tgt) :: bs) ->
  canon_target m tgt = Some tgt /\ canon_role_text m role = Some role /\ canon_bs m bs = Some bs.
Proof.
  intros m role tgt bs H. simpl in H.
  destruct (canon_target m tgt) as [t|]; [|discriminate].
  destruct (canon_role_text m role) as [r|]; [|discriminate].
  destruct (canon_bs m bs) as [rest|]; [|discriminate].
  inversion H. subst. auto.
Qed.

(* a tree that canonicalisation leaves alone stays so when an empty concept slot is dropped *)
Lemma canon_dec : forall m n, canon_node m n = Some n -> canon_node m (dec_node n) = Some (dec_node n).
Proof.
  intros m. induction n as [v bs IHbs] using node_ind'. intros E.
  rewrite canon_node_eq in E. destruct (canon_bs m bs) as [bs0|] eqn:B; [|discriminate].
  inversion E. subst bs0. clear E.
  assert (M : forall l, Forall (branch_ok (fun n => canon_node m n = Some n -> canon_node m (dec_node n) = Some (dec_node n))) l ->
                        canon_bs m l = Some l -> canon_bs m (map dec_branch l) = Some (map dec_branch l)).
  { induction l as [|[role tgt] l IH]; intros Fl Bl; [reflexivity|].
    inversion Fl as [|? ? Hb Hl]. subst.
    destruct (canon_bs_fixed_cons m role tgt l Bl) as [T [R Bl']].
    simpl map. unfold dec_branch at 1. simpl fst. simpl snd.
    destruct tgt as [a|n0].
    - simpl. rewrite R, (IH Hl Bl'). reflexivity.
    - simpl. simpl in T. destruct (canon_node m n0) as [x|] eqn:Cn; [|discriminate].
      inversion T. subst x. unfold branch_ok in Hb. simpl in Hb.
      rewrite (Hb Cn), R, (IH Hl Bl'). reflexivity. }
  rewrite dec_node_eq. destruct bs as [|[r [a|n']] bs'].
  - rewrite canon_node_eq. reflexivity.
  - destruct (str_eqb r SLASHS && missing_concept a).
    + rewrite canon_node_eq. inversion IHbs as [|? ? Hb Hl]. subst.
      destruct (canon_bs_fixed_cons m r (TAtom a) bs' B) as [_ [_ B']].
      rewrite (M bs' Hl B'). reflexivity.
    + rewrite canon_node_eq. rewrite (M _ IHbs B). reflexivity.
  - rewrite canon_node_eq. rewrite (M _ IHbs B). reflexivity.
Qed.

Lemma canon_pre_format : forall o t t1, plain_rest o = true -> canon_of o t = Some t1 ->
  wf_layout_tree (o_model o) t1 = true -> pre_format o t = Ok (drop_empty_concepts t1).
Proof.
  intros o t t1 P Cn W. destruct (plain_rest_fields o P) as [F2 [F3 [F4 [F5 [F6 [F7 [F8 [F9 F10]]]]]]]].
  destruct (wf_interpret_ok (o_model o) t1 W) as [g I].
  pose proof (configure_interpret_wf (o_model o) t1 g W I) as C.
  unfold pre_format, normalise, canonicalise, interpret_stage, Pipeline.reify, Pipeline.dereify, reify_attrs,
    indicate, annotate, Pipeline.layout, layout_doc, revalidate, rearrange_stage, Pipeline.when, Pipeline.seq.
  unfold canon_of in Cn. rewrite F2, F3, F4, F5, F6, F7, F8, F10.
  destruct (o_canonicalize_roles o).
  - rewrite Cn. simpl. rewrite I. simpl. rewrite C. reflexivity.
  - inversion Cn. subst t1. simpl. rewrite I. simpl. rewrite C. reflexivity.
Qed.

(* the per-tree fixed point *)
Lemma canon_tree_fixed : forall o t t1, plain_rest o = true ->
  (o_canonicalize_roles o = true ->
   norm_closed_b (o_model o) = true /\ has_exact (o_model o) (SLASHS ++ OF) = false) ->
  canon_of o t = Some t1 -> wf_tree t1 = true -> wf_layout_tree (o_model o) t1 = true ->
  pre_format o t = Ok (drop_empty_concepts t1) /\
  wf_tree (drop_empty_concepts t1) = true /\
  pipeline o (drop_empty_concepts t1)
  = Ok (format (o_indent o) (o_compact o) (drop_empty_concepts t1)).
Proof.
  intros o t t1 P HM Cn Wt Wl.
  destruct (plain_rest_fields o P) as [_ [_ [_ [_ [_ [_ [_ [Tr _]]]]]]]].
  split; [exact (canon_pre_format o t t1 P Cn Wl)|]. split; [exact (dec_wf_tree t1 Wt)|].
  rewrite (pipeline_tree o _ Tr).
  assert (C2 : canon_of o (drop_empty_concepts t1) = Some (drop_empty_concepts t1)).
  { unfold canon_of in *. destruct (o_canonicalize_roles o) eqn:Fc; [|reflexivity].
    destruct (HM eq_refl) as [NC Hsl]. unfold canonicalize_roles in *.
    destruct (canon_node (o_model o) (troot t)) as [n1|] eqn:E; [|discriminate].
    inversion Cn. subst t1. simpl troot in *. simpl tmeta.
    pose proof (canon_tree_idem _ _ _ NC Hsl E) as E1.
    rewrite (canon_dec _ _ E1). reflexivity. }
  rewrite (canon_pre_format o _ _ P C2 (dec_wf_layout _ _ Wl)), (dec_idem_tree t1 Wt). reflexivity.
Qed.

(* --canonicalize-roles (or nothing) plus any formatting: the second pass
   reproduces the first byte for byte *)
Theorem canon_idempotent : forall o s out code, plain_rest o = true ->
  (o_canonicalize_roles o = true ->
   norm_closed_b (o_model o) = true /\ has_exact (o_model o) (SLASHS ++ OF) = false) ->
  Forall (fun t => exists t1, canon_of o t = Some t1 /\ wf_tree t1 = true /\
                              wf_layout_tree (o_model o) t1 = true) (fst (iterparse_str s)) ->
  run o [] s = Ok (out, code) -> run o [] out = Ok (out, code).
Proof.
  intros o s out code P HM F R.
  destruct (plain_rest_fields o P) as [_ [_ [_ [_ [_ [_ [_ [Tr Ck]]]]]]]].
  assert (NoErr : forall l, existsb (graph_has_errors o) l = false).
  { induction l as [|t l IH]; [reflexivity|]. simpl. rewrite IH. unfold graph_has_errors. rewrite Ck. reflexivity. }
  assert (Ec : code = false).
  { unfold run in R. apply run_parsed_ok_iff in R. destruct R as [_ [_ [texts [_ [_ Ec]]]]].
    rewrite Ec. apply NoErr. }
  assert (X : exists ts', Forall2 (fun t t' => pre_format o t = Ok t') (fst (iterparse_str s)) ts' /\
                          Forall (fun t' => wf_tree t' = true) ts' /\
                          (forall t', In t' ts' -> pipeline o t' = Ok (format (o_indent o) (o_compact o) t'))).
  { induction F as [|t l [t1 [Cn [Wt Wl]]] F IH].
    - exists []. split; [constructor|]. split; [constructor|]. intros t' [].
    - destruct IH as [ts' [A [B C]]].
      destruct (canon_tree_fixed o t t1 P HM Cn Wt Wl) as [Q1 [Q2 Q3]].
      exists (drop_empty_concepts t1 :: ts'). split; [constructor; assumption|].
      split; [constructor; assumption|]. intros t' [E|I]; [subst t'; exact Q3 | apply C; exact I]. }
  destruct X as [ts' [A [B C]]].
  destruct (idempotence_reduces_to_trees o s out code ts' Tr R A B C) as [code' R'].
  assert (Ec' : code' = false).
  { unfold run in R'. apply run_parsed_ok_iff in R'. destruct R' as [_ [_ [texts [_ [_ Ec']]]]].
    rewrite Ec'. apply NoErr. }
  rewrite Ec. rewrite <- Ec'. exact R'.
Qed.

(* ------------------------------------------------------------------ *)
(** * The pinned tables and non-vacuity *)
From PM Require Import Gen.Pins.

Theorem key_tables_are_pinned :
  pin_rearrange_keys = REARRANGE_KEYS /\ pin_reconfigure_keys = RECONFIGURE_KEYS.
Proof. split; reflexivity. Qed.

(* two FILE arguments, --check --rearrange attributes-first,alphanumeric
   --make-variables x{i}, default model: the text and the status are what the
   tool of /repo prints (recorded from a real run) *)
Definition ex_opts : cli_opts :=
  mkOpts default_model false false false false false None
         (Some [UAttributesFirst; UAlphanumeric]) (Some [Lit [120%N]; Idx]) (Some (-1)%Z) false false true [].
Definition ex_file1 : str := [40;99;32;47;32;99;104;97;115;101;45;48;49;32;58;65;82;71;49;32;40;109;32;47;32;109;111;117;115;101;41;32;58;112;111;108;97;114;105;116;121;32;45;32;58;65;82;71;48;32;40;99;50;32;47;32;99;97;116;41;41;10]%N.
Definition ex_file2 : str := [35;32;58;58;105;100;32;50;10;40;97;32;47;32;97;108;112;104;97;10;32;32;32;58;111;112;50;32;55;32;58;111;112;49;48;32;40;98;32;47;32;98;101;116;97;41;41]%N.
Definition ex_out : str := [35;32;58;58;101;114;114;111;114;45;49;32;40;99;32;58;65;82;71;49;32;109;41;32;105;110;118;97;108;105;100;32;114;111;108;101;10;35;32;58;58;101;114;114;111;114;45;50;32;40;99;32;58;112;111;108;97;114;105;116;121;32;45;41;32;105;110;118;97;108;105;100;32;114;111;108;101;10;35;32;58;58;101;114;114;111;114;45;51;32;40;99;32;58;65;82;71;48;32;99;50;41;32;105;110;118;97;108;105;100;32;114;111;108;101;10;40;120;48;32;47;32;99;104;97;115;101;45;48;49;10;32;32;32;32;58;112;111;108;97;114;105;116;121;32;45;10;32;32;32;32;58;65;82;71;48;32;40;120;49;32;47;32;99;97;116;41;10;32;32;32;32;58;65;82;71;49;32;40;120;50;32;47;32;109;111;117;115;101;41;41;10;10;35;32;58;58;105;100;32;50;10;35;32;58;58;101;114;114;111;114;45;49;32;40;97;32;58;111;112;50;32;55;41;32;105;110;118;97;108;105;100;32;114;111;108;101;10;35;32;58;58;101;114;114;111;114;45;50;32;40;97;32;58;111;112;49;48;32;98;41;32;105;110;118;97;108;105;100;32;114;111;108;101;10;40;120;48;32;47;32;97;108;112;104;97;10;32;32;32;32;58;111;112;50;32;55;10;32;32;32;32;58;111;112;49;48;32;40;120;49;32;47;32;98;101;116;97;41;41;10]%N.

Example run_nonvacuous :
  run ex_opts [ex_file1; ex_file2] [] = Ok (ex_out, true) /\
  opts_ok ex_opts = true /\
  length (flat_map fst (map iterparse_str [ex_file1; ex_file2])) = 2 /\
  (* the same two graphs in ONE file give the same bytes and status (F18) ... *)
  run ex_opts [ex_file1 ++ ex_file2] [] = Ok (ex_out, true) /\
  (* ... and a key the option does not accept makes the run fail *)
  ok_of (run (mkOpts default_model false false false false false (Some [UAlphanumeric]) None None
                     (Some (-1)%Z) false false false []) [ex_file1] []) = None.
Proof. repeat split; vm_compute; reflexivity. Qed.

(* formatting: a tree whose pipeline reifies an attribute, rearranges and
   relabels; the formatted tree is well formed *)
Example formatting_nonvacuous :
  let o := mkOpts default_model true false false true false None (Some [UCanonical]) (Some [Prefix; Jdx])
                  (Some (-1)%Z) false false false [] in
  match fst (iterparse_str ex_file1) with
  | [t] => exists t', pre_format o t = Ok t' /\ wf_tree t' = true /\
                      length (tokens_of t') = 23 /\
                      format None true t' <> format (Some 3%Z) false t'
  | _ => False
  end.
Proof. vm_compute. eexists. split; [reflexivity|]. split; [reflexivity|]. split; [reflexivity|]. discriminate. Qed.

(* plain options (--indent 3 --compact), a stream of two graphs with an inverted
   edge, an attribute, metadata and a re-entrancy: hypotheses and conclusion of
   plain_idempotent computed; the text is what the tool of /repo prints *)
Definition ex_plain : cli_opts :=
  mkOpts default_model false false false false false None None None (Some 3%Z) true false false [].
Definition ex_stream : str := [40;97;32;47;32;97;108;112;104;97;32;58;65;82;71;48;45;111;102;32;40;98;32;47;32;98;101;116;97;41;32;58;109;111;100;32;55;41;10;10;35;32;58;58;115;110;116;32;120;32;121;10;40;99;32;47;32;103;97;109;109;97;32;58;111;112;49;32;99;41;10]%N.
Definition ex_stream_out : str := [40;97;32;47;32;97;108;112;104;97;10;32;32;32;58;65;82;71;48;45;111;102;32;40;98;32;47;32;98;101;116;97;41;10;32;32;32;58;109;111;100;32;55;41;10;10;35;32;58;58;115;110;116;32;120;32;121;10;40;99;32;47;32;103;97;109;109;97;10;32;32;32;58;111;112;49;32;99;41;10]%N.

Example plain_nonvacuous :
  plain ex_plain = true /\
  forallb (fun t => wf_tree t && wf_layout_tree (o_model ex_plain) t) (fst (iterparse_str ex_stream)) = true /\
  length (fst (iterparse_str ex_stream)) = 2 /\
  run ex_plain [] ex_stream = Ok (ex_stream_out, false) /\
  run ex_plain [] ex_stream_out = Ok (ex_stream_out, false) /\
  ex_stream <> ex_stream_out.
Proof. repeat split; try (vm_compute; reflexivity). vm_compute. discriminate. Qed.

(* --canonicalize-roles --indent no under the default model: over-inverted roles
   are resolved on the first pass; hypotheses and conclusion of canon_idempotent
   computed; the text is what the tool of /repo prints *)
Definition ex_canon : cli_opts :=
  mkOpts default_model true false false false false None None None None false false false [].
Definition ex_canon_in : str := [35;32;58;58;105;100;32;49;10;40;98;32;47;32;98;97;114;107;45;48;49;32;58;65;82;71;48;45;111;102;45;111;102;45;111;102;45;111;102;32;40;100;32;47;32;100;111;103;41;32;58;109;111;100;45;111;102;45;111;102;32;55;41;10;40;99;32;47;32;99;97;116;32;58;65;82;71;49;45;111;102;32;98;41]%N.
Definition ex_canon_out : str := [35;32;58;58;105;100;32;49;10;40;98;32;47;32;98;97;114;107;45;48;49;32;58;65;82;71;48;32;40;100;32;47;32;100;111;103;41;32;58;109;111;100;32;55;41;10;10;40;99;32;47;32;99;97;116;32;58;65;82;71;49;45;111;102;32;98;41;10]%N.

Example canon_nonvacuous :
  plain_rest ex_canon = true /\ o_canonicalize_roles ex_canon = true /\
  norm_closed_b (o_model ex_canon) = true /\ has_exact (o_model ex_canon) (SLASHS ++ OF) = false /\
  forallb (fun t => match canon_of ex_canon t with
                    | Some t1 => wf_tree t1 && wf_layout_tree (o_model ex_canon) t1
                    | None => false
                    end) (fst (iterparse_str ex_canon_in)) = true /\
  length (fst (iterparse_str ex_canon_in)) = 2 /\
  run ex_canon [] ex_canon_in = Ok (ex_canon_out, false) /\
  run ex_canon [] ex_canon_out = Ok (ex_canon_out, false) /\
  ok_of (run ex_plain [] ex_canon_in) <> Some (ex_canon_out, false).
Proof. repeat split; try (vm_compute; reflexivity). vm_compute. discriminate. Qed.
