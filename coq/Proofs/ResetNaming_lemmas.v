(** Lemmas for C10b: the NAMING RULE of Tree.reset_variables.

    The specification [spec_names] is written without the loop of the model (no fuel,
    no candidate variable, no used-list threading through nodes that are skipped):

      - [first_defs]: the nodes of Tree.nodes() (depth first) that define a variable for
        the first time;
      - the name of each of them is [render ps pre i] with [pre] the default prefix of
        that node's concept and [i] the LEAST index whose rendering is not among the
        names given to the earlier variables; the least index is found by a bounded
        search over 0 .. (number of earlier names), which is enough because a format
        with an index renders different indices differently (render_injective). *)
From PM Require Import Impl.ResetVars Impl.Interpret Proofs.Model_lemmas Proofs.Errors_lemmas
  Proofs.ResetVars_lemmas.
From Coq Require Import Lia Arith.

Section Naming.
  Variable is_alpha : N -> bool.
  Variable lower : N -> str.

  (* the default prefix of a node: from its concept (first branch whose role is the slash) *)
  Definition node_prefix (n : node) : str :=
    default_variable_prefix is_alpha lower (concept_of (node_branches n)).

  (* the nodes that define a variable not seen before, in the order of [ns] *)
  Fixpoint first_defs (ns : list node) (seen : list atom) : list node :=
    match ns with
    | [] => []
    | n :: ns' =>
        if mem atom_eqb (node_var n) seen then first_defs ns' seen
        else n :: first_defs ns' (node_var n :: seen)
    end.

  (* least index from [i] on whose rendering is not in [earlier]; at most [bound] steps *)
  Fixpoint least_free (ps : list piece) (pre : str) (earlier : list str) (i : N) (bound : nat) : N :=
    match bound with
    | O => i
    | S b => if mem str_eqb (render ps pre i) earlier then least_free ps pre earlier (i + 1) b else i
    end.

  Definition spec_name (ps : list piece) (pre : str) (earlier : list str) : str :=
    render ps pre (least_free ps pre earlier 0 (length earlier)).

  (* names of [defs] in order, given the names [earlier] already handed out *)
  Fixpoint spec_names_from (ps : list piece) (defs : list node) (earlier : list str) : list str :=
    match defs with
    | [] => []
    | n :: defs' =>
        let v := spec_name ps (node_prefix n) earlier in
        v :: spec_names_from ps defs' (earlier ++ [v])
    end.

  Definition spec_defs (t : tree) : list node := first_defs (nodes_of (troot t)) [].
  Definition spec_name_list (ps : list piece) (t : tree) : list str :=
    spec_names_from ps (spec_defs t) [].
  (* the old -> new map, in insertion order *)
  Definition spec_names (ps : list piece) (t : tree) : dict atom str :=
    combine (map node_var (spec_defs t)) (spec_name_list ps t).

  (* ------------------------------------------------------------------ *)
  (** * The bounded search finds the least free index *)

  Lemma least_free_spec : forall ps pre earlier, uses_index ps = true ->
    forall b i,
      (forall j, (j < i)%N -> mem str_eqb (render ps pre j) earlier = true) ->
      length earlier <= N.to_nat i + b ->
      let r := least_free ps pre earlier i b in
      mem str_eqb (render ps pre r) earlier = false /\
      (forall j, (j < r)%N -> mem str_eqb (render ps pre j) earlier = true) /\ (i <= r)%N.
  Proof.
    intros ps pre earlier U. induction b as [|b IH]; intros i Hbelow Hlen; simpl.
    - repeat split; [|exact Hbelow|lia].
      destruct (mem str_eqb (render ps pre i) earlier) eqn:M; [|reflexivity]. exfalso.
      assert (Hall : forall k, k < S (N.to_nat i) -> mem str_eqb (cand ps pre k) earlier = true).
      { intros k Hk. unfold cand. destruct (Nat.eq_dec k (N.to_nat i)) as [->|NE].
        - rewrite N2Nat.id. exact M.
        - apply Hbelow. lia. }
      pose proof (all_bound ps pre earlier U _ Hall). lia.
    - destruct (mem str_eqb (render ps pre i) earlier) eqn:M.
      + destruct (IH (i + 1)%N) as (R1 & R2 & R3).
        * intros j Hj. destruct (N.eq_dec j i) as [->|NE]; [exact M|apply Hbelow; lia].
        * lia.
        * repeat split; [exact R1|exact R2|lia].
      + repeat split; [exact M|exact Hbelow|lia].
  Qed.

  Lemma spec_name_least : forall ps pre earlier, uses_index ps = true ->
    exists i, spec_name ps pre earlier = render ps pre i /\
      ~ In (render ps pre i) earlier /\
      (forall j, (j < i)%N -> In (render ps pre j) earlier).
  Proof.
    intros ps pre earlier U.
    destruct (least_free_spec ps pre earlier U (length earlier) 0%N) as (R1 & R2 & _).
    { intros j Hj. lia. } { lia. }
    exists (least_free ps pre earlier 0 (length earlier)). split; [reflexivity|]. split.
    - intro I. apply mem_str_in in I. congruence.
    - intros j Hj. apply mem_str_in. apply R2. exact Hj.
  Qed.

  (* the search only looks at membership and at the number of earlier names *)
  Lemma least_free_ext : forall ps pre e1 e2,
    (forall v, mem str_eqb v e1 = mem str_eqb v e2) ->
    forall b i, least_free ps pre e1 i b = least_free ps pre e2 i b.
  Proof.
    intros ps pre e1 e2 H. induction b as [|b IH]; intro i; simpl; [reflexivity|].
    rewrite H. destruct (mem str_eqb (render ps pre i) e2); [apply IH|reflexivity].
  Qed.

  (* ------------------------------------------------------------------ *)
  (** * The loop of the model computes the least free index *)

  Lemma pick_loop_search : forall ps pre used, uses_index ps = true ->
    forall b f i, b <= f ->
      mem str_eqb (render ps pre (least_free ps pre used i b)) used = false ->
      pick_loop f ps pre used (Some (render ps pre i)) (i + 1) =
        Ok (render ps pre (least_free ps pre used i b)).
  Proof.
    intros ps pre used U. induction b as [|b IH]; intros f i Hf Hfree.
    - simpl in *. destruct f; simpl; rewrite Hfree; reflexivity.
    - simpl in Hfree |- *. destruct (mem str_eqb (render ps pre i) used) eqn:M.
      + destruct f as [|f]; [lia|]. simpl. rewrite M.
        assert (NE : str_eqb (render ps pre (i + 1)) (render ps pre i) = false).
        { apply str_eqb_neq. intro E. apply render_injective in E; [lia|exact U]. }
        rewrite NE. apply IH; [lia|exact Hfree].
      + destruct f; simpl; rewrite M; reflexivity.
  Qed.

  Lemma pick_loop_least : forall ps pre used fuel, uses_index ps = true -> length used < fuel ->
    pick_loop fuel ps pre used None 0 = Ok (spec_name ps pre used).
  Proof.
    intros ps pre used fuel U Hf. destruct fuel as [|f]; [lia|].
    destruct (least_free_spec ps pre used U (length used) 0%N) as (R1 & _ & _).
    { intros j Hj. lia. } { lia. }
    simpl. change (0 + 1)%N with 1%N.
    exact (pick_loop_search ps pre used U (length used) f 0%N ltac:(lia) R1).
  Qed.

  (* ------------------------------------------------------------------ *)
  (** * The first pass builds exactly [spec_names] *)

  Lemma mem_snoc : forall v (l : list str) x, mem str_eqb v (l ++ [x]) = mem str_eqb v l || str_eqb v x.
  Proof. intros. unfold mem. rewrite existsb_app. simpl. rewrite orb_false_r. reflexivity. Qed.

  Lemma build_map_spec : forall ps fuel, uses_index ps = true ->
    forall ns varmap used earlier seen,
      (forall k, dmem atom_eqb k varmap = mem atom_eqb k seen) ->
      (forall v, mem str_eqb v used = mem str_eqb v earlier) ->
      length used = length earlier -> length used = length varmap ->
      length used + length ns < fuel ->
      build_map is_alpha lower fuel ps ns varmap used =
        Ok (varmap ++ combine (map node_var (first_defs ns seen))
                              (spec_names_from ps (first_defs ns seen) earlier)).
  Proof.
    intros ps fuel U. induction ns as [|n ns IH]; intros varmap used earlier seen HK HM HL HV HF.
    - simpl. rewrite app_nil_r. reflexivity.
    - rewrite build_map_cons. cbn [first_defs]. rewrite HK.
      destruct (mem atom_eqb (node_var n) seen) eqn:MS.
      + apply IH; auto. simpl in HF. lia.
      + fold (node_prefix n).
        rewrite (pick_loop_least ps (node_prefix n) used fuel U) by (simpl in HF; lia).
        cbn [bind].
        assert (SN : spec_name ps (node_prefix n) used = spec_name ps (node_prefix n) earlier).
        { unfold spec_name. rewrite HL. f_equal. apply least_free_ext. exact HM. }
        rewrite SN. set (v := spec_name ps (node_prefix n) earlier).
        assert (DM : dmem atom_eqb (node_var n) varmap = false) by (rewrite HK; exact MS).
        rewrite (IH _ _ (earlier ++ [v]) (node_var n :: seen)).
        * rewrite (dset_new _ _ _ DM). cbn [map spec_names_from combine]. fold v.
          rewrite <- app_assoc. reflexivity.
        * intros k. unfold dmem. cbn [mem existsb].
          destruct (atom_eqb k (node_var n)) eqn:E.
          -- rewrite (dget_dset_same atom_eqb atom_equiv) by exact E. reflexivity.
          -- rewrite (dget_dset_other atom_eqb atom_equiv) by exact E. apply (HK k).
        * intros w. rewrite mem_snoc. cbn [mem existsb]. rewrite <- (HM w).
          fold (mem str_eqb w used). apply orb_comm.
        * rewrite app_length. simpl. lia.
        * rewrite (dset_new _ _ _ DM), app_length. simpl. lia.
        * simpl in HF |- *. lia.
  Qed.

  Theorem reset_map_spec : forall ps t, uses_index ps = true ->
    reset_map is_alpha lower ps t = Ok (spec_names ps t).
  Proof.
    intros ps t U. unfold reset_map, spec_names, spec_name_list, spec_defs.
    rewrite (build_map_spec ps (reset_fuel t) U (nodes_of (troot t)) [] [] [] []); auto;
      try (unfold reset_fuel; simpl; lia).
  Qed.

  Theorem reset_variables_spec : forall ps t,
    uses_index ps = true -> all_vars (troot t) = true ->
    reset_variables is_alpha lower ps t =
      Ok (mkTree (rename_node (spec_names ps t) (troot t)) (tmeta t)).
  Proof.
    intros ps t U AV.
    destruct (reset_terminates is_alpha lower ps t U AV) as [t' H].
    destruct (reset_consistent is_alpha lower ps t t' H) as (s & B & E & M).
    rewrite (reset_map_spec ps t U) in B. inversion B; subst s.
    rewrite H. destruct t' as [r' m']. simpl in E, M. subst. reflexivity.
  Qed.

  (* ------------------------------------------------------------------ *)
  (** * What [spec_names] says, declaratively *)

  (* position by position: the k-th new name is render (prefix of the k-th first
     definition) i, i least such that this rendering is not among the k earlier names *)
  Lemma spec_names_from_nth : forall ps, uses_index ps = true ->
    forall defs earlier k n, nth_error defs k = Some n ->
    exists i, nth_error (spec_names_from ps defs earlier) k = Some (render ps (node_prefix n) i) /\
      ~ In (render ps (node_prefix n) i) (earlier ++ firstn k (spec_names_from ps defs earlier)) /\
      (forall j, (j < i)%N ->
         In (render ps (node_prefix n) j) (earlier ++ firstn k (spec_names_from ps defs earlier))).
  Proof.
    intros ps U. induction defs as [|d defs IH]; intros earlier k n H.
    - destruct k; discriminate.
    - destruct k as [|k]; simpl in H.
      + inversion H; subst d.
        destruct (spec_name_least ps (node_prefix n) earlier U) as (i & E & NI & LT).
        exists i. cbn [spec_names_from nth_error firstn]. rewrite app_nil_r. rewrite E. auto.
      + destruct (IH (earlier ++ [spec_name ps (node_prefix d) earlier]) k n H) as (i & E & NI & LT).
        exists i. cbn [spec_names_from nth_error firstn]. rewrite <- app_assoc in NI, LT. auto.
  Qed.

  Theorem naming_rule_least : forall ps t k n, uses_index ps = true ->
    nth_error (spec_defs t) k = Some n ->
    exists i, nth_error (spec_name_list ps t) k = Some (render ps (node_prefix n) i) /\
      ~ In (render ps (node_prefix n) i) (firstn k (spec_name_list ps t)) /\
      (forall j, (j < i)%N -> In (render ps (node_prefix n) j) (firstn k (spec_name_list ps t))).
  Proof.
    intros ps t k n U H. exact (spec_names_from_nth ps U (spec_defs t) [] k n H).
  Qed.

  Lemma spec_names_from_length : forall ps defs earlier,
    length (spec_names_from ps defs earlier) = length defs.
  Proof. intros ps. induction defs as [|d defs IH]; intro earlier; simpl; [reflexivity|]. rewrite IH. reflexivity. Qed.

  (* the k-th first definition: its variable is not seen before, and looking its variable
     up in the map gives the k-th name *)
  Lemma first_defs_get : forall ns seen (names : list str) k n,
    nth_error (first_defs ns seen) k = Some n ->
    mem atom_eqb (node_var n) seen = false /\
    dget atom_eqb (node_var n) (combine (map node_var (first_defs ns seen)) names) = nth_error names k.
  Proof.
    induction ns as [|n0 ns IH]; intros seen names k n H; simpl in H.
    - destruct k; discriminate.
    - cbn [first_defs]. destruct (mem atom_eqb (node_var n0) seen) eqn:MS.
      + apply IH. exact H.
      + destruct k as [|k]; simpl in H.
        * inversion H; subst n0. split; [exact MS|].
          destruct names as [|a names]; simpl; [reflexivity|]. rewrite atom_eqb_refl. reflexivity.
        * destruct names as [|a names].
          { destruct (IH (node_var n0 :: seen) [] k n H) as [M _]. cbn [mem existsb] in M.
            apply orb_false_iff in M. split; [apply M|]. simpl. destruct k; reflexivity. }
          destruct (IH (node_var n0 :: seen) names k n H) as [M G]. cbn [mem existsb] in M.
          apply orb_false_iff in M. destruct M as [M1 M2]. split; [exact M2|].
          cbn [map combine dget nth_error]. rewrite M1. exact G.
  Qed.

  Theorem spec_names_get : forall ps t k n, nth_error (spec_defs t) k = Some n ->
    dget atom_eqb (node_var n) (spec_names ps t) = nth_error (spec_name_list ps t) k.
  Proof.
    intros ps t k n H. unfold spec_names. apply (first_defs_get _ [] _ k n H).
  Qed.

  (* every node of the tree is renamed like the first definition of its variable *)
  Lemma first_defs_cover : forall ns seen m, In m ns ->
    mem atom_eqb (node_var m) seen = true \/
    exists k n, nth_error (first_defs ns seen) k = Some n /\ atom_eqb (node_var m) (node_var n) = true.
  Proof.
    induction ns as [|n0 ns IH]; intros seen m I; [destruct I|].
    cbn [first_defs]. destruct I as [->|I].
    - destruct (mem atom_eqb (node_var m) seen) eqn:MS; [left; reflexivity|].
      right. exists 0, m. split; [reflexivity|apply atom_eqb_refl].
    - destruct (mem atom_eqb (node_var n0) seen) eqn:MS.
      + apply IH. exact I.
      + destruct (IH (node_var n0 :: seen) m I) as [M|(k & n & H & E)].
        * cbn [mem existsb] in M. apply orb_true_iff in M. destruct M as [M|M]; [|left; exact M].
          right. exists 0, n0. split; [reflexivity|exact M].
        * right. exists (S k), n. split; [exact H|exact E].
  Qed.

  (* [first_defs] picks the FIRST node carrying each variable *)
  Lemma first_defs_first : forall ns seen k n, nth_error (first_defs ns seen) k = Some n ->
    exists pre post, ns = pre ++ n :: post /\
      forall m, In m pre -> atom_eqb (node_var n) (node_var m) = false.
  Proof.
    induction ns as [|n0 ns IH]; intros seen k n H; simpl in H.
    - destruct k; discriminate.
    - destruct (mem atom_eqb (node_var n0) seen) eqn:MS.
      + destruct (IH seen k n H) as (pre & post & E & F).
        exists (n0 :: pre), post. split; [rewrite E; reflexivity|].
        intros m [->|I]; [|apply F; exact I].
        destruct (first_defs_get ns seen [] k n H) as [M _].
        destruct (atom_eqb (node_var n) (node_var m)) eqn:E2; [|reflexivity].
        rewrite (mem_congr atom_eqb atom_equiv seen _ _ E2) in M. congruence.
      + destruct k as [|k]; simpl in H.
        * inversion H; subst n0. exists [], ns. split; [reflexivity|intros m []].
        * destruct (IH (node_var n0 :: seen) k n H) as (pre & post & E & F).
          exists (n0 :: pre), post. split; [rewrite E; reflexivity|].
          intros m [->|I]; [|apply F; exact I].
          destruct (first_defs_get ns (node_var m :: seen) [] k n H) as [M _].
          cbn [mem existsb] in M. apply orb_false_iff in M. apply M.
  Qed.

  (* the variables of the first definitions are the distinct variables of Tree.nodes()
     in order of first occurrence *)
  Lemma first_defs_dedup : forall ns acc,
    dedup_acc atom_eqb (map node_var ns) acc = rev acc ++ map node_var (first_defs ns acc).
  Proof.
    induction ns as [|n ns IH]; intro acc; simpl.
    - rewrite app_nil_r. reflexivity.
    - destruct (mem atom_eqb (node_var n) acc); [apply IH|].
      rewrite IH. simpl. rewrite <- app_assoc. reflexivity.
  Qed.

  Theorem spec_defs_vars : forall t,
    map node_var (spec_defs t) = dedup atom_eqb (tree_vars (troot t)).
  Proof. intro t. unfold spec_defs, dedup, tree_vars. rewrite first_defs_dedup. reflexivity. Qed.

  (* ------------------------------------------------------------------ *)
  (** * Counting: when the format keeps prefixes apart *)

  (* [good] is a class of prefixes that the format never confuses *)
  Definition separates (ps : list piece) (good : str -> Prop) : Prop :=
    forall p p' i j, good p -> good p' -> render ps p i = render ps p' j -> p = p'.

  Definition count_prefix (p : str) (defs : list node) : nat :=
    length (filter (fun n => str_eqb (node_prefix n) p) defs).

  Lemma count_prefix_snoc : forall p defs n,
    count_prefix p (defs ++ [n]) = count_prefix p defs + (if str_eqb (node_prefix n) p then 1 else 0).
  Proof.
    intros. unfold count_prefix. rewrite filter_app, app_length. simpl.
    destruct (str_eqb (node_prefix n) p); reflexivity.
  Qed.

  (* names of [defs] by counting earlier definitions with the same prefix *)
  Fixpoint count_names_from (ps : list piece) (defs edefs : list node) : list str :=
    match defs with
    | [] => []
    | n :: defs' =>
        render ps (node_prefix n) (N.of_nat (count_prefix (node_prefix n) edefs))
          :: count_names_from ps defs' (edefs ++ [n])
    end.

  Lemma spec_is_count : forall ps good, uses_index ps = true -> separates ps good ->
    forall defs edefs earlier,
      (forall n, In n defs -> good (node_prefix n)) ->
      (forall p j, good p -> (In (render ps p j) earlier <-> N.to_nat j < count_prefix p edefs)) ->
      spec_names_from ps defs earlier = count_names_from ps defs edefs.
  Proof.
    intros ps good U SEP. induction defs as [|n defs IH]; intros edefs earlier HG HE; [reflexivity|].
    cbn [spec_names_from count_names_from].
    set (p := node_prefix n). assert (Gp : good p) by (apply HG; left; reflexivity).
    destruct (spec_name_least ps p earlier U) as (i & E & NI & LT).
    assert (Ei : i = N.of_nat (count_prefix p edefs)).
    { set (c := count_prefix p edefs).
      destruct (N.lt_trichotomy i (N.of_nat c)) as [L|[L|L]]; [|exact L|]; exfalso.
      - apply NI. apply (HE p i Gp). lia.
      - specialize (LT (N.of_nat c) L). apply (HE p _ Gp) in LT. fold c in LT. lia. }
    rewrite E, Ei. f_equal. apply IH.
    - intros m I. apply HG. right. exact I.
    - intros q j Gq. rewrite in_app_iff, count_prefix_snoc. fold p. rewrite (HE q j Gq). simpl.
      destruct (str_eqb p q) eqn:EQ.
      + apply str_eqb_eq in EQ. subst q. split.
        * intros [H|[H|[]]]; [lia|]. apply render_injective in H; [|exact U].
          rewrite <- H. rewrite Nat2N.id. lia.
        * intros H. destruct (Nat.eq_dec (N.to_nat j) (count_prefix p edefs)) as [EQ|NE].
          -- right. left. rewrite <- EQ, N2Nat.id. reflexivity.
          -- left. lia.
      + split.
        * intros [H|[H|[]]]; [lia|]. apply SEP in H; auto. subst q.
          rewrite str_eqb_refl in EQ. discriminate.
        * intros H. left. lia.
  Qed.

  Theorem naming_rule_count : forall ps good t, uses_index ps = true -> separates ps good ->
    (forall n, In n (spec_defs t) -> good (node_prefix n)) ->
    spec_name_list ps t = count_names_from ps (spec_defs t) [].
  Proof.
    intros ps good t U SEP HG. unfold spec_name_list.
    apply (spec_is_count ps good U SEP); [exact HG|].
    intros p j _. unfold count_prefix. simpl. split; [intros []|lia].
  Qed.

  Lemma count_names_from_nth : forall ps defs edefs k n, nth_error defs k = Some n ->
    nth_error (count_names_from ps defs edefs) k =
      Some (render ps (node_prefix n) (N.of_nat (count_prefix (node_prefix n) (edefs ++ firstn k defs)))).
  Proof.
    intros ps. induction defs as [|d defs IH]; intros edefs k n H.
    - destruct k; discriminate.
    - destruct k as [|k]; simpl in H.
      + inversion H; subst d. cbn [count_names_from nth_error firstn]. rewrite app_nil_r. reflexivity.
      + cbn [count_names_from nth_error firstn]. rewrite (IH (edefs ++ [d]) k n H).
        rewrite <- app_assoc. reflexivity.
  Qed.

  (* the k-th distinct variable is named render p c, with p its prefix and c the number of
     EARLIER distinct variables whose first definition has the same prefix *)
  Theorem naming_rule_count_nth : forall ps good t k n, uses_index ps = true -> separates ps good ->
    (forall m, In m (spec_defs t) -> good (node_prefix m)) ->
    nth_error (spec_defs t) k = Some n ->
    nth_error (spec_name_list ps t) k =
      Some (render ps (node_prefix n) (N.of_nat (count_prefix (node_prefix n) (firstn k (spec_defs t))))).
  Proof.
    intros ps good t k n U SEP HG H. rewrite (naming_rule_count ps good t U SEP HG).
    rewrite (count_names_from_nth ps _ [] k n H). reflexivity.
  Qed.

  (* the first variable with prefix p gets render ps p 0 *)
  Corollary naming_rule_first_of_prefix : forall ps good t k n, uses_index ps = true ->
    separates ps good -> (forall m, In m (spec_defs t) -> good (node_prefix m)) ->
    nth_error (spec_defs t) k = Some n ->
    (forall m, In m (firstn k (spec_defs t)) -> node_prefix m <> node_prefix n) ->
    nth_error (spec_name_list ps t) k = Some (render ps (node_prefix n) 0).
  Proof.
    intros ps good t k n U SEP HG H HF.
    rewrite (naming_rule_count_nth ps good t k n U SEP HG H).
    assert (Z : count_prefix (node_prefix n) (firstn k (spec_defs t)) = 0).
    { unfold count_prefix. induction (firstn k (spec_defs t)) as [|m l IHl]; [reflexivity|].
      simpl. destruct (str_eqb (node_prefix m) (node_prefix n)) eqn:E.
      - apply str_eqb_eq in E. exfalso. apply (HF m); [left; reflexivity|exact E].
      - apply IHl. intros m' I. apply HF. right. exact I. }
    rewrite Z. reflexivity.
  Qed.
End Naming.

(* ================================================================== *)
(** * The concrete format {prefix}{j}: p, p2, p3, ... *)

Definition digit_free (p : str) : Prop := forall c, In c p -> is_digit c = false.

Lemma nts_fuel_digits : forall f n acc, (forall c, In c acc -> is_digit c = true) ->
  forall c, In c (N_to_str_fuel f n acc) -> is_digit c = true.
Proof.
  induction f as [|f IH]; intros n acc H c I; simpl in I; [apply H; exact I|].
  assert (D : forall c, In c (digit_char (n mod 10) :: acc) -> is_digit c = true).
  { intros d [<-|Id]; [|apply H; exact Id].
    pose proof (N.mod_lt n 10 ltac:(lia)) as ML. unfold digit_char, is_digit.
    set (r := (n mod 10)%N) in *. clearbody r.
    apply andb_true_iff. split; apply N.leb_le; lia. }
  destruct (N.eqb (n / 10) 0); [apply D; exact I|].
  exact (IH _ _ D c I).
Qed.

Lemma N_to_str_digits : forall n c, In c (N_to_str n) -> is_digit c = true.
Proof. intros n c I. unfold N_to_str in I. eapply nts_fuel_digits; [|exact I]. intros d []. Qed.

(* the {j} field: empty for the first candidate, then 2, 3, ... *)
Definition j_text (i : N) : str := if N.eqb i 0 then [] else N_to_str (i + 1).

Lemma render_prefix_j : forall p i, render fmt_prefix_j p i = p ++ j_text i.
Proof. intros. unfold render, fmt_prefix_j, j_text. simpl. rewrite app_nil_r. reflexivity. Qed.

Lemma j_text_digits : forall i c, In c (j_text i) -> is_digit c = true.
Proof.
  intros i c I. unfold j_text in I. destruct (N.eqb i 0); [destruct I|].
  eapply N_to_str_digits; exact I.
Qed.

Lemma digit_split_unique : forall p p' d d',
  digit_free p -> digit_free p' ->
  (forall c, In c d -> is_digit c = true) -> (forall c, In c d' -> is_digit c = true) ->
  p ++ d = p' ++ d' -> p = p'.
Proof.
  induction p as [|a p IH]; intros [|a' p'] d d' F F' D D' E; simpl in E.
  - reflexivity.
  - exfalso. subst d. specialize (D a' (or_introl eq_refl)). specialize (F' a' (or_introl eq_refl)). congruence.
  - exfalso. subst d'. specialize (D' a (or_introl eq_refl)). specialize (F a (or_introl eq_refl)). congruence.
  - inversion E; subst a'. f_equal. apply (IH p' d d'); auto.
    + intros c I. apply F. right. exact I.
    + intros c I. apply F'. right. exact I.
Qed.

Lemma prefix_j_separates : separates fmt_prefix_j digit_free.
Proof.
  intros p p' i j F F' E. rewrite !render_prefix_j in E.
  eapply digit_split_unique; eauto using j_text_digits.
Qed.

Lemma node_prefix_digit_free : forall is_alpha lower,
  (forall c, is_alpha c = true -> digit_free (lower c)) ->
  forall n, digit_free (node_prefix is_alpha lower n).
Proof.
  intros is_alpha lower H n. unfold node_prefix, default_variable_prefix.
  assert (U : digit_free USCORE_S) by (intros c [<-|[]]; reflexivity).
  destruct (concept_of (node_branches n)) as [[[|s|]|]|]; try exact U.
  destruct (first_alpha is_alpha s) as [c|] eqn:FA; [|exact U].
  apply H. clear - FA. induction s as [|d s IH]; simpl in FA; [discriminate|].
  destruct (is_alpha d) eqn:A; [inversion FA; subst; exact A|apply IH; exact FA].
Qed.

(* with the format {prefix}{j} the k-th distinct variable, whose first definition has
   prefix p, is named p when it is the first with that prefix, and p followed by c+1 when
   c >= 1 earlier distinct variables have that prefix: p, p2, p3, ... *)
Theorem prefix_j_names : forall is_alpha lower t k n,
  (forall c, is_alpha c = true -> digit_free (lower c)) ->
  nth_error (spec_defs t) k = Some n ->
  let p := node_prefix is_alpha lower n in
  let c := count_prefix is_alpha lower p (firstn k (spec_defs t)) in
  nth_error (spec_name_list is_alpha lower fmt_prefix_j t) k =
    Some (match c with O => p | S _ => p ++ N_to_str (N.of_nat (S c)) end).
Proof.
  intros is_alpha lower t k n H Hk p c.
  rewrite (naming_rule_count_nth is_alpha lower fmt_prefix_j digit_free t k n eq_refl
             prefix_j_separates
             (fun m _ => node_prefix_digit_free is_alpha lower H m) Hk).
  fold p. fold c. rewrite render_prefix_j. unfold j_text. destruct c as [|c'].
  - simpl. rewrite app_nil_r. reflexivity.
  - replace (N.eqb (N.of_nat (S c')) 0) with false by (symmetry; apply N.eqb_neq; lia).
    replace (N.of_nat (S c') + 1)%N with (N.of_nat (S (S c'))) by lia. reflexivity.
Qed.

(* the Latin-1 instance of str.isalpha / str.lower never yields a digit *)
Lemma latin1_lower_digit_free : forall c, latin1_is_alpha c = true -> digit_free (latin1_lower c).
Proof.
  intros c A d I. unfold latin1_lower in I. unfold latin1_is_alpha, is_ascii_alpha, is_ascii_lower, is_ascii_upper, eqc in A.
  unfold is_digit. apply andb_false_iff.
  repeat (rewrite orb_true_iff in A || rewrite andb_true_iff in A).
  repeat rewrite N.leb_le in A. repeat rewrite N.eqb_eq in A. rewrite !N.leb_gt.
  destruct (is_ascii_upper c || (N.leb 192 c && N.leb c 222 && negb (eqc c 215))) eqn:C;
    destruct I as [<-|[]].
  - unfold is_ascii_upper, eqc in C.
    repeat (rewrite orb_true_iff in C || rewrite andb_true_iff in C).
    repeat rewrite N.leb_le in C. lia.
  - lia.
Qed.

(* ---- non-vacuity: (x / bark :ARG0 (y / boy) :ARG1 (z / ball :mod y)) ---- *)
Definition w_x : str := [120]%N.
Definition w_y : str := [121]%N.
Definition w_z : str := [122]%N.
Definition w_bark : str := [98;97;114;107]%N.
Definition w_boy : str := [98;111;121]%N.
Definition w_ball : str := [98;97;108;108]%N.
Definition w_ARG0 : str := [58;65;82;71;48]%N.
Definition w_ARG1 : str := [58;65;82;71;49]%N.
Definition w_mod : str := [58;109;111;100]%N.
Definition w_b : str := [98]%N.
Definition w_b2 : str := [98;50]%N.
Definition w_b3 : str := [98;51]%N.

Definition tree_bark : tree :=
  mkTree (Node (AStr w_x)
            [(SLASHS, TAtom (AStr w_bark));
             (w_ARG0, TNode (Node (AStr w_y) [(SLASHS, TAtom (AStr w_boy))]));
             (w_ARG1, TNode (Node (AStr w_z) [(SLASHS, TAtom (AStr w_ball)); (w_mod, TAtom (AStr w_y))]))]) [].
(* expected: (b / bark :ARG0 (b2 / boy) :ARG1 (b3 / ball :mod b2)) *)
Definition tree_bark_reset : tree :=
  mkTree (Node (AStr w_b)
            [(SLASHS, TAtom (AStr w_bark));
             (w_ARG0, TNode (Node (AStr w_b2) [(SLASHS, TAtom (AStr w_boy))]));
             (w_ARG1, TNode (Node (AStr w_b3) [(SLASHS, TAtom (AStr w_ball)); (w_mod, TAtom (AStr w_b2))]))]) [].

Lemma example_bark_compute :
  uses_index fmt_prefix_j = true /\ all_vars (troot tree_bark) = true /\
  reset_variables latin1_is_alpha latin1_lower fmt_prefix_j tree_bark = Ok tree_bark_reset /\
  spec_names latin1_is_alpha latin1_lower fmt_prefix_j tree_bark =
    [(AStr w_x, w_b); (AStr w_y, w_b2); (AStr w_z, w_b3)].
Proof. repeat split; vm_compute; reflexivity. Qed.

(* the same through the theorems: the three distinct variables x, y, z all have prefix b,
   so they are named b, b2, b3 in depth-first order, and the tree is renamed by that map *)
Lemma example_bark_by_theorem :
  spec_name_list latin1_is_alpha latin1_lower fmt_prefix_j tree_bark = [w_b; w_b2; w_b3] /\
  reset_variables latin1_is_alpha latin1_lower fmt_prefix_j tree_bark =
    Ok (mkTree (rename_node [(AStr w_x, w_b); (AStr w_y, w_b2); (AStr w_z, w_b3)] (troot tree_bark))
               (tmeta tree_bark)).
Proof.
  assert (L : length (spec_name_list latin1_is_alpha latin1_lower fmt_prefix_j tree_bark) = 3).
  { unfold spec_name_list. rewrite spec_names_from_length. vm_compute. reflexivity. }
  assert (N0 := prefix_j_names latin1_is_alpha latin1_lower tree_bark 0 _ latin1_lower_digit_free eq_refl).
  assert (N1 := prefix_j_names latin1_is_alpha latin1_lower tree_bark 1 _ latin1_lower_digit_free eq_refl).
  assert (N2 := prefix_j_names latin1_is_alpha latin1_lower tree_bark 2 _ latin1_lower_digit_free eq_refl).
  cbv zeta in N0, N1, N2.
  set (names := spec_name_list latin1_is_alpha latin1_lower fmt_prefix_j tree_bark) in *.
  assert (E : names = [w_b; w_b2; w_b3]).
  { destruct names as [|a [|b [|c [|d l]]]]; try discriminate L.
    simpl in N0, N1, N2. inversion N0; inversion N1; inversion N2.
    vm_compute. reflexivity. }
  split; [exact E|].
  rewrite (reset_variables_spec latin1_is_alpha latin1_lower fmt_prefix_j tree_bark eq_refl eq_refl).
  unfold spec_names. fold names. rewrite E. reflexivity.
Qed.

Lemma spec_defs_first : forall t k n, nth_error (spec_defs t) k = Some n ->
  exists pre post, nodes_of (troot t) = pre ++ n :: post /\
    forall m, In m pre -> atom_eqb (node_var n) (node_var m) = false.
Proof. intros t k n. exact (first_defs_first (nodes_of (troot t)) [] k n). Qed.

(* why the counting corollaries need [separates]: with the format {i} the prefixes share
   the names 0, 1, 2, ...:  (x / apple :r (y / boy))  gives 0 and 1, and the first
   variable with prefix b is NOT named render {i} b 0 *)
Definition w_apple : str := [97;112;112;108;101]%N.
Definition tree_apple_boy : tree :=
  mkTree (Node (AStr w_x) [(SLASHS, TAtom (AStr w_apple));
                           (w_R, TNode (Node (AStr w_y) [(SLASHS, TAtom (AStr w_boy))]))]) [].
Lemma count_needs_separation :
  spec_name_list latin1_is_alpha latin1_lower [Idx] tree_apple_boy = [[48]; [49]]%N /\
  map (node_prefix latin1_is_alpha latin1_lower) (spec_defs tree_apple_boy) = [[97]; [98]]%N /\
  render [Idx] [98]%N 0 = [48]%N /\
  reset_map latin1_is_alpha latin1_lower [Idx] tree_apple_boy = Ok [(AStr w_x, [48]%N); (AStr w_y, [49]%N)].
Proof. repeat split; vm_compute; reflexivity. Qed.
