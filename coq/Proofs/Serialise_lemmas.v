(** Serialisation corollaries: C12 (every transformation returns a graph that
    encodes without error and decodes to itself) and C09 (dumps / loads without
    the well-formed-tree side condition), composed from
      Proofs/Transform_lemmas.v  (the four transformations keep node_graph,
                                  connectivity and the top),
      Proofs/EndToEnd_aln.v      (E2E: encode then decode of a well-formed,
                                  connected, lexable graph is the identity up
                                  to graph_eq),
      Proofs/Framing_lemmas.v    (iterparse of a blank-line joined text).

    Two vocabularies meet here.  Spec/WfGraph.v (C11 / C12): boolean
    [node_graph], [connectedP] from the graph's own top.  Spec/GraphEq.v
    (C03 / C06): the record [wf_graph m g], [connected g top].  Both files
    define [wf_graph], [connected] and [reach]; below the GraphEq ones are
    always written qualified. *)
From PM Require Import Spec.WellFormed Spec.WfLayout Spec.GraphEq Impl.Codec Impl.Layout
  Proofs.Configure_content Proofs.Configure_complete Proofs.EndToEnd_lemmas Proofs.Configure_content_aln
  Proofs.EndToEnd_aln Proofs.Framing_lemmas.
From PM Require Import Proofs.Model_lemmas Spec.WfGraph Proofs.Transform_lemmas.
From Coq Require Import Lia.

(* ------------------------------------------------------------------ *)
(** * Bridges between the two vocabularies *)

Lemma is_inst_is_instance : forall t, is_inst t = is_instance t.
Proof. reflexivity. Qed.

Lemma edge_link : forall g t, In t (triples g) -> is_edge g t = true ->
  link g (tsrc t) (ttgt t) /\ link g (ttgt t) (tsrc t).
Proof.
  intros g t I E. apply is_edge_spec in E. destruct E as [E1 E2].
  split; exists t; (split; [exact I|]); (split; [exact E1|]); (split; [exact E2|]);
    [left|right]; split; apply atom_eqb_refl.
Qed.

(* connectivity from the graph's own top, WfGraph -> GraphEq *)
Lemma reachP_reach : forall g tp x, graph_top g = Some tp -> WfGraph.reach g x -> GraphEq.reach g tp x.
Proof.
  intros g tp x GT R. induction R as [t H|a b R IH E|t I E R IH|t I E R IH].
  - rewrite GT in H. inversion H; subst. apply GraphEq.reach_refl. apply atom_eqb_refl.
  - eapply reach_cong_r; eauto.
  - eapply GraphEq.reach_step; [exact IH|]. apply (edge_link g t I E).
  - eapply GraphEq.reach_step; [exact IH|]. apply (edge_link g t I E).
Qed.

Lemma connectedP_connected : forall g tp, graph_top g = Some tp -> connectedP g -> GraphEq.connected g tp.
Proof.
  intros g tp GT C. split; [apply graph_top_is_var; exact GT|].
  intros v V. apply reachP_reach; auto.
Qed.

(* ... and GraphEq -> WfGraph *)
Lemma reach_reachP : forall g tp x, graph_top g = Some tp -> GraphEq.reach g tp x -> WfGraph.reach g x.
Proof.
  intros g tp x GT R. induction R as [b E|b c R IH L].
  - eapply WfGraph.reach_eq; [apply WfGraph.reach_top; exact GT|exact E].
  - destruct L as (t & I & Hi & Vt & [[E1 E2]|[E1 E2]]).
    + assert (Ed : is_edge g t = true) by (apply is_edge_spec; split; assumption).
      eapply WfGraph.reach_eq; [|exact E2]. apply WfGraph.reach_fwd; auto.
      eapply WfGraph.reach_eq; [exact IH|]. rewrite atom_eqb_sym. exact E1.
    + assert (Ed : is_edge g t = true) by (apply is_edge_spec; split; assumption).
      eapply WfGraph.reach_eq; [|exact E1]. apply WfGraph.reach_bwd; auto.
      eapply WfGraph.reach_eq; [exact IH|]. rewrite atom_eqb_sym. exact E2.
Qed.

Lemma connected_connectedP : forall g tp, graph_top g = Some tp -> GraphEq.connected g tp -> connectedP g.
Proof. intros g tp GT [_ C] x V. eapply reach_reachP; eauto. Qed.

Lemma inst_count_instances_of : forall g v, inst_count (triples g) v = length (instances_of g v).
Proof.
  intros g v. unfold inst_count, instances_of. f_equal. apply filter_ext. intros t.
  unfold is_inst, is_instance. apply andb_comm.
Qed.

(* nodup_b by triple_eqb is pairwise distinctness by written form *)
Lemma tkey_eq_iff : forall a b, tkey a = tkey b <-> triple_eqb a b = true.
Proof.
  intros [[s1 r1] t1] [[s2 r2] t2]. unfold tkey, triple_eqb. cbn [tsrc trole ttgt fst snd]. split.
  - intros H. inversion H as [[H1 H2 H3]]. apply akey_eq_iff in H1. apply akey_eq_iff in H3.
    rewrite H1, H3, str_eqb_refl. reflexivity.
  - intros H. apply andb_true_iff in H. destruct H as [H H3]. apply andb_true_iff in H. destruct H as [H1 H2].
    apply akey_eq_iff in H1. apply akey_eq_iff in H3. apply str_eqb_eq in H2. congruence.
Qed.

Lemma nodup_b_NoDup : forall l, nodup_b triple_eqb l = true <-> NoDup (map tkey l).
Proof.
  induction l as [|x l IH]; simpl.
  - split; [constructor|reflexivity].
  - rewrite andb_true_iff, negb_true_iff, IH. split.
    + intros [M N]. constructor; [|exact N]. intros I. apply in_map_iff in I. destruct I as (y & E & Iy).
      assert (T : mem triple_eqb x l = true).
      { unfold mem. apply existsb_exists. exists y. split; [exact Iy|]. apply tkey_eq_iff. auto. }
      congruence.
    + intros N. inversion N as [|? ? NI N']; subst. split; [|exact N'].
      destruct (mem triple_eqb x l) eqn:M; [|reflexivity]. exfalso. apply NI.
      unfold mem in M. apply existsb_exists in M. destruct M as (y & Iy & E).
      apply tkey_eq_iff in E. rewrite E. apply in_map. exact Iy.
Qed.

(* node_graph supplies every clause of GraphEq.wf_graph except: non-empty,
   roles invertible under the model, pairwise distinct *)
Lemma node_graph_wf : forall m g, node_graph g -> triples g <> [] -> roles_invertible m g ->
  NoDup (map tkey (triples g)) -> GraphEq.wf_graph m g.
Proof.
  intros m g NG NE RI ND. apply node_graph_iff in NG. destruct NG as [C V]. constructor; auto.
  - intros v Hv. destruct (V v Hv) as [A _]. apply is_astr_iff in A. destruct A as [s ->]. reflexivity.
  - unfold roles_have_colon. apply Forall_forall. intros t I. apply C. exact I.
  - intros v Hv. destruct (V v Hv) as [_ B]. rewrite <- inst_count_instances_of. exact B.
Qed.

(* conversely, a GraphEq-well-formed graph whose sources are Symbols is a node graph *)
Lemma wf_node_graph_m : forall m g, GraphEq.wf_graph m g -> atoms_lexable g = true -> node_graph g.
Proof.
  intros m g W L. apply node_graph_iff. split.
  - intros t I. pose proof (wf_roles m g W) as R. unfold roles_have_colon in R. rewrite Forall_forall in R. apply R. exact I.
  - intros x V. split.
    + destruct (wf_var_is_source m g x W V) as (t & I & _ & E).
      unfold atoms_lexable in L. rewrite forallb_forall in L. specialize (L t I).
      apply andb_true_iff in L. destruct L as [L _]. apply andb_true_iff in L. destruct L as [L _].
      destruct (tsrc t) as [|s|? ?]; try discriminate. apply atom_eqb_astr in E. subst. reflexivity.
    + rewrite inst_count_instances_of. apply (wf_one_instance m g W). exact V.
Qed.

Lemma wf_graph_top : forall m g, GraphEq.wf_graph m g -> exists tp, graph_top g = Some tp.
Proof.
  intros m g W. pose proof (wf_nonempty m g W) as NE. unfold graph_top.
  destruct (gtop g); [eauto|]. destruct (triples g); [contradiction|eauto].
Qed.

(* ------------------------------------------------------------------ *)
(** * graph_eq against the graph itself instead of its explicit re-topping *)

Lemma variables_retop_own : forall h tp, graph_top h = Some tp ->
  same_atoms (variables (retop h tp)) (variables h).
Proof.
  intros h tp GT a. unfold variables, retop. cbn [triples gtop].
  rewrite !mem_dedup, !mem_app. unfold graph_top in GT. destruct (gtop h) as [t|].
  - inversion GT; subst. reflexivity.
  - destruct (triples h) as [|t l]; [discriminate|]. inversion GT; subst. cbn [map mem existsb].
    destruct (atom_eqb a (tsrc t)); reflexivity.
Qed.

Lemma graph_eq_own_top : forall m x h tp, graph_top h = Some tp ->
  graph_eq m x (retop h tp) -> graph_eq m x h.
Proof.
  intros m x h tp GT (A & B & C). split; [|split].
  - rewrite A, GT. reflexivity.
  - intros a. rewrite (B a). apply variables_retop_own. exact GT.
  - exact C.
Qed.

Lemma graph_top_textual : forall g, atoms_lexable g = true -> graph_top (textual g) = graph_top g.
Proof.
  intros g L. unfold graph_top, textual. cbn [gtop triples]. destruct (gtop g); [reflexivity|].
  destruct (triples g) as [|t l] eqn:T; [reflexivity|]. cbn [map]. unfold strfy_triple. cbn [tsrc fst].
  unfold atoms_lexable in L. rewrite T in L. cbn [forallb] in L.
  apply andb_true_iff in L. destruct L as [L _]. apply andb_true_iff in L. destruct L as [L _].
  apply andb_true_iff in L. destruct L as [L _]. destruct (tsrc t); try discriminate. reflexivity.
Qed.

(* ------------------------------------------------------------------ *)
(** * The generic corollary: a well-formed result serialises *)

Theorem serialises_if_wf : forall m i c g' tp,
  GraphEq.wf_graph m g' -> graph_top g' = Some tp -> GraphEq.connected g' tp ->
  pushes_name_variables g' -> deinverts m = true ->
  atoms_lexable g' = true -> wf_meta (gmeta g') = true -> alns_printable g' = true ->
  exists s g'', encode_top m i c g' None = Ok s /\ decode m s = Ok g'' /\
    graph_eq m g'' (textual g') /\
    (distinct_edges m g' -> alignments_kept m g' g'').
Proof.
  intros m i c g' tp W GT Cn PV Dm L M AP.
  destruct (e2e_c03x_decode_encode m g' None tp i c W GT Cn PV Dm L M AP) as (s & g'' & E & D & Q & A).
  exists s, g''. repeat (split; [assumption|]). split; [|exact A].
  apply (graph_eq_own_top m g'' (textual g') tp); [|exact Q].
  rewrite graph_top_textual; assumption.
Qed.

(* the same with the two vocabularies of C12.v: node_graph and connectedP *)
Theorem serialises_if_node_graph : forall m i c g',
  node_graph g' -> connectedP g' -> triples g' <> [] ->
  roles_invertible m g' -> NoDup (map tkey (triples g')) ->
  pushes_name_variables g' -> deinverts m = true ->
  atoms_lexable g' = true -> wf_meta (gmeta g') = true -> alns_printable g' = true ->
  exists s g'', encode_top m i c g' None = Ok s /\ decode m s = Ok g'' /\
    graph_eq m g'' (textual g') /\
    (distinct_edges m g' -> alignments_kept m g' g'').
Proof.
  intros m i c g' NG CP NE RI ND PV Dm L M AP.
  pose proof (node_graph_wf m g' NG NE RI ND) as W.
  destruct (wf_graph_top m g' W) as [tp GT].
  apply (serialises_if_wf m i c g' tp); auto. apply connectedP_connected; auto.
Qed.

(* ------------------------------------------------------------------ *)
(** * Boolean checkers, to discharge the hypotheses on concrete graphs *)

Definition role_invertible_b (m : model) (r : str) : bool :=
  str_eqb (invert_role m (invert_role m r)) r &&
  Bool.eqb (is_role_inverted m (invert_role m r)) (negb (is_role_inverted m r)) &&
  negb (str_eqb (invert_role m r) INSTANCE).

Lemma role_invertible_b_sound : forall m r, role_invertible_b m r = true -> role_invertible m r.
Proof.
  intros m r H. unfold role_invertible_b in H.
  apply andb_true_iff in H. destruct H as [H H3]. apply andb_true_iff in H. destruct H as [H1 H2].
  split; [apply str_eqb_eq; exact H1|]. split; [apply Bool.eqb_prop; exact H2|].
  apply negb_true_iff. exact H3.
Qed.

Definition roles_invertible_b (m : model) (g : graph) : bool :=
  forallb (fun t => is_instance t || role_invertible_b m (trole t)) (triples g).

Lemma roles_invertible_b_sound : forall m g, roles_invertible_b m g = true -> roles_invertible m g.
Proof.
  intros m g H t I Hi. unfold roles_invertible_b in H. rewrite forallb_forall in H.
  specialize (H t I). rewrite Hi in H. apply role_invertible_b_sound. exact H.
Qed.

Definition pushes_b (g : graph) : bool :=
  forallb (fun kv : triple * list epi =>
             forallb (fun e => match e with Push pv => is_var g pv | _ => true end) (snd kv)) (epidata g).

Lemma pushes_b_sound : forall g, pushes_b g = true -> pushes_name_variables g.
Proof.
  intros g H t es pv I Ip. unfold pushes_b in H. rewrite forallb_forall in H.
  specialize (H _ I). cbn [snd] in H. rewrite forallb_forall in H. exact (H _ Ip).
Qed.

Lemma connectedb_sound : forall g tp, connectedb g tp = true -> GraphEq.connected g tp.
Proof.
  intros g tp H. unfold connectedb in H. apply andb_true_iff in H. destruct H as [V F].
  split; [exact V|]. intros v Hv. rewrite forallb_forall in F.
  destruct (is_var_exists g v Hv) as (u & Iu & E).
  apply (reach_cong_r g tp u v); [|rewrite atom_eqb_sym; exact E].
  apply reach_decided. apply F. exact Iu.
Qed.

(* all hypotheses of the end-to-end theorem, for the graph's own top *)
Definition serialisable_b (m : model) (g : graph) : bool :=
  negb (match triples g with [] => true | _ => false end) &&
  node_graph_b g && roles_invertible_b m g && nodup_b triple_eqb (triples g) &&
  match graph_top g with Some tp => connectedb g tp | None => false end &&
  pushes_b g && atoms_lexable g && wf_meta (gmeta g) && alns_printable g.

Lemma serialisable_b_sound : forall m g, serialisable_b m g = true ->
  GraphEq.wf_graph m g /\ (exists tp, graph_top g = Some tp /\ GraphEq.connected g tp) /\
  pushes_name_variables g /\ atoms_lexable g = true /\ wf_meta (gmeta g) = true /\
  alns_printable g = true.
Proof.
  intros m g H. unfold serialisable_b in H.
  repeat (apply andb_true_iff in H; destruct H as [H ?]).
  split; [|split; [|split; [|split; [|split]]]]; auto.
  - apply node_graph_wf; auto.
    + destruct (triples g); [discriminate|discriminate].
    + apply roles_invertible_b_sound. assumption.
    + apply nodup_b_NoDup. assumption.
  - destruct (graph_top g) as [tp|]; [|discriminate]. exists tp. split; [reflexivity|].
    apply connectedb_sound. assumption.
  - apply pushes_b_sound. assumption.
Qed.

(* ------------------------------------------------------------------ *)
(** * C09: the configured tree of an end-to-end graph is well formed

    [C09_dumps_loads] asks that every configured tree be [wf_tree].  A numeric
    target ([ANum]) is not a [wf_tree] atom, so the condition is discharged for
    the tree with every number replaced by its text ([strfy_tree]), which
    formats to the same string.  The proof is the first half of
    [roundtrip_core_aln] (Proofs/EndToEnd_aln.v). *)

Lemma configured_tree_wf : forall m g tp i c,
  GraphEq.wf_graph m g -> graph_top g = Some tp -> GraphEq.connected g tp ->
  pushes_name_variables g -> deinverts m = true ->
  atoms_lexable g = true -> wf_meta (gmeta g) = true -> alns_printable g = true ->
  exists t0, configure m g None = Ok t0 /\
    format i c t0 = format i c (strfy_tree t0) /\
    WellFormed.wf_tree (strfy_tree t0) = true.
Proof.
  intros m g tp i c Wg GT Conn PV Dm Lg Mg AP.
  assert (RT : requested_top g None = Some tp) by exact GT.
  pose proof (wf_nonempty m g Wg) as NE. pose proof (wf_roles m g Wg) as RC.
  pose proof (wf_invertible m g Wg) as RI.
  pose proof (lexable_strippable g Lg AP) as AS.
  destruct (configure_complete m g None tp RT Conn (wf_named m g Wg) RI RC PV) as [t0 E].
  destruct (configure_structure_aln m g None t0 E NE RC PV)
    as (tp' & st & nm & RT' & Et & Wst & Hroot & Vst & Sst & Own & ios & Fos & Pos).
  assert (Etp : tp' = tp) by (rewrite RT in RT'; inversion RT'; reflexivity).
  rewrite Etp in Hroot. clear Etp RT' tp'.
  set (root := build (S (length st)) st 0) in *.
  set (st0 := erase st).
  set (root0 := build (S (length st)) st0 0).
  set (os := os_of ios).
  pose proof (Fos' m g ios Fos) as F0. fold os in F0.
  pose proof (Pos' st ios Pos) as P0'. fold os in P0'.
  assert (P0 : Permutation (store_triples st0) (concat os)).
  { unfold st0. rewrite store_triples_erase. exact P0'. }
  pose proof (WF_erase _ _ _ Wst) as W0. fold st0 in W0.
  pose proof (eps_store_erase st) as E0. fold st0 in E0.
  pose proof (Vars_erase g st Vst) as V0. fold st0 in V0.
  pose proof (Shape_erase st Sst) as S0. fold st0 in S0.
  assert (Own0 : forall x, In x (triples g) -> is_instance x = true -> owns st0 (tsrc x)).
  { intros x Ix Hi. apply owns_erase. apply Own; assumption. }
  assert (L0 : length st0 = length st) by apply erase_length.
  pose proof (items_strippable m g st ios AS Fos Pos) as HS.
  assert (R0 : root0 = strip_aln_node root).
  { unfold root0, root, st0. symmetry. apply build_strip. exact HS. }
  pose proof (wf_pos _ _ _ Wst) as Lpos.
  assert (Good : good_node m g root0 = true).
  { unfold root0. eapply (build_good m g Wg Lg st0 nm os); try eassumption; rewrite ?L0; lia. }
  assert (TV : tree_vars root = tree_vars root0) by (rewrite R0, strip_tree_vars; reflexivity).
  exists t0. split; [exact E|]. split.
  - subst t0. unfold format, strfy_tree. cbn [troot tmeta]. fold root. rewrite tree_vars_strfy.
    f_equal. f_equal. f_equal. symmetry. apply (format_numok g).
    + rewrite TV. destruct c; [apply (good_vars_ok m); exact Good|]. intros a M. discriminate.
    + rewrite <- numok_strip, <- R0. apply (good_numok m). exact Good.
  - subst t0. unfold WellFormed.wf_tree, strfy_tree. cbn [troot tmeta]. rewrite Mg. cbn [andb]. fold root.
    eapply (build_wf_dec m g); try eassumption; lia.
Qed.

(* one graph: its text is the rendering of a well-formed tree, and that tree
   interprets to a graph with the same content *)
Lemma element_roundtrip : forall m g tp i c,
  GraphEq.wf_graph m g -> graph_top g = Some tp -> GraphEq.connected g tp ->
  pushes_name_variables g -> deinverts m = true ->
  atoms_lexable g = true -> wf_meta (gmeta g) = true -> alns_printable g = true ->
  exists t g', encode m i c g = Ok (format i c t) /\ WellFormed.wf_tree t = true /\
    interpret m t = Ok g' /\ graph_eq m g' (textual g) /\
    (distinct_edges m g -> alignments_kept m g g').
Proof.
  intros m g tp i c Wg GT Conn PV Dm Lg Mg AP.
  destruct (configured_tree_wf m g tp i c Wg GT Conn PV Dm Lg Mg AP) as (t0 & E & F & WT).
  destruct (e2e_c03x_roundtrip m g None tp i c Wg GT Conn PV Dm Lg Mg AP)
    as (s & t & En & P & g' & I & Q & A).
  assert (Es : s = format i c (strfy_tree t0)).
  { unfold encode_top in En. rewrite E in En. cbn [bind] in En. inversion En. exact F. }
  assert (Et : t = strfy_tree t0).
  { rewrite Es, (parse_format_roundtrip (strfy_tree t0) i c WT) in P. inversion P. reflexivity. }
  subst t. exists (strfy_tree t0), g'.
  split; [unfold encode; rewrite En, Es; reflexivity|]. split; [exact WT|]. split; [exact I|].
  split; [|exact A].
  apply (graph_eq_own_top m g' (textual g) tp); [|exact Q].
  rewrite graph_top_textual; assumption.
Qed.

Lemma encode_all_wf_trees : forall (R : graph -> graph -> Prop) m i c gs,
  (forall g, In g gs -> exists t g', encode m i c g = Ok (format i c t) /\ WellFormed.wf_tree t = true /\
                                     interpret m t = Ok g' /\ R g g') ->
  exists ts gs', encode_all m i c gs = Ok (map (format i c) ts) /\
    Forall (fun t => WellFormed.wf_tree t = true) ts /\
    interp_seq m ts = Ok gs' /\ Forall2 R gs gs'.
Proof.
  intros R m i c. induction gs as [|g gs IH]; intros H.
  - exists [], []. repeat split; constructor.
  - destruct (H g (or_introl eq_refl)) as (t & g' & E & W & I & Q).
    destruct IH as (ts & gs' & Es & Ws & Is & Qs); [intros g0 I0; apply H; right; exact I0|].
    exists (t :: ts), (g' :: gs'). split; [|split; [|split]].
    + cbn [encode_all map]. rewrite E. cbn [bind]. rewrite Es. reflexivity.
    + constructor; assumption.
    + cbn [interp_seq]. rewrite I. cbn [bind]. rewrite Is. reflexivity.
    + constructor; assumption.
Qed.

(* the hypotheses of the end-to-end theorem, for the graph's own top *)
Definition e2e_hyps (m : model) (g : graph) : Prop :=
  GraphEq.wf_graph m g /\ (exists tp, graph_top g = Some tp /\ GraphEq.connected g tp) /\
  pushes_name_variables g /\ atoms_lexable g = true /\ wf_meta (gmeta g) = true /\
  alns_printable g = true.

Theorem dumps_loads_unconditional : forall m i c gs, deinverts m = true ->
  (forall g, In g gs -> e2e_hyps m g) ->
  exists text gs', dumps m i c gs = Ok text /\ loads m text = Ok gs' /\
    Forall2 (fun g g' => graph_eq m g' (textual g) /\
                         (distinct_edges m g -> alignments_kept m g g')) gs gs'.
Proof.
  intros m i c gs Dm H.
  destruct (encode_all_wf_trees
              (fun g g' => graph_eq m g' (textual g) /\ (distinct_edges m g -> alignments_kept m g g'))
              m i c gs) as (ts & gs' & E & W & I & Q).
  { intros g Ig. destruct (H g Ig) as (Wg & (tp & GT & Cn) & PV & L & M & AP).
    destruct (element_roundtrip m g tp i c Wg GT Cn PV Dm L M AP) as (t & g' & A1 & A2 & A3 & A4 & A5).
    exists t, g'. auto. }
  exists (join BLANKLINE (map (format i c) ts)), gs'.
  split; [unfold dumps; rewrite E; reflexivity|]. split; [|exact Q].
  unfold loads, iterdecode_str, iterdecode_lines.
  assert (Bs : blank_sep BLANKLINE).
  { exists 10%N, [10%N]. split; [reflexivity|]. split; [right; reflexivity|].
    constructor; [right; reflexivity | constructor]. }
  pose proof (iterparse_concat BLANKLINE i c ts Bs W) as IP.
  unfold iterparse_str in IP. rewrite IP. rewrite collect_interpret_all. exact I.
Qed.

(* the per-element texts are exactly what dumps joined, and loading is decoding
   each of them: the conclusion of [C09_dumps_loads] without its side condition *)
Theorem dumps_loads_decode_all : forall m i c gs, deinverts m = true ->
  (forall g, In g gs -> e2e_hyps m g) ->
  exists ss, encode_all m i c gs = Ok ss /\
    dumps m i c gs = Ok (join BLANKLINE ss) /\
    loads m (join BLANKLINE ss) = decode_all m ss.
Proof.
  intros m i c gs Dm H.
  destruct (encode_all_wf_trees (fun _ _ => True) m i c gs) as (ts & gs' & E & W & I & _).
  { intros g Ig. destruct (H g Ig) as (Wg & (tp & GT & Cn) & PV & L & M & AP).
    destruct (element_roundtrip m g tp i c Wg GT Cn PV Dm L M AP) as (t & g' & A1 & A2 & A3 & _).
    exists t, g'. auto. }
  exists (map (format i c) ts). split; [exact E|].
  split; [unfold dumps; rewrite E; reflexivity|].
  unfold loads, iterdecode_str, iterdecode_lines.
  assert (Bs : blank_sep BLANKLINE).
  { exists 10%N, [10%N]. split; [reflexivity|]. split; [right; reflexivity|].
    constructor; [right; reflexivity | constructor]. }
  pose proof (iterparse_concat BLANKLINE i c ts Bs W) as IP.
  unfold iterparse_str in IP. rewrite IP.
  rewrite collect_interpret_all, decode_all_render by exact W. reflexivity.
Qed.

(* ------------------------------------------------------------------ *)
(** * C12: what each transformation has to keep, and the hypotheses used

    [epidata_printable g]: [epis_printable] for EVERY entry of the epidata
      dict, not only for the entries reached through a triple of the graph
      ([alns_printable]); on a decoded graph the keys are the triples, so the
      two coincide.  It is the form that is an invariant of the loops.
    [nums_plain g]: the text of a numeric target does not start with an
      underscore, so it is none of the generated variables [_], [_2], ...
      (Python never prints a number that way; the model's [ANum] carries an
      arbitrary text).
    [table_reify_ok m]: every row of the reification table has a concept that
      is a constant text, source and target roles that are written roles,
      invertible under the model, and different from each other.
    [table_dereify_ok m]: the role of every row is a written role, invertible.
    [top_role_ok m]: the same for the model's top role, which is not :instance. *)

Definition epidata_printable (g : graph) : bool :=
  forallb (fun kv : triple * list epi => epis_printable (fst kv) (snd kv)) (epidata g).

Definition nums_plain (g : graph) : bool :=
  forallb (fun t => match ttgt t with ANum s _ => negb (startswith s USCORE) | _ => true end) (triples g).

Definition row_reify_ok (m : model) (row : str * str * str * str) : bool :=
  let '(r, c, s, t) := row in
  lex_text c && lex_role s && lex_role t && role_invertible_b m s && role_invertible_b m t &&
  negb (str_eqb s t).
Definition table_reify_ok (m : model) : bool := forallb (row_reify_ok m) (reifs m).

Definition row_dereify_ok (m : model) (row : str * str * str * str) : bool :=
  let '(r, c, s, t) := row in lex_role r && role_invertible_b m r.
Definition table_dereify_ok (m : model) : bool := forallb (row_dereify_ok m) (reifs m).

Definition top_role_ok (m : model) : bool :=
  lex_role (top_role m) && role_invertible_b m (top_role m) && negb (colon_inst (top_role m)).

(* ---- epis_printable does not look at the spelling of numbers in its key ---- *)
Lemma is_astr_congr : forall a b, atom_eqb a b = true -> EndToEnd_aln.is_astr a = EndToEnd_aln.is_astr b.
Proof. intros [|?|? ?] [|?|? ?] H; try discriminate; reflexivity. Qed.

Lemma epis_printable_congr : forall k k' es, triple_eqb k k' = true ->
  epis_printable k es = epis_printable k' es.
Proof.
  intros k k' es H. apply triple_eqb_true in H. destruct H as (H1 & H2 & H3).
  unfold epis_printable, is_instance. rewrite H2, (is_astr_congr _ _ H3). reflexivity.
Qed.

Lemma epis_printable_nil : forall k, epis_printable k [] = true.
Proof. reflexivity. Qed.

Definition entries_ok (P : triple -> list epi -> Prop) (ed : dict triple (list epi)) : Prop :=
  forall k es, In (k, es) ed -> P k es.

Lemma entries_ok_lookup : forall (P : triple -> list epi -> Prop) g x,
  (forall k k' es, triple_eqb k k' = true -> P k es -> P k' es) -> (forall k, P k []) ->
  entries_ok P (epidata g) -> P x (epis_of g x).
Proof.
  intros P g x Pc Pn H. unfold epis_of. destruct (dget triple_eqb x (epidata g)) as [l|] eqn:G; [|apply Pn].
  apply (dget_some_in triple_eqb) in G. destruct G as (k' & I & E).
  apply (Pc k' x); [rewrite triple_eqb_sym; exact E|]. apply H. exact I.
Qed.

Definition printableP (k : triple) (es : list epi) : Prop := epis_printable k es = true.

Lemma printableP_congr : forall k k' es, triple_eqb k k' = true -> printableP k es -> printableP k' es.
Proof. intros k k' es E H. unfold printableP in *. rewrite <- (epis_printable_congr _ _ _ E). exact H. Qed.

Lemma epidata_printable_entries : forall g, epidata_printable g = true <-> entries_ok printableP (epidata g).
Proof.
  intros g. unfold epidata_printable, entries_ok, printableP. rewrite forallb_forall. split.
  - intros H k es I. exact (H (k, es) I).
  - intros H [k es] I. exact (H k es I).
Qed.

Lemma entries_printable_alns : forall g, entries_ok printableP (epidata g) -> alns_printable g = true.
Proof.
  intros g H. unfold alns_printable. apply forallb_forall. intros x _.
  apply (entries_ok_lookup printableP g x printableP_congr epis_printable_nil H).
Qed.

Lemma epidata_printable_alns : forall g, epidata_printable g = true -> alns_printable g = true.
Proof. intros g H. apply entries_printable_alns. apply epidata_printable_entries. exact H. Qed.

(* ---- Push markers, as an entry invariant relative to a target graph ---- *)
Definition pushesP (g' : graph) (k : triple) (es : list epi) : Prop :=
  forall pv, In (Push pv) es -> is_var g' pv = true.

Lemma pushes_entries : forall g, pushes_name_variables g <-> entries_ok (pushesP g) (epidata g).
Proof.
  intros g. unfold pushes_name_variables, entries_ok, pushesP. split.
  - intros H k es I pv Ip. eapply H; eauto.
  - intros H t es pv I Ip. eapply H; eauto.
Qed.

(* ---- generated names are Symbols ---- *)
Lemma digit_is_name : forall c, is_digit c = true -> is_name c = true.
Proof.
  intros c H. unfold is_digit in H. apply andb_true_iff in H. destruct H as [H1 H2].
  apply N.leb_le in H1. apply N.leb_le in H2.
  unfold is_name, isin, existsb, eqc.
  repeat match goal with |- context [N.eqb c ?k] =>
    let E := fresh "E" in destruct (N.eqb c k) eqn:E; [apply N.eqb_eq in E; lia|clear E] end.
  reflexivity.
Qed.

Lemma digits_are_names : forall s, forallb is_digit s = true -> forallb is_name s = true.
Proof.
  induction s as [|c s IH]; intros H; [reflexivity|]. cbn [forallb] in *.
  apply andb_true_iff in H. destruct H as [H1 H2]. rewrite (digit_is_name c H1), (IH H2). reflexivity.
Qed.

Lemma gen_name_symbol : forall v, gen_name v -> wf_symbol v = true.
Proof.
  intros v [->|[k ->]]; [reflexivity|]. unfold fname, USCORE. cbn [app wf_symbol forallb].
  rewrite (digits_are_names _ (N_to_str_digits k)). reflexivity.
Qed.

Lemma gen_name_uscore : forall v, gen_name v -> startswith v USCORE = true.
Proof. intros v [->|[k ->]]; [reflexivity|apply fname_uscore]. Qed.

Lemma lex_role_colon : forall r, lex_role r = true -> has_colon r = true.
Proof.
  intros [|c r] H; [discriminate|]. unfold lex_role in H. apply andb_true_iff in H. destruct H as [H _].
  unfold eqc in H. apply N.eqb_eq in H. subst. unfold has_colon, COLON. destruct r; reflexivity.
Qed.

Lemma lex_var_astr : forall a, lex_var a = true -> exists s, a = AStr s /\ wf_symbol s = true.
Proof. intros [|s|? ?] H; try discriminate. eauto. Qed.

Lemma lexable_triple : forall g t, atoms_lexable g = true -> In t (triples g) ->
  lex_var (tsrc t) = true /\ lex_role (trole t) = true /\ lex_target g (ttgt t) = true.
Proof.
  intros g t L I. unfold atoms_lexable in L. rewrite forallb_forall in L. specialize (L t I).
  apply andb_true_iff in L. destruct L as [L L3]. apply andb_true_iff in L. tauto.
Qed.

(* a variable of a lexable node graph is a Symbol *)
Lemma var_lex_var : forall g x, node_graph g -> atoms_lexable g = true -> is_var g x = true -> lex_var x = true.
Proof.
  intros g x NG L V. apply node_graph_iff in NG. destruct NG as [_ NG]. destruct (NG x V) as [A B].
  assert (exists t, In t (triples g) /\ atom_eqb (tsrc t) x = true) as (t & I & E).
  { unfold inst_count in B.
    destruct (filter (fun t => atom_eqb (tsrc t) x && is_inst t) (triples g)) as [|t l] eqn:F; [discriminate|].
    assert (It : In t (filter (fun t => atom_eqb (tsrc t) x && is_inst t) (triples g))) by (rewrite F; left; auto).
    apply filter_In in It. destruct It as [It C]. apply andb_true_iff in C. exists t. tauto. }
  destruct (lexable_triple g t L I) as (L1 & _). apply lex_var_astr in L1. destruct L1 as (s & Es & Ws).
  rewrite Es in E. apply atom_eqb_astr in E. subst. exact Ws.
Qed.

(* ---- the generic transfer of atoms_lexable / roles_invertible ---- *)
Lemma lexable_transfer : forall g g',
  atoms_lexable g = true ->
  (forall t s z, In t (triples g) -> ttgt t = ANum s z -> is_var g' (AStr s) = true -> is_var g (AStr s) = true) ->
  (forall t', In t' (triples g') ->
     lex_var (tsrc t') = true /\ lex_role (trole t') = true /\
     (lex_var (ttgt t') = true \/ (exists s, ttgt t' = AStr s /\ lex_text s = true) \/
      exists t, In t (triples g) /\ ttgt t' = ttgt t)) ->
  atoms_lexable g' = true.
Proof.
  intros g g' L N H. unfold atoms_lexable. apply forallb_forall. intros t' I.
  destruct (H t' I) as (H1 & H2 & H3). rewrite H1, H2. cbn [andb].
  destruct H3 as [H3|[(s & E & H3)|(t & It & E)]].
  - apply lex_var_target. exact H3.
  - rewrite E. exact H3.
  - rewrite E. destruct (lexable_triple g t L It) as (_ & _ & L3).
    destruct (ttgt t) as [|s|s z] eqn:T; auto. cbn [lex_target] in *.
    apply andb_true_iff in L3. destruct L3 as [L3 L4]. rewrite L3. cbn [andb].
    destruct (is_var g' (AStr s)) eqn:V; [|reflexivity].
    rewrite (N t s z It T V) in L4. discriminate.
Qed.

Lemma nums_plain_fresh : forall g g', nums_plain g = true ->
  (forall x, is_var g' x = true -> is_var g x = true \/ exists v, x = AStr v /\ gen_name v) ->
  forall t s z, In t (triples g) -> ttgt t = ANum s z -> is_var g' (AStr s) = true -> is_var g (AStr s) = true.
Proof.
  intros g g' NP V t s z I T Vs. destruct (V _ Vs) as [A|(v & E & G)]; [exact A|].
  inversion E; subst v. apply gen_name_uscore in G.
  unfold nums_plain in NP. rewrite forallb_forall in NP. specialize (NP t I). rewrite T, G in NP. discriminate.
Qed.

Lemma nums_plain_transfer : forall g g', nums_plain g = true ->
  (forall t', In t' (triples g') ->
     lex_var (tsrc t') = true /\ lex_role (trole t') = true /\
     (lex_var (ttgt t') = true \/ (exists s, ttgt t' = AStr s /\ lex_text s = true) \/
      exists t, In t (triples g) /\ ttgt t' = ttgt t)) ->
  nums_plain g' = true.
Proof.
  intros g g' NP H. unfold nums_plain. apply forallb_forall. intros t' I.
  destruct (H t' I) as (_ & _ & [H3|[(s & E & _)|(t & It & E)]]).
  - apply lex_var_astr in H3. destruct H3 as (s & -> & _). reflexivity.
  - rewrite E. reflexivity.
  - rewrite E. unfold nums_plain in NP. rewrite forallb_forall in NP. exact (NP t It).
Qed.

(* ------------------------------------------------------------------ *)
(** * indicate_branches *)

Lemma indicated_cases : forall m g t t', In t' (indicated m g t) ->
  t' = (tsrc t, top_role m, ttgt t) \/
  (t' = (ttgt t, top_role m, tsrc t) /\ is_var g (ttgt t) = true).
Proof.
  intros m g t t' I. unfold indicated in I. destruct (get_pushed_variable g t) as [v|]; [|destruct I].
  destruct (atom_eqb v (ttgt t)).
  - destruct I as [<-|[]]. left. reflexivity.
  - destruct (atom_eqb v (tsrc t) && is_var g (ttgt t)) eqn:E; [|destruct I].
    destruct I as [<-|[]]. right. apply andb_true_iff in E. tauto.
Qed.

Lemma itriples_cases : forall m g ts t', In t' (itriples m g ts) ->
  In t' ts \/ exists t, In t ts /\
    (t' = (tsrc t, top_role m, ttgt t) \/ (t' = (ttgt t, top_role m, tsrc t) /\ is_var g (ttgt t) = true)).
Proof.
  intros m g ts t' I. unfold itriples in I. apply in_flat_map in I. destruct I as (t & It & I).
  apply in_app_or in I. destruct I as [I|[<-|[]]]; [|left; exact It].
  right. exists t. split; [exact It|]. eapply indicated_cases; eauto.
Qed.

Section Indicate.
  Variable m : model.
  Variable g : graph.
  Hypothesis NG : node_graph g.
  Hypothesis L : atoms_lexable g = true.
  Hypothesis TR : top_role_ok m = true.

  Let g' := mk_graph (itriples m g (triples g)) (graph_top g) (epidata g) (gmeta g).

  Lemma top_role_facts : lex_role (top_role m) = true /\ role_invertible m (top_role m) /\
    colon_inst (top_role m) = false /\ ensure_colon (top_role m) = top_role m.
  Proof.
    unfold top_role_ok in TR. apply andb_true_iff in TR. destruct TR as [T T3].
    apply andb_true_iff in T. destruct T as [T1 T2].
    split; [exact T1|]. split; [apply role_invertible_b_sound; exact T2|].
    split; [apply negb_true_iff; exact T3|]. apply ensure_colon_id. apply lex_role_colon. exact T1.
  Qed.

  Lemma ind_triples : triples g' = itriples m g (triples g).
  Proof.
    unfold g'. rewrite triples_mk. apply map_colonize_id. intros t I.
    destruct (itriples_cases _ _ _ _ I) as [I0|(t0 & I0 & [->|[-> _]])].
    - eapply node_graph_colon; eauto.
    - rewrite trole_mk. apply lex_role_colon. apply top_role_facts.
    - rewrite trole_mk. apply lex_role_colon. apply top_role_facts.
  Qed.

  Lemma ind_var_iff : forall x, is_var g' x = is_var g x.
  Proof.
    intros x. destruct (is_var g x) eqn:V.
    - unfold g'. rewrite is_var_mk. apply orb_true_iff.
      rewrite is_var_spec in V. apply orb_true_iff in V. destruct V as [V|V].
      + left. apply mem_atom_true in V. destruct V as (b & Ib & E). apply in_map_iff in Ib.
        destruct Ib as (t & <- & It). apply mem_atom_true. exists (tsrc t). split; [|exact E].
        apply in_map. apply itriples_keeps. exact It.
      + right. unfold graph_top. destruct (gtop g); [exact V|discriminate].
    - destruct (is_var g' x) eqn:V'; [|reflexivity]. exfalso.
      unfold g' in V'. rewrite is_var_mk in V'. apply orb_true_iff in V'. destruct V' as [V'|V'].
      + apply mem_atom_true in V'. destruct V' as (b & Ib & E). apply in_map_iff in Ib.
        destruct Ib as (t' & <- & It'). rewrite (is_var_congr g _ _ E) in V.
        rewrite (itriples_src m g (triples g) t') in V; auto. discriminate.
      + destruct (graph_top g) as [tp|] eqn:GT; simpl in V'; [|discriminate].
        rewrite orb_false_r in V'. rewrite (is_var_congr g _ _ V'), (graph_top_is_var g tp GT) in V. discriminate.
  Qed.

  Lemma ind_lexable : atoms_lexable g' = true.
  Proof.
    apply (lexable_transfer g g' L).
    - intros t s z _ _ V. rewrite ind_var_iff in V. exact V.
    - intros t' I. rewrite ind_triples in I. destruct top_role_facts as (T1 & _).
      destruct (itriples_cases _ _ _ _ I) as [I0|(t0 & I0 & [->|[-> V]])].
      + destruct (lexable_triple g t' L I0) as (A & B & _). repeat split; auto. right. right. eauto.
      + destruct (lexable_triple g t0 L I0) as (A & _). rewrite tsrc_mk, trole_mk, ttgt_mk.
        repeat split; auto. right. right. eauto.
      + destruct (lexable_triple g t0 L I0) as (A & _). rewrite tsrc_mk, trole_mk, ttgt_mk.
        repeat split; auto. apply (var_lex_var g); auto.
  Qed.

  Lemma ind_invertible : roles_invertible m g -> roles_invertible m g'.
  Proof.
    intros RI t' I Hi. rewrite ind_triples in I. destruct top_role_facts as (_ & T2 & _).
    destruct (itriples_cases _ _ _ _ I) as [I0|(t0 & I0 & [->|[-> V]])]; auto.
  Qed.

  Lemma ind_pushes : pushes_name_variables g -> pushes_name_variables g'.
  Proof.
    intros PV t es pv I Ip. rewrite ind_var_iff. unfold g', mk_graph in I. cbn [epidata] in I. eapply PV; eauto.
  Qed.

  Lemma ind_nonempty : triples g <> [] -> triples g' <> [].
  Proof.
    intros NE. rewrite ind_triples. destruct (triples g) as [|t l] eqn:T; [contradiction|].
    intros E. pose proof (itriples_keeps m g (t :: l) t (or_introl eq_refl)) as I. rewrite E in I. destruct I.
  Qed.
End Indicate.

Theorem indicate_branches_serialises : forall m i c g g',
  GraphEq.wf_graph m g -> (exists tp, graph_top g = Some tp /\ GraphEq.connected g tp) ->
  pushes_name_variables g -> deinverts m = true -> atoms_lexable g = true ->
  wf_meta (gmeta g) = true -> epidata_printable g = true ->
  top_role_ok m = true ->
  indicate_branches m g = Ok g' ->
  NoDup (map tkey (triples g')) ->
  exists s g'', encode_top m i c g' None = Ok s /\ decode m s = Ok g'' /\
    graph_eq m g'' (textual g') /\
    (distinct_edges m g' -> alignments_kept m g' g'').
Proof.
  intros m i c g g' W (tp & GT & Cn) PV Dm L M EP TR H ND.
  pose proof (wf_node_graph_m m g W L) as NG.
  pose proof (connected_connectedP g tp GT Cn) as CP.
  destruct (top_role_facts m TR) as (_ & _ & T3 & _).
  pose proof (indicate_branches_node_graph m g g' NG T3 H) as NG'.
  pose proof (indicate_branches_connected m g g' NG T3 CP H) as CP'.
  rewrite indicate_branches_pure in H by (apply node_graph_vars_str; exact NG).
  inversion H; subst g'. clear H.
  apply serialises_if_node_graph; auto.
  - apply ind_nonempty; auto. apply (wf_nonempty m g W).
  - apply ind_invertible; auto. apply (wf_invertible m g W).
  - apply ind_pushes; auto.
  - apply ind_lexable; auto.
  - apply entries_printable_alns. cbn [mk_graph epidata]. apply epidata_printable_entries. exact EP.
Qed.

(* ------------------------------------------------------------------ *)
(** * Marker lists: printability by counting *)

Definition naln (es : list epi) : nat := length (filter is_aln es).
Definition nraln (es : list epi) : nat := length (filter is_raln es).

Lemma existsb_count : forall (p : epi -> bool) es,
  existsb p es = negb (Nat.eqb (length (filter p es)) 0).
Proof.
  intros p. induction es as [|e es IH]; [reflexivity|]. cbn [existsb filter].
  destruct (p e); [reflexivity|]. exact IH.
Qed.

Lemma epis_printable_char : forall x es, epis_printable x es = true <->
  forallb epi_printable es = true /\ naln es <= 1 /\ nraln es <= 1 /\
  (0 < nraln es -> is_instance x = false) /\ (0 < naln es -> EndToEnd_aln.is_astr (ttgt x) = true).
Proof.
  intros x es. unfold epis_printable. rewrite !andb_true_iff, !Nat.leb_le, !existsb_count.
  fold (naln es). fold (nraln es). split.
  - intros ((((A & B) & C) & D) & E). repeat split; auto.
    + intros H. destruct (Nat.eqb (nraln es) 0) eqn:Z; [apply Nat.eqb_eq in Z; lia|].
      cbn in D. apply negb_true_iff in D. exact D.
    + intros H. destruct (Nat.eqb (naln es) 0) eqn:Z; [apply Nat.eqb_eq in Z; lia|].
      cbn in E. exact E.
  - intros (A & B & C & D & E). repeat split; auto.
    + destruct (Nat.eqb (nraln es) 0) eqn:Z; [reflexivity|]. apply Nat.eqb_neq in Z.
      cbn. rewrite D by lia. reflexivity.
    + destruct (Nat.eqb (naln es) 0) eqn:Z; [reflexivity|]. apply Nat.eqb_neq in Z.
      cbn. apply E. lia.
Qed.

Lemma naln_app : forall a b, naln (a ++ b) = naln a + naln b.
Proof. intros. unfold naln. rewrite filter_app, app_length. reflexivity. Qed.
Lemma nraln_app : forall a b, nraln (a ++ b) = nraln a + nraln b.
Proof. intros. unfold nraln. rewrite filter_app, app_length. reflexivity. Qed.

Lemma forallb_filter_sub : forall (p q : epi -> bool) l, forallb p l = true -> forallb p (filter q l) = true.
Proof.
  intros p q. induction l as [|e l IH]; intros H; [reflexivity|]. cbn [forallb filter] in *.
  apply andb_true_iff in H. destruct H as [H1 H2]. destruct (q e); cbn [forallb]; rewrite ?H1; auto.
Qed.

Ltac epi_ind l := induction l as [|[?| |? ?|? ?] l ?IH]; cbn; auto; try lia.

Lemma naln_role : forall l, naln (filter is_role_epi l) = 0.
Proof. unfold naln. epi_ind l. Qed.
Lemma nraln_role : forall l, nraln (filter is_role_epi l) = nraln l.
Proof. unfold nraln. epi_ind l. Qed.
Lemma naln_other : forall l, naln (filter is_other_epi l) = naln l.
Proof. unfold naln. epi_ind l. Qed.
Lemma nraln_other : forall l, nraln (filter is_other_epi l) = 0.
Proof. unfold nraln. epi_ind l. Qed.
Lemma naln_pop : forall l, naln (filter is_pop l) = 0.
Proof. unfold naln. epi_ind l. Qed.
Lemma nraln_pop : forall l, nraln (filter is_pop l) = 0.
Proof. unfold nraln. epi_ind l. Qed.
Lemma naln_notraln : forall l, naln (filter is_not_raln l) = naln l.
Proof. unfold naln. epi_ind l. Qed.
Lemma nraln_notraln : forall l, nraln (filter is_not_raln l) = 0.
Proof. unfold nraln. epi_ind l. Qed.
Lemma naln_node_epis : forall l, naln (node_epis l) = nraln l.
Proof. unfold naln, nraln, node_epis. epi_ind l. Qed.
Lemma nraln_node_epis : forall l, nraln (node_epis l) = 0.
Proof. unfold nraln, node_epis. epi_ind l. Qed.
Lemma printable_node_epis : forall l, forallb epi_printable l = true -> forallb epi_printable (node_epis l) = true.
Proof.
  induction l as [|e l IH]; intros H; [reflexivity|]. cbn [forallb] in H.
  apply andb_true_iff in H. destruct H as [H1 H2]. destruct e as [?| |? ?|idx pre]; try exact (IH H2).
  change (forallb epi_printable (Aln idx pre :: node_epis l) = true). cbn [forallb].
  rewrite (IH H2). change (epi_printable (Aln idx pre)) with (epi_printable (RAln idx pre)).
  rewrite H1. reflexivity.
Qed.
Lemma push_list_last : forall l, naln (push_list (last_such is_push l)) = 0 /\
  nraln (push_list (last_such is_push l)) = 0 /\ forallb epi_printable (push_list (last_such is_push l)) = true.
Proof.
  intros l. destruct (last_such is_push l) as [e|] eqn:E; [|repeat split].
  apply last_such_in in E. destruct E as [_ E]. destruct e; try discriminate. repeat split.
Qed.
Lemma naln_out_epis : forall l, naln (out_epis l) = naln l.
Proof.
  intros l. unfold out_epis. rewrite !naln_app, naln_other, naln_pop.
  destruct (push_list_last l) as (A & _). rewrite A. lia.
Qed.
Lemma nraln_out_epis : forall l, nraln (out_epis l) = 0.
Proof.
  intros l. unfold out_epis. rewrite !nraln_app, nraln_other, nraln_pop.
  destruct (push_list_last l) as (_ & A & _). rewrite A. lia.
Qed.
Lemma printable_out_epis : forall l, forallb epi_printable l = true -> forallb epi_printable (out_epis l) = true.
Proof.
  intros l H. unfold out_epis. rewrite !forallb_app, !forallb_filter_sub by exact H.
  destruct (push_list_last l) as (_ & _ & A). rewrite A. reflexivity.
Qed.

(* Push markers of the derived lists come from the original list *)
Lemma push_in_out_epis : forall l pv, In (Push pv) (out_epis l) -> In (Push pv) l.
Proof.
  intros l pv I. unfold out_epis in I. apply in_app_or in I. destruct I as [I|I].
  - apply filter_In in I. tauto.
  - apply in_app_or in I. destruct I as [I|I].
    + destruct (last_such is_push l) as [e|] eqn:E; [|destruct I]. destruct I as [<-|[]].
      apply last_such_in in E. tauto.
    + apply filter_In in I. tauto.
Qed.
Lemma push_in_node_epis : forall l pv, ~ In (Push pv) (node_epis l).
Proof.
  intros l pv I. unfold node_epis in I. apply in_flat_map in I. destruct I as (e & _ & I).
  destruct e; cbn in I; try contradiction. destruct I as [I|[]]. discriminate.
Qed.

(* ------------------------------------------------------------------ *)
(** * Entry invariants through dict operations *)

Lemma in_ddel : forall (d : dict triple (list epi)) k e, In e (ddel triple_eqb k d) -> In e d.
Proof.
  induction d as [|[k0 v0] d IH]; intros k e I; simpl in *; [contradiction|].
  destruct (triple_eqb k k0); [right; exact I|]. destruct I as [I|I]; [left; exact I|right; eapply IH; eauto].
Qed.

Section Entries.
  Variable P : triple -> list epi -> Prop.
  Hypothesis Pc : forall k k' es, triple_eqb k k' = true -> P k es -> P k' es.
  Hypothesis Pn : forall k, P k [].

  Lemma entries_dset : forall ed k v, entries_ok P ed -> P k v -> entries_ok P (dset triple_eqb k v ed).
  Proof.
    intros ed k v H Hk k' es I. apply T_in_dset in I. destruct I as [I|[-> E]]; [apply H; exact I|].
    eapply Pc; eauto.
  Qed.

  Lemma entries_ddel : forall ed k, entries_ok P ed -> entries_ok P (ddel triple_eqb k ed).
  Proof. intros ed k H k' es I. apply H. eapply in_ddel; eauto. Qed.

  Lemma entries_pop : forall t ed old ed2, epi_pop t ed = (old, ed2) -> entries_ok P ed ->
    P t old /\ entries_ok P ed2.
  Proof.
    intros t ed old ed2 E H. unfold epi_pop in E. destruct (dget triple_eqb t ed) as [l|] eqn:G; inversion E; subst.
    - split; [|apply entries_ddel; exact H].
      apply (dget_some_in triple_eqb) in G. destruct G as (k' & I & E').
      apply (Pc k' t); [rewrite triple_eqb_sym; exact E'|]. apply H. exact I.
    - split; [apply Pn|exact H].
  Qed.

  Lemma aloop_inv : forall V ts vs ed, entries_ok P ed ->
    (forall t v old, In t ts -> In v vs -> is_attr_of V t = true -> P t old ->
       P (tsrc t, trole t, AStr v) (fst (attr_markers old) ++ [Push (AStr v)]) /\
       P (AStr v, INSTANCE, ttgt t) (snd (attr_markers old) ++ [Pop])) ->
    entries_ok P (snd (aloop V ts vs ed)).
  Proof.
    intros V ts. induction ts as [|t ts IH]; intros vs ed H C; cbn [aloop]; [exact H|].
    destruct (is_attr_of V t) eqn:A.
    - destruct vs as [|v vs]; [exact H|].
      destruct (epi_pop t ed) as [old ed1] eqn:EP.
      destruct (entries_pop _ _ _ _ EP H) as [Po H1].
      destruct (C t v old (or_introl eq_refl) (or_introl eq_refl) A Po) as [C1 C2].
      destruct (attr_markers old) as [re ne]. cbn [fst snd] in C1, C2.
      match goal with |- context [aloop V ts vs ?e] =>
        specialize (IH vs e); destruct (aloop V ts vs e) as [r1 r2] end.
      cbn [snd] in *. apply IH.
      + apply entries_dset; [apply entries_dset; [exact H1|exact C1]|exact C2].
      + intros t0 v0 old0 I0 I1. apply C; right; assumption.
    - specialize (IH vs ed). destruct (aloop V ts vs ed) as [r1 r2]. cbn [snd] in *. apply IH; [exact H|].
      intros t0 v0 old0 I0 I1. apply C; [right; assumption|assumption].
  Qed.

  Lemma rloop_inv : forall m g ts vs ed, entries_ok P ed ->
    (forall t v i n o old, In t ts -> In v vs -> is_role_reifiable m (trole t) = true ->
       rexpand m g t v = (i, n, o) -> P t old ->
       P i [Push (AStr v)] /\ P n (node_epis old) /\ P o (out_epis old)) ->
    entries_ok P (snd (rloop m g ts vs ed)).
  Proof.
    intros m g ts. induction ts as [|t ts IH]; intros vs ed H C; cbn [rloop]; [exact H|].
    destruct (is_role_reifiable m (trole t)) eqn:R.
    - destruct vs as [|v vs]; [exact H|].
      destruct (rexpand m g t v) as [[i n] o] eqn:RX.
      destruct (epi_pop t (dset triple_eqb i [Push (AStr v)] ed)) as [old ed2] eqn:EP.
      assert (Pi : forall old0, P t old0 -> P i [Push (AStr v)]).
      { intros old0 H0. destruct (C t v i n o old0 (or_introl eq_refl) (or_introl eq_refl) R RX H0) as (A & _). exact A. }
      assert (H1 : entries_ok P (dset triple_eqb i [Push (AStr v)] ed)).
      { apply entries_dset; [exact H|]. apply (Pi []). apply Pn. }
      destruct (entries_pop _ _ _ _ EP H1) as [Po H2].
      destruct (C t v i n o old (or_introl eq_refl) (or_introl eq_refl) R RX Po) as (_ & C2 & C3).
      rewrite edge_markers_eq.
      match goal with |- context [rloop m g ts vs ?e] =>
        specialize (IH vs e); destruct (rloop m g ts vs e) as [r1 r2] end.
      cbn [snd] in *. apply IH.
      + apply entries_dset; [apply entries_dset; [exact H2|exact C2]|exact C3].
      + intros t0 v0 i0 n0 o0 old0 I0 I1. apply C; right; assumption.
    - specialize (IH vs ed). destruct (rloop m g ts vs ed) as [r1 r2]. cbn [snd] in *. apply IH; [exact H|].
      intros t0 v0 i0 n0 o0 old0 I0 I1. apply C; [right; assumption|assumption].
  Qed.
End Entries.

(* ------------------------------------------------------------------ *)
(** * reify_attributes *)

Lemma astr_eqb_eq : forall a b, atom_eqb (AStr a) (AStr b) = true -> a = b.
Proof. intros a b H. cbn in H. apply str_eqb_eq. exact H. Qed.

Lemma tkey_in_map : forall x l, In (tkey x) (map tkey l) -> exists y, In y l /\ triple_eqb x y = true.
Proof.
  intros x l I. apply in_map_iff in I. destruct I as (y & E & Iy). exists y. split; [exact Iy|].
  apply tkey_eq_iff. auto.
Qed.

Lemma atriples_uses : forall V ts vs v, length vs = count_attr V ts -> In v vs ->
  exists t, In t ts /\ In (AStr v, INSTANCE, ttgt t) (atriples V ts vs).
Proof.
  intros V ts. induction ts as [|t ts IH]; intros vs v LN I.
  - destruct vs; [destruct I|discriminate].
  - rewrite count_attr_cons in LN. cbn [atriples]. destruct (is_attr_of V t) eqn:A.
    + destruct vs as [|w vs]; [destruct I|]. cbn [length] in LN. destruct I as [<-|I].
      * exists t. split; [left; reflexivity|]. right. left. reflexivity.
      * destruct (IH vs v) as (t0 & I0 & I1); [lia|exact I|]. exists t0. split; [right; exact I0|].
        right. right. exact I1.
    + destruct (IH vs v) as (t0 & I0 & I1); [lia|exact I|]. exists t0. split; [right; exact I0|].
      right. exact I1.
Qed.

Lemma atriples_nodup : forall V ts vs,
  NoDup (map tkey ts) -> NoDup vs ->
  (forall t v, In t ts -> In v vs ->
     atom_eqb (tsrc t) (AStr v) = false /\ atom_eqb (ttgt t) (AStr v) = false) ->
  NoDup (map tkey (atriples V ts vs)).
Proof.
  intros V ts. induction ts as [|t ts IH]; intros vs ND NV F; [constructor|].
  inversion ND as [|? ? NI ND']; subst. cbn [atriples].
  assert (F' : forall vs', (forall v, In v vs' -> In v vs) -> forall t0 v, In t0 ts -> In v vs' ->
             atom_eqb (tsrc t0) (AStr v) = false /\ atom_eqb (ttgt t0) (AStr v) = false).
  { intros vs' S t0 v I0 I1. apply F; [right; exact I0|apply S; exact I1]. }
  destruct (is_attr_of V t) eqn:A.
  - destruct vs as [|v vs]; [constructor|]. inversion NV as [|? ? NVI NV']; subst.
    destruct (F t v (or_introl eq_refl) (or_introl eq_refl)) as [Fs Ft].
    assert (REST : forall y, In y (atriples V ts vs) ->
              atom_eqb (tsrc y) (AStr v) = false /\ atom_eqb (ttgt y) (AStr v) = false).
    { intros y Iy. destruct (atriples_cases _ _ _ _ Iy) as [[I0 _]|(t0 & v0 & I0 & I1 & _ & [-> | ->])].
      - apply F; [right; exact I0|left; reflexivity].
      - rewrite tsrc_mk, ttgt_mk. split; [apply F; [right; exact I0|left; reflexivity]|].
        destruct (atom_eqb (AStr v0) (AStr v)) eqn:E; [|reflexivity]. apply astr_eqb_eq in E. subst. contradiction.
      - rewrite tsrc_mk, ttgt_mk. split; [|apply F; [right; exact I0|left; reflexivity]].
        destruct (atom_eqb (AStr v0) (AStr v)) eqn:E; [|reflexivity]. apply astr_eqb_eq in E. subst. contradiction. }
    cbn [map]. constructor; [|constructor].
    + intros I. destruct I as [I|I].
      * symmetry in I. apply tkey_eq_iff in I. apply triple_eqb_true in I. destruct I as (I & _).
        rewrite !tsrc_mk in I. congruence.
      * apply tkey_in_map in I. destruct I as (y & Iy & E). apply triple_eqb_true in E. destruct E as (_ & _ & E).
        rewrite ttgt_mk in E. destruct (REST y Iy) as [_ R]. rewrite atom_eqb_sym in E. congruence.
    + intros I. apply tkey_in_map in I. destruct I as (y & Iy & E). apply triple_eqb_true in E. destruct E as (E & _).
      rewrite tsrc_mk in E. destruct (REST y Iy) as [R _]. rewrite atom_eqb_sym in E. congruence.
    + apply IH; auto. apply F'. intros; right; assumption.
  - cbn [map]. constructor.
    + intros I. apply tkey_in_map in I. destruct I as (y & Iy & E).
      destruct (atriples_cases _ _ _ _ Iy) as [[I0 _]|(t0 & v0 & I0 & I1 & _ & [-> | ->])].
      * apply NI. apply tkey_eq_iff in E. rewrite E. apply in_map. exact I0.
      * apply triple_eqb_true in E. destruct E as (_ & _ & E). rewrite ttgt_mk in E.
        destruct (F t v0 (or_introl eq_refl) I1) as [_ R]. congruence.
      * apply triple_eqb_true in E. destruct E as (E & _). rewrite tsrc_mk in E.
        destruct (F t v0 (or_introl eq_refl) I1) as [R _]. congruence.
    + apply IH; auto. apply F'. auto.
Qed.

Section ReifyAttr.
  Variable m : model.
  Variable g : graph.
  Variable vs : list str.
  Hypothesis NG : node_graph g.
  Hypothesis L : atoms_lexable g = true.
  Hypothesis NM : names_ok (used_names g) vs.
  Hypothesis LN : length vs = count_attr (variables g) (triples g).

  Let V := variables g.
  Let g' := mk_graph (atriples V (triples g) vs) (graph_top g)
                     (snd (aloop V (triples g) vs (epidata g))) (gmeta g).

  Lemma ra_fresh : forall v, In v vs ->
    is_var g (AStr v) = false /\ mem atom_eqb (AStr v) (map ttgt (triples g)) = false /\ gen_name v.
  Proof.
    intros v I. destruct (names_not_var g vs v NM I) as [A B]. destruct (names_ok_notin _ _ _ NM I) as [_ C].
    auto.
  Qed.

  Lemma ra_fresh_triple : forall t v, In t (triples g) -> In v vs ->
    atom_eqb (tsrc t) (AStr v) = false /\ atom_eqb (ttgt t) (AStr v) = false.
  Proof.
    intros t v It Iv. destruct (ra_fresh v Iv) as (A & B & _). split.
    - destruct (atom_eqb (tsrc t) (AStr v)) eqn:E; [|reflexivity].
      rewrite <- (is_var_congr g _ _ E), (src_is_var g t It) in A. discriminate.
    - destruct (atom_eqb (ttgt t) (AStr v)) eqn:E; [|reflexivity].
      assert (M : mem atom_eqb (AStr v) (map ttgt (triples g)) = true).
      { apply mem_atom_true. exists (ttgt t). split; [apply in_map; exact It|]. rewrite atom_eqb_sym. exact E. }
      congruence.
  Qed.

  Lemma ra_triples : triples g' = atriples V (triples g) vs.
  Proof.
    unfold g'. rewrite triples_mk. apply map_colonize_id. intros t I.
    destruct (atriples_cases _ _ _ _ I) as [[I0 _]|(t0 & v0 & I0 & _ & _ & [-> | ->])].
    - eapply node_graph_colon; eauto.
    - rewrite trole_mk. eapply node_graph_colon; eauto.
    - reflexivity.
  Qed.

  Lemma ra_var_cases : forall x, is_var g' x = true ->
    is_var g x = true \/ exists v, In v vs /\ x = AStr v.
  Proof.
    intros x X. unfold g' in X. rewrite is_var_mk in X. apply orb_true_iff in X. destruct X as [X|X].
    - apply mem_atom_true in X. destruct X as (b & Ib & E). apply in_map_iff in Ib.
      destruct Ib as (t' & <- & It'). apply atriples_src in It'.
      destruct It' as [(t0 & I0 & E0)|(v0 & I0 & E0)]; rewrite E0 in E.
      + left. rewrite (is_var_congr g _ _ E). apply src_is_var. auto.
      + right. exists v0. split; auto. apply atom_eqb_astr_r in E. auto.
    - left. destruct (graph_top g) as [tp|] eqn:GT; simpl in X; [|discriminate].
      rewrite orb_false_r in X. rewrite (is_var_congr g _ _ X). apply graph_top_is_var. auto.
  Qed.

  Lemma ra_var_old : forall x, is_var g x = true -> is_var g' x = true.
  Proof.
    intros x X. unfold g'. rewrite is_var_mk. apply orb_true_iff.
    rewrite is_var_spec in X. apply orb_true_iff in X. destruct X as [X|X].
    - left. apply mem_atom_true in X. destruct X as (b & Ib & E). apply in_map_iff in Ib.
      destruct Ib as (t & <- & It).
      destruct (atriples_keeps_src V (triples g) vs t) as (t' & I' & E'); [unfold V; lia|exact It|].
      apply mem_atom_true. exists (tsrc t'). split; [apply in_map; exact I'|]. rewrite E'. exact E.
    - right. unfold graph_top. destruct (gtop g); [exact X|discriminate].
  Qed.

  Lemma ra_var_new : forall v, In v vs -> is_var g' (AStr v) = true.
  Proof.
    intros v I. destruct (atriples_uses V (triples g) vs v LN I) as (t & _ & It).
    rewrite <- ra_triples in It. apply (src_is_var g' _ It).
  Qed.

  Lemma ra_class : forall t', In t' (triples g') ->
    lex_var (tsrc t') = true /\ lex_role (trole t') = true /\
    (lex_var (ttgt t') = true \/ (exists s, ttgt t' = AStr s /\ lex_text s = true) \/
     exists t, In t (triples g) /\ ttgt t' = ttgt t).
  Proof.
    intros t' I. rewrite ra_triples in I.
    destruct (atriples_cases _ _ _ _ I) as [[I0 _]|(t0 & v0 & I0 & I1 & _ & [-> | ->])].
    + destruct (lexable_triple g t' L I0) as (A & B & _). repeat split; auto. right. right. eauto.
    + destruct (lexable_triple g t0 L I0) as (A & B & _). rewrite tsrc_mk, trole_mk, ttgt_mk.
      repeat split; auto. left. cbn. apply gen_name_symbol. apply ra_fresh. exact I1.
    + rewrite tsrc_mk, trole_mk, ttgt_mk. repeat split.
      * cbn. apply gen_name_symbol. apply ra_fresh. exact I1.
      * right. right. eauto.
  Qed.

  Lemma ra_lexable : nums_plain g = true -> atoms_lexable g' = true.
  Proof.
    intros NP. apply (lexable_transfer g g' L); [|exact ra_class].
    apply nums_plain_fresh; [exact NP|]. intros x X. destruct (ra_var_cases x X) as [A|(v & I & ->)]; [left; exact A|].
    right. exists v. split; [reflexivity|]. apply ra_fresh. exact I.
  Qed.

  Lemma ra_nums : nums_plain g = true -> nums_plain g' = true.
  Proof. intros NP. apply (nums_plain_transfer g g' NP). exact ra_class. Qed.

  Lemma ra_invertible : roles_invertible m g -> roles_invertible m g'.
  Proof.
    intros RI t' I Hi. rewrite ra_triples in I.
    destruct (atriples_cases _ _ _ _ I) as [[I0 _]|(t0 & v0 & I0 & I1 & _ & [-> | ->])]; auto.
    - rewrite trole_mk. apply (RI t0 I0). exact Hi.
    - discriminate Hi.
  Qed.

  Lemma ra_nonempty : triples g <> [] -> triples g' <> [].
  Proof.
    intros NE E. assert (exists t, In t (triples g)) as [t It].
    { destruct (triples g); [contradiction|eexists; left; reflexivity]. }
    destruct (atriples_keeps_src V (triples g) vs t) as (t' & I' & _); [unfold V; lia|exact It|].
    rewrite <- ra_triples, E in I'. destruct I'.
  Qed.

  Lemma ra_distinct : NoDup (map tkey (triples g)) -> NoDup (map tkey (triples g')).
  Proof.
    intros ND. rewrite ra_triples. apply atriples_nodup; auto.
    - eapply names_ok_nodup; eauto.
    - apply ra_fresh_triple.
  Qed.

  Lemma ra_pushes : pushes_name_variables g -> pushes_name_variables g'.
  Proof.
    intros PV. apply pushes_entries. unfold g' at 2. cbn [mk_graph epidata].
    apply (aloop_inv (pushesP g')).
    - intros k k' es _ H. exact H.
    - intros k pv [].
    - apply pushes_entries in PV. intros k es I pv Ip. apply ra_var_old. eapply PV; eauto.
    - intros t v old It Iv A Po. unfold attr_markers, reified_markers. cbn [fst snd]. split.
      + intros pv Ip. apply in_app_or in Ip. destruct Ip as [Ip|[Ip|[]]].
        * apply filter_In in Ip. destruct Ip as [_ Ip]. discriminate Ip.
        * inversion Ip; subst. apply ra_var_new. exact Iv.
      + intros pv Ip. apply in_app_or in Ip. destruct Ip as [Ip|[Ip|[]]]; [|discriminate Ip].
        apply in_app_or in Ip. destruct Ip as [Ip|Ip]; apply filter_In in Ip; destruct Ip as [_ Ip]; discriminate Ip.
  Qed.

  Lemma ra_printable : entries_ok printableP (epidata g) -> entries_ok printableP (epidata g').
  Proof.
    intros EP. unfold g'. cbn [mk_graph epidata].
    apply (aloop_inv printableP printableP_congr epis_printable_nil); [exact EP|].
    intros t v old It Iv A Po. unfold attr_markers, reified_markers. cbn [fst snd].
    apply epis_printable_char in Po. destruct Po as (P1 & P2 & P3 & P4 & P5).
    pose proof (is_attr_not_inst _ _ A) as NI.
    split; apply epis_printable_char.
    - rewrite forallb_app, forallb_filter_sub by exact P1.
      rewrite naln_app, nraln_app, naln_role, nraln_role. cbn [forallb epi_printable naln nraln filter is_aln is_raln length andb].
      repeat split; try lia. intros _. exact NI.
    - rewrite !forallb_app, !forallb_filter_sub by exact P1.
      rewrite !naln_app, !nraln_app, naln_other, nraln_other, naln_pop, nraln_pop.
      cbn [forallb epi_printable naln nraln filter is_aln is_raln length andb].
      repeat split; try lia. intros H. rewrite ttgt_mk. apply P5. lia.
  Qed.
End ReifyAttr.

Theorem reify_attributes_serialises : forall m i c g g',
  GraphEq.wf_graph m g -> (exists tp, graph_top g = Some tp /\ GraphEq.connected g tp) ->
  pushes_name_variables g -> deinverts m = true -> atoms_lexable g = true ->
  wf_meta (gmeta g) = true -> epidata_printable g = true -> nums_plain g = true ->
  reify_attributes g = Ok g' ->
  exists s g'', encode_top m i c g' None = Ok s /\ decode m s = Ok g'' /\
    graph_eq m g'' (textual g') /\
    (distinct_edges m g' -> alignments_kept m g' g'').
Proof.
  intros m i c g g' W (tp & GT & Cn) PV Dm L M EP NP H.
  pose proof (wf_node_graph_m m g W L) as NG.
  pose proof (connected_connectedP g tp GT Cn) as CP.
  pose proof (reify_attributes_node_graph g g' NG H) as NG'.
  pose proof (reify_attributes_connected g g' NG CP H) as CP'.
  apply reify_attributes_pure in H. destruct H as (vs & NM & LN & ->).
  apply serialises_if_node_graph; auto.
  - apply ra_nonempty; auto. apply (wf_nonempty m g W).
  - apply ra_invertible; auto. apply (wf_invertible m g W).
  - apply ra_distinct; auto. apply (wf_distinct m g W).
  - apply ra_pushes; auto.
  - apply ra_lexable; auto.
  - apply entries_printable_alns. apply ra_printable; auto. apply epidata_printable_entries. exact EP.
Qed.

(* ------------------------------------------------------------------ *)
(** * reify_edges *)

Lemma rtriples_cases : forall m g ts vs t', In t' (rtriples m g ts vs) ->
  (In t' ts /\ is_role_reifiable m (trole t') = false) \/
  exists t v c sr tr, In t ts /\ In v vs /\ is_role_reifiable m (trole t) = true /\
    reif_row m (trole t) = (c, sr, tr) /\
    (t' = (AStr v, sr, tsrc t) \/ t' = (AStr v, INSTANCE, AStr c) \/ t' = (AStr v, tr, ttgt t)).
Proof.
  intros m g ts. induction ts as [|t ts IH]; intros vs t' H; cbn [rtriples] in H; [destruct H|].
  destruct (is_role_reifiable m (trole t)) eqn:R.
  - destruct vs as [|v vs]; [destruct H|].
    destruct (rexpand m g t v) as [[i n] o] eqn:RX. apply rexpand_cases in RX.
    destruct (reif_row m (trole t)) as [[c sr] tr] eqn:RR.
    destruct H as [H|[H|[H|H]]].
    + right. exists t, v, c, sr, tr. repeat (split; [first [left; reflexivity|assumption|reflexivity]|]).
      subst t'. destruct RX as (_ & [(-> & _)|(-> & _)]); auto.
    + right. exists t, v, c, sr, tr. repeat (split; [first [left; reflexivity|assumption|reflexivity]|]).
      subst t'. destruct RX as (-> & _). auto.
    + right. exists t, v, c, sr, tr. repeat (split; [first [left; reflexivity|assumption|reflexivity]|]).
      subst t'. destruct RX as (_ & [(_ & -> & _)|(_ & -> & _)]); auto.
    + destruct (IH _ _ H) as [[I0 R0]|(t0 & v0 & c0 & sr0 & tr0 & I0 & I1 & R0 & RR0 & E)].
      * left. split; [right; exact I0|exact R0].
      * right. exists t0, v0, c0, sr0, tr0. repeat (split; [first [right; assumption|assumption]|]). exact E.
  - destruct H as [<-|H].
    + left. split; [left; reflexivity|exact R].
    + destruct (IH _ _ H) as [[I0 R0]|(t0 & v0 & c0 & sr0 & tr0 & I0 & I1 & R0 & RR0 & E)].
      * left. split; [right; exact I0|exact R0].
      * right. exists t0, v0, c0, sr0, tr0. repeat (split; [first [right; assumption|assumption]|]). exact E.
Qed.

Lemma row_facts : forall m r c sr tr, table_reify_ok m = true -> table_inst_free m = true ->
  is_role_reifiable m r = true -> reif_row m r = (c, sr, tr) ->
  lex_text c = true /\ lex_role sr = true /\ lex_role tr = true /\
  role_invertible m sr /\ role_invertible m tr /\ sr <> tr /\
  str_eqb sr INSTANCE = false /\ str_eqb tr INSTANCE = false.
Proof.
  intros m r c sr tr TR TI R RR. destruct (reifiable_rows _ _ R) as (c0 & sr0 & tr0 & rest & E).
  unfold reif_row in RR. rewrite E in RR. inversion RR; subst c0 sr0 tr0.
  pose proof (reif_rows_in _ _ _ _ _ _ E) as I.
  destruct (table_inst_free_row m r c sr tr TI I) as (_ & F2 & F3).
  unfold table_reify_ok in TR. rewrite forallb_forall in TR. specialize (TR _ I). cbn in TR.
  repeat (apply andb_true_iff in TR; destruct TR as [TR ?]).
  rewrite colon_inst_id in F2 by (apply lex_role_colon; assumption).
  rewrite colon_inst_id in F3 by (apply lex_role_colon; assumption).
  repeat split; auto; try (apply role_invertible_b_sound; assumption).
  intros ->. rewrite str_eqb_refl in *. discriminate.
Qed.

Lemma tkey_role : forall a b, tkey a = tkey b -> trole a = trole b.
Proof. intros a b H. unfold tkey in H. inversion H. reflexivity. Qed.

Lemma three_nodup : forall a b c rest, trole a <> trole b -> trole a <> trole c -> trole b <> trole c ->
  ~ In (tkey a) rest -> ~ In (tkey b) rest -> ~ In (tkey c) rest -> NoDup rest ->
  NoDup (tkey a :: tkey b :: tkey c :: rest).
Proof.
  intros a b c rest AB AC BC Na Nb Nc ND.
  constructor; [|constructor; [|constructor; [|exact ND]]].
  - intros [I|[I|I]]; [apply tkey_role in I; congruence|apply tkey_role in I; congruence|contradiction].
  - intros [I|I]; [apply tkey_role in I; congruence|contradiction].
  - exact Nc.
Qed.

Lemma rtriples_nodup : forall m g ts vs,
  table_reify_ok m = true -> table_inst_free m = true ->
  NoDup (map tkey ts) -> NoDup vs ->
  (forall t v, In t ts -> In v vs -> atom_eqb (tsrc t) (AStr v) = false) ->
  NoDup (map tkey (rtriples m g ts vs)).
Proof.
  intros m g ts. induction ts as [|t ts IH]; intros vs TR TI ND NV F; [constructor|].
  inversion ND as [|? ? NI ND']; subst. cbn [rtriples].
  destruct (is_role_reifiable m (trole t)) eqn:R.
  - destruct vs as [|v vs]; [constructor|]. inversion NV as [|? ? NVI NV']; subst.
    assert (REST : forall y, In y (rtriples m g ts vs) -> atom_eqb (tsrc y) (AStr v) = false).
    { intros y Iy. destruct (rtriples_src _ _ _ _ _ Iy) as [(t0 & I0 & ->)|(v0 & I0 & ->)].
      - apply F; [right; exact I0|left; reflexivity].
      - destruct (atom_eqb (AStr v0) (AStr v)) eqn:E; [|reflexivity]. apply astr_eqb_eq in E. subst. contradiction. }
    assert (NOT : forall x, tsrc x = AStr v -> ~ In (tkey x) (map tkey (rtriples m g ts vs))).
    { intros x Sx I. apply tkey_in_map in I. destruct I as (y & Iy & E). apply triple_eqb_true in E.
      destruct E as (E & _). rewrite Sx, atom_eqb_sym, (REST y Iy) in E. discriminate. }
    destruct (rexpand m g t v) as [[i n] o] eqn:RX. apply rexpand_cases in RX.
    destruct (reif_row m (trole t)) as [[c sr] tr] eqn:RR.
    destruct (row_facts m _ c sr tr TR TI R RR) as (_ & _ & _ & _ & _ & D & D1 & D2).
    assert (IHn : NoDup (map tkey (rtriples m g ts vs))).
    { apply IH; auto. intros t0 v0 I0 I1. apply F; right; assumption. }
    assert (Dsi : sr <> INSTANCE) by (intros ->; discriminate D1).
    assert (Dti : tr <> INSTANCE) by (intros ->; discriminate D2).
    destruct RX as (-> & [(-> & -> & _)|(-> & -> & _)]); cbn [map];
      apply three_nodup; rewrite ?trole_mk; auto; try (apply NOT; reflexivity).
  - cbn [map]. constructor.
    + intros I. apply tkey_in_map in I. destruct I as (y & Iy & E).
      destruct (rtriples_cases _ _ _ _ _ Iy) as [[I0 _]|(t0 & v0 & c0 & sr0 & tr0 & I0 & I1 & _ & _ & Ey)].
      * apply NI. apply tkey_eq_iff in E. rewrite E. apply in_map. exact I0.
      * apply triple_eqb_true in E. destruct E as (E & _).
        assert (Sy : tsrc y = AStr v0) by (destruct Ey as [-> | [-> | ->]]; reflexivity).
        rewrite Sy, (F t v0 (or_introl eq_refl) I1) in E. discriminate.
    + apply IH; auto. intros t0 v0 I0 I1. apply F; [right; assumption|assumption].
Qed.

Section ReifyEdges.
  Variable m : model.
  Variable g : graph.
  Variable vs : list str.
  Hypothesis NG : node_graph g.
  Hypothesis L : atoms_lexable g = true.
  Hypothesis TI : table_inst_free m = true.
  Hypothesis TR : table_reify_ok m = true.
  Hypothesis NM : names_ok (used_names g) vs.
  Hypothesis LN : length vs = count_reif m (triples g).

  Let g' := mk_graph (rtriples m g (triples g) vs) (graph_top g)
                     (snd (rloop m g (triples g) vs (epidata g))) (gmeta g).

  Lemma re_fresh : forall v, In v vs ->
    is_var g (AStr v) = false /\ mem atom_eqb (AStr v) (map ttgt (triples g)) = false /\ gen_name v.
  Proof.
    intros v I. destruct (names_not_var g vs v NM I) as [A B]. destruct (names_ok_notin _ _ _ NM I) as [_ C].
    auto.
  Qed.

  Lemma re_fresh_src : forall t v, In t (triples g) -> In v vs -> atom_eqb (tsrc t) (AStr v) = false.
  Proof.
    intros t v It Iv. destruct (re_fresh v Iv) as (A & _).
    destruct (atom_eqb (tsrc t) (AStr v)) eqn:E; [|reflexivity].
    rewrite <- (is_var_congr g _ _ E), (src_is_var g t It) in A. discriminate.
  Qed.

  Lemma re_triples : triples g' = rtriples m g (triples g) vs.
  Proof.
    unfold g'. rewrite triples_mk. apply map_colonize_id. intros t I.
    destruct (rtriples_cases _ _ _ _ _ I) as [[I0 _]|(t0 & v0 & c & sr & tr & I0 & I1 & R & RR & E)].
    - eapply node_graph_colon; eauto.
    - destruct (row_facts m _ c sr tr TR TI R RR) as (_ & A & B & _).
      destruct E as [-> | [-> | ->]]; rewrite trole_mk; auto using lex_role_colon.
  Qed.

  Lemma re_var_cases : forall x, is_var g' x = true ->
    is_var g x = true \/ exists v, In v vs /\ x = AStr v.
  Proof.
    intros x X. unfold g' in X. rewrite is_var_mk in X. apply orb_true_iff in X. destruct X as [X|X].
    - apply mem_atom_true in X. destruct X as (b & Ib & E). apply in_map_iff in Ib.
      destruct Ib as (t' & <- & It'). apply rtriples_src in It'.
      destruct It' as [(t0 & I0 & E0)|(v0 & I0 & E0)]; rewrite E0 in E.
      + left. rewrite (is_var_congr g _ _ E). apply src_is_var. auto.
      + right. exists v0. split; auto. apply atom_eqb_astr_r in E. auto.
    - left. destruct (graph_top g) as [tp|] eqn:GT; simpl in X; [|discriminate].
      rewrite orb_false_r in X. rewrite (is_var_congr g _ _ X). apply graph_top_is_var. auto.
  Qed.

  (* the instance triple of every variable is kept *)
  Lemma re_inst_kept : forall x, is_var g x = true ->
    exists t, In t (triples g') /\ atom_eqb (tsrc t) x = true.
  Proof.
    intros x X. pose proof NG as NG0. apply node_graph_iff in NG0. destruct NG0 as [C NG0].
    destruct (NG0 x X) as [_ B]. unfold inst_count in B.
    destruct (filter (fun t => atom_eqb (tsrc t) x && is_inst t) (triples g)) as [|t l] eqn:Fl; [discriminate|].
    assert (It : In t (filter (fun t => atom_eqb (tsrc t) x && is_inst t) (triples g))) by (rewrite Fl; left; auto).
    apply filter_In in It. destruct It as [It Ct]. apply andb_true_iff in Ct. destruct Ct as [C1 C2].
    assert (R : is_role_reifiable m (trole t) = false).
    { destruct (is_role_reifiable m (trole t)) eqn:R; [|reflexivity].
      pose proof (reifiable_not_inst m t x TI (C t It) R) as H. unfold inst_hit in H. rewrite C1, C2 in H. discriminate. }
    exists t. split; [|exact C1]. rewrite re_triples. apply rtriples_keeps_unreified; auto. lia.
  Qed.

  Lemma re_var_old : forall x, is_var g x = true -> is_var g' x = true.
  Proof.
    intros x X. destruct (re_inst_kept x X) as (t & I' & C1).
    rewrite <- (is_var_congr g' _ _ C1). apply src_is_var. exact I'.
  Qed.

  Lemma re_var_new : forall v, In v vs -> is_var g' (AStr v) = true.
  Proof.
    intros v I. destruct (rpairs_all_names m (triples g) vs v LN I) as [t It].
    pose proof (rpairs_triples_in m g _ _ _ _ It) as H.
    destruct (rexpand m g t v) as [[i n] o] eqn:RX. destruct H as (_ & H & _).
    destruct (rexpand_src _ _ _ _ _ _ _ RX) as (_ & Sn & _). rewrite <- Sn.
    apply src_is_var. rewrite re_triples. exact H.
  Qed.

  Lemma re_class : forall t', In t' (triples g') ->
    lex_var (tsrc t') = true /\ lex_role (trole t') = true /\
    (lex_var (ttgt t') = true \/ (exists s, ttgt t' = AStr s /\ lex_text s = true) \/
     exists t, In t (triples g) /\ ttgt t' = ttgt t).
  Proof.
    intros t' I. rewrite re_triples in I.
    destruct (rtriples_cases _ _ _ _ _ I) as [[I0 _]|(t0 & v0 & c & sr & tr & I0 & I1 & R & RR & E)].
    + destruct (lexable_triple g t' L I0) as (A & B & _). repeat split; auto. right. right. eauto.
    + destruct (row_facts m _ c sr tr TR TI R RR) as (Lc & Ls & Lt & _).
      destruct (lexable_triple g t0 L I0) as (A & _).
      assert (G : lex_var (AStr v0) = true) by (cbn; apply gen_name_symbol; apply re_fresh; exact I1).
      destruct E as [-> | [-> | ->]]; rewrite tsrc_mk, trole_mk, ttgt_mk; repeat split; auto.
      * right. left. eauto.
      * right. right. eauto.
  Qed.

  Lemma re_lexable : nums_plain g = true -> atoms_lexable g' = true.
  Proof.
    intros NP. apply (lexable_transfer g g' L); [|exact re_class].
    apply nums_plain_fresh; [exact NP|]. intros x X. destruct (re_var_cases x X) as [A|(v & I & ->)]; [left; exact A|].
    right. exists v. split; [reflexivity|]. apply re_fresh. exact I.
  Qed.

  Lemma re_nums : nums_plain g = true -> nums_plain g' = true.
  Proof. intros NP. apply (nums_plain_transfer g g' NP). exact re_class. Qed.

  Lemma re_invertible : roles_invertible m g -> roles_invertible m g'.
  Proof.
    intros RI t' I Hi. rewrite re_triples in I.
    destruct (rtriples_cases _ _ _ _ _ I) as [[I0 _]|(t0 & v0 & c & sr & tr & I0 & I1 & R & RR & E)]; auto.
    destruct (row_facts m _ c sr tr TR TI R RR) as (_ & _ & _ & Is & It & _).
    destruct E as [-> | [-> | ->]]; rewrite ?trole_mk; auto. discriminate Hi.
  Qed.

  Lemma re_nonempty : triples g <> [] -> triples g' <> [].
  Proof.
    intros NE E. assert (exists t, In t (triples g)) as [t It].
    { destruct (triples g); [contradiction|eexists; left; reflexivity]. }
    destruct (re_inst_kept _ (src_is_var g t It)) as (t1 & I1 & _). rewrite E in I1. destruct I1.
  Qed.

  Lemma re_distinct : NoDup (map tkey (triples g)) -> NoDup (map tkey (triples g')).
  Proof.
    intros ND. rewrite re_triples. apply rtriples_nodup; auto.
    - eapply names_ok_nodup; eauto.
    - apply re_fresh_src.
  Qed.

  Lemma re_pushes : pushes_name_variables g -> pushes_name_variables g'.
  Proof.
    intros PV. apply pushes_entries. unfold g' at 2. cbn [mk_graph epidata].
    apply (rloop_inv (pushesP g')).
    - intros k k' es _ H. exact H.
    - intros k pv [].
    - apply pushes_entries in PV. intros k es I pv Ip. apply re_var_old. eapply PV; eauto.
    - intros t v i n o old It Iv R RX Po. split; [|split].
      + intros pv [Ip|[]]. inversion Ip; subst. apply re_var_new. exact Iv.
      + intros pv Ip. exfalso. eapply push_in_node_epis; eauto.
      + intros pv Ip. apply Po. apply push_in_out_epis. exact Ip.
  Qed.

  Lemma re_printable : entries_ok printableP (epidata g) -> entries_ok printableP (epidata g').
  Proof.
    intros EP. unfold g'. cbn [mk_graph epidata].
    apply (rloop_inv printableP printableP_congr epis_printable_nil); [exact EP|].
    intros t v i n o old It Iv R RX Po.
    apply epis_printable_char in Po. destruct Po as (P1 & P2 & P3 & P4 & P5).
    apply rexpand_cases in RX. destruct (reif_row m (trole t)) as [[c sr] tr] eqn:RR.
    destruct (row_facts m _ c sr tr TR TI R RR) as (_ & _ & _ & _ & _ & _ & D1 & D2).
    destruct (lexable_triple g t L It) as (Ls & _). apply lex_var_astr in Ls. destruct Ls as (s & Es & _).
    destruct RX as (-> & RX). split; [|split].
    - destruct RX as [(-> & _)|(-> & _)]; reflexivity.
    - apply epis_printable_char. rewrite naln_node_epis, nraln_node_epis, printable_node_epis by exact P1.
      repeat split; try lia.
    - apply epis_printable_char. rewrite naln_out_epis, nraln_out_epis, printable_out_epis by exact P1.
      repeat split; try lia. intros H.
      destruct RX as [(_ & -> & _)|(_ & -> & _)]; rewrite ttgt_mk; [apply P5; exact H|rewrite Es; reflexivity].
  Qed.
End ReifyEdges.

Theorem reify_edges_serialises : forall m i c g g',
  GraphEq.wf_graph m g -> (exists tp, graph_top g = Some tp /\ GraphEq.connected g tp) ->
  pushes_name_variables g -> deinverts m = true -> atoms_lexable g = true ->
  wf_meta (gmeta g) = true -> epidata_printable g = true -> nums_plain g = true ->
  table_inst_free m = true -> table_reify_ok m = true ->
  reify_edges m g = Ok g' ->
  exists s g'', encode_top m i c g' None = Ok s /\ decode m s = Ok g'' /\
    graph_eq m g'' (textual g') /\
    (distinct_edges m g' -> alignments_kept m g' g'').
Proof.
  intros m i c g g' W (tp & GT & Cn) PV Dm L M EP NP TI TR H.
  pose proof (wf_node_graph_m m g W L) as NG.
  pose proof (connected_connectedP g tp GT Cn) as CP.
  pose proof (reify_edges_node_graph m g g' NG TI H) as NG'.
  pose proof (reify_edges_connected m g g' NG TI CP H) as CP'.
  apply reify_edges_pure in H. destruct H as (vs & NM & LN & ->).
  apply serialises_if_node_graph; auto.
  - apply re_nonempty; auto. apply (wf_nonempty m g W).
  - apply re_invertible; auto. apply (wf_invertible m g W).
  - apply re_distinct; auto. apply (wf_distinct m g W).
  - apply re_pushes; auto.
  - apply re_lexable; auto.
  - apply entries_printable_alns. apply re_printable; auto. apply epidata_printable_entries. exact EP.
Qed.

(* ------------------------------------------------------------------ *)
(** * dereify_edges

    Three hypotheses of the end-to-end theorem are NOT kept by dereify_edges
    (counterexamples in Properties/C12b.v): pairwise distinctness (the
    dereified triple may already be there), [pushes_name_variables] (a stale
    Push marker on another triple may name the collapsed node) and
    [alns_printable] (the target alignment of the second relation moves onto
    the dereified triple, whose target may be None or a number).  They are
    hypotheses on the RESULT below; everything else is derived. *)

Lemma agenda_entry_shape : forall m g (ag : dict atom agenda_entry) v first d epis,
  dereify_agenda m g = Ok ag -> dget atom_eqb v ag = Some (first, d, epis) ->
  is_var g (tsrc d) = true /\
  (exists c s t, In (trole d, c, s, t) (reifs m)) /\
  exists t, In t (triples g) /\ ttgt d = ttgt t.
Proof.
  intros m g ag v first d epis H G.
  destruct (agenda_entry_facts m g ag v first d epis H G) as (A & _ & B).
  split; [exact A|]. split; [exact B|].
  rewrite (agenda_spec m g ag H) in G.
  apply collapsible_inv in G. destruct G as (i & o1 & o2 & second & _ & _ & O & _ & SW & D & _ & _).
  assert (I1 : In o1 (others_of (triples g) v)) by (rewrite O; left; auto).
  assert (I2 : In o2 (others_of (triples g) v)) by (rewrite O; right; left; auto).
  apply others_of_in in I1. apply others_of_in in I2. destruct I1 as (A1 & _), I2 as (A2 & _).
  apply dereify_ok_inv in D. destruct D as (c & s & t & _ & SRC).
  destruct SW as [(-> & -> & _)|(-> & -> & _)]; destruct SRC as [[_ ->]|[_ ->]]; eauto.
Qed.

Section Dereify.
  Variable m : model.
  Variable g : graph.
  Variable ag : dict atom agenda_entry.
  Hypothesis NG : node_graph g.
  Hypothesis L : atoms_lexable g = true.
  Hypothesis TI : table_inst_free m = true.
  Hypothesis TD : table_dereify_ok m = true.
  Hypothesis AG : dereify_agenda m g = Ok ag.

  Let g' := mk_graph (dtriples ag (triples g)) (graph_top g)
                     (snd (dereify_edges_loop ag (triples g) (epidata g))) (gmeta g).

  Lemma de_role : forall v first d epis, dget atom_eqb v ag = Some (first, d, epis) ->
    lex_role (trole d) = true /\ role_invertible m (trole d).
  Proof.
    intros v first d epis G. destruct (agenda_entry_shape m g ag v first d epis AG G) as (_ & (c & s & t & I) & _).
    unfold table_dereify_ok in TD. rewrite forallb_forall in TD. specialize (TD _ I). cbn in TD.
    apply andb_true_iff in TD. destruct TD as [T1 T2]. split; [exact T1|apply role_invertible_b_sound; exact T2].
  Qed.

  Lemma de_triples : triples g' = dtriples ag (triples g).
  Proof.
    unfold g'. rewrite triples_mk. apply map_colonize_id. intros t I.
    destruct (dtriples_cases _ _ _ I) as [[I0 _]|(v & first & epis & G)].
    - eapply node_graph_colon; eauto.
    - apply lex_role_colon. eapply de_role; eauto.
  Qed.

  Lemma de_var_sub : forall x, is_var g' x = true -> is_var g x = true.
  Proof.
    intros x X. unfold g' in X. rewrite is_var_mk in X. apply orb_true_iff in X. destruct X as [X|X].
    - apply mem_atom_true in X. destruct X as (b & Ib & E). apply in_map_iff in Ib.
      destruct Ib as (t' & <- & It'). rewrite (is_var_congr g _ _ E).
      apply dtriples_cases in It'. destruct It' as [[I N]|(v & first & epis & G)].
      + apply src_is_var. auto.
      + eapply agenda_entry_shape; eauto.
    - destruct (graph_top g) as [tp|] eqn:GT; simpl in X; [|discriminate].
      rewrite orb_false_r in X. rewrite (is_var_congr g _ _ X). apply graph_top_is_var. auto.
  Qed.

  Lemma de_lexable : atoms_lexable g' = true.
  Proof.
    apply (lexable_transfer g g' L).
    - intros t s z _ _ V. apply de_var_sub. exact V.
    - intros t' I. rewrite de_triples in I.
      destruct (dtriples_cases _ _ _ I) as [[I0 _]|(v & first & epis & G)].
      + destruct (lexable_triple g t' L I0) as (A & B & _). repeat split; auto. right. right. eauto.
      + destruct (agenda_entry_shape m g ag v first t' epis AG G) as (A & _ & (t & It & Et)).
        destruct (de_role _ _ _ _ G) as (B & _).
        repeat split; auto; [apply (var_lex_var g); auto|]. right. right. eauto.
  Qed.

  Lemma de_invertible : roles_invertible m g -> roles_invertible m g'.
  Proof.
    intros RI t' I Hi. rewrite de_triples in I.
    destruct (dtriples_cases _ _ _ I) as [[I0 _]|(v & first & epis & G)]; auto.
    eapply de_role; eauto.
  Qed.

  Lemma de_nonempty : triples g <> [] -> triples g' <> [].
  Proof.
    intros NE E. assert (exists t, In t (triples g)) as [t0 It0].
    { destruct (triples g); [contradiction|eexists; left; reflexivity]. }
    (* the top is never collapsed and owns an instance triple *)
    assert (exists tp, graph_top g = Some tp) as [tp GT].
    { unfold graph_top. destruct (gtop g); [eauto|]. destruct (triples g); [contradiction|eauto]. }
    assert (N : dget atom_eqb tp ag = None).
    { rewrite (agenda_spec m g ag AG). apply collapsible_fixed_none.
      unfold fixed_of, top_atom. rewrite GT. simpl. rewrite atom_eqb_refl. auto. }
    pose proof NG as NG0. apply node_graph_iff in NG0. destruct NG0 as [_ NG0].
    destruct (NG0 tp (graph_top_is_var g tp GT)) as [_ B]. unfold inst_count in B.
    destruct (filter (fun t => atom_eqb (tsrc t) tp && is_inst t) (triples g)) as [|t l] eqn:Fl; [discriminate|].
    assert (It : In t (filter (fun t => atom_eqb (tsrc t) tp && is_inst t) (triples g))) by (rewrite Fl; left; auto).
    apply filter_In in It. destruct It as [It Ct]. apply andb_true_iff in Ct. destruct Ct as [C1 _].
    assert (I' : In t (triples g')).
    { rewrite de_triples. apply dereify_keeps_others; auto. rewrite (A_dget_congr ag _ _ C1). exact N. }
    rewrite E in I'. destruct I'.
  Qed.
End Dereify.

Theorem dereify_edges_serialises : forall m i c g g',
  GraphEq.wf_graph m g -> (exists tp, graph_top g = Some tp /\ GraphEq.connected g tp) ->
  deinverts m = true -> atoms_lexable g = true -> wf_meta (gmeta g) = true ->
  table_inst_free m = true -> table_dereify_ok m = true ->
  dereify_edges m g = Ok g' ->
  NoDup (map tkey (triples g')) -> pushes_name_variables g' -> alns_printable g' = true ->
  exists s g'', encode_top m i c g' None = Ok s /\ decode m s = Ok g'' /\
    graph_eq m g'' (textual g') /\
    (distinct_edges m g' -> alignments_kept m g' g'').
Proof.
  intros m i c g g' W (tp & GT & Cn) Dm L M TI TD H ND PV AP.
  pose proof (wf_node_graph_m m g W L) as NG.
  pose proof (connected_connectedP g tp GT Cn) as CP.
  pose proof (dereify_edges_node_graph m g g' NG TI H) as NG'.
  pose proof (dereify_edges_connected m g g' NG TI CP H) as CP'.
  apply dereify_edges_pure in H. destruct H as (ag & AG & ->).
  apply serialises_if_node_graph; auto.
  - apply (de_nonempty m); auto. apply (wf_nonempty m g W).
  - apply de_invertible; auto. apply (wf_invertible m g W).
  - apply (de_lexable m); auto.
Qed.

(* ------------------------------------------------------------------ *)
(** * The composable form: a bundle of hypotheses that the transformations keep *)

Definition ser_hyps (m : model) (g : graph) : Prop :=
  GraphEq.wf_graph m g /\ (exists tp, graph_top g = Some tp /\ GraphEq.connected g tp) /\
  pushes_name_variables g /\ atoms_lexable g = true /\ wf_meta (gmeta g) = true /\
  epidata_printable g = true /\ nums_plain g = true.

Lemma ser_hyps_e2e : forall m g, ser_hyps m g -> e2e_hyps m g.
Proof.
  intros m g (W & T & PV & L & M & EP & _). repeat (split; [assumption|]).
  apply epidata_printable_alns. exact EP.
Qed.

Theorem ser_hyps_serialises : forall m i c g, deinverts m = true -> ser_hyps m g ->
  exists s g'', encode_top m i c g None = Ok s /\ decode m s = Ok g'' /\
    graph_eq m g'' (textual g) /\
    (distinct_edges m g -> alignments_kept m g g'').
Proof.
  intros m i c g Dm H. destruct (ser_hyps_e2e m g H) as (W & (tp & GT & Cn) & PV & L & M & AP).
  apply (serialises_if_wf m i c g tp); assumption.
Qed.

Lemma ser_hyps_of_parts : forall m g',
  node_graph g' -> connectedP g' -> triples g' <> [] ->
  roles_invertible m g' -> NoDup (map tkey (triples g')) ->
  pushes_name_variables g' -> atoms_lexable g' = true -> wf_meta (gmeta g') = true ->
  entries_ok printableP (epidata g') -> nums_plain g' = true -> ser_hyps m g'.
Proof.
  intros m g' NG CP NE RI ND PV L M EP NP.
  pose proof (node_graph_wf m g' NG NE RI ND) as W.
  destruct (wf_graph_top m g' W) as [tp GT].
  split; [exact W|]. split; [exists tp; split; [exact GT|apply connectedP_connected; auto]|].
  repeat (split; [assumption|]). split; [|exact NP]. apply epidata_printable_entries. exact EP.
Qed.

Theorem reify_edges_keeps : forall m g g',
  table_inst_free m = true -> table_reify_ok m = true ->
  ser_hyps m g -> reify_edges m g = Ok g' -> ser_hyps m g'.
Proof.
  intros m g g' TI TR (W & (tp & GT & Cn) & PV & L & M & EP & NP) H.
  pose proof (wf_node_graph_m m g W L) as NG.
  pose proof (connected_connectedP g tp GT Cn) as CP.
  pose proof (reify_edges_node_graph m g g' NG TI H) as NG'.
  pose proof (reify_edges_connected m g g' NG TI CP H) as CP'.
  apply reify_edges_pure in H. destruct H as (vs & NM & LN & ->).
  apply ser_hyps_of_parts; auto.
  - apply re_nonempty; auto. apply (wf_nonempty m g W).
  - apply re_invertible; auto. apply (wf_invertible m g W).
  - apply re_distinct; auto. apply (wf_distinct m g W).
  - apply re_pushes; auto.
  - apply re_lexable; auto.
  - apply re_printable; auto. apply epidata_printable_entries. exact EP.
  - apply (re_nums m); auto.
Qed.

Theorem reify_attributes_keeps : forall m g g',
  ser_hyps m g -> reify_attributes g = Ok g' -> ser_hyps m g'.
Proof.
  intros m g g' (W & (tp & GT & Cn) & PV & L & M & EP & NP) H.
  pose proof (wf_node_graph_m m g W L) as NG.
  pose proof (connected_connectedP g tp GT Cn) as CP.
  pose proof (reify_attributes_node_graph g g' NG H) as NG'.
  pose proof (reify_attributes_connected g g' NG CP H) as CP'.
  apply reify_attributes_pure in H. destruct H as (vs & NM & LN & ->).
  apply ser_hyps_of_parts; auto.
  - apply ra_nonempty; auto. apply (wf_nonempty m g W).
  - apply ra_invertible; auto. apply (wf_invertible m g W).
  - apply ra_distinct; auto. apply (wf_distinct m g W).
  - apply ra_pushes; auto.
  - apply ra_lexable; auto.
  - apply ra_printable; auto. apply epidata_printable_entries. exact EP.
  - apply ra_nums; auto.
Qed.

Lemma ind_class : forall m g, node_graph g -> atoms_lexable g = true -> top_role_ok m = true ->
  forall t', In t' (triples (mk_graph (itriples m g (triples g)) (graph_top g) (epidata g) (gmeta g))) ->
    lex_var (tsrc t') = true /\ lex_role (trole t') = true /\
    (lex_var (ttgt t') = true \/ (exists s, ttgt t' = AStr s /\ lex_text s = true) \/
     exists t, In t (triples g) /\ ttgt t' = ttgt t).
Proof.
  intros m g NG L TR t' I. rewrite (ind_triples m g NG TR) in I. destruct (top_role_facts m TR) as (T1 & _).
  destruct (itriples_cases _ _ _ _ I) as [I0|(t0 & I0 & [->|[-> V]])].
  + destruct (lexable_triple g t' L I0) as (A & B & _). repeat split; auto. right. right. eauto.
  + destruct (lexable_triple g t0 L I0) as (A & _). rewrite tsrc_mk, trole_mk, ttgt_mk.
    repeat split; auto. right. right. eauto.
  + destruct (lexable_triple g t0 L I0) as (A & _). rewrite tsrc_mk, trole_mk, ttgt_mk.
    repeat split; auto. apply (var_lex_var g); auto.
Qed.

Theorem indicate_branches_keeps : forall m g g', top_role_ok m = true ->
  ser_hyps m g -> indicate_branches m g = Ok g' -> NoDup (map tkey (triples g')) -> ser_hyps m g'.
Proof.
  intros m g g' TR (W & (tp & GT & Cn) & PV & L & M & EP & NP) H ND.
  pose proof (wf_node_graph_m m g W L) as NG.
  pose proof (connected_connectedP g tp GT Cn) as CP.
  destruct (top_role_facts m TR) as (_ & _ & T3 & _).
  pose proof (indicate_branches_node_graph m g g' NG T3 H) as NG'.
  pose proof (indicate_branches_connected m g g' NG T3 CP H) as CP'.
  rewrite indicate_branches_pure in H by (apply node_graph_vars_str; exact NG).
  inversion H; subst g'. clear H.
  apply ser_hyps_of_parts; auto.
  - apply ind_nonempty; auto. apply (wf_nonempty m g W).
  - apply ind_invertible; auto. apply (wf_invertible m g W).
  - apply ind_pushes; auto.
  - apply ind_lexable; auto.
  - cbn [mk_graph epidata]. apply epidata_printable_entries. exact EP.
  - apply (nums_plain_transfer g _ NP). apply ind_class; auto.
Qed.

Theorem dereify_edges_keeps : forall m g g',
  table_inst_free m = true -> table_dereify_ok m = true ->
  ser_hyps m g -> dereify_edges m g = Ok g' ->
  NoDup (map tkey (triples g')) -> pushes_name_variables g' -> epidata_printable g' = true ->
  ser_hyps m g'.
Proof.
  intros m g g' TI TD (W & (tp & GT & Cn) & _ & L & M & _ & NP) H ND PV EP.
  pose proof (wf_node_graph_m m g W L) as NG.
  pose proof (connected_connectedP g tp GT Cn) as CP.
  pose proof (dereify_edges_node_graph m g g' NG TI H) as NG'.
  pose proof (dereify_edges_connected m g g' NG TI CP H) as CP'.
  apply dereify_edges_pure in H. destruct H as (ag & AG & ->).
  apply ser_hyps_of_parts; auto.
  - apply (de_nonempty m); auto. apply (wf_nonempty m g W).
  - apply de_invertible; auto. apply (wf_invertible m g W).
  - apply (de_lexable m); auto.
  - apply epidata_printable_entries. exact EP.
  - apply (nums_plain_transfer g _ NP). intros t' I. rewrite (de_triples m g ag NG TD AG) in I.
    destruct (dtriples_cases _ _ _ I) as [[I0 _]|(v & first & epis & G)].
    + destruct (lexable_triple g t' L I0) as (A & B & _). repeat split; auto. right. right. eauto.
    + destruct (agenda_entry_shape m g ag v first t' epis AG G) as (A & _ & (t & It & Et)).
      destruct (de_role m g ag TD AG _ _ _ _ G) as (B & _).
      repeat split; auto; [apply (var_lex_var g); auto|]. right. right. eauto.
Qed.

(* every program made of the two reifications, of any length and order *)
Definition reify_only (prog : list xform) : bool :=
  forallb (fun x => match x with XReifyEdges | XReifyAttributes => true | _ => false end) prog.

Theorem reify_program_keeps : forall m prog g,
  table_inst_free m = true -> table_reify_ok m = true -> reify_only prog = true ->
  ser_hyps m g -> exists g', run_xforms m prog g = Ok g' /\ ser_hyps m g'.
Proof.
  intros m prog. induction prog as [|x prog IH]; intros g TI TR RO H.
  - exists g. split; [reflexivity|exact H].
  - cbn [reify_only forallb] in RO. apply andb_true_iff in RO. destruct RO as [RX RO].
    destruct x; try discriminate RX; cbn [run_xforms apply_xform].
    + destruct (reify_edges_total m g) as [g1 E]. rewrite E. cbn [bind].
      apply IH; auto. eapply reify_edges_keeps; eauto.
    + destruct (reify_attributes_total g) as [g1 E]. rewrite E. cbn [bind].
      apply IH; auto. eapply reify_attributes_keeps; eauto.
Qed.

(* boolean form of the bundle, for concrete graphs *)
Definition ser_hyps_b (m : model) (g : graph) : bool :=
  serialisable_b m g && epidata_printable g && nums_plain g.

Lemma ser_hyps_b_sound : forall m g, ser_hyps_b m g = true -> ser_hyps m g.
Proof.
  intros m g H. unfold ser_hyps_b in H. apply andb_true_iff in H. destruct H as [H NP].
  apply andb_true_iff in H. destruct H as [H EP].
  destruct (serialisable_b_sound m g H) as (W & T & PV & L & M & _).
  repeat (split; [assumption|]). exact NP.
Qed.

(* dump: the stream receives the dumps text and a final line feed *)
Theorem dump_text_unconditional : forall m i c gs, deinverts m = true ->
  (forall g, In g gs -> e2e_hyps m g) ->
  exists ss, encode_all m i c gs = Ok ss /\
    dump_text m i c gs = (match ss with [] => [] | _ => join BLANKLINE ss ++ [10%N] end, Ok tt).
Proof.
  intros m i c gs Dm H. destruct (dumps_loads_decode_all m i c gs Dm H) as (ss & E & _).
  exists ss. split; [exact E|]. apply dump_text_ok. exact E.
Qed.
