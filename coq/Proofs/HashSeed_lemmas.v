(** C17, theorem family: results do not depend on the iteration order of
    Python sets (i.e. on PYTHONHASHSEED).

    Four places of the Python iterate a set, or build a dict from one:
      1. layout._configure: the nodemap is a dict comprehension over the set g.variables();
      2. Graph.__isub__: the loop deleting epidata entries runs over the set removed;
      3. Model.errors: the loop over unreachable is made deterministic by sorted(...);
      4. Graph.variables() itself returns a set.
    Each is modelled here with an ARBITRARY enumeration of the set (a list up to
    Permutation) and the result is proved independent of the enumeration.

    Self-contained: only Base and Impl files are imported. *)
From PM Require Import Impl.Configure Impl.GraphOps Impl.Errors.
From Coq Require Import Lia Permutation Sorted.

(* ------------------------------------------------------------------ *)
(** * Key equalities are equivalence relations *)

Lemma hs_str_eqb_eq : forall a b, str_eqb a b = true <-> a = b.
Proof.
  induction a as [|x a IH]; intros [|y b]; simpl; split; intro E;
    try reflexivity; try discriminate.
  - apply andb_true_iff in E. destruct E as [E1 E2].
    apply N.eqb_eq in E1. apply IH in E2. subst. reflexivity.
  - inversion E; subst. rewrite N.eqb_refl. simpl. apply IH. reflexivity.
Qed.

Lemma hs_str_eqb_refl : forall a, str_eqb a a = true.
Proof. intros a. apply hs_str_eqb_eq. reflexivity. Qed.

Lemma hs_str_eqb_sym : forall a b, str_eqb a b = str_eqb b a.
Proof.
  intros a b. destruct (str_eqb a b) eqn:E1, (str_eqb b a) eqn:E2; try reflexivity.
  - apply hs_str_eqb_eq in E1. subst. rewrite hs_str_eqb_refl in E2. discriminate.
  - apply hs_str_eqb_eq in E2. subst. rewrite hs_str_eqb_refl in E1. discriminate.
Qed.

Lemma hs_str_eqb_trans : forall a b c,
  str_eqb a b = true -> str_eqb b c = true -> str_eqb a c = true.
Proof.
  intros a b c E1 E2. apply hs_str_eqb_eq in E1. apply hs_str_eqb_eq in E2.
  subst. apply hs_str_eqb_refl.
Qed.

(* atom_eqb compares a number by its text only: an equivalence, not Leibniz equality *)
Lemma hs_atom_eqb_refl : forall a, atom_eqb a a = true.
Proof. intros [|s|t z]; simpl; auto using hs_str_eqb_refl. Qed.

Lemma hs_atom_eqb_sym : forall a b, atom_eqb a b = atom_eqb b a.
Proof. intros [|s|t z] [|s'|t' z']; simpl; auto using hs_str_eqb_sym. Qed.

Lemma hs_atom_eqb_trans : forall a b c,
  atom_eqb a b = true -> atom_eqb b c = true -> atom_eqb a c = true.
Proof.
  intros [|s|t z] [|s'|t' z'] [|s''|t'' z'']; simpl; intros E1 E2;
    try discriminate; try reflexivity; eapply hs_str_eqb_trans; eassumption.
Qed.

Lemma hs_triple_eqb_refl : forall t, triple_eqb t t = true.
Proof.
  intros t. unfold triple_eqb.
  rewrite !hs_atom_eqb_refl, hs_str_eqb_refl. reflexivity.
Qed.

Lemma hs_triple_eqb_sym : forall a b, triple_eqb a b = triple_eqb b a.
Proof.
  intros a b. unfold triple_eqb.
  rewrite (hs_atom_eqb_sym (tsrc a)), (hs_atom_eqb_sym (ttgt a)), (hs_str_eqb_sym (trole a)).
  reflexivity.
Qed.

Lemma hs_triple_eqb_trans : forall a b c,
  triple_eqb a b = true -> triple_eqb b c = true -> triple_eqb a c = true.
Proof.
  intros a b c E1 E2. unfold triple_eqb in *.
  apply andb_true_iff in E1. destruct E1 as [E1 E1c].
  apply andb_true_iff in E1. destruct E1 as [E1a E1b].
  apply andb_true_iff in E2. destruct E2 as [E2 E2c].
  apply andb_true_iff in E2. destruct E2 as [E2a E2b].
  rewrite (hs_atom_eqb_trans _ _ _ E1a E2a), (hs_str_eqb_trans _ _ _ E1b E2b),
          (hs_atom_eqb_trans _ _ _ E1c E2c). reflexivity.
Qed.

(* ------------------------------------------------------------------ *)
(** * Dictionaries and membership lists up to an equivalence on keys *)

Section KeyEquiv.
  Context {K : Type} (keq : K -> K -> bool).
  Hypothesis keq_sym : forall a b, keq a b = keq b a.
  Hypothesis keq_trans : forall a b c, keq a b = true -> keq b c = true -> keq a c = true.

  Lemma keq_congr_l : forall a b x, keq a b = true -> keq a x = keq b x.
  Proof.
    intros a b x E. destruct (keq a x) eqn:E1, (keq b x) eqn:E2; try reflexivity.
    - rewrite keq_sym in E. rewrite (keq_trans _ _ _ E E1) in E2. discriminate.
    - rewrite (keq_trans _ _ _ E E2) in E1. discriminate.
  Qed.

  Lemma keq_congr_r : forall a b x, keq a b = true -> keq x a = keq x b.
  Proof.
    intros a b x E. rewrite (keq_sym x a), (keq_sym x b). apply keq_congr_l. exact E.
  Qed.

  (** ** membership in a list enumerating a set *)

  Lemma mem_in : forall a l, mem keq a l = true <-> exists x, In x l /\ keq a x = true.
  Proof. intros a l. unfold mem. apply existsb_exists. Qed.

  Lemma mem_perm : forall a l l', Permutation l l' -> mem keq a l = mem keq a l'.
  Proof.
    intros a l l' P. unfold mem.
    induction P as [|x l l' P IH|x y l|l l' l'' P1 IH1 P2 IH2]; simpl.
    - reflexivity.
    - rewrite IH. reflexivity.
    - destruct (keq a y), (keq a x); reflexivity.
    - congruence.
  Qed.

  Lemma mem_app : forall a l1 l2, mem keq a (l1 ++ l2) = mem keq a l1 || mem keq a l2.
  Proof. intros a l1 l2. unfold mem. apply existsb_app. Qed.

  Lemma mem_rev : forall a l, mem keq a (rev l) = mem keq a l.
  Proof. intros a l. apply mem_perm. apply Permutation_sym, Permutation_rev. Qed.

  Lemma mem_congr : forall a b l, keq a b = true -> mem keq a l = mem keq b l.
  Proof.
    intros a b l E. unfold mem. induction l as [|x l IH]; simpl; [reflexivity|].
    rewrite IH, (keq_congr_l a b x E). reflexivity.
  Qed.

  Lemma mem_dedup_acc : forall a l acc,
    mem keq a (dedup_acc keq l acc) = mem keq a acc || mem keq a l.
  Proof.
    intros a l. induction l as [|x l IH]; intros acc; simpl.
    - rewrite mem_rev, orb_false_r. reflexivity.
    - destruct (mem keq x acc) eqn:M; rewrite IH.
      + destruct (keq a x) eqn:E; simpl; [|reflexivity].
        rewrite (mem_congr a x acc E), M. reflexivity.
      + change (mem keq a (x :: acc)) with (keq a x || mem keq a acc).
        change (existsb (keq a) l) with (mem keq a l).
        destruct (keq a x), (mem keq a acc), (mem keq a l); reflexivity.
  Qed.

  Lemma mem_dedup : forall a l, mem keq a (dedup keq l) = mem keq a l.
  Proof. intros a l. unfold dedup. rewrite mem_dedup_acc. reflexivity. Qed.

  (** ** dictionaries *)
  Context {V : Type}.

  (* the characteristic equation of d[k'] = v *)
  Lemma dget_dset : forall (k k' : K) (v : V) (d : dict K V),
    dget keq k (dset keq k' v d) = if keq k k' then Some v else dget keq k d.
  Proof.
    intros k k' v d. induction d as [|[k0 v0] d IH]; simpl.
    - reflexivity.
    - destruct (keq k' k0) eqn:E0; simpl.
      + rewrite (keq_congr_r k' k0 k E0). destruct (keq k k0); reflexivity.
      + rewrite IH. destruct (keq k k0) eqn:E1; [|reflexivity].
        destruct (keq k k') eqn:E2; [|reflexivity].
        rewrite keq_sym in E2. rewrite (keq_trans _ _ _ E2 E1) in E0. discriminate.
  Qed.

  (* two dicts with the same lookups (possibly different key order) *)
  Definition deqv (d d' : dict K V) : Prop := forall k, dget keq k d = dget keq k d'.

  Lemma deqv_refl : forall d, deqv d d.
  Proof. intros d k. reflexivity. Qed.

  Lemma dset_deqv : forall k v d d', deqv d d' -> deqv (dset keq k v d) (dset keq k v d').
  Proof. intros k v d d' H x. rewrite !dget_dset, (H x). reflexivity. Qed.

  Lemma dmem_deqv : forall k d d', deqv d d' -> dmem keq k d = dmem keq k d'.
  Proof. intros k d d' H. unfold dmem. rewrite (H k). reflexivity. Qed.

  (* dict comprehension {x: c for x in l} read by lookups: only membership matters *)
  Lemma dget_const_map : forall (c : V) k l,
    dget keq k (map (fun x => (x, c)) l) = if mem keq k l then Some c else None.
  Proof.
    intros c k l. induction l as [|x l IH]; simpl; [reflexivity|].
    destruct (keq k x); simpl; [reflexivity|]. exact IH.
  Qed.

  Lemma const_map_perm : forall (c : V) l l', Permutation l l' ->
    deqv (map (fun x => (x, c)) l) (map (fun x => (x, c)) l').
  Proof. intros c l l' P k. rewrite !dget_const_map, (mem_perm k l l' P). reflexivity. Qed.

  (** ** deletions commute *)

  Lemma ddel_congr : forall a b (d : dict K V), keq a b = true -> ddel keq a d = ddel keq b d.
  Proof.
    intros a b d E. induction d as [|[k0 v0] d IH]; simpl; [reflexivity|].
    rewrite (keq_congr_l a b k0 E), IH. reflexivity.
  Qed.

  Lemma ddel_comm : forall a b (d : dict K V),
    ddel keq a (ddel keq b d) = ddel keq b (ddel keq a d).
  Proof.
    intros a b d. induction d as [|[k0 v0] d IH]; simpl; [reflexivity|].
    destruct (keq b k0) eqn:Eb, (keq a k0) eqn:Ea; simpl; rewrite ?Ea, ?Eb.
    - apply ddel_congr. rewrite keq_sym in Eb. exact (keq_trans _ _ _ Ea Eb).
    - reflexivity.
    - reflexivity.
    - rewrite IH. reflexivity.
  Qed.

  Lemma fold_ddel_perm : forall l l', Permutation l l' -> forall d : dict K V,
    fold_left (fun d k => ddel keq k d) l d = fold_left (fun d k => ddel keq k d) l' d.
  Proof.
    intros l l' P. induction P as [|x l l' P IH|x y l|l l' l'' P1 IH1 P2 IH2]; intros d; simpl.
    - reflexivity.
    - apply IH.
    - rewrite ddel_comm. reflexivity.
    - rewrite IH1. apply IH2.
  Qed.

  Lemma ddel_absent : forall k (d : dict K V), dmem keq k d = false -> ddel keq k d = d.
  Proof.
    intros k d. unfold dmem. induction d as [|[k0 v0] d IH]; simpl; [reflexivity|].
    destruct (keq k k0); [discriminate|]. intros H. rewrite (IH H). reflexivity.
  Qed.

  (* the guarded form [if k in d: del d[k]] is the same function *)
  Lemma guarded_ddel : forall k (d : dict K V),
    (if dmem keq k d then ddel keq k d else d) = ddel keq k d.
  Proof.
    intros k d. destruct (dmem keq k d) eqn:M; [reflexivity|].
    symmetry. apply ddel_absent. exact M.
  Qed.

  Lemma fold_guarded_ddel : forall l (d : dict K V),
    fold_left (fun e t => if dmem keq t e then ddel keq t e else e) l d
    = fold_left (fun d k => ddel keq k d) l d.
  Proof.
    induction l as [|x l IH]; intros d; simpl; [reflexivity|].
    rewrite guarded_ddel. apply IH.
  Qed.
End KeyEquiv.

(* ------------------------------------------------------------------ *)
(** * 2. Graph.__isub__: the loop over the set [removed] *)

Lemma epidata_deletion_order_independent : forall (V : Type) (l l' : list triple) (d : dict triple V),
  Permutation l l' ->
  fold_left (fun d k => ddel triple_eqb k d) l d = fold_left (fun d k => ddel triple_eqb k d) l' d.
Proof.
  intros V l l' d P.
  apply (fold_ddel_perm triple_eqb hs_triple_eqb_sym hs_triple_eqb_trans l l' P).
Qed.

(* the same for the loop exactly as written in Impl/GraphOps.v ([if t in epidata: del]) *)
Lemma isub_epidata_order_independent : forall l l' ed, Permutation l l' ->
  isub_epidata l ed = isub_epidata l' ed.
Proof.
  intros l l' ed P. unfold isub_epidata.
  rewrite !(fold_guarded_ddel triple_eqb). apply epidata_deletion_order_independent. exact P.
Qed.

Lemma isub_order_independent : forall l l' a b, Permutation l l' ->
  g_isub_ord l a b = g_isub_ord l' a b.
Proof.
  intros l l' a b P. unfold g_isub_ord.
  rewrite (isub_epidata_order_independent l l' _ P). reflexivity.
Qed.

(* ------------------------------------------------------------------ *)
(** * 4. Graph.variables(): only membership is defined by the graph *)

Lemma mem_map_tsrc : forall a ts,
  mem atom_eqb a (map tsrc ts) = existsb (fun t => atom_eqb a (tsrc t)) ts.
Proof.
  intros a ts. unfold mem. induction ts as [|t ts IH]; simpl; [reflexivity|].
  rewrite IH. reflexivity.
Qed.

Lemma variables_membership : forall g a,
  mem atom_eqb a (variables g)
  = existsb (fun t => atom_eqb a (tsrc t)) (triples g)
    || match gtop g with Some t => atom_eqb a t | None => false end.
Proof.
  intros g a. unfold variables.
  rewrite (mem_dedup atom_eqb hs_atom_eqb_sym hs_atom_eqb_trans).
  rewrite mem_app, mem_map_tsrc. destruct (gtop g) as [t|]; simpl.
  - rewrite orb_false_r. reflexivity.
  - reflexivity.
Qed.

Lemma mem_atom_perm : forall a l l', Permutation l l' -> mem atom_eqb a l = mem atom_eqb a l'.
Proof. intros a l l'. apply mem_perm. Qed.

(* any enumeration of the variable set: a list with the same members *)
Lemma variables_membership_only : forall g a,
  (mem atom_eqb a (variables g)
   = existsb (fun t => atom_eqb a (tsrc t)) (triples g)
     || match gtop g with Some t => atom_eqb a t | None => false end)
  /\ (forall vars, Permutation (variables g) vars ->
        mem atom_eqb a vars = mem atom_eqb a (variables g)).
Proof.
  intros g a. split; [apply variables_membership|].
  intros vars P. symmetry. apply mem_atom_perm. exact P.
Qed.

(* ------------------------------------------------------------------ *)
(** * 3. Model.errors: sorted(unreachable) is canonical *)

Ltac nconv :=
  repeat match goal with
  | H : N.ltb _ _ = true |- _ => apply N.ltb_lt in H
  | H : N.ltb _ _ = false |- _ => apply N.ltb_ge in H
  | H : N.eqb _ _ = true |- _ => apply N.eqb_eq in H
  | H : N.eqb _ _ = false |- _ => apply N.eqb_neq in H
  end.

(* str_ltb (code point lexicographic order, Python's < on str) is a strict total order *)
Lemma str_ltb_irrefl : forall a, str_ltb a a = false.
Proof.
  induction a as [|x a IH]; simpl; [reflexivity|].
  rewrite N.ltb_irrefl, N.eqb_refl. exact IH.
Qed.

Lemma str_ltb_trans : forall a b c,
  str_ltb a b = true -> str_ltb b c = true -> str_ltb a c = true.
Proof.
  induction a as [|x a IH]; intros [|y b] [|z c]; simpl; intros H1 H2;
    try discriminate; try reflexivity.
  destruct (N.ltb x y) eqn:Lxy; destruct (N.eqb x y) eqn:Exy;
  destruct (N.ltb y z) eqn:Lyz; destruct (N.eqb y z) eqn:Eyz;
  destruct (N.ltb x z) eqn:Lxz; destruct (N.eqb x z) eqn:Exz;
    try discriminate; try reflexivity; nconv; try lia.
  eapply IH; eassumption.
Qed.

Lemma str_ltb_total : forall a b, str_ltb a b = false -> str_ltb b a = false -> a = b.
Proof.
  induction a as [|x a IH]; intros [|y b]; simpl; intros H1 H2;
    try discriminate; try reflexivity.
  destruct (N.ltb x y) eqn:Lxy; destruct (N.eqb x y) eqn:Exy;
  destruct (N.ltb y x) eqn:Lyx; destruct (N.eqb y x) eqn:Eyx;
    try discriminate; nconv; try lia.
  subst. f_equal. apply IH; assumption.
Qed.

Lemma str_ltb_asym : forall a b, str_ltb a b = true -> str_ltb b a = false.
Proof.
  intros a b H. destruct (str_ltb b a) eqn:E; [|reflexivity].
  rewrite <- (str_ltb_irrefl a). symmetry. exact (str_ltb_trans a b a H E).
Qed.

(* a <= b, i.e. str_leb a b = true *)
Definition sle (a b : str) : Prop := str_ltb b a = false.

Lemma sle_str_leb : forall a b, sle a b <-> str_leb a b = true.
Proof.
  intros a b. unfold sle, str_leb. destruct (str_ltb b a); simpl; split; congruence.
Qed.

Lemma sle_trans : forall a b c, sle a b -> sle b c -> sle a c.
Proof.
  unfold sle. intros a b c H1 H2. destruct (str_ltb c a) eqn:E; [|reflexivity].
  destruct (str_ltb b c) eqn:E2.
  - rewrite (str_ltb_trans b c a E2 E) in H1. discriminate.
  - assert (c = b) by (apply str_ltb_total; assumption). subst. congruence.
Qed.

Lemma sle_antisym : forall a b, sle a b -> sle b a -> a = b.
Proof. unfold sle. intros a b H1 H2. apply str_ltb_total; assumption. Qed.

(* sorted(l) on strings: insertion sort (same shape as Impl.Errors.sort_atoms) *)
Fixpoint sinsert (x : str) (l : list str) : list str :=
  match l with
  | [] => [x]
  | y :: l' => if str_ltb x y then x :: l else y :: sinsert x l'
  end.
Definition isort (l : list str) : list str := fold_right sinsert [] l.

Lemma sinsert_perm : forall x l, Permutation (sinsert x l) (x :: l).
Proof.
  intros x l. induction l as [|y l IH]; simpl; [apply Permutation_refl|].
  destruct (str_ltb x y); [apply Permutation_refl|].
  eapply perm_trans; [apply perm_skip; exact IH | apply perm_swap].
Qed.

Lemma isort_perm : forall l, Permutation (isort l) l.
Proof.
  induction l as [|x l IH]; simpl; [apply perm_nil|].
  eapply perm_trans; [apply sinsert_perm | apply perm_skip; exact IH].
Qed.

Lemma sinsert_sorted : forall x l,
  StronglySorted sle l -> StronglySorted sle (sinsert x l).
Proof.
  intros x l. induction l as [|y l IH]; intros S; simpl.
  - constructor; constructor.
  - inversion S as [|y' l' S' F]; subst.
    destruct (str_ltb x y) eqn:E.
    + constructor; [exact S|]. constructor.
      * unfold sle. apply str_ltb_asym. exact E.
      * apply Forall_forall. intros z Hz.
        apply (sle_trans x y z); [unfold sle; apply str_ltb_asym; exact E|].
        rewrite Forall_forall in F. apply F. exact Hz.
    + constructor; [apply IH; exact S'|].
      apply (Permutation_Forall (Permutation_sym (sinsert_perm x l))).
      constructor; [exact E | exact F].
Qed.

Lemma isort_sorted : forall l, StronglySorted sle (isort l).
Proof.
  induction l as [|x l IH]; simpl; [constructor|]. apply sinsert_sorted. exact IH.
Qed.

Lemma sorted_perm_unique : forall l l',
  StronglySorted sle l -> StronglySorted sle l' -> Permutation l l' -> l = l'.
Proof.
  induction l as [|a l IH]; intros [|b l'] S S' P.
  - reflexivity.
  - apply Permutation_nil in P. discriminate.
  - apply Permutation_sym, Permutation_nil in P. discriminate.
  - inversion S as [|a0 l0 S0 F]; subst. inversion S' as [|b0 l0' S0' F']; subst.
    assert (E : a = b).
    { assert (Ia : In a (b :: l')) by (apply (Permutation_in a P); left; reflexivity).
      assert (Ib : In b (a :: l))
        by (apply (Permutation_in b (Permutation_sym P)); left; reflexivity).
      destruct Ia as [Ia|Ia]; [congruence|]. destruct Ib as [Ib|Ib]; [congruence|].
      rewrite Forall_forall in F, F'. apply sle_antisym; [apply F; exact Ib | apply F'; exact Ia]. }
    subst b. f_equal. apply IH; [exact S0 | exact S0' |].
    exact (Permutation_cons_inv P).
Qed.

Lemma sorted_is_canonical : forall l l', Permutation l l' -> isort l = isort l'.
Proof.
  intros l l' P. apply sorted_perm_unique; try apply isort_sorted.
  eapply perm_trans; [apply isort_perm|].
  eapply perm_trans; [exact P|]. apply Permutation_sym, isort_perm.
Qed.

(* link to the model of Model.errors: on str variables (the domain of Impl.Errors,
   see its header) sort_atoms IS isort *)
Lemma insert_sorted_AStr : forall x l,
  insert_sorted (AStr x) (map AStr l) = map AStr (sinsert x l).
Proof.
  intros x l. induction l as [|y l IH]; simpl; [reflexivity|].
  destruct (str_ltb x y); simpl; [reflexivity|]. rewrite IH. reflexivity.
Qed.

Lemma sort_atoms_AStr : forall l, sort_atoms (map AStr l) = map AStr (isort l).
Proof.
  unfold sort_atoms. induction l as [|x l IH]; simpl; [reflexivity|].
  rewrite IH. apply insert_sorted_AStr.
Qed.

Lemma sort_atoms_canonical : forall l l', Permutation l l' ->
  sort_atoms (map AStr l) = sort_atoms (map AStr l').
Proof.
  intros l l' P. rewrite !sort_atoms_AStr, (sorted_is_canonical l l' P). reflexivity.
Qed.

(* ------------------------------------------------------------------ *)
(** * 1. layout._configure: nodemap = {var: None for var in g.variables()} *)

(* Impl.Configure.configure with the enumeration of the variable set made a parameter *)
Definition configure_ord (m : model) (g : graph) (top : option atom) (vars : list atom)
  : outcome tree :=
  match triples g with
  | [] => Ok (mkTree (Node (match graph_top g with Some t => t | None => ANone end) []) (gmeta g))
  | _ =>
      match (match top with Some t => Some t | None => graph_top g end) with
      | None => LayoutErr 4
      | Some top =>
          if negb (mem atom_eqb top vars) then LayoutErr 4
          else
            let nm : nmap := dset atom_eqb top (Some O) (map (fun v => (v, None)) vars) in
            let st : store := [(top, [])] in
            let data := preconf m (triples g) (epidata g) [] in
            r <- cnode (S (length data)) m top O false data st nm ;;
            let '(_, data1, st1, nm1) := r in
            st2 <- cloop (configure_fuel (length data1)) m (drop_pops data1) [] st1 nm1 ;;
            Ok (mkTree (build (S (length st2)) st2 O) (gmeta g))
      end
  end.

Lemma configure_ord_variables : forall m g top,
  configure_ord m g top (variables g) = configure m g top.
Proof. reflexivity. Qed.

(* nodemaps with the same lookups *)
Definition nmeq (nm nm' : nmap) : Prop := deqv atom_eqb nm nm'.

Lemma nm_dset : forall k v nm nm', nmeq nm nm' ->
  nmeq (dset atom_eqb k v nm) (dset atom_eqb k v nm').
Proof. intros k v nm nm'. apply (dset_deqv atom_eqb hs_atom_eqb_sym hs_atom_eqb_trans). Qed.

(* outcomes related: both Ok with related values, or the same non-Ok outcome *)
Definition is_ok {A} (x : outcome A) : bool := match x with Ok _ => true | _ => false end.
Inductive orel {A} (R : A -> A -> Prop) : outcome A -> outcome A -> Prop :=
| orel_ok : forall a b, R a b -> orel R (Ok a) (Ok b)
| orel_err : forall x, is_ok x = false -> orel R x x.

Definition cres := (bool * list datum * store * nmap)%type.
(* equal in every component but the nodemap, which is related *)
Definition cres_rel (a b : cres) : Prop := fst a = fst b /\ nmeq (snd a) (snd b).

Lemma has_node_nmeq : forall v st nm nm', nmeq nm nm' -> has_node v st nm = has_node v st nm'.
Proof. intros v st nm nm' H. unfold has_node. rewrite (H v). reflexivity. Qed.

Lemma claim_nmeq : forall t v nm nm', nmeq nm nm' ->
  nmeq (match dget atom_eqb t nm with Some None => dset atom_eqb t v nm | _ => nm end)
       (match dget atom_eqb t nm' with Some None => dset atom_eqb t v nm' | _ => nm' end).
Proof.
  intros t v nm nm' H. rewrite <- (H t).
  destruct (dget atom_eqb t nm) as [[i|]|]; try exact H. apply nm_dset. exact H.
Qed.

Lemma cnode_nmeq : forall f m var id surp data st nm nm', nmeq nm nm' ->
  orel cres_rel (cnode f m var id surp data st nm) (cnode f m var id surp data st nm').
Proof.
  induction f as [|f IH]; intros m var id surp data st nm nm' H.
  - simpl. apply orel_err. reflexivity.
  - simpl. destruct data as [|[t push es|] data'].
    + apply orel_ok. split; [reflexivity | exact H].
    + match goal with
      | |- orel _ (match ?p with _ => _ end) _ => destruct p as [[[[role target] push'] surp']|]
      end.
      2:{ apply orel_ok. split; [reflexivity | exact H]. }
      destruct (str_eqb role INSTANCE).
      { destruct (missing_concept target); apply IH; exact H. }
      rewrite (has_node_nmeq target st nm nm' H).
      destruct (push' && negb (has_node target st nm')).
      * match goal with
        | |- orel _ (match ?cx with _ => _ end) (match ?cy with _ => _ end) =>
            assert (C : orel cres_rel cx cy) by (apply IH; apply nm_dset; exact H);
            destruct C as [[[[s2 d2] st2] nm2] [[[s2' d2'] st2'] nm2'] [C1 C2] | xo Hx]
        end.
        -- simpl in C1, C2. inversion C1; subst. apply IH. exact C2.
        -- destruct xo; try discriminate; apply orel_err; reflexivity.
      * apply IH. apply claim_nmeq. exact H.
    + apply orel_ok. split; [reflexivity | exact H].
Qed.

Definition sres_rel {A} (a b : A * nmap) : Prop := fst a = fst b /\ nmeq (snd a) (snd b).

Lemma site_nmeq : forall var st nm nm', nmeq nm nm' ->
  sres_rel (site var st nm) (site var st nm').
Proof.
  intros var st nm nm' H. unfold site, sres_rel. rewrite <- (H var).
  destruct (dget atom_eqb var nm) as [[id|]|]; simpl; auto.
  destruct (nth_error st id) as [[v' es]|]; simpl; auto.
  destruct (atom_eqb var v'); simpl; auto.
  split; [reflexivity|]. apply nm_dset. exact H.
Qed.

Definition try_site (v : atom) (st : store) (nm : nmap) : bool * store * nmap :=
  if dmem atom_eqb v nm then site v st nm else (false, st, nm).

Lemma try_site_nmeq : forall v st nm nm', nmeq nm nm' ->
  sres_rel (try_site v st nm) (try_site v st nm').
Proof.
  intros v st nm nm' H. unfold try_site.
  rewrite <- (dmem_deqv atom_eqb v nm nm' H).
  destruct (dmem atom_eqb v nm); [apply site_nmeq; exact H|].
  split; [reflexivity | exact H].
Qed.

Lemma find_next_DT : forall t p es data' acc st nm,
  find_next (DT t p es :: data') acc st nm =
  let '(ok1, st1, nm1) := try_site (tsrc t) st nm in
  if ok1 then (acc, Some (tsrc t), DT t p es :: data', st1, nm1)
  else
    let '(ok2, st2, nm2) := try_site (ttgt t) st nm in
    if ok2 then (acc, Some (ttgt t), DT t p es :: data', st2, nm2)
    else match data' with
         | [] => (acc, None, DT t p es :: data', st, nm)
         | _ => find_next data' (DT t p es :: acc) st nm
         end.
Proof. reflexivity. Qed.

Lemma find_next_nmeq : forall data acc st nm nm', nmeq nm nm' ->
  sres_rel (find_next data acc st nm) (find_next data acc st nm').
Proof.
  induction data as [|d data' IH]; intros acc st nm nm' H.
  - split; [reflexivity | exact H].
  - destruct d as [t p es|].
    + rewrite !find_next_DT.
      pose proof (try_site_nmeq (tsrc t) st nm nm' H) as [A1 A2].
      destruct (try_site (tsrc t) st nm) as [[ok1 st1] nm1].
      destruct (try_site (tsrc t) st nm') as [[ok1' st1'] nm1'].
      simpl in A1, A2. inversion A1; subst ok1' st1'.
      destruct ok1; [split; [reflexivity | exact A2]|].
      pose proof (try_site_nmeq (ttgt t) st nm nm' H) as [B1 B2].
      destruct (try_site (ttgt t) st nm) as [[ok2 st2] nm2].
      destruct (try_site (ttgt t) st nm') as [[ok2' st2'] nm2'].
      simpl in B1, B2. inversion B1; subst ok2' st2'.
      destruct ok2; [split; [reflexivity | exact B2]|].
      destruct data' as [|d' data'']; [split; [reflexivity | exact H]|].
      apply IH. exact H.
    + simpl. destruct data' as [|d' data'']; [split; [reflexivity | exact H]|].
      apply IH. exact H.
Qed.

Lemma cloop_nmeq : forall f m data skipped st nm nm', nmeq nm nm' ->
  cloop f m data skipped st nm = cloop f m data skipped st nm'.
Proof.
  induction f as [|f IH]; intros m data skipped st nm nm' H; [reflexivity|].
  destruct data as [|d data']; [reflexivity|].
  cbn [cloop].
  pose proof (find_next_nmeq (d :: data') [] st nm nm' H) as [F1 F2].
  destruct (find_next (d :: data') [] st nm) as [[[[sk var] data1] st1] nm1].
  destruct (find_next (d :: data') [] st nm') as [[[[sk' var'] data1'] st1'] nm1'].
  simpl in F1, F2. inversion F1; subst sk' var' data1' st1'.
  destruct var as [v|]; [|reflexivity].
  assert (G : forall v0 : atom,
    (if Nat.eqb (length data1) 0 then LayoutErr 1
     else match dget atom_eqb v0 nm1 with
          | Some (Some id) =>
              r <- cnode (S (length data1)) m v0 id false data1 st1 nm1 ;;
              let '(surp, data2, st2, nm2) := r in
              if Nat.eqb (length data2) (length data1) && surp then
                match data2 with
                | d0 :: data3 => cloop f m (drop_pops data3) (d0 :: skipped ++ sk) st2 nm2
                | [] => Other 3
                end
              else if Nat.leb (length data1) (length data2) then LayoutErr 2
              else cloop f m (drop_pops (data2 ++ rev (skipped ++ sk))) [] st2 nm2
          | _ => Other 2
          end)
    = (if Nat.eqb (length data1) 0 then LayoutErr 1
     else match dget atom_eqb v0 nm1' with
          | Some (Some id) =>
              r <- cnode (S (length data1)) m v0 id false data1 st1 nm1' ;;
              let '(surp, data2, st2, nm2) := r in
              if Nat.eqb (length data2) (length data1) && surp then
                match data2 with
                | d0 :: data3 => cloop f m (drop_pops data3) (d0 :: skipped ++ sk) st2 nm2
                | [] => Other 3
                end
              else if Nat.leb (length data1) (length data2) then LayoutErr 2
              else cloop f m (drop_pops (data2 ++ rev (skipped ++ sk))) [] st2 nm2
          | _ => Other 2
          end)).
  { intros v0. destruct (Nat.eqb (length data1) 0); [reflexivity|].
    rewrite <- (F2 v0). destruct (dget atom_eqb v0 nm1) as [[id|]|]; try reflexivity.
    pose proof (cnode_nmeq (S (length data1)) m v0 id false data1 st1 nm1 nm1' F2) as C.
    destruct C as [[[[s2 d2] st2] nm2] [[[s2' d2'] st2'] nm2'] [C1 C2] | x Hx]; [|reflexivity].
    simpl in C1, C2. inversion C1; subst s2' d2' st2'. cbn [bind].
    destruct (Nat.eqb (length d2) (length data1) && s2).
    - destruct d2 as [|d0 data3]; [reflexivity|]. apply IH. exact C2.
    - destruct (Nat.leb (length data1) (length d2)); [reflexivity|]. apply IH. exact C2. }
  destruct v as [|s|t z]; [reflexivity | apply G | apply G].
Qed.

Lemma configure_order_independent : forall m g top vars vars',
  Permutation vars vars' -> configure_ord m g top vars = configure_ord m g top vars'.
Proof.
  intros m g top vars vars' P. unfold configure_ord.
  destruct (triples g) as [|t0 ts]; [reflexivity|].
  destruct (match top with Some t => Some t | None => graph_top g end) as [tp|]; [|reflexivity].
  rewrite (mem_atom_perm tp vars vars' P).
  destruct (negb (mem atom_eqb tp vars')); [reflexivity|].
  cbv zeta.
  assert (N0 : nmeq (dset atom_eqb tp (Some O) (map (fun v => (v, None)) vars))
                    (dset atom_eqb tp (Some O) (map (fun v => (v, None)) vars'))).
  { apply nm_dset.
    apply (const_map_perm atom_eqb (None : option nat) vars vars' P). }
  match goal with
  | |- bind ?cx _ = bind ?cy _ =>
      assert (C : orel cres_rel cx cy) by (apply cnode_nmeq; exact N0);
      destruct C as [[[[s2 d2] st2] nm2] [[[s2' d2'] st2'] nm2'] [C1 C2] | xo Hx]
  end; [|reflexivity].
  simpl in C1, C2. inversion C1; subst s2' d2' st2'. cbn [bind].
  rewrite (cloop_nmeq _ m (drop_pops d2) [] st2 nm2 nm2' C2). reflexivity.
Qed.

(* specialisation read as: whatever order the hash seed gives to g.variables() *)
Lemma configure_any_enumeration : forall m g top vars,
  Permutation (variables g) vars -> configure_ord m g top vars = configure m g top.
Proof.
  intros m g top vars P. rewrite <- configure_ord_variables.
  symmetry. apply configure_order_independent. exact P.
Qed.

(* ------------------------------------------------------------------ *)
(** * A concrete instance: (a / x :ARG0 (b / y) :ARG1 (c / z :ARG0 b)) *)

Definition ex_a : atom := AStr [97]%N.
Definition ex_b : atom := AStr [98]%N.
Definition ex_c : atom := AStr [99]%N.
Definition ex_ARG0 : str := [58;65;82;71;48]%N.
Definition ex_ARG1 : str := [58;65;82;71;49]%N.
Definition ex_triples : list triple :=
  [ (ex_a, INSTANCE, AStr [120]%N); (ex_a, ex_ARG0, ex_b); (ex_b, INSTANCE, AStr [121]%N);
    (ex_a, ex_ARG1, ex_c); (ex_c, INSTANCE, AStr [122]%N); (ex_c, ex_ARG0, ex_b) ].
Definition ex_graph : graph :=
  mkGraph ex_triples (Some ex_a)
    [ ((ex_a, ex_ARG0, ex_b), [Push ex_b]); ((ex_b, INSTANCE, AStr [121]%N), [Pop]);
      ((ex_a, ex_ARG1, ex_c), [Push ex_c]); ((ex_c, ex_ARG0, ex_b), [Pop]) ]
    [].
Definition ex_tree : tree :=
  mkTree (Node ex_a
            [ (SLASHS, TAtom (AStr [120]%N));
              (ex_ARG0, TNode (Node ex_b [ (SLASHS, TAtom (AStr [121]%N)) ]));
              (ex_ARG1, TNode (Node ex_c [ (SLASHS, TAtom (AStr [122]%N));
                                           (ex_ARG0, TAtom ex_b) ])) ])
         [].
