(** Lemmas for C11 / C12 (graph transformations). *)
From PM Require Import Spec.WfGraph Proofs.Model_lemmas.
From Coq Require Import Lia.

(* ------------------------------------------------------------------ *)
(** * Equalities *)

Lemma atom_eqb_refl : forall a, atom_eqb a a = true.
Proof. destruct a; simpl; auto using str_eqb_refl. Qed.

Lemma atom_eqb_sym : forall a b, atom_eqb a b = atom_eqb b a.
Proof.
  intros a b. destruct a, b; simpl; auto.
  - destruct (str_eqb s s0) eqn:E.
    + apply str_eqb_eq in E. subst. symmetry. apply str_eqb_refl.
    + symmetry. apply str_eqb_neq. intro H. subst. rewrite str_eqb_refl in E. discriminate.
  - destruct (str_eqb txt txt0) eqn:E.
    + apply str_eqb_eq in E. subst. symmetry. apply str_eqb_refl.
    + symmetry. apply str_eqb_neq. intro H. subst. rewrite str_eqb_refl in E. discriminate.
Qed.

Lemma atom_eqb_trans : forall a b c, atom_eqb a b = true -> atom_eqb b c = true -> atom_eqb a c = true.
Proof.
  intros a b c H1 H2. destruct a, b, c; simpl in *; try discriminate; auto.
  - apply str_eqb_eq in H1. apply str_eqb_eq in H2. subst. apply str_eqb_refl.
  - apply str_eqb_eq in H1. apply str_eqb_eq in H2. subst. apply str_eqb_refl.
Qed.

(* rewriting under an atom_eqb-equal argument *)
Lemma atom_eqb_congr_l : forall a b c, atom_eqb a b = true -> atom_eqb a c = atom_eqb b c.
Proof.
  intros a b c H. destruct (atom_eqb b c) eqn:E.
  - eapply atom_eqb_trans; eauto.
  - destruct (atom_eqb a c) eqn:E2; auto.
    rewrite atom_eqb_sym in H. rewrite (atom_eqb_trans _ _ _ H E2) in E. discriminate.
Qed.
Lemma atom_eqb_congr_r : forall a b c, atom_eqb a b = true -> atom_eqb c a = atom_eqb c b.
Proof. intros. rewrite (atom_eqb_sym c a), (atom_eqb_sym c b). apply atom_eqb_congr_l; auto. Qed.

Lemma atom_eqb_astr : forall s b, atom_eqb (AStr s) b = true -> b = AStr s.
Proof. intros s b H. destruct b; simpl in H; try discriminate. apply str_eqb_eq in H. subst. auto. Qed.
Lemma atom_eqb_astr_r : forall s b, atom_eqb b (AStr s) = true -> b = AStr s.
Proof. intros. apply atom_eqb_astr. rewrite atom_eqb_sym. auto. Qed.

Lemma is_astr_iff : forall a, is_astr a = true <-> exists s, a = AStr s.
Proof. destruct a; simpl; split; intro H; try discriminate; eauto; destruct H; discriminate. Qed.

Lemma str_eqb_sym : forall a b, str_eqb a b = str_eqb b a.
Proof.
  intros. destruct (str_eqb a b) eqn:E.
  - apply str_eqb_eq in E. subst. symmetry. apply str_eqb_refl.
  - symmetry. apply str_eqb_neq. intro. subst. rewrite str_eqb_refl in E. discriminate.
Qed.

Lemma triple_eqb_refl : forall t, triple_eqb t t = true.
Proof. intros. unfold triple_eqb. rewrite !atom_eqb_refl, str_eqb_refl. auto. Qed.
Lemma triple_eqb_sym : forall a b, triple_eqb a b = triple_eqb b a.
Proof.
  intros. unfold triple_eqb.
  rewrite (atom_eqb_sym (tsrc a)), (atom_eqb_sym (ttgt a)), (str_eqb_sym (trole a)). auto.
Qed.
Lemma triple_eqb_true : forall a b, triple_eqb a b = true <->
  atom_eqb (tsrc a) (tsrc b) = true /\ trole a = trole b /\ atom_eqb (ttgt a) (ttgt b) = true.
Proof.
  intros. unfold triple_eqb. rewrite !andb_true_iff, str_eqb_eq. tauto.
Qed.
Lemma triple_eqb_trans : forall a b c, triple_eqb a b = true -> triple_eqb b c = true -> triple_eqb a c = true.
Proof.
  intros a b c H1 H2. apply triple_eqb_true in H1. apply triple_eqb_true in H2.
  apply triple_eqb_true. destruct H1 as (A1 & A2 & A3), H2 as (B1 & B2 & B3).
  repeat split; try congruence; eapply atom_eqb_trans; eauto.
Qed.
Lemma triple_eqb_congr_l : forall a b c, triple_eqb a b = true -> triple_eqb a c = triple_eqb b c.
Proof.
  intros a b c H. destruct (triple_eqb b c) eqn:E.
  - eapply triple_eqb_trans; eauto.
  - destruct (triple_eqb a c) eqn:E2; auto.
    rewrite triple_eqb_sym in H. rewrite (triple_eqb_trans _ _ _ H E2) in E. discriminate.
Qed.
Lemma triple_eqb_congr_r : forall a b c, triple_eqb a b = true -> triple_eqb c a = triple_eqb c b.
Proof. intros. rewrite (triple_eqb_sym c a), (triple_eqb_sym c b). apply triple_eqb_congr_l; auto. Qed.

(* membership *)
Lemma mem_app : forall {A} (eqb : A -> A -> bool) x l1 l2,
  mem eqb x (l1 ++ l2) = mem eqb x l1 || mem eqb x l2.
Proof. intros. unfold mem. apply existsb_app. Qed.

Lemma mem_atom_congr : forall a b l, atom_eqb a b = true -> mem atom_eqb a l = mem atom_eqb b l.
Proof.
  intros a b l H. induction l as [|x l IH]; simpl; auto.
  rewrite IH. rewrite (atom_eqb_congr_l a b x H). auto.
Qed.

Lemma mem_atom_true : forall a l, mem atom_eqb a l = true <-> exists b, In b l /\ atom_eqb a b = true.
Proof. intros. unfold mem. apply existsb_exists. Qed.

Lemma mem_atom_in : forall a l, In a l -> mem atom_eqb a l = true.
Proof. intros. apply mem_atom_true. exists a. split; auto. apply atom_eqb_refl. Qed.

(* ------------------------------------------------------------------ *)
(** * [bind] inversion *)

Lemma bind_ok : forall {A B} (x : outcome A) (f : A -> outcome B) b,
  bind x f = Ok b -> exists a, x = Ok a /\ f a = Ok b.
Proof. intros A B x f b H. destruct x; simpl in H; try discriminate. eauto. Qed.

(* ------------------------------------------------------------------ *)
(** * The top is kept (C12, F12) *)

Lemma graph_top_mk : forall ts top ed meta,
  graph_top (mk_graph ts (Some top) ed meta) = Some top.
Proof. reflexivity. Qed.

Lemma graph_top_mk_gen : forall g ts ed meta,
  (triples g = [] -> ts = []) ->
  graph_top (mk_graph ts (graph_top g) ed meta) = graph_top g.
Proof.
  intros g ts ed meta H. destruct (graph_top g) eqn:E; [reflexivity|].
  unfold graph_top in E. destruct (gtop g); [discriminate|].
  destruct (triples g) eqn:T; [|discriminate].
  rewrite H by auto. reflexivity.
Qed.

Lemma reify_edges_top : forall m g g', reify_edges m g = Ok g' -> graph_top g' = graph_top g.
Proof.
  intros m g g' H. unfold reify_edges in H. apply bind_ok in H. destruct H as ([ts ed] & H1 & H2).
  inversion H2; subst. apply graph_top_mk_gen. intro T. rewrite T in H1. simpl in H1. congruence.
Qed.

Lemma dereify_edges_top : forall m g g', dereify_edges m g = Ok g' -> graph_top g' = graph_top g.
Proof.
  intros m g g' H. unfold dereify_edges in H. apply bind_ok in H. destruct H as (ag & H1 & H2).
  destruct (dereify_edges_loop ag (triples g) (epidata g)) as [ts ed] eqn:L.
  inversion H2; subst. apply graph_top_mk_gen. intro T. rewrite T in L. simpl in L. congruence.
Qed.

Lemma reify_attributes_top : forall g g', reify_attributes g = Ok g' -> graph_top g' = graph_top g.
Proof.
  intros g g' H. unfold reify_attributes in H. apply bind_ok in H. destruct H as ([ts ed] & H1 & H2).
  inversion H2; subst. apply graph_top_mk_gen. intro T. rewrite T in H1. simpl in H1. congruence.
Qed.

Lemma indicate_branches_top : forall m g g', indicate_branches m g = Ok g' -> graph_top g' = graph_top g.
Proof.
  intros m g g' H. unfold indicate_branches in H. apply bind_ok in H. destruct H as (ts & H1 & H2).
  inversion H2; subst. apply graph_top_mk_gen. intro T. rewrite T in H1. simpl in H1. congruence.
Qed.
